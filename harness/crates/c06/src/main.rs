//! C06: rejected collaborative-object changes leave no trace in the state.
//!
//! Histories of REAL COB commits mixing valid operations with operations that
//! must be rejected — invalid signature, an action that does not decode, and
//! multi-action operations whose k-th action fails (invalid title, empty or
//! dangling comment, edit/redact/react on a missing comment, redaction of the
//! root comment, unauthorised action) — at every position of random DAGs.
//!
//! Direct oracle (metamorphic, independent of the model): the real
//! `cob::get` on the full history and the real `cob::get` on the history the
//! first evaluation kept (refs moved to the tips of the kept history, so the
//! rejected operations and their dependents are not reachable: "never
//! written") must give the same object JSON and the same history; entries the
//! generator knows to be invalid (bad signature) must not be in the history.
//!
//! Streams
//!   0: `Issue` — oracle + exact correspondence with coq/model/CobOps.v
//!      (issue projection: assignees, title, state, labels, timeline, comments
//!      with author/reply/body/#edits/reactions; history graph and tips).
//!   1: `Patch` — oracle only.
//!   2: `Identity` — the concurrent-sibling dependence of `Identity::op`
//!      (class `identity-op-outcome-depends-on-rejected-sibling`).
//!   3: `Thread` (stand-alone) — oracle only.
#[path = "../../c05/src/cobdag.rs"]
mod cobdag;
use cobdag::*;
use hw_common::*;
use radicle::cob::{self, Entry, ObjectId, TypeName};
use radicle::git::Oid;
use radicle_cob::change::Storage as _;
use std::collections::{BTreeMap, BTreeSet};
use std::str::FromStr;

const EMOJI: [&str; 3] = ["👍", "🎉", "🚀"];

#[derive(Clone, Debug)]
enum Target {
    Node(usize),  // the op written as DAG node i
    Missing(u64), // an id that is no comment
}

#[derive(Clone, Debug)]
enum Act {
    Assign(Vec<usize>),
    Edit { title: u64, valid: bool },
    Lifecycle(u64),
    Label(Vec<u64>),
    Comment { ok: bool, body: u64, reply: Option<Target> },
    CommentEdit { target: Target, ok: bool, body: u64 },
    Redact { target: Target },
    React { target: Target, reaction: u64, active: bool },
    Garbage,
}

#[derive(Clone, Debug)]
struct OpSpec {
    parents: Vec<usize>,
    ts: u64,
    actor: usize,
    bad_sig: bool,
    /// the generator put an action into this op that every correct implementation rejects
    must_fail: bool,
    /// position of the deliberately failing action, if any
    fail_at: Option<usize>,
    acts: Vec<Act>,
}

fn missing_oid(n: u64) -> Oid {
    Oid::from_str(&format!("{:040x}", 0xdead_0000u64 + n)).unwrap()
}
fn target_oid(t: &Target, oids: &[Oid]) -> Oid {
    match t {
        Target::Node(i) => oids[*i],
        Target::Missing(n) => missing_oid(*n),
    }
}

impl Act {
    fn json(&self, w: &World, oids: &[Oid]) -> Value {
        match self {
            Act::Assign(l) => json!({"type": "assign", "assignees": l.iter().map(|a| radicle::prelude::Did::from(w.actor_key(*a)).to_string()).collect::<Vec<_>>()}),
            Act::Edit { title, valid } => json!({"type": "edit", "title": if *valid { format!("t{title}") } else { format!("t{title}\nx") }}),
            Act::Lifecycle(s) => json!({"type": "lifecycle", "state": match s { 0 => json!({"status": "open"}), 1 => json!({"status": "closed", "reason": "other"}), _ => json!({"status": "closed", "reason": "solved"}) }}),
            Act::Label(l) => json!({"type": "label", "labels": l.iter().map(|x| format!("l{x}")).collect::<Vec<_>>()}),
            Act::Comment { ok, body, reply } => {
                let mut v = json!({"type": "comment", "body": if *ok { format!("b{body}") } else { String::new() }});
                if let Some(r) = reply {
                    v["replyTo"] = json!(target_oid(r, oids).to_string());
                }
                v
            }
            Act::CommentEdit { target, ok, body } => json!({"type": "comment.edit", "id": target_oid(target, oids).to_string(), "body": if *ok { format!("b{body}") } else { String::new() }, "embeds": []}),
            Act::Redact { target } => json!({"type": "comment.redact", "id": target_oid(target, oids).to_string()}),
            Act::React { target, reaction, active } => json!({"type": "comment.react", "id": target_oid(target, oids).to_string(), "reaction": EMOJI[*reaction as usize], "active": active}),
            Act::Garbage => json!({"type": "no-such-action", "x": 1}),
        }
    }
    fn coq(&self, ranks: &Ranks, oids: &[Oid]) -> String {
        let t = |t: &Target| ranks.of(&target_oid(t, oids));
        match self {
            Act::Assign(l) => format!("(AAssign {})", canon(l.iter().map(|x| *x as u64)).coq()),
            Act::Edit { title, valid } => format!("(AEdit {} {})", title, valid.coq()),
            Act::Lifecycle(s) => format!("(ALifecycle {})", s),
            Act::Label(l) => format!("(ALabel {})", canon(l.iter().cloned()).coq()),
            Act::Comment { ok, body, reply } => format!("(AComment {} {} {})", ok.coq(), body, reply.as_ref().map(t).coq()),
            Act::CommentEdit { target, ok, body } => format!("(ACommentEdit {} {} {})", t(target), ok.coq(), body),
            Act::Redact { target } => format!("(ACommentRedact {})", t(target)),
            Act::React { target, reaction, active } => format!("(ACommentReact {} {} {})", t(target), reaction, active.coq()),
            Act::Garbage => unreachable!(),
        }
    }
    fn pushes_timeline(&self) -> bool {
        matches!(self, Act::Comment { .. } | Act::CommentEdit { .. } | Act::Redact { .. } | Act::React { .. })
    }
}

fn canon(it: impl Iterator<Item = u64>) -> Vec<u64> {
    it.collect::<BTreeSet<_>>().into_iter().collect()
}

fn ancestors(ops: &[OpSpec], parents: &[usize]) -> BTreeSet<usize> {
    let mut seen = BTreeSet::new();
    let mut stack = parents.to_vec();
    while let Some(x) = stack.pop() {
        if seen.insert(x) {
            stack.extend(ops[x].parents.iter().cloned());
        }
    }
    seen
}

/// One action; `fail` asks for an action that the implementation must reject.
fn gen_act(rng: &mut Rng, ops: &[OpSpec], parents: &[usize], actor: usize, fail: bool, allow_thread: bool) -> Act {
    let anc: Vec<usize> = ancestors(ops, parents).into_iter().collect();
    // ancestors that (try to) create a comment; node 0 is the root comment
    let commenters: Vec<usize> = anc.iter().cloned().filter(|i| *i == 0 || ops[*i].acts.iter().any(|a| matches!(a, Act::Comment { .. }))).collect();
    let some_comment = |rng: &mut Rng| Target::Node(*rng.pick(&commenters));
    if fail {
        loop {
            match rng.below(9) {
                0 => return Act::Edit { title: rng.below(50), valid: false },
                1 if allow_thread => return Act::Comment { ok: false, body: 0, reply: Some(some_comment(rng)) },
                2 if allow_thread => return Act::Comment { ok: true, body: rng.below(50), reply: Some(Target::Missing(rng.below(4))) },
                3 if allow_thread => return Act::CommentEdit { target: Target::Missing(rng.below(4)), ok: true, body: rng.below(50) },
                4 if allow_thread => return Act::Redact { target: Target::Node(0) },
                5 if allow_thread => return Act::Redact { target: Target::Missing(rng.below(4)) },
                6 if allow_thread => return Act::React { target: Target::Missing(rng.below(4)), reaction: rng.below(3), active: true },
                7 if actor != 0 => return Act::Label(vec![40 + rng.below(5)]), // strangers may not label
                // never a no-op: ordinary assignments have at most two assignees
                8 if actor != 0 => return Act::Assign((0..N_ACTORS).collect()),
                _ => continue,
            }
        }
    }
    loop {
        match rng.below(10) {
            0 | 1 if allow_thread => return Act::Comment { ok: true, body: rng.below(50), reply: Some(some_comment(rng)) },
            2 => return Act::Edit { title: rng.below(50), valid: true },
            3 => return Act::Lifecycle(rng.below(3)),
            4 => return Act::Label((0..rng.below(3)).map(|_| rng.below(4)).collect()),
            5 => return Act::Assign((0..rng.below(3)).map(|_| rng.below(N_ACTORS as u64) as usize).collect()),
            6 if allow_thread => return Act::React { target: some_comment(rng), reaction: rng.below(3), active: rng.chance(3, 4) },
            7 if allow_thread => return Act::CommentEdit { target: some_comment(rng), ok: true, body: rng.below(50) },
            8 if allow_thread && rng.chance(1, 2) => return Act::Redact { target: some_comment(rng) },
            _ => continue,
        }
    }
}

fn gen_issue_history(rng: &mut Rng, n: usize) -> Vec<OpSpec> {
    let mut ops: Vec<OpSpec> = vec![];
    let ts_span = rng.range(1, 4);
    for i in 0..n {
        if i == 0 {
            let mut acts = vec![Act::Comment { ok: true, body: 0, reply: None }, Act::Edit { title: 0, valid: true }];
            if rng.chance(1, 4) {
                acts.push(Act::Label(vec![rng.below(4)]));
            }
            ops.push(OpSpec { parents: vec![], ts: 1000, actor: if rng.chance(2, 3) { 0 } else { rng.below(N_ACTORS as u64) as usize }, bad_sig: false, must_fail: false, fail_at: None, acts });
            if ops[0].actor != 0 {
                ops[0].acts.truncate(2); // a stranger's root may not label
            }
            continue;
        }
        let mut parents = vec![];
        let k = if rng.chance(1, 3) { rng.range(2, 3) } else { 1 } as usize;
        for _ in 0..k {
            let p = if rng.bool() { i - 1 - rng.below(i.min(3) as u64) as usize } else { rng.below(i as u64) as usize };
            if !parents.contains(&p) {
                parents.push(p);
            }
        }
        // delegate-only actions succeed for actor 0 only: let it write more than its share
        let actor = if rng.chance(1, 2) { 0 } else { rng.below(N_ACTORS as u64) as usize };
        let n_act = match rng.below(6) {
            0 | 1 | 2 => 1,
            3 | 4 => 2,
            _ => 3,
        };
        // a rejected op in roughly one of three ops; the failing action at a random position
        let fail_at = if rng.chance(1, 3) { Some(rng.below(n_act) as usize) } else { None };
        let deliberate_double_push = rng.chance(1, 40);
        let mut acts = vec![];
        let mut pushed = false;
        for a in 0..n_act as usize {
            let act = if fail_at == Some(a) && rng.chance(1, 8) {
                Act::Garbage
            } else {
                gen_act(rng, &ops, &parents, actor, fail_at == Some(a), !pushed || deliberate_double_push)
            };
            pushed |= act.pushes_timeline();
            acts.push(act);
        }
        // strangers: their harmless-looking actions may be denied as well (edit title of someone else's issue);
        // that is fine, it is one more way to be rejected
        ops.push(OpSpec { parents, ts: 1000 + rng.below(ts_span), actor, bad_sig: rng.chance(1, 12), must_fail: fail_at.is_some(), fail_at, acts });
    }
    ops
}

struct Written {
    oids: Vec<Oid>,
    entries: BTreeMap<Oid, Entry>,
}

fn write_issue_history(w: &World, ty: &TypeName, ops: &[OpSpec], tag: &str) -> Written {
    let mut oids = vec![];
    let mut entries = BTreeMap::new();
    for (k, op) in ops.iter().enumerate() {
        let tips: Vec<Oid> = op.parents.iter().map(|p| oids[*p]).collect();
        let contents: Vec<Vec<u8>> = op.acts.iter().map(|a| serde_json::to_vec(&a.json(w, &oids)).unwrap()).collect();
        let e = w.store_change(ty, &tips, op.actor, op.ts, contents, op.bad_sig, Some(w.resource), &format!("{tag}:{k}"));
        oids.push(e.id);
        entries.insert(e.id, w.repo().load(e.id).unwrap());
    }
    Written { oids, entries }
}

fn dag_tips(ops: &[OpSpec]) -> Vec<usize> {
    let mut has_child = vec![false; ops.len()];
    for op in ops {
        for p in &op.parents {
            has_child[*p] = true;
        }
    }
    (0..ops.len()).filter(|i| !has_child[*i]).collect()
}

/// Refs for a set of tips (at most N_NAMESPACES; chains of extra tips are not needed: histories have <= 12 ops).
fn layout(tips: &[Oid]) -> Vec<(usize, Oid)> {
    tips.iter().enumerate().map(|(i, t)| (i % N_NAMESPACES, *t)).collect()
}

// ---------------------------------------------------------------- issue observation

struct IssueView {
    json: String,
    term: String, // Coq issue_dump
    nodes: BTreeMap<Oid, (Vec<Oid>, Vec<Oid>)>,
    tips: BTreeSet<Oid>,
}

fn actor_index(w: &World, s: &str) -> u64 {
    for i in 0..N_ACTORS {
        let k = w.actor_key(i);
        if s == k.to_string() || s == radicle::prelude::Did::from(k).to_string() || s == k.to_human() {
            return i as u64;
        }
    }
    panic!("unknown actor {s}")
}

fn num(s: &str) -> u64 {
    // "t12" / "b7" / "l3" -> the number; invalid titles never reach the state
    s[1..].parse().unwrap_or_else(|_| panic!("unexpected text {s:?}"))
}

fn issue_term(w: &World, v: &Value, ranks: &Ranks) -> String {
    let assignees = canon(v["assignees"].as_array().unwrap().iter().map(|a| actor_index(w, a.as_str().unwrap())));
    let title = v["title"].as_str().unwrap();
    let title = if title.is_empty() { 0 } else { num(title) };
    let state = match (v["state"]["status"].as_str().unwrap(), v["state"]["reason"].as_str()) {
        ("open", _) => 0,
        ("closed", Some("other")) => 1,
        _ => 2,
    };
    let labels = canon(v["labels"].as_array().unwrap().iter().map(|l| num(l.as_str().unwrap())));
    let oid = |s: &str| ranks.of(&Oid::from_str(s).unwrap());
    let timeline: Vec<u64> = v["thread"]["timeline"].as_array().unwrap().iter().map(|t| oid(t.as_str().unwrap())).collect();
    let mut comments: Vec<(u64, String)> = vec![];
    for (k, c) in v["thread"]["comments"].as_object().unwrap() {
        let term = if c.is_null() {
            "None".to_string()
        } else {
            let author = actor_index(w, c["author"].as_str().unwrap());
            let reply = c.get("replyTo").and_then(|r| r.as_str()).map(oid);
            let body = c["body"].as_str().unwrap();
            let body = if body.is_empty() { 0 } else { num(body) };
            let edits = c["edits"].as_array().unwrap().len() as u64;
            let mut reacts: Vec<(u64, u64)> = c["reactions"]
                .as_array()
                .unwrap()
                .iter()
                .map(|r| {
                    let a = actor_index(w, r[0].as_str().unwrap());
                    let e = EMOJI.iter().position(|e| Some(*e) == r[1].as_str()).unwrap() as u64;
                    (a, e)
                })
                .collect();
            reacts.sort();
            format!("(Some ({}, {}, {}, {}, {}))", author, reply.coq(), body, edits, reacts.coq())
        };
        comments.push((oid(k), term));
    }
    comments.sort();
    let comments = format!("[{}]", comments.iter().map(|(k, t)| format!("({}, {})", k, t)).collect::<Vec<_>>().join("; "));
    format!("({}, {}, {}, {}, {}, {})", assignees.coq(), title, state, labels.coq(), timeline.coq(), comments)
}

enum IObs {
    None,
    Err(String),
    Panic(String),
    Ok(IssueView),
}

fn get_issue(w: &World, object: &ObjectId, ranks: &Ranks) -> IObs {
    use radicle::cob::issue::{Issue, TYPENAME};
    let repo = w.repo();
    match catch(std::panic::AssertUnwindSafe(|| cob::get::<Issue, _>(repo, &TYPENAME, object))) {
        Err(p) => IObs::Panic(p),
        Ok(Ok(None)) => IObs::None,
        Ok(Err(e)) => IObs::Err(e.to_string()),
        Ok(Ok(Some(co))) => {
            let v = serde_json::to_value(&co.object).unwrap();
            let (nodes, tips) = history_dump(&co.history);
            IObs::Ok(IssueView { json: v.to_string(), term: issue_term(w, &v, ranks), nodes, tips })
        }
    }
}

fn iobs_term(o: &IObs, ranks: &Ranks) -> String {
    match o {
        IObs::None => "INone".into(),
        IObs::Panic(_) => "IPanic".into(),
        IObs::Err(s) if s.contains("missing from graph") => "IMissingRoot".into(),
        IObs::Err(s) if s.contains("invalid signature for entry") => "ISignature".into(),
        IObs::Err(s) if s.contains("unable to initialize object") => "IInit".into(),
        IObs::Err(_) => "IFuel".into(),
        IObs::Ok(v) => {
            let hist: Vec<(u64, (Vec<u64>, Vec<u64>))> = v.nodes.iter().map(|(k, (d, p))| (ranks.of(k), (ranks.list(d), ranks.list(p)))).collect();
            format!("(IOk {} ({}, {}))", v.term, hist.coq(), ranks.list(&v.tips).coq())
        }
    }
}

fn istore_term(wr: &Written, w: &World, ops: &[OpSpec], ranks: &Ranks) -> String {
    let mut rows = vec![];
    for (i, oid) in wr.oids.iter().enumerate() {
        let e = &wr.entries[oid];
        let author = (0..N_ACTORS).position(|a| w.actor_key(a) == *e.author()).unwrap() as u64;
        let payload = if ops[i].acts.iter().any(|a| matches!(a, Act::Garbage)) {
            "None".to_string()
        } else {
            format!("(Some [{}])", ops[i].acts.iter().map(|a| a.coq(ranks, &wr.oids)).collect::<Vec<_>>().join("; "))
        };
        rows.push((ranks.of(oid), format!("({}, ({}, {}, {}, {}, 0, {}))", ranks.of(oid), ranks.list(&e.parents).coq(), e.timestamp, author, e.valid_signatures().coq(), payload)));
    }
    rows.sort();
    format!("[{}]", rows.into_iter().map(|r| r.1).collect::<Vec<_>>().join("; "))
}

// ---------------------------------------------------------------- stream 0

fn stream_issue(run: &mut Run, w: &World) {
    use radicle::cob::issue::TYPENAME;
    let count = run.args.count(220, 1500);
    for i in 0..count {
        let id = format!("0:{i}");
        if !run.args.wants(&id) {
            continue;
        }
        let mut rng = Rng::for_case(run.args.seed, 0, i);
        let n = rng.range(3, 12) as usize;
        let ops = gen_issue_history(&mut rng, n);
        let wr = write_issue_history(w, &TYPENAME, &ops, &format!("{}:0:{i}", run.args.seed));
        let ranks = Ranks::new(wr.oids.iter().cloned().chain((0..4).map(missing_oid)));
        let object = ObjectId::from(wr.oids[0]);
        let input = json!({"ops": format!("{:?}", ops)});
        // ---- evaluation of the full history
        let tips: Vec<Oid> = dag_tips(&ops).into_iter().map(|t| wr.oids[t]).collect();
        w.set_refs(&TYPENAME, &object, &layout(&tips));
        let targets = w.ref_targets(&TYPENAME, &object);
        let full = get_issue(w, &object, &ranks);
        run.eval();
        let store = istore_term(&wr, w, &ops, &ranks);
        run.case(&format!("{id}"), format!("(CIssue {} {} {})", store, ranks.list(&targets).coq(), ranks.of(&wr.oids[0])), iobs_term(&full, &ranks));
        match &full {
            IObs::Panic(p) if p.contains("timeline.contains") => {
                // debug-only assertion of the thread functions (an operation pushing its id twice)
                run.tally("issue:debug-assert-panic");
            }
            IObs::Panic(p) => run.fail(&id, "cob-get-panic", format!("get::<Issue> panicked: {p}"), input.clone()),
            IObs::Err(e) => run.fail(&id, "cob-get-unexpected-error", e.clone(), input.clone()),
            IObs::None => run.fail(&id, "cob-get-unexpected-error", "object not found".into(), input.clone()),
            IObs::Ok(v) => {
                run.tally("issue:evaluated");
                let kept: BTreeSet<Oid> = v.nodes.keys().cloned().collect();
                let rejected = wr.oids.len() - kept.len();
                if rejected > 0 {
                    run.tally("issue:with-rejected-ops");
                }
                // which ops were directly rejected (not merely dependents of a rejected op)?
                for (k, op) in ops.iter().enumerate() {
                    let direct = !kept.contains(&wr.oids[k]) && op.parents.iter().all(|p| kept.contains(&wr.oids[*p]));
                    if direct {
                        if let Some(a) = op.fail_at {
                            run.tally(&format!("rejected:action-{}-of-{}-fails", a + 1, op.acts.len()));
                        }
                        if k > 0 && dag_tips(&ops).contains(&k) {
                            run.tally("rejected:at-a-tip");
                        } else {
                            run.tally("rejected:interior-with-dependents");
                        }
                        run.tally(if op.bad_sig {
                            "rejected:bad-signature"
                        } else if op.acts.iter().any(|a| matches!(a, Act::Garbage)) {
                            "rejected:undecodable"
                        } else if op.acts.len() > 1 {
                            "rejected:multi-action-op"
                        } else {
                            "rejected:single-action-op"
                        });
                    }
                    if op.must_fail && kept.contains(&wr.oids[k]) {
                        run.fail(&id, "cob-failing-op-accepted", format!("op {k} contains an action that must be rejected (invalid title, empty/dangling comment, missing target, root redaction, unauthorised or undecodable action) but is part of the evaluated history"), input.clone());
                    }
                    if op.bad_sig && kept.contains(&wr.oids[k]) {
                        run.fail(&id, "cob-invalid-signature-accepted", format!("op {k} has an invalid signature but is part of the evaluated history"), input.clone());
                    }
                }
                // dependents of rejected ops must be gone, the history must be parent-closed
                for (k, op) in ops.iter().enumerate() {
                    if kept.contains(&wr.oids[k]) && op.parents.iter().any(|p| !kept.contains(&wr.oids[*p])) {
                        run.fail(&id, "cob-dependent-of-rejected-kept", format!("op {k} is in the history but one of its parents was rejected"), input.clone());
                    }
                }
                // ---- metamorphic: the kept history alone
                let sub_tips: Vec<Oid> = v.tips.iter().cloned().collect();
                w.set_refs(&TYPENAME, &object, &layout(&sub_tips));
                let sub_targets = w.ref_targets(&TYPENAME, &object);
                let sub = get_issue(w, &object, &ranks);
                run.eval();
                run.case(&format!("{id}"), format!("(CIssue {} {} {})", store, ranks.list(&sub_targets).coq(), ranks.of(&wr.oids[0])), iobs_term(&sub, &ranks));
                match &sub {
                    IObs::Ok(s) => {
                        if s.json != v.json || s.nodes != v.nodes || s.tips != v.tips {
                            run.fail(
                                &id,
                                "cob-rejected-change-left-trace",
                                format!("evaluating the history with the rejected operations differs from evaluating the history without them:\n with:    {} hist={:?}\n without: {} hist={:?}", v.json, ranks.list(v.nodes.keys()), s.json, ranks.list(s.nodes.keys())),
                                input.clone(),
                            );
                        }
                    }
                    _ => run.fail(&id, "cob-rejected-change-left-trace", "the kept history does not evaluate".into(), input.clone()),
                }
                run.nontrivial(format!("{}|{:?}", v.json, v.nodes.keys()));
                if i < 3 {
                    run.sample(json!({"ops": format!("{:?}", ops), "kept": ranks.list(v.nodes.keys()), "issue": v.json}));
                }
            }
        }
        w.set_refs(&TYPENAME, &object, &[]);
    }
}

// ---------------------------------------------------------------- stream 1: patches

fn stream_patch(run: &mut Run, w: &World) {
    use radicle::cob::patch::{Patch, TYPENAME};
    let count = run.args.count(60, 600);
    for i in 0..count {
        let id = format!("1:{i}");
        if !run.args.wants(&id) {
            continue;
        }
        let mut rng = Rng::for_case(run.args.seed, 1, i);
        let n = rng.range(3, 10) as usize;
        let base = w.resource; // any existing commit will do as base/head of the revision
        let mut oids: Vec<Oid> = vec![];
        let mut specs: Vec<(Vec<usize>, bool, Vec<Value>)> = vec![];
        for k in 0..n {
            let parents: Vec<usize> = if k == 0 { vec![] } else { vec![if rng.bool() { k - 1 } else { rng.below(k as u64) as usize }] };
            let actor = if rng.chance(1, 2) { 0 } else { rng.below(N_ACTORS as u64) as usize };
            let mut acts: Vec<Value> = vec![];
            if k == 0 {
                acts.push(json!({"type": "revision", "description": "d", "base": base.to_string(), "oid": base.to_string()}));
                acts.push(json!({"type": "edit", "title": "p0", "target": "delegates"}));
            } else {
                let n_act = rng.range(1, 3);
                let fail_at = if rng.chance(1, 3) { Some(rng.below(n_act)) } else { None };
                let mut commented = false;
                for a in 0..n_act {
                    let rev = oids[0].to_string();
                    let v = if fail_at == Some(a) {
                        match rng.below(4) {
                            0 if !commented => {
                                commented = true;
                                json!({"type": "revision.comment", "revision": rev, "body": ""})
                            }
                            1 => json!({"type": "revision.edit", "revision": missing_oid(1).to_string(), "description": "x", "embeds": []}),
                            2 => json!({"type": "no-such-action"}),
                            _ => json!({"type": "merge", "revision": rev, "commit": missing_oid(2).to_string()}),
                        }
                    } else {
                        match rng.below(4) {
                            0 => json!({"type": "edit", "title": format!("p{k}.{a}"), "target": "delegates"}),
                            1 => json!({"type": "label", "labels": [format!("l{}", rng.below(3))]}),
                            2 if !commented => {
                                commented = true;
                                json!({"type": "revision.comment", "revision": rev, "body": format!("c{k}")})
                            }
                            _ => json!({"type": "lifecycle", "state": {"status": if rng.bool() { "draft" } else { "open" }}}),
                        }
                    };
                    acts.push(v);
                }
            }
            let tips: Vec<Oid> = parents.iter().map(|p| oids[*p]).collect();
            let bad = k > 0 && rng.chance(1, 12);
            let e = w.store_change(&TYPENAME, &tips, if k == 0 { 0 } else { actor }, 1000 + k as u64, acts.iter().map(|a| serde_json::to_vec(a).unwrap()).collect(), bad, Some(w.resource), &format!("{}:1:{i}:{k}", run.args.seed));
            oids.push(e.id);
            specs.push((parents, bad, acts));
        }
        let input = json!({"ops": specs.iter().map(|(p, b, a)| json!({"parents": p, "bad_sig": b, "actions": a})).collect::<Vec<_>>()});
        let object = ObjectId::from(oids[0]);
        let mut has_child = vec![false; n];
        for (p, _, _) in &specs {
            for x in p {
                has_child[*x] = true;
            }
        }
        let tips: Vec<Oid> = (0..n).filter(|k| !has_child[*k]).map(|k| oids[k]).collect();
        let repo = w.repo();
        let mut eval = |tips: &[Oid]| {
            w.set_refs(&TYPENAME, &object, &layout(tips));
            catch(std::panic::AssertUnwindSafe(|| cob::get::<Patch, _>(repo, &TYPENAME, &object)))
        };
        run.eval();
        match eval(&tips) {
            Err(p) => run.fail(&id, "cob-get-panic", format!("get::<Patch> panicked: {p}"), input.clone()),
            Ok(Ok(Some(full))) => {
                let (nodes, htips) = history_dump(&full.history);
                let fjson = serde_json::to_string(&full.object).unwrap();
                if nodes.len() < n {
                    run.tally("patch:with-rejected-ops");
                }
                run.tally("patch:evaluated");
                for (k, (_, bad, _)) in specs.iter().enumerate() {
                    if *bad && nodes.contains_key(&oids[k]) {
                        run.fail(&id, "cob-invalid-signature-accepted", format!("patch op {k} has an invalid signature but is part of the history"), input.clone());
                    }
                }
                let sub_tips: Vec<Oid> = htips.iter().cloned().collect();
                run.eval();
                match eval(&sub_tips) {
                    Ok(Ok(Some(sub))) => {
                        let (snodes, stips) = history_dump(&sub.history);
                        let sjson = serde_json::to_string(&sub.object).unwrap();
                        if sjson != fjson || snodes != nodes || stips != htips {
                            run.fail(&id, "cob-rejected-change-left-trace", format!("patch: evaluating with the rejected operations differs from evaluating without them:\n with:    {fjson}\n without: {sjson}"), input.clone());
                        }
                        run.nontrivial(fjson);
                    }
                    _ => run.fail(&id, "cob-rejected-change-left-trace", "patch: the kept history does not evaluate".into(), input.clone()),
                }
            }
            Ok(other) => run.fail(&id, "cob-get-unexpected-error", format!("patch: {:?}", other.map(|o| o.is_some()).map_err(|e| e.to_string())), input.clone()),
        }
        w.set_refs(&TYPENAME, &object, &[]);
    }
}


// ---------------------------------------------------------------- stream 3: threads

/// The stand-alone `Thread` type: every successful action pushes the op id on
/// the timeline, so (debug assertion) an op holds at most one action that
/// succeeds; the rejected ops are [valid action; failing action].
fn stream_thread(run: &mut Run, w: &World) {
    use radicle::cob::thread::{Thread, TYPENAME};
    let count = run.args.count(40, 300);
    for i in 0..count {
        let id = format!("3:{i}");
        if !run.args.wants(&id) {
            continue;
        }
        let mut rng = Rng::for_case(run.args.seed, 3, i);
        let n = rng.range(3, 9) as usize;
        let mut oids: Vec<Oid> = vec![];
        let mut specs: Vec<(Vec<usize>, bool, bool, Vec<Value>)> = vec![];
        for k in 0..n {
            let parents: Vec<usize> = if k == 0 { vec![] } else { vec![if rng.bool() { k - 1 } else { rng.below(k as u64) as usize }] };
            let mut acts: Vec<Value> = vec![];
            let mut must_fail = false;
            if k == 0 {
                acts.push(json!({"type": "comment", "body": "root"}));
            } else {
                let root = oids[0].to_string();
                acts.push(match rng.below(3) {
                    0 => json!({"type": "comment", "body": format!("c{k}"), "replyTo": root}),
                    1 => json!({"type": "react", "to": root, "reaction": EMOJI[rng.below(3) as usize], "active": true}),
                    _ => json!({"type": "edit", "id": root, "body": format!("e{k}")}),
                });
                if rng.chance(1, 2) {
                    must_fail = true;
                    // fails before it touches the timeline
                    acts.push(match rng.below(4) {
                        0 => json!({"type": "comment", "body": "", "replyTo": root}),
                        1 => json!({"type": "comment", "body": "x", "replyTo": missing_oid(1).to_string()}),
                        2 => json!({"type": "redact", "id": missing_oid(2).to_string()}),
                        _ => json!({"type": "react", "to": missing_oid(3).to_string(), "reaction": EMOJI[0], "active": true}),
                    });
                }
            }
            let tips: Vec<Oid> = parents.iter().map(|p| oids[*p]).collect();
            let bad = k > 0 && rng.chance(1, 12);
            let e = w.store_change(&TYPENAME, &tips, rng.below(N_ACTORS as u64) as usize, 1000 + k as u64, acts.iter().map(|a| serde_json::to_vec(a).unwrap()).collect(), bad, Some(w.resource), &format!("{}:3:{i}:{k}", run.args.seed));
            oids.push(e.id);
            specs.push((parents, bad, must_fail, acts));
        }
        let input = json!({"ops": specs.iter().map(|(p, b, m, a)| json!({"parents": p, "bad_sig": b, "must_fail": m, "actions": a})).collect::<Vec<_>>()});
        let object = ObjectId::from(oids[0]);
        let mut has_child = vec![false; n];
        for (p, _, _, _) in &specs {
            for x in p {
                has_child[*x] = true;
            }
        }
        let tips: Vec<Oid> = (0..n).filter(|k| !has_child[*k]).map(|k| oids[k]).collect();
        let repo = w.repo();
        let eval = |tips: &[Oid]| {
            w.set_refs(&TYPENAME, &object, &layout(tips));
            catch(std::panic::AssertUnwindSafe(|| cob::get::<Thread, _>(repo, &TYPENAME, &object)))
        };
        run.eval();
        match eval(&tips) {
            Err(p) => run.fail(&id, "cob-get-panic", format!("get::<Thread> panicked: {p}"), input.clone()),
            Ok(Ok(Some(full))) => {
                let (nodes, htips) = history_dump(&full.history);
                let fjson = serde_json::to_string(&full.object).unwrap();
                run.tally("thread:evaluated");
                if nodes.len() < n {
                    run.tally("thread:with-rejected-ops");
                }
                for (k, (_, bad, must_fail, _)) in specs.iter().enumerate() {
                    if *bad && nodes.contains_key(&oids[k]) {
                        run.fail(&id, "cob-invalid-signature-accepted", format!("thread op {k} has an invalid signature but is part of the history"), input.clone());
                    }
                    if *must_fail && nodes.contains_key(&oids[k]) {
                        run.fail(&id, "cob-failing-op-accepted", format!("thread op {k} contains an action that must be rejected but is part of the history"), input.clone());
                    }
                }
                let sub_tips: Vec<Oid> = htips.iter().cloned().collect();
                run.eval();
                match eval(&sub_tips) {
                    Ok(Ok(Some(sub))) => {
                        let (snodes, stips) = history_dump(&sub.history);
                        let sjson = serde_json::to_string(&sub.object).unwrap();
                        if sjson != fjson || snodes != nodes || stips != htips {
                            run.fail(&id, "cob-rejected-change-left-trace", format!("thread: evaluating with the rejected operations differs from evaluating without them:\n with:    {fjson}\n without: {sjson}"), input.clone());
                        }
                    }
                    _ => run.fail(&id, "cob-rejected-change-left-trace", "thread: the kept history does not evaluate".into(), input.clone()),
                }
            }
            Ok(other) => run.fail(&id, "cob-get-unexpected-error", format!("thread: {:?}", other.map(|o| o.is_some()).map_err(|e| e.to_string())), input.clone()),
        }
        w.set_refs(&TYPENAME, &object, &[]);
    }
}

// ---------------------------------------------------------------- stream 2: identity siblings

/// `Identity::op` ignores an `UnexpectedState` error when the operation has
/// concurrent siblings and treats it as fatal when it has none.  A sibling that
/// is itself rejected (here: invalid signature) therefore decides whether
/// another operation is accepted.
fn stream_identity(run: &mut Run, w: &World) {
    use radicle::cob::identity::{Identity, TYPENAME};
    use radicle::storage::ReadRepository;
    let count = run.args.count(6, 30);
    let root = w.repo().identity_root().unwrap();
    let object = ObjectId::from(root);
    let original = w.ref_targets(&TYPENAME, &object);
    for i in 0..count {
        let id = format!("2:{i}");
        if !run.args.wants(&id) {
            continue;
        }
        let mut rng = Rng::for_case(run.args.seed, 2, i);
        // A: a decodable operation by a non-delegate: `action` answers UnexpectedState
        let stranger = 1 + rng.below(N_ACTORS as u64 - 1) as usize;
        let act = json!({"type": "revision.redact", "revision": root.to_string()});
        let a = w.store_change(&TYPENAME, &[root], stranger, 2000 + i, vec![serde_json::to_vec(&act).unwrap()], false, None, &format!("{}:2:{i}:a", run.args.seed));
        // B: a concurrent operation with an invalid signature
        let b = w.store_change(&TYPENAME, &[root], stranger, 2000 + i, vec![serde_json::to_vec(&act).unwrap()], true, None, &format!("{}:2:{i}:b", run.args.seed));
        let repo = w.repo();
        let eval = |extra: &[Oid]| {
            let mut l: Vec<(usize, Oid)> = vec![];
            for (k, o) in extra.iter().enumerate() {
                l.push((k, *o));
            }
            // keep the repository's own ref: only our namespaces are rewritten
            for ns in 0..N_NAMESPACES {
                let name = format!("refs/namespaces/{}/refs/cobs/{}/{}", w.namespaces[ns], &*TYPENAME, object);
                if let Ok(mut r) = repo.backend.find_reference(&name) {
                    r.delete().unwrap();
                }
            }
            for (ns, o) in &l {
                use radicle::cob::object::Storage as _;
                repo.update(&w.namespaces[*ns], &TYPENAME, &object, o).unwrap();
            }
            catch(std::panic::AssertUnwindSafe(|| cob::get::<Identity, _>(repo, &TYPENAME, &object)))
        };
        run.eval();
        let with_b = eval(&[a.id, b.id]);
        run.eval();
        let without_b = eval(&[a.id]);
        let _ = eval(&[]);
        let view = |r: Result<Result<Option<cob::CollaborativeObject<Identity>>, cob::object::collaboration::error::Retrieve>, String>| match r {
            Ok(Ok(Some(co))) => {
                let (nodes, _) = history_dump(&co.history);
                Ok((serde_json::to_string(&co.object).unwrap(), nodes.keys().cloned().collect::<BTreeSet<Oid>>()))
            }
            Ok(Ok(None)) => Err("none".to_string()),
            Ok(Err(e)) => Err(e.to_string()),
            Err(p) => Err(format!("panic: {p}")),
        };
        match (view(with_b), view(without_b)) {
            (Ok((j1, h1)), Ok((j2, h2))) => {
                run.tally("identity:evaluated");
                if h1.contains(&b.id) {
                    run.fail(&id, "cob-invalid-signature-accepted", "identity: op with invalid signature in the history".into(), json!({}));
                }
                let a_first = a.id > b.id; // the root's dependents are evaluated in descending id order
                run.tally(if a_first { "identity:stranger-op-evaluated-before-bad-sibling" } else { "identity:bad-sibling-evaluated-first" });
                if j1 != j2 || h1 != h2 {
                    run.tally("identity:outcome-depends-on-rejected-sibling");
                    run.fail(
                        &id,
                        "identity-op-outcome-depends-on-rejected-sibling",
                        format!("identity: a non-delegate's operation is {} the history when a concurrent operation with an invalid signature exists and {} when that operation was never written", if h1.contains(&a.id) { "kept in" } else { "dropped from" }, if h2.contains(&a.id) { "kept" } else { "dropped" }),
                        json!({"a_in_history_with_sibling": h1.contains(&a.id), "a_in_history_without": h2.contains(&a.id), "a_evaluated_first": a_first, "action": act}),
                    );
                }
            }
            (x, y) => run.fail(&id, "cob-get-unexpected-error", format!("identity: {:?} / {:?}", x.err(), y.err()), json!({})),
        }
    }
    let _ = original;
}

fn main() {
    quiet_panics();
    let mut run = Run::new(
        "C06",
        "model.CobOps",
        "distinct (issue state, kept history) pairs, plus distinct patch states",
    );
    run.check_fn = "icheck_case".into();
    run.case_ty = "(icase * iobs)".into();
    let w = World::new();
    stream_issue(&mut run, &w);
    stream_patch(&mut run, &w);
    stream_identity(&mut run, &w);
    stream_thread(&mut run, &w);
    run.note("metamorphic oracle: cob::get on the full history vs cob::get with the refs moved to the tips of the history the first evaluation kept".into());
    run.finish();
}
