//! Counting global allocator: records the size of every allocation request made
//! while recording is switched on (and not paused), so that "how much memory does
//! decoding ask for" is an observation instead of a crash.
//!
//! Requests above `HUGE` are served by a lazily-committed anonymous mapping
//! (`MAP_NORESERVE`): the request is *observed* (and later judged by the oracle)
//! without the harness needing that much memory.  If even the mapping is refused
//! (address space exhausted, e.g. 2^62 bytes) a marker line is written to stderr
//! and null is returned, which makes the Rust runtime abort — such inputs are
//! therefore only ever run in a child process (see `probe_child`).
use std::alloc::{GlobalAlloc, Layout, System};
use std::sync::atomic::{AtomicBool, AtomicU64, AtomicUsize, Ordering::Relaxed};

pub const HUGE: usize = 1 << 28;
const LOG_CAP: usize = 1 << 14;

static RECORDING: AtomicBool = AtomicBool::new(false);
static PAUSED: AtomicBool = AtomicBool::new(false);
static LOG_LEN: AtomicUsize = AtomicUsize::new(0);
#[allow(clippy::declare_interior_mutable_const)]
const Z: AtomicU64 = AtomicU64::new(0);
static LOG: [AtomicU64; LOG_CAP] = [Z; LOG_CAP];
/// requests made while paused (inner message decoding): only the maximum is kept
static PAUSED_MAX: AtomicU64 = AtomicU64::new(0);
static OVERFLOWED: AtomicBool = AtomicBool::new(false);

extern "C" {
    fn mmap(addr: *mut u8, len: usize, prot: i32, flags: i32, fd: i32, off: i64) -> *mut u8;
    fn munmap(addr: *mut u8, len: usize) -> i32;
    fn write(fd: i32, buf: *const u8, n: usize) -> isize;
}
const PROT_RW: i32 = 1 | 2;
const MAP_PRIVATE: i32 = 0x02;
const MAP_ANONYMOUS: i32 = 0x20;
const MAP_NORESERVE: i32 = 0x4000;

pub struct Counting;

fn note(size: usize) {
    if RECORDING.load(Relaxed) {
        if PAUSED.load(Relaxed) {
            PAUSED_MAX.fetch_max(size as u64, Relaxed);
        } else {
            let i = LOG_LEN.fetch_add(1, Relaxed);
            if i < LOG_CAP {
                LOG[i].store(size as u64, Relaxed);
            } else {
                OVERFLOWED.store(true, Relaxed);
            }
        }
    }
}

unsafe fn huge_alloc(size: usize) -> *mut u8 {
    let p = mmap(std::ptr::null_mut(), size, PROT_RW, MAP_PRIVATE | MAP_ANONYMOUS | MAP_NORESERVE, -1, 0);
    if p as isize == -1 || p.is_null() {
        // "HW-ALLOC-REFUSED <decimal>\n" without allocating
        let mut buf = [0u8; 48];
        let head = b"HW-ALLOC-REFUSED ";
        buf[..head.len()].copy_from_slice(head);
        let mut digits = [0u8; 24];
        let mut n = size as u128;
        let mut k = 0;
        loop {
            digits[k] = b'0' + (n % 10) as u8;
            n /= 10;
            k += 1;
            if n == 0 {
                break;
            }
        }
        let mut pos = head.len();
        while k > 0 {
            k -= 1;
            buf[pos] = digits[k];
            pos += 1;
        }
        buf[pos] = b'\n';
        write(2, buf.as_ptr(), pos + 1);
        return std::ptr::null_mut();
    }
    p
}

unsafe impl GlobalAlloc for Counting {
    unsafe fn alloc(&self, layout: Layout) -> *mut u8 {
        note(layout.size());
        if layout.size() >= HUGE {
            return huge_alloc(layout.size());
        }
        System.alloc(layout)
    }
    unsafe fn alloc_zeroed(&self, layout: Layout) -> *mut u8 {
        note(layout.size());
        if layout.size() >= HUGE {
            return huge_alloc(layout.size()); // fresh anonymous pages are zero
        }
        System.alloc_zeroed(layout)
    }
    unsafe fn dealloc(&self, ptr: *mut u8, layout: Layout) {
        if layout.size() >= HUGE {
            munmap(ptr, layout.size());
            return;
        }
        System.dealloc(ptr, layout)
    }
    unsafe fn realloc(&self, ptr: *mut u8, layout: Layout, new_size: usize) -> *mut u8 {
        note(new_size);
        if layout.size() >= HUGE || new_size >= HUGE {
            let new_layout = Layout::from_size_align_unchecked(new_size, layout.align());
            let q = if new_size >= HUGE { huge_alloc(new_size) } else { System.alloc(new_layout) };
            if !q.is_null() {
                std::ptr::copy_nonoverlapping(ptr, q, layout.size().min(new_size));
                self.dealloc(ptr, layout);
            }
            return q;
        }
        System.realloc(ptr, layout, new_size)
    }
}

/// Run `f` with recording on; returns its result, the requests made outside
/// paused sections (in order) and the largest request made inside them.
pub fn record<T>(f: impl FnOnce() -> T) -> (T, Vec<u64>, u64) {
    LOG_LEN.store(0, Relaxed);
    PAUSED_MAX.store(0, Relaxed);
    OVERFLOWED.store(false, Relaxed);
    RECORDING.store(true, Relaxed);
    let r = f();
    RECORDING.store(false, Relaxed);
    let n = LOG_LEN.load(Relaxed).min(LOG_CAP);
    let log = (0..n).map(|i| LOG[i].load(Relaxed)).collect();
    assert!(!OVERFLOWED.load(Relaxed), "allocation log overflow");
    (r, log, PAUSED_MAX.load(Relaxed))
}

/// Run `f` with recording paused (used around the inner message decode).
pub fn paused<T>(f: impl FnOnce() -> T) -> T {
    let was = PAUSED.swap(true, Relaxed);
    let r = f();
    PAUSED.store(was, Relaxed);
    r
}
