//! C08: a patch is merged only by a threshold of agreeing delegates.
//!
//! Merge-focused patch histories: 1-4 delegates, thresholds 1..n, merges by
//! subsets of the delegates (and by strangers / former delegates) with agreeing
//! and disagreeing (revision, commit) pairs, commits that are the head of, an
//! ancestor of, beside, unrelated to, or absent from the merging delegate's
//! default branch (real commits and real refs in a temporary git repository),
//! redacted revisions, followed by lifecycle actions; applied to the real
//! `Patch` through `radicle::cob::Evaluate::{init, apply}`.
//!
//! Direct oracle (independent of the model): whenever the real patch newly
//! reports `Merged{revision, commit}` the distinct delegates that issued an
//! on-branch `Merge` of that pair in the history so far are recounted against
//! the threshold of the op's document; every entry of
//! `Patch::merges()` must be backed by a `Merge` action of that actor issued as a
//! delegate with the commit on its branch (checked with plain git2 calls); an op
//! without `Merge` actions must not move a merged patch.
#[path = "../../c07/src/cobsim.rs"]
mod cobsim;
use cobsim::*;
use hw_common::*;

fn main() {
    quiet_panics();
    let mut run = Run::new(
        "C08",
        "model.CobPatch",
        "distinct (number of ops applied, size of the final object state, final patch state) per generated history",
    );
    run.shard_size(60);
    let mut w = World::new();
    let (issue_atomic, patch_atomic) = probe_atomic(&mut w);
    run.note(format!(
        "op application measured on the compiled code: patch atomic={patch_atomic}; debug assertions: {}",
        cfg!(debug_assertions)
    ));
    let f = Flags { dbg: cfg!(debug_assertions), issue_atomic, patch_atomic, check_c07: false, check_c08: true };
    let seed = run.args.seed;
    let n = run.args.count(500, 3500);
    for i in 0..n {
        let id = format!("merge:{i}");
        if !run.args.wants(&id) {
            continue;
        }
        let mut rng = Rng::for_case(seed, 3, i);
        run_patch_case(&mut run, &mut w, &id, &mut rng, &f, i % 5 != 4);
    }
    run.finish();
}
