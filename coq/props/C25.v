(* C25 — Sync targets report success exactly when reached.
   The sync announcer and fetcher report success exactly when their target is
   met (every preferred seed synced, or the replica count reached), and
   otherwise report a timeout or failure.  They never count or hand out the
   local node, and the fetcher never hands out a node that already has a result.

   Model: model/Sync.v (the Fetcher as fixed in /repo: commits "fix: sync:
   Fetcher never records (or counts) a fetch result for the local node" and
   "fix: sync: Fetcher counts a node once").  Targets on SETS of distinct nodes:
     announcer:  every preferred seed synced AND  bound <= |synced nodes|
     fetcher:    (seeds non-empty and all fetched) OR  bound <= |nodes fetched|
   with bound = n for MustReach n and the upper bound for a Range.
   This file contains only theorem statements closed by [exact]. *)
From HW Require Import lib.Base model.Sync proofs.SyncProofs.
Local Open Scope N_scope.

(* for every configuration and every sequence of synced_with calls (any node
   ids: known, unknown, repeated, the local one) *)
Theorem C25_announcer_success_iff_target :
  forall c a0 a, announcer_new c = inr a0 -> areach a0 a ->
  (forall n, is_abreak (snd (synced_with a n)) <-> n <> a_local a /\ a_target_met (fst (synced_with a n))) /\
  (is_asuccess (timed_out a) <-> a_target_met a) /\
  (is_atimedout (timed_out a) <-> ~ a_target_met a).
Proof. exact announcer_success_iff_target. Qed.

(* until a success is reported the target is unmet (every Continue was
   truthful; a constructed announcer never starts with its target met), and the
   next answer is Break exactly when the target becomes met *)
Theorem C25_announcer_first_success :
  forall c a0 a, announcer_new c = inr a0 -> areach_quiet a0 a ->
  ~ a_target_met a /\
  (forall n, is_abreak (snd (synced_with a n)) <-> a_target_met (fst (synced_with a n))).
Proof. exact announcer_first_success. Qed.

(* "otherwise a timeout or failure": NoNodes only with nothing left to sync and,
   before any success was reported, only with the target unmet *)
Theorem C25_announcer_no_nodes_only_when_unmet :
  forall c a0 a r, announcer_new c = inr a0 -> areach_quiet a0 a ->
  can_continue a = Some r -> r = ANoNodes (a_synced a) /\ a_to_sync a = [] /\ ~ a_target_met a.
Proof. exact announcer_no_nodes_only_when_unmet. Qed.

(* constructed targets are never empty (a zero replica count needs preferred
   seeds) and a Range always has lower < upper *)
Theorem C25_targets_wellformed :
  (forall c a, announcer_new c = inr a -> rf_wf (a_repl a) /\ (rf_lower (a_repl a) = 0 -> a_pref a <> [])) /\
  (forall c f, fetcher_new c = inr f -> rf_wf (f_repl f) /\ (rf_lower (f_repl f) = 0 -> f_seeds f <> [])).
Proof. exact targets_wellformed. Qed.

Theorem C25_announcer_local_never_counted :
  forall c a0 a, announcer_new c = inr a0 -> areach a0 a ->
  a_local a = ac_local c /\
  ~ In (ac_local c) (a_pref a) /\ ~ In (ac_local c) (a_synced a) /\ ~ In (ac_local c) (to_sync a) /\
  (forall n o s, snd (synced_with a n) = ABreak o s ->
     ~ In (ac_local c) s /\ NoDup s /\ ao_synced o = len s /\ ao_preferred o = count_in s (a_pref a)).
Proof. exact announcer_local_never_counted. Qed.

(* for every configuration and every sequence of calls of next_node,
   ready_to_fetch, next_fetch, fetch_failed, fetch_complete with any node ids *)
Theorem C25_fetcher_success_iff_target :
  forall c f0 f, fetcher_new c = inr f0 -> freach f0 f ->
  (forall n ok, is_fbreak (snd (fetch_complete f n ok)) <-> f_target_met (fst (fetch_complete f n ok))) /\
  (is_freached (finish f) <-> f_target_met f) /\
  (is_ferror (finish f) <-> ~ f_target_met f).
Proof. exact fetcher_success_iff_target. Qed.

(* in any state whatsoever *)
Theorem C25_fetcher_never_hands_out_local_or_node_with_result :
  forall f n,
  (snd (next_node f) = Some n -> n <> f_local f /\ results_get n (f_results f) = None) /\
  (snd (next_fetch f) = Some n -> n <> f_local f /\ results_get n (f_results f) = None).
Proof. exact fetcher_hand_out. Qed.

Theorem C25_fetcher_local_never_counted :
  forall c f0 f, fetcher_new c = inr f0 -> freach f0 f ->
  f_local f = fc_local c /\
  ~ In (fc_local c) (map fst (f_results f)) /\
  NoDup (map fst (f_results f)) /\
  NoDup (f_succeeded f) /\ ~ In (fc_local c) (f_succeeded f) /\
  fp_succeeded (f_progress f) = len (f_succeeded f) /\
  fp_preferred (f_progress f) = count_in (f_succeeded f) (f_seeds f).
Proof. exact fetcher_local_never_counted. Qed.

(* ---- non-vacuity and the two repaired defects ---- *)

Definition ex_acfg := {| ac_local := 0; ac_repl := MustReach 2; ac_pref := [0; 1]; ac_synced := []; ac_unsynced := [0; 2; 3] |}.

(* constructible; the local node 0 disappears from every set; success exactly
   at the call that completes {preferred seed 1} and 2 replicas *)
Example C25_example_announcer :
  match announcer_new ex_acfg with
  | inr a => a_pref a = [1] /\ a_to_sync a = [1; 2; 3] /\
             arun a [ASynced 2; ASynced 0; ASynced 3; ASynced 1; ATimeOut]
             = [OAFlow (AContinue {| ap_preferred := 0; ap_synced := 1; ap_unsynced := 1 |});
                OAFlow (AContinue {| ap_preferred := 0; ap_synced := 1; ap_unsynced := 1 |});
                OAFlow (AContinue {| ap_preferred := 0; ap_synced := 2; ap_unsynced := 0 |});
                OAFlow (ABreak {| ao_max := false; ao_preferred := 1; ao_synced := 3 |} [1; 2; 3]);
                OAResult (ASuccess {| ao_max := false; ao_preferred := 1; ao_synced := 3 |} [1; 2; 3])]
  | inl _ => False
  end.
Proof. vm_compute. repeat split. Qed.

Definition ex_fcfg := {| fc_seeds := [0; 1]; fc_repl := MustReach 2; fc_extra := [9; 1; 2]; fc_local := 9 |}.

(* as fixed: a result for the local node 9, or a second result for node 0, changes nothing *)
Example C25_example_fetcher :
  match fetcher_new ex_fcfg with
  | inr f => f_cands f = [0; 1; 1; 2] /\
      frun f [FComplete 9 true; FComplete 0 true; FComplete 0 true; FNextNode; FComplete 2 true]
      = [OFFlow (FContinue {| fp_candidate := 4; fp_succeeded := 0; fp_failed := 0; fp_preferred := 0 |});
         OFFlow (FContinue {| fp_candidate := 4; fp_succeeded := 1; fp_failed := 0; fp_preferred := 1 |});
         OFFlow (FContinue {| fp_candidate := 4; fp_succeeded := 1; fp_failed := 0; fp_preferred := 1 |});
         OFNode (Some 1);
         OFFlow (FBreak (MinReplicas 2) {| fp_candidate := 2; fp_succeeded := 2; fp_failed := 0; fp_preferred := 1 |}
                        [(0, true); (2, true)])]
  | inl _ => False
  end.
Proof. vm_compute. repeat split. Qed.

(* the reading of "replica count reached" for a Range (the code's and its
   tests'): only the upper bound counts; with range(1,3) and two nodes fetched,
   finish() reports TargetError with 0 nodes "required" *)
Example C25_example_range_lower_bound_only :
  match fetcher_new {| fc_seeds := []; fc_repl := rf_range 1 3; fc_extra := [0; 1; 2]; fc_local := 9 |} with
  | inr f => let f2 := fst (fetch_complete (fst (fetch_complete f 0 true)) 1 true) in
             exists p m r, finish f2 = FTargetError p 0 m r /\ fp_succeeded p = 2
  | inl _ => False
  end.
Proof. vm_compute. eexists _, _, _. split; reflexivity. Qed.

(* before the fixes (replayed on the real code): a success "fetched" from the
   local node reached MustReach 1 with nothing fetched; a repeated success of
   seed 0 reached "every preferred seed" {0, 1} *)
Example C25_example_unguarded_counted_local :
  match fetcher_new {| fc_seeds := []; fc_repl := MustReach 1; fc_extra := [0]; fc_local := 1 |} with
  | inr f => exists o p r, snd (fetch_complete_unguarded f 1 true) = FBreak o p r /\ In (f_local f, true) r
  | inl _ => False
  end.
Proof. vm_compute. eexists _, _, _. split; [reflexivity | left; reflexivity]. Qed.

Example C25_example_unguarded_counted_repeat :
  match fetcher_new {| fc_seeds := [0; 1]; fc_repl := MustReach 2; fc_extra := []; fc_local := 9 |} with
  | inr f => let f1 := fst (fetch_complete_unguarded f 0 true) in
             exists p r, snd (fetch_complete_unguarded f1 0 true) = FBreak (PreferredNodes 2) p r /\ ~ In (1, true) r
  | inl _ => False
  end.
Proof.
  vm_compute. eexists _, _. split; [reflexivity|].
  intros [H|[H|[]]]; discriminate H.
Qed.
