(* C21 — Textual identifiers round-trip: printing a public key, DID, repository
   id, node alias or user agent and parsing the text yields the same value;
   printing always uses the canonical (multibase base58btc, 'z') form; parsing
   arbitrary text never panics.
   This file contains only theorem statements closed by [exact]. *)
From HW Require Import lib.Base model.TextIds proofs.TextIdsProofs.
Local Open Scope N_scope.

(* base-58 (bitcoin alphabet), implemented in Gallina and proved: decoding the
   encoding of ANY byte string gives the byte string back (leading zero bytes
   <-> leading '1's included) ... *)
Theorem C21_b58_roundtrip :
  forall bs, bytes_ok bs -> b58_decode (b58_encode bs) = Some bs.
Proof. exact b58_roundtrip. Qed.

(* ... and conversely every text the decoder accepts is the encoding of what it
   decodes to: base58btc text <-> byte strings is a bijection (one canonical text). *)
Theorem C21_b58_unique_text :
  forall s bs, b58_decode s = Some bs -> b58_encode bs = s.
Proof. exact b58_decode_encode. Qed.

(* public keys: printing never panics, gives 'z' ++ base58btc([0xED,0x01] ++ key),
   and that text parses back to the same key (whatever the other multibase
   decoders do). *)
Theorem C21_pk_roundtrip :
  forall k, pk_wf k ->
  exists s, pk_to_human k = Ok s /\ (forall ext, pk_from_str ext s = Ok k) /\
            s = CODE_Z :: b58_encode (MULTICODEC ++ k).
Proof. exact pk_roundtrip. Qed.

Theorem C21_did_roundtrip :
  forall k, pk_wf k ->
  exists s, did_encode k = Ok s /\ (forall ext, did_decode ext s = Ok k) /\
            s = DID_PREFIX ++ CODE_Z :: b58_encode (MULTICODEC ++ k).
Proof. exact did_roundtrip. Qed.

Theorem C21_rid_roundtrip :
  forall o, oid_wf o ->
  (forall ext, rid_from_urn ext (rid_urn o) = Ok o) /\
  (forall ext, rid_from_canonical ext (rid_canonical o) = Ok o) /\
  (forall ext, rid_from_urn ext (rid_canonical o) = Ok o) /\
  rid_urn o = RAD_PREFIX ++ CODE_Z :: b58_encode o.
Proof. exact rid_roundtrip. Qed.

(* canonical form: an accepted base58btc ('z') text is exactly what printing the
   parsed value produces (no second 'z' spelling of any key / DID / repo id) *)
Theorem C21_canonical_text_unique :
  (forall ext t k, pk_from_str ext (CODE_Z :: t) = Ok k -> pk_to_human k = Ok (CODE_Z :: t)) /\
  (forall ext t k, did_decode ext (DID_PREFIX ++ CODE_Z :: t) = Ok k ->
                   did_encode k = Ok (DID_PREFIX ++ CODE_Z :: t)) /\
  (forall ext t o, rid_from_canonical ext (CODE_Z :: t) = Ok o -> rid_canonical o = CODE_Z :: t).
Proof. exact (conj pk_parse_print (conj did_parse_print rid_parse_print)). Qed.

(* whatever text (any multibase prefix) is accepted, the parsed key is a
   well-formed key, so printing it and parsing again yields it *)
Theorem C21_pk_parse_print_parse :
  forall ext s k,
  (forall bs, ext = Some bs -> bytes_ok bs) -> Forall (fun c => c < 1114112) s ->
  pk_from_str ext s = Ok k ->
  exists s', pk_to_human k = Ok s' /\ forall ext', pk_from_str ext' s' = Ok k.
Proof.
  exact (fun ext s k He Hs H =>
    match pk_roundtrip k (pk_from_str_wf ext s k He Hs H) with
    | ex_intro _ s' (conj H1 (conj H2 _)) => ex_intro _ s' (conj H1 H2)
    end).
Qed.

Theorem C21_did_rid_parse_print_parse :
  (forall ext s k,
     (forall b, ext = Some b -> bytes_ok b) -> Forall (fun c => c < 1114112) s ->
     did_decode ext s = Ok k ->
     exists s', did_encode k = Ok s' /\ forall ext', did_decode ext' s' = Ok k) /\
  (forall ext s o,
     (forall b, ext = Some b -> bytes_ok b) -> Forall (fun c => c < 1114112) s ->
     rid_from_urn ext s = Ok o ->
     oid_wf o /\ (forall ext', rid_from_urn ext' (rid_urn o) = Ok o) /\
     (forall ext', rid_from_canonical ext' (rid_canonical o) = Ok o)).
Proof. exact (conj did_parse_print_parse rid_parse_print_parse). Qed.

(* aliases and user agents (character classes are parameters): an accepted text
   is stored and printed unchanged, and the printed text re-parses to the same value *)
Theorem C21_alias_roundtrip :
  forall (is_control is_whitespace : N -> bool) s a,
  alias_from_str is_control is_whitespace s = Ok a ->
  alias_display a = s /\ alias_from_str is_control is_whitespace (alias_display a) = Ok a.
Proof. exact alias_roundtrip. Qed.

Theorem C21_alias_valid_roundtrip :
  forall (is_control is_whitespace : N -> bool) a,
  alias_valid is_control is_whitespace a ->
  alias_from_str is_control is_whitespace (alias_display a) = Ok a.
Proof. exact alias_valid_roundtrip. Qed.

Theorem C21_agent_roundtrip :
  forall (is_ascii_graphic : N -> bool) s a,
  agent_from_str is_ascii_graphic s = Ok a ->
  agent_display a = s /\ agent_from_str is_ascii_graphic (agent_display a) = Ok a.
Proof. exact agent_roundtrip. Qed.

(* the alias a node derives from a node id (From<&NodeId> for Alias, after the
   fix: first MAX_ALIAS_LENGTH characters of the id's text) is a valid alias for
   every key: it prints and re-parses to itself.  The full text never fits: this
   is why the original Alias(nid.to_string()) broke the round trip (fixed in /repo). *)
Theorem C21_alias_of_nid_roundtrip :
  forall k, pk_wf k ->
  exists a, alias_of_nid k = Ok a /\
            alias_valid std_is_control std_is_whitespace a /\
            alias_from_str std_is_control std_is_whitespace (alias_display a) = Ok a.
Proof. exact alias_of_nid_valid. Qed.

Theorem C21_nid_text_exceeds_alias_limit :
  forall k, pk_wf k ->
  (33 < length (pk_text k))%nat /\ MAX_ALIAS_LENGTH < str_len (pk_text k).
Proof. exact nid_text_exceeds_alias_limit. Qed.

(* the 32-byte wire form of a valid alias never hits the slice/copy panic sites *)
Theorem C21_alias_to_array_total :
  forall ic iw a, alias_valid ic iw a ->
  exists arr, alias_to_array a = Ok arr /\ length arr = 32%nat.
Proof. exact alias_to_array_total. Qed.

(* totality: no parser reaches a panic site, for any text and any behaviour of
   the external decoders *)
Theorem C21_parse_total :
  (forall ext s site, pk_from_str ext s <> Panic site) /\
  (forall ext s site, did_decode ext s <> Panic site) /\
  (forall ext s site, rid_from_canonical ext s <> Panic site) /\
  (forall ext s site, rid_from_urn ext s <> Panic site) /\
  (forall ic iw s site, alias_from_str ic iw s <> Panic site) /\
  (forall ig s site, agent_from_str ig s <> Panic site).
Proof.
  exact (match parsers_total with
         | conj a (conj b (conj c d)) => conj a (conj b (conj c (conj d (conj alias_total agent_total))))
         end).
Qed.

(* non-vacuity *)
Example C21_example_pk_wf : pk_wf (repeat 0 32) /\ oid_wf (repeat 255 20).
Proof. split; split; try reflexivity; repeat constructor. Qed.

Example C21_example_alias_agent :
  alias_from_str std_is_control std_is_whitespace [99; 108; 111; 117; 100] = Ok [99; 108; 111; 117; 100] /\
  agent_from_str std_is_ascii_graphic [47; 114; 97; 100; 105; 99; 108; 101; 47] =
    Ok [47; 114; 97; 100; 105; 99; 108; 101; 47].
Proof. vm_compute. split; reflexivity. Qed.
