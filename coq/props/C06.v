(* C06 — Rejected collaborative-object changes leave no trace in the state.
   Only theorem statements closed by [exact].

   Vocabulary (model/ChangeGraph.v, model/CobOps.v, proofs/ChangeGraphEval.v, CobOpsProofs.v):
     evaluate init apply oid g   ChangeGraph::evaluate for an object type given by its
                                 init/apply; apply returns (succeeded?, state left behind)
     EvOk m a h log              manifest, object, pruned history graph, log of the filter
                                 calls (key, sibling keys, Continue | Break)
     rejected g log x            x is a change where the filter answered Break (invalid
                                 signature or apply error), or a transitive dependent of one
     removed g h R               h is g without exactly the nodes R (C23)
     atomic apply                apply s k e sibs failed -> the state it leaves is s
     sibling_blind apply         apply does not depend on the concurrent entries it is handed
     all_continue log            no entry of the log is a Break
     issue_apply                 <Issue as Evaluate>::apply (after the fix), issue_apply_inplace
                                 the same with the actions applied in place (before the fix)
     sib_apply                   an apply that, like Identity::op, ignores an "unexpected
                                 state" error iff it has concurrent entries *)
From HW Require Import lib.Base lib.SMap model.Dag model.ChangeGraph model.CobOps
  proofs.DagBase proofs.DagRemove proofs.DagPrune proofs.ChangeGraphBuild proofs.ChangeGraphEval
  proofs.CobOpsProofs.

(* ---------------------------------------------------------------- generic *)

(* For every object type whose apply is atomic and sibling-blind, on every
   well-formed change graph: the evaluation drops exactly the rejected changes
   and their transitive dependents, and the resulting object and history are
   identical to evaluating the history from which those changes were removed —
   which then rejects nothing.  (Uses C23's exactness of prune_by and the fact
   that removing a dependents-closed set does not change the relative
   traversal order of the remaining changes.) *)
Theorem C06_prune_equiv :
  forall (P S : Type) (init : N -> entry P -> option S)
         (apply : S -> N -> entry P -> list (N * entry P) -> bool * S),
  atomic apply -> sibling_blind apply ->
  forall oid g m a h log, dag_wf g ->
  evaluate init apply oid g = EvOk m a h log ->
  dag_wf h /\ removed g h (rejected g log) /\
  exists log', evaluate init apply oid h = EvOk m a h log' /\ all_continue log' /\
               pkeys log' = accepted_keys log.
Proof. exact @prune_equiv. Qed.

(* "the history from which those changes were removed" is unique: ANY
   well-formed graph that is g without the rejected set is h and evaluates to
   the same object *)
Theorem C06_prune_equiv_any :
  forall (P S : Type) (init : N -> entry P -> option S)
         (apply : S -> N -> entry P -> list (N * entry P) -> bool * S),
  atomic apply -> sibling_blind apply ->
  forall oid g m a h log g', dag_wf g ->
  evaluate init apply oid g = EvOk m a h log ->
  dag_shape g' -> removed g g' (rejected g log) ->
  g' = h /\ exists log', evaluate init apply oid g' = EvOk m a h log' /\ all_continue log'.
Proof. exact @prune_equiv_any. Qed.

(* the same from the change store (no parent cycles): cob::get *)
Theorem C06_get_prune_equiv :
  forall (P S : Type) (init : N -> entry P -> option S)
         (apply : S -> N -> entry P -> list (N * entry P) -> bool * S)
         (r : N -> N) (st : cstore P) tips oid m a h log,
  store_ranked r st -> atomic apply -> sibling_blind apply ->
  get init apply st tips oid = GEval (EvOk m a h log) ->
  exists g, load st tips = Loaded g /\ dag_wf g /\ dag_wf h /\
    removed g h (rejected g log) /\
    (forall g', dag_shape g' -> removed g g' (rejected g log) -> g' = h) /\
    exists log', evaluate init apply oid h = EvOk m a h log' /\ all_continue log' /\
      pkeys log' = accepted_keys log.
Proof. exact @get_prune_equiv. Qed.

(* … so a rejected change never partially takes effect: the final object is
   the sequential application, to the initial object, of exactly the accepted
   entries in the order they were accepted *)
Theorem C06_state_is_fold_of_accepted :
  forall (P S : Type) (init : N -> entry P -> option S)
         (apply : S -> N -> entry P -> list (N * entry P) -> bool * S),
  atomic apply -> sibling_blind apply ->
  forall oid g m a h log, dag_wf g ->
  evaluate init apply oid g = EvOk m a h log ->
  exists root obj0, lookup oid (graph g) = Some root /\ init oid (nvalue root) = Some obj0 /\
    a = apply_seq apply obj0 (accepted_entries g log).
Proof. exact @evaluate_state_is_fold. Qed.

(* ---------------------------------------------------------------- atomicity *)

(* Applying the actions of an operation to a copy of the state and replacing
   the state only when all of them succeed is atomic whatever the actions do —
   the shape of Issue::op, Patch::op, Identity::op and Thread::op after the fix *)
Theorem C06_commit_on_success_atomic :
  forall (S A E : Type) (step : S -> A -> E -> option S) (actions : E -> list A) s e,
  fst (commit_op step actions s e) = false -> snd (commit_op step actions s e) = s.
Proof. exact @commit_op_atomic. Qed.

(* the issue model (fixed code): atomic and sibling-blind, hence no trace *)
Theorem C06_issue_atomic : atomic issue_apply /\ sibling_blind issue_apply.
Proof. exact (conj issue_apply_atomic issue_apply_blind). Qed.

Theorem C06_issue_no_trace :
  forall (r : N -> N) (st : cstore ipayload) tips oid m a h log,
  store_ranked r st ->
  get issue_init issue_apply st tips oid = GEval (EvOk m a h log) ->
  exists g, load st tips = Loaded g /\ dag_wf g /\ dag_wf h /\
    removed g h (rejected g log) /\
    (forall g', dag_shape g' -> removed g g' (rejected g log) -> g' = h) /\
    exists log', evaluate issue_init issue_apply oid h = EvOk m a h log' /\ all_continue log' /\
      pkeys log' = accepted_keys log.
Proof.
  exact (fun r st tips oid m a h log Hr =>
           get_prune_equiv issue_init issue_apply r st tips oid m a h log Hr issue_apply_atomic issue_apply_blind).
Qed.

(* ---------------------------------------------------------------- refutations *)

(* The defect this property found (fixed in /repo): with the actions of an
   operation applied in place, the operation [title := 7; title := <invalid>] is
   rejected and dropped from the history, yet the title stays 7; evaluating the
   history without it gives title 0 *)
Theorem C06_issue_inplace_refuted :
  ~ atomic issue_apply_inplace /\
  exists st tips oid m a h log a',
    get issue_init issue_apply_inplace st tips oid = GEval (EvOk m a h log) /\
    map fst (graph h) = [1%N] /\ i_title a = 7%N /\
    (exists log', evaluate issue_init issue_apply_inplace oid h = EvOk m a' h log') /\ i_title a' = 0%N /\
    a <> a'.
Proof. exact (conj issue_inplace_not_atomic issue_inplace_refuted). Qed.

(* Known class (Identity::op): an apply that is atomic but looks at its
   concurrent entries.  A concurrent change that is itself rejected decides
   whether another change is accepted: root 1, concurrent children 3
   ("unexpected state") and 2 (invalid signature) evaluate to timeline [1; 3]
   with history {1, 3}; the history without the rejected change 2 evaluates to
   timeline [1] with history {1} *)
Theorem C06_sibling_dependent_refuted :
  atomic sib_apply /\ ~ sibling_blind sib_apply /\
  exists st tips oid m a h log a' h',
    get sib_init sib_apply st tips oid = GEval (EvOk m a h log) /\
    a = [1; 3]%N /\ map fst (graph h) = [1; 3]%N /\
    (exists log', evaluate sib_init sib_apply oid h = EvOk m a' h' log') /\
    a' = [1%N] /\ map fst (graph h') = [1%N].
Proof. exact (conj sib_apply_atomic (conj sib_not_blind sib_refuted)). Qed.

(* ---------------------------------------------------------------- non-vacuity *)

(* the hypotheses of C06_issue_no_trace are satisfiable with a rejection: the
   store of the refutation, evaluated by the fixed code, keeps {1} and title 0 *)
Example C06_example_issue :
  exists m a h log, get issue_init issue_apply inplace_store [2%N] 1%N = GEval (EvOk m a h log) /\
    map fst (graph h) = [1%N] /\ i_title a = 0%N.
Proof. exact issue_fixed_example. Qed.

Example C06_example_ranked : store_ranked (fun k => k) inplace_store.
Proof.
  intros c p [e [Hl Hp]]. apply lookup_In in Hl. unfold inplace_store, mk_istore in Hl. simpl in Hl.
  repeat (destruct Hl as [Hl|Hl]; [inversion Hl; subst; simpl in Hp; intuition (subst; reflexivity)|]).
  destruct Hl.
Qed.
