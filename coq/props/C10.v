(* C10 — Gossip is authenticated, fresh and never echoed back.
   Only theorem statements, closed by [exact]. Definitions used:
   [step]/[run]/[init_state] (model/Gossip.v); [Inv10], [out_ok10],
   [all_steps_ok] (proofs/GossipProofs.v):
     out_ok10 c s' o := every [OWrite p a path] in o satisfies
       path = PRelay -> p <> a_node a /\ ~ In (p, a, true) (delivered s')   (no echo to the announcer, nor to
                                               a peer whose delivery of a is what stored it), and
       path = PRelay \/ PReplay -> a_node a <> me -> a_sig a = true /\ a_ts a <> 0 /\
                                 exists t <= clock s', a_ts a <= t + MAX_TIME_DELTA
     all_steps_ok c s es := no step of the trace panics and every step's outputs are out_ok10
                            w.r.t. the state right after the step. *)
From HW Require Import lib.Base lib.SMap model.Gossip proofs.GossipProofs.
Local Open Scope N_scope.

(* for every configuration, start time, initial inventory / address book and
   EVERY event sequence (any interleaving of connects, disconnects, forged /
   stale / future / replayed announcements, subscriptions, clock steps, commands) *)
Theorem C10_relayed_is_authentic_fresh_and_not_echoed :
  forall c now nts inv known0 es, all_steps_ok c (init_state c now nts inv known0) es.
Proof.
  exact (fun c now nts inv known0 es =>
    run_10 es c _ (init_state_inv10 c now nts inv known0) (init_state_inv13 c now nts inv known0)).
Qed.

(* the invariant behind it holds in every reachable state: every stored
   announcement of another node has a valid signature, a non-zero timestamp at
   most MAX_TIME_DELTA ahead of the local clock at receipt; ids and keys are unique *)
Theorem C10_invariant_preserved :
  forall c s e s' o, Inv10 c s -> step c s e = Ok s' o -> Inv10 c s' /\ out_ok10 c s' o.
Proof. exact step_10. Qed.

(* an incoming announcement changes the table only if: signature valid, not our
   own, timestamp non-zero and at most one hour ahead, announcer known (for
   inventory/refs), and strictly newer than the stored announcement with the
   same (node, kind, repo) key; the only rows that change are that key's row
   (relay status aside) *)
Theorem C10_stored_only_if :
  forall c s q b s' o, sorted (sessions s) -> step c s (ERecvAnn q b) = Ok s' o ->
  gossip s' = gossip s \/
  (a_sig b = true /\ a_node b <> c_me c /\ a_ts b <> 0 /\ a_ts b <= clock s + MAX_TIME_DELTA /\
   (a_kind b <> KNode -> In (a_node b) (known s)) /\
   (forall r0, find_row b (gossip s) = Some r0 -> a_ts (r_ann r0) < a_ts b) /\
   (forall r, In r (gossip s') -> In r (gossip s) \/ r_ann r = b \/
        exists r0, In r0 (gossip s) /\ core r0 = core r)).
Proof. exact recv_stores_only_if. Qed.

(* KNOWN FINDING (class c10-echo-to-ignored-deliverer): the no-echo clause of the
   property fails for a peer whose delivery was ignored as a duplicate — e.g. a
   second deliverer of an inventory announcement that is still pending relay
   (the FIXME in Service::handle_announcement).  Witness, by computation: *)
Definition c10_cfg := mkCfg 0 true [] [] [].
Definition c10_inv3 := mkAnn 3 KInv 0 1000 true [5] false false.
Definition c10_trace := [EConnect 1; EConnect 2; ERecvAnn 1 c10_inv3; ERecvAnn 2 c10_inv3; EElapse 6000].
Theorem C10_no_echo_refuted_for_ignored_deliverer :
  exists s os, run c10_cfg (init_state c10_cfg 1000 1001 [] [0; 3]) c10_trace = Some (s, os) /\
    In (2, c10_inv3, false) (delivered s) /\
    In [OWrite 2 c10_inv3 PRelay] os.
Proof.
  destruct (run c10_cfg (init_state c10_cfg 1000 1001 [] [0; 3]) c10_trace) as [[s os]|] eqn:E;
    vm_compute in E; [|discriminate].
  inversion E; subst; clear E. eexists; eexists; split; [reflexivity|]. split; cbn; auto 10.
Qed.

(* non-vacuity: a trace that stores, relays and rejects *)
Example C10_example :
  match run c10_cfg (init_state c10_cfg 1000 1001 [] [0; 3])
          [EConnect 1; EConnect 2; ERecvAnn 1 (mkAnn 3 KNode 0 1000 true [] false true);
           ERecvAnn 1 (mkAnn 3 KNode 0 1000 false [] false true)] with
  | Some (_, os) => os = [[OWrite 1 (mkAnn 0 KNode 0 1001 true [] false true) PInitial;
                           OWrite 1 (mkAnn 0 KInv 0 1002 true [] false false) PInitial];
                          [OWrite 2 (mkAnn 0 KNode 0 1001 true [] false true) PInitial;
                           OWrite 2 (mkAnn 0 KInv 0 1002 true [] false false) PInitial];
                          [OWrite 2 (mkAnn 3 KNode 0 1000 true [] false true) PRelay];
                          [ODisconnect 1]]
  | None => False
  end.
Proof. vm_compute. reflexivity. Qed.
