(* C22 — CRDT merges are associative, commutative and idempotent; LWW reads
   expose the greatest clock; add wins at equal clocks.
   This file contains only theorem statements closed by [exact]. *)
From HW Require Import lib.Base lib.SMap model.Crdt proofs.CrdtProofs.

(* SLaws S := join preserves the representation invariant and is associative,
   commutative and idempotent on every well-formed value (see CrdtProofs.v). *)
Theorem C22_semilattice_laws :
  SLaws bool_sl /\ SLaws unit_sl /\ SLaws max_sl /\ SLaws min_sl /\ SLaws red_sl /\
  SLaws gset_sl /\ SLaws lwwset_sl /\
  (forall S, SLaws S -> SLaws (option_sl S)) /\
  (forall S, SLaws S -> SLaws (gmap_sl S)) /\
  (forall S, SLaws S -> SLaws (lwwreg_sl S)) /\
  (forall S, SLaws S -> SLaws (lwwmap_sl S)).
Proof.
  exact (conj bool_laws (conj unit_laws (conj max_laws (conj min_laws (conj red_laws
        (conj gset_laws (conj lwwset_laws (conj option_laws (conj gmap_laws
        (conj lwwreg_laws lwwmap_laws)))))))))).
Qed.

(* every value the API can construct (from_iter / insert / remove sequences)
   satisfies the invariant under which the laws are stated *)
Theorem C22_constructible_values_wf :
  (forall S, SLaws S -> forall l, Forall (fun kv => wf S (snd kv)) l ->
     wf (gmap_sl S) (gmap_of_list S l)) /\
  (forall S, SLaws S -> forall ops : list (kwrite S),
     Forall (fun o => option_wf S (snd (snd o))) ops -> wf (lwwmap_sl S) (map_build S ops)).
Proof. exact (conj gmap_of_list_wf map_build_wf). Qed.

(* a register exposes the join of exactly the values written with the
   greatest clock (for any value lattice, any number of writes) *)
Theorem C22_lwwreg_greatest_clock :
  forall S (w0 : N * car S) (ws : list (N * car S)),
  exists v0 vs, winners S w0 ws = v0 :: vs /\
    reg_build S w0 ws = (top_clock S w0 ws, fold_left (join S) vs v0).
Proof. exact lwwreg_greatest_clock. Qed.

Theorem C22_lwwmap_greatest_clock :
  forall S k (ops : list (kwrite S)),
  match writes_on S k ops with
  | [] => lwwmap_get S k (map_build S ops) = None
  | w0 :: ws => exists v0 vs, winners (option_sl S) w0 ws = v0 :: vs /\
        lwwmap_get S k (map_build S ops) = fold_left (option_join S) vs v0
  end.
Proof. exact lwwmap_get_greatest_clock. Qed.

(* insertion wins over removal at equal (greatest) clocks *)
Theorem C22_lwwset_add_wins :
  forall k (ops : list (kwrite unit_sl)),
  lwwset_contains k (map_build unit_sl ops) =
  match writes_on unit_sl k ops with
  | [] => false
  | w0 :: ws => existsb (fun v => match v with Some _ => true | None => false end)
                  (winners (option_sl unit_sl) w0 ws)
  end.
Proof. exact lwwset_add_wins. Qed.

(* the op-list builders used by the correspondence check are instances of the
   generic builder the theorems speak about *)
Theorem C22_builders_are_generic :
  (forall ops, lwwmap_build ops = map_build max_sl (map mop_write ops)) /\
  (forall ops, lwwset_build ops = map_build unit_sl (map sop_write ops)).
Proof. exact (conj lwwmap_build_generic lwwset_build_generic). Qed.

(* non-vacuity: a concrete equal-clock conflict *)
Example C22_example_add_wins :
  lwwset_contains 7 (lwwset_build [SIns 7 3; SRem 7 3]) = true /\
  lwwset_contains 7 (lwwset_build [SRem 7 3; SIns 7 3]) = true /\
  lwwset_contains 7 (lwwset_build [SIns 7 3; SRem 7 4]) = false.
Proof. vm_compute. repeat split. Qed.
