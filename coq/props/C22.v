(* C22 — CRDT merges are associative, commutative and idempotent; LWW reads
   expose the greatest clock; add wins at equal clocks.
   This file contains only theorem statements closed by [exact]. *)
From Coq Require Import Permutation.
From HW Require Import lib.Base lib.SMap model.Crdt proofs.CrdtProofs proofs.CrdtConverge.

(* SLaws S := join preserves the representation invariant and is associative,
   commutative and idempotent on every well-formed value (see CrdtProofs.v). *)
Theorem C22_semilattice_laws :
  SLaws bool_sl /\ SLaws unit_sl /\ SLaws max_sl /\ SLaws min_sl /\ SLaws red_sl /\
  SLaws gset_sl /\ SLaws lwwset_sl /\
  (forall S, SLaws S -> SLaws (option_sl S)) /\
  (forall S, SLaws S -> SLaws (gmap_sl S)) /\
  (forall S, SLaws S -> SLaws (lwwreg_sl S)) /\
  (forall S, SLaws S -> SLaws (lwwmap_sl S)).
Proof.
  exact (conj bool_laws (conj unit_laws (conj max_laws (conj min_laws (conj red_laws
        (conj gset_laws (conj lwwset_laws (conj option_laws (conj gmap_laws
        (conj lwwreg_laws lwwmap_laws)))))))))).
Qed.

(* every value the API can construct (from_iter / insert / remove sequences)
   satisfies the invariant under which the laws are stated *)
Theorem C22_constructible_values_wf :
  (forall S, SLaws S -> forall l, Forall (fun kv => wf S (snd kv)) l ->
     wf (gmap_sl S) (gmap_of_list S l)) /\
  (forall S, SLaws S -> forall ops : list (kwrite S),
     Forall (fun o => option_wf S (snd (snd o))) ops -> wf (lwwmap_sl S) (map_build S ops)).
Proof. exact (conj gmap_of_list_wf map_build_wf). Qed.

(* a register exposes the join of exactly the values written with the
   greatest clock (for any value lattice, any number of writes) *)
Theorem C22_lwwreg_greatest_clock :
  forall S (w0 : N * car S) (ws : list (N * car S)),
  exists v0 vs, winners S w0 ws = v0 :: vs /\
    reg_build S w0 ws = (top_clock S w0 ws, fold_left (join S) vs v0).
Proof. exact lwwreg_greatest_clock. Qed.

Theorem C22_lwwmap_greatest_clock :
  forall S k (ops : list (kwrite S)),
  match writes_on S k ops with
  | [] => lwwmap_get S k (map_build S ops) = None
  | w0 :: ws => exists v0 vs, winners (option_sl S) w0 ws = v0 :: vs /\
        lwwmap_get S k (map_build S ops) = fold_left (option_join S) vs v0
  end.
Proof. exact lwwmap_get_greatest_clock. Qed.

(* insertion wins over removal at equal (greatest) clocks *)
Theorem C22_lwwset_add_wins :
  forall k (ops : list (kwrite unit_sl)),
  lwwset_contains k (map_build unit_sl ops) =
  match writes_on unit_sl k ops with
  | [] => false
  | w0 :: ws => existsb (fun v => match v with Some _ => true | None => false end)
                  (winners (option_sl unit_sl) w0 ws)
  end.
Proof. exact lwwset_add_wins. Qed.

(* the op-list builders used by the correspondence check are instances of the
   generic builder the theorems speak about *)
Theorem C22_builders_are_generic :
  (forall ops, lwwmap_build ops = map_build max_sl (map mop_write ops)) /\
  (forall ops, lwwset_build ops = map_build unit_sl (map sop_write ops)).
Proof. exact (conj lwwmap_build_generic lwwset_build_generic). Qed.

(* Convergence, for every lattice satisfying the laws (hence, by
   C22_semilattice_laws, for every CRDT of the crate and every nesting of them):
   a replica that merges a collection of states ends in a state that depends
   only on the SET of states delivered — any order, any duplication, no bound
   on the number of deliveries. [merge_all S a l] = fold of Semilattice::merge. *)
Theorem C22_merge_order_and_duplication_irrelevant :
  forall S, SLaws S -> forall (l1 l2 : list (car S)) (a : car S),
  wf S a -> Forall (wf S) l1 -> Forall (wf S) l2 ->
  (forall x, In x l1 <-> In x l2) -> merge_all S a l1 = merge_all S a l2.
Proof. exact merge_all_converges. Qed.

Theorem C22_merge_permutation_irrelevant :
  forall S, SLaws S -> forall (l1 l2 : list (car S)) (a : car S),
  wf S a -> Forall (wf S) l1 -> Permutation l1 l2 -> merge_all S a l1 = merge_all S a l2.
Proof. exact merge_all_permutation. Qed.

(* two replicas with different starting states that exchange those and receive
   the same set of further states agree *)
Theorem C22_two_replicas_converge :
  forall S, SLaws S -> forall (a b : car S) (l1 l2 : list (car S)),
  wf S a -> wf S b -> Forall (wf S) l1 -> Forall (wf S) l2 ->
  (forall x, In x l1 <-> In x l2) ->
  merge_all S a (b :: l1) = merge_all S b (a :: l2).
Proof. exact merge_all_two_replicas. Qed.

(* the merged state is the least upper bound of what was delivered:
   [sle S x y] := merging x into y changes nothing *)
Theorem C22_merge_is_least_upper_bound :
  forall S, SLaws S -> forall (l : list (car S)) (a : car S),
  wf S a -> Forall (wf S) l ->
  sle S a (merge_all S a l) /\
  (forall x, In x l -> sle S x (merge_all S a l)) /\
  (forall z, wf S z -> sle S a z -> Forall (fun x => sle S x z) l -> sle S (merge_all S a l) z).
Proof.
  intros S L l a Ha Hl.
  exact (conj (merge_all_ge_start S L l a Ha Hl)
        (conj (fun x Hx => merge_all_ge_elem S L l a x Ha Hl Hx)
              (fun z Hz Haz Hlz => merge_all_least S L l a z Ha Hz Hl Haz Hlz))).
Qed.

(* the same for the crate's LWWSet with no hypothesis left: replicas built by ANY
   insert/remove sequences that receive the same set of such states — any order,
   any duplication — are equal (well-formedness is discharged: every state the
   API can construct is well-formed) *)
Theorem C22_lwwset_replicas_converge :
  forall (a : list sop) (l1 l2 : list (list sop)),
  (forall x, In x l1 <-> In x l2) ->
  merge_all lwwset_sl (lwwset_build a) (map lwwset_build l1)
  = merge_all lwwset_sl (lwwset_build a) (map lwwset_build l2).
Proof. exact lwwset_replicas_converge. Qed.

(* and for the crate's LWWMap with Max values, built by any insert/remove sequences *)
Theorem C22_lwwmap_replicas_converge :
  forall (a : list mop) (l1 l2 : list (list mop)),
  (forall x, In x l1 <-> In x l2) ->
  merge_all (lwwmap_sl max_sl) (lwwmap_build a) (map lwwmap_build l1)
  = merge_all (lwwmap_sl max_sl) (lwwmap_build a) (map lwwmap_build l2).
Proof. exact lwwmap_replicas_converge. Qed.

(* non-vacuity of the convergence theorems: three LWWSet replicas, delivered in
   different orders and with a duplicate *)
Example C22_example_convergence :
  let r1 := lwwset_build [SIns 7 3; SRem 8 1] in
  let r2 := lwwset_build [SRem 7 3; SIns 9 2] in
  let r3 := lwwset_build [SIns 8 1; SRem 9 5] in
  merge_all lwwset_sl r1 [r2; r3] = merge_all lwwset_sl r1 [r3; r2; r3; r2] /\
  merge_all lwwset_sl r1 [r2; r3] = merge_all lwwset_sl r2 [r1; r3] /\
  lwwset_contains 7 (merge_all lwwset_sl r1 [r2; r3]) = true /\
  lwwset_contains 9 (merge_all lwwset_sl r1 [r2; r3]) = false.
Proof. vm_compute. repeat split. Qed.

(* non-vacuity: a concrete equal-clock conflict *)
Example C22_example_add_wins :
  lwwset_contains 7 (lwwset_build [SIns 7 3; SRem 7 3]) = true /\
  lwwset_contains 7 (lwwset_build [SRem 7 3; SIns 7 3]) = true /\
  lwwset_contains 7 (lwwset_build [SIns 7 3; SRem 7 4]) = false.
Proof. vm_compute. repeat split. Qed.
