(* C19 — Identity documents are always valid and bound to the repository id.
   Model: model/Doc.v on top of model/CanonJson.v.  [of_json] is
   RawDoc::from_json(..)?.verified() (= Doc::from_blob, = Deserialize for Doc)
   on the parsed JSON text; DIDs are abstract ([did_parse]/[did_str]); the git
   blob hash is abstract ([blob_hash]); Unicode NFC is abstract ([nfc]).
   This file contains only theorem statements closed by [exact]. *)
From HW Require Import lib.Base model.CanonJson proofs.CanonJsonProofs model.Doc proofs.DocProofs
  proofs.DocRoundtrip.
Local Open Scope N_scope.

(* Every document accepted from JSON (hence from a git blob) has between 1 and
   255 distinct delegates, a threshold between 1 and the number of delegates,
   and the supported version — for every JSON object, every DID syntax. *)
Theorem C19_accepted_docs_valid :
  forall did_parse j d, of_json did_parse j = DOk d ->
  (1 <= length (d_delegates d) <= 255)%nat /\ NoDup (d_delegates d) /\
  1 <= d_threshold d <= N.of_nat (length (d_delegates d)) /\ d_version d = IDENTITY_VERSION.
Proof. exact accepted_docs_valid. Qed.

(* the same for RawDoc::verified on any raw document (Doc::with_edits etc.);
   the delegates of the result are exactly the distinct delegates given *)
Theorem C19_verified_docs_valid :
  forall r d, verified r = DOk d ->
  (1 <= length (d_delegates d) <= 255)%nat /\ NoDup (d_delegates d) /\
  1 <= d_threshold d <= N.of_nat (length (d_delegates d)) /\
  d_version d = r_version r /\ d_payload d = r_payload r /\ d_visibility d = r_visibility r /\
  (forall x, In x (d_delegates d) <-> In x (r_delegates r)).
Proof. exact verified_valid. Qed.

(* Hypotheses of the round-trip theorems: NFC as in C18 and the identity on
   ASCII; DID text parses back to the DID and consists of ASCII characters
   other than controls, space, the exclamation mark, the double quote and the backslash. *)
Definition rt_hyps (nfc : list N -> list N) (did_str : N -> list N) (did_parse : list N -> option N) : Prop :=
  nfc_ok nfc /\ (forall s, Forall (fun c => c < 128) s -> nfc s = s) /\
  (forall d, did_parse (did_str d) = Some d) /\ (forall d, clean (did_str d)).

(* Encoding a valid document and decoding it yields an equal document
   (Doc's PartialEq: payload values compared as serde_json values, objects as
   maps), and the oid is the blob hash of the bytes — for every ENCODABLE
   document: payload ids without characters below '#' or backslash and
   NFC-normalised, payload values whose strings and keys are NFC-normalised,
   no floats.  [wf_doc] is the representation invariant of an in-memory Doc
   (payload a BTreeMap, allow a BTreeSet). *)
Theorem C19_roundtrip :
  forall nfc did_str did_parse blob_hash, rt_hyps nfc did_str did_parse ->
  forall d, valid d -> wf_doc d -> encodable nfc d ->
  exists oid bs j d',
    doc_encode did_str nfc blob_hash d = Some (oid, bs) /\ oid = blob_hash bs /\
    parse bs = Some j /\ of_json did_parse j = DOk d' /\ doc_eqb d' d = true.
Proof. intros nfc ds dp bh (H1 & H2 & H3 & H4). exact (roundtrip nfc H1 H2 ds dp H3 H4 bh). Qed.

(* For every valid document that encodes at all, decoding the bytes yields
   exactly the normal form of its JSON image (strings NFC-normalised, members
   sorted, colliding keys merged) and the oid is the blob hash. *)
Theorem C19_decode_of_encode :
  forall nfc did_str did_parse blob_hash, rt_hyps nfc did_str did_parse ->
  forall d oid bs, valid d -> wf_doc d ->
  doc_encode did_str nfc blob_hash d = Some (oid, bs) ->
  parse bs = Some (norm nfc (to_json did_str d)) /\ oid = blob_hash bs.
Proof. intros nfc ds dp bh (H1 & H2 & H3 & H4). exact (decode_of_encode nfc H1 H2 ds dp H3 H4 bh). Qed.

(* KNOWN CLASS (doc-roundtrip-non-nfc-payload): outside the boundary the round
   trip fails — a valid document whose payload holds U+212B decodes to a
   different document (U+00C5). *)
Theorem C19_roundtrip_refuted_outside_boundary :
  exists d oid bs j d',
    valid d /\ wf_doc d /\
    doc_encode toy_did_str toy_nfc (fun _ => 0) d = Some (oid, bs) /\
    parse bs = Some j /\ of_json toy_did_parse j = DOk d' /\ doc_eqb d' d = false.
Proof.
  exists (mkDoc 1 [([112], Str [8491])] [1] 1 Public).
  eexists. eexists. eexists. eexists.
  split; [unfold valid; simpl; repeat split; try lia; repeat constructor; intros []|].
  split; [unfold wf_doc, scalar; simpl; repeat split; repeat constructor; lia|].
  split; [vm_compute; reflexivity|]. split; [vm_compute; reflexivity|].
  split; vm_compute; reflexivity.
Qed.

(* The repository id produced by Repository::init is the blob hash of the
   canonical encoding of the initial document (blob_hash abstract). *)
Theorem C19_rid_is_blob_hash :
  forall did_str nfc blob_hash d rid bs,
  repo_init did_str nfc blob_hash d = Some (rid, bs) ->
  encode nfc (to_json did_str d) = Some bs /\ rid = blob_hash bs.
Proof. exact rid_is_blob_hash. Qed.

(* non-vacuity: the hypotheses are satisfiable, and there are valid encodable
   documents (private, two delegates, a project-like payload) *)
Example C19_hypotheses_satisfiable : rt_hyps toy_nfc toy_did_str toy_did_parse.
Proof.
  split; [exact toy_nfc_ok|]. split; [exact toy_nfc_ascii|]. exact toy_did_ok.
Qed.

Example C19_example_encodable :
  let d := mkDoc 1 [([120; 121; 122], Obj [([110], Str [104; 119]); ([98], Int 7)])] [2; 1] 2 (Private [3]) in
  valid d /\ wf_doc d /\ encodable toy_nfc d.
Proof.
  unfold valid, wf_doc, encodable, scalar, high_key, high_char; simpl.
  repeat split; try lia; repeat constructor; simpl; try lia; try tauto;
    try (intros [H|H]; [discriminate H|exact H]); try (intros []; lia).
Qed.
