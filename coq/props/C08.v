(* C08 — A patch is merged only by a threshold of agreeing delegates.
   This file contains only theorem statements closed by [exact] (observations
   and examples by computation).

   [orc actor commit] is the repository's answer in the Merge arm: BrOk iff the
   commit is the head of, or an ancestor of, the actor's default branch at
   evaluation time (reference_oid + is_ancestor_of). [p_run] evaluates any list
   of ops, skipping rejected ones as the COB evaluator does; the theorems hold
   for both op-application disciplines [atomic] and for debug/release [dbg]. *)
From HW Require Import lib.Base lib.SMap model.CobThread model.CobIssue model.CobPatch
  proofs.CobThreadProofs proofs.CobIssueProofs proofs.CobPatchProofs proofs.CobMergeProofs.
Local Open Scope N_scope.

(* Invariant of every reachable patch state: if the patch is reported merged at
   (r, c) then some op of the history refers to a document d such that at least
   threshold(d) DISTINCT actors k each have, somewhere in the history, an op
   by k — referring to a document of which k is a delegate — that carries
   Merge(r, c), with c on k's default branch. *)
Theorem C08_merged_needs_threshold :
  forall dbg orc atomic (root : pop) (ops : list pop) p0 p r c,
    p_init dbg orc root = Ok p0 ->
    p_run dbg atomic orc p0 ops = Some p ->
    p_state p = PMerged r c ->
    exists d, In (Some d) (map op_doc (root :: ops)) /\
    exists ks, NoDup ks /\ d_threshold d <= N.of_nat (length ks) /\
      forall k, In k ks ->
        exists o dk, In o (root :: ops) /\ op_actor o = k /\ op_doc o = Some dk /\
                     is_delegate dk k = true /\ In (PMerge r c) (op_actions o) /\ orc k c = BrOk.
Proof. exact merged_needs_threshold. Qed.

(* The transition: the op at which a patch BECOMES merged at (r, c) refers to a
   document d whose threshold is met by distinct backers found in the history
   up to and including that op. *)
Theorem C08_becomes_merged_at_threshold_of_that_op :
  forall dbg orc atomic (root : pop) (pre : list pop) (o : pop) p0 p1 p2 r c,
    p_init dbg orc root = Ok p0 ->
    p_run dbg atomic orc p0 pre = Some p1 ->
    p_step dbg atomic orc p1 o = Some p2 ->
    p_state p2 = PMerged r c -> p_state p1 <> PMerged r c ->
    exists d, op_doc o = Some d /\
    exists ks, NoDup ks /\ d_threshold d <= N.of_nat (length ks) /\
      forall k, In k ks ->
        exists o' dk, In o' (root :: pre ++ [o]) /\ op_actor o' = k /\ op_doc o' = Some dk /\
                      is_delegate dk k = true /\ In (PMerge r c) (op_actions o') /\ orc k c = BrOk.
Proof. exact becomes_merged_at_op. Qed.

(* When the whole history refers to one identity document d (the usual case),
   the backers are distinct delegates of d. *)
Theorem C08_merged_needs_threshold_of_delegates :
  forall dbg orc atomic (root : pop) (ops : list pop) d p0 p r c,
    Forall (fun o => op_doc o = Some d \/ op_doc o = None) (root :: ops) ->
    p_init dbg orc root = Ok p0 ->
    p_run dbg atomic orc p0 ops = Some p ->
    p_state p = PMerged r c ->
    exists ks, NoDup ks /\ d_threshold d <= N.of_nat (length ks) /\
      forall k, In k ks ->
        is_delegate d k = true /\ orc k c = BrOk /\
        exists o, In o (root :: ops) /\ op_actor o = k /\ In (PMerge r c) (op_actions o).
Proof. exact merged_needs_threshold_one_doc. Qed.

(* every entry of the merge table is a delegate's own Merge action that passed
   the branch oracle *)
Theorem C08_recorded_merges_are_delegates_on_branch :
  forall dbg orc atomic (root : pop) (ops : list pop) p0 p k r c,
    p_init dbg orc root = Ok p0 ->
    p_run dbg atomic orc p0 ops = Some p ->
    lookup k (p_merges p) = Some (r, c) ->
    exists o dk, In o (root :: ops) /\ op_actor o = k /\ op_doc o = Some dk /\
                 is_delegate dk k = true /\ In (PMerge r c) (op_actions o) /\ orc k c = BrOk.
Proof. exact merges_backed. Qed.

(* lifecycle actions cannot move a merged patch *)
Theorem C08_lifecycle_cannot_unmerge :
  forall dbg orc p st entry actor d r c,
    p_state p = PMerged r c ->
    exists p', p_action dbg orc p (PLifecycle st) entry actor d = Ok p' /\ p_state p' = PMerged r c.
Proof. exact lifecycle_cannot_unmerge. Qed.

(* more generally: an op without Merge actions (by anyone, accepted or
   rejected) leaves a merged patch merged at the same (r, c) and the merge
   table as it was — in particular redacting the merged revision has no effect
   on them *)
Theorem C08_only_merge_moves_merged :
  forall dbg orc atomic (o : pop) p p' r c,
    forallb (fun a => negb (is_merge a)) (op_actions o) = true ->
    p_state p = PMerged r c ->
    p_step dbg atomic orc p o = Some p' ->
    p_state p' = PMerged r c /\ p_merges p' = p_merges p.
Proof.
  intros dbg orc atomic o p p' r c Hf Hs S.
  apply (only_merge_moves_merged dbg orc atomic o p p' r c Hf Hs).
  unfold p_step in S. destruct (p_apply dbg atomic orc p o) as [x|e x|k]; inversion S; subst;
    [left; reflexivity|right; eexists; reflexivity].
Qed.

(* ------------------------------------------------------------------ non-vacuity *)

Local Definition all_ok : N -> N -> bres := fun _ _ => BrOk.
Local Definition d123 := mkDoc [1; 2; 3] 2.
Local Definition root0 : pop := mkOp 10 4 (Some d123) [PRevision 1; PEdit 1].

(* threshold 2: one delegate's merge does not merge, the second agreeing one
   does; a stranger's merge is rejected; lifecycle afterwards changes nothing *)
Example C08_example_threshold_two :
  match p_init true all_ok root0 with
  | Ok p0 =>
      option_map p_state (p_run true true all_ok p0 [mkOp 11 1 (Some d123) [PMerge 10 5]]) = Some (POpen []) /\
      option_map p_state (p_run true true all_ok p0 [mkOp 11 1 (Some d123) [PMerge 10 5];
                                                     mkOp 12 4 (Some d123) [PMerge 10 5]]) = Some (POpen []) /\
      option_map p_state (p_run true true all_ok p0 [mkOp 11 1 (Some d123) [PMerge 10 5];
                                                     mkOp 12 2 (Some d123) [PMerge 10 6]]) = Some (POpen []) /\
      option_map p_state (p_run true true all_ok p0 [mkOp 11 1 (Some d123) [PMerge 10 5];
                                                     mkOp 12 2 (Some d123) [PMerge 10 5];
                                                     mkOp 13 4 (Some d123) [PLifecycle LArchived];
                                                     mkOp 14 1 (Some d123) [PLifecycle LDraft]]) = Some (PMerged 10 5)
  | _ => False
  end.
Proof. vm_compute. repeat split. Qed.

(* the branch oracle matters: a commit that is not on the delegate's branch is skipped *)
Example C08_example_off_branch_skipped :
  let orc := fun k c => if (k =? 2) && (c =? 5) then BrNo else BrOk in
  match p_init true orc root0 with
  | Ok p0 =>
      option_map p_state (p_run true true orc p0 [mkOp 11 1 (Some d123) [PMerge 10 5];
                                                  mkOp 12 2 (Some d123) [PMerge 10 5]]) = Some (POpen [])
  | _ => False
  end.
Proof. vm_compute. reflexivity. Qed.

(* ------------------------------------------------------------------ observations
   (behaviour of the code that the property does not forbid, stated precisely) *)

(* O1: a later Merge by another delegate can move a merged patch back to Open
   with conflicts (threshold 1, two delegates merging different commits). *)
Theorem C08_observation_later_merge_reopens_with_conflicts :
  let d := mkDoc [1; 2] 1 in
  exists p0, p_init true all_ok (mkOp 10 4 (Some d) [PRevision 1; PEdit 1]) = Ok p0 /\
    option_map p_state (p_run true true all_ok p0 [mkOp 11 1 (Some d) [PMerge 10 5]]) = Some (PMerged 10 5) /\
    option_map p_state (p_run true true all_ok p0 [mkOp 11 1 (Some d) [PMerge 10 5];
                                                   mkOp 12 2 (Some d) [PMerge 10 6]])
      = Some (POpen [(10, 5); (10, 6)]).
Proof. eexists. split; [vm_compute; reflexivity|]. vm_compute. split; reflexivity. Qed.

(* O2: the Merged state is not recomputed when a delegate replaces its merge:
   the patch stays Merged (10,5) although only one of the two required merges
   of (10,5) is still recorded. (Both delegates did record it — the invariant
   above speaks about the history, not the current table.) *)
Theorem C08_observation_merged_survives_replaced_merge :
  exists p0 p, p_init true all_ok root0 = Ok p0 /\
    p_run true true all_ok p0 [mkOp 11 1 (Some d123) [PMerge 10 5];
                               mkOp 12 2 (Some d123) [PMerge 10 5];
                               mkOp 13 1 (Some d123) [PMerge 10 6]] = Some p /\
    p_state p = PMerged 10 5 /\ count_pair (10, 5) (p_merges p) = 1 /\ d_threshold d123 = 2.
Proof. do 2 eexists. split; [vm_compute; reflexivity|]. split; [vm_compute; reflexivity|]. vm_compute. auto. Qed.

(* O3: merges recorded under an earlier identity document keep counting after
   the delegate set changed: actor 1 is no delegate of the document the merging
   op refers to, yet its merge is one of the two that meet that document's
   threshold. (Each backer was a delegate of the document ITS op referred to.) *)
Theorem C08_observation_former_delegate_still_counts :
  let d1 := mkDoc [1; 2] 2 in let d2 := mkDoc [2; 3] 2 in
  exists p0, p_init true all_ok (mkOp 10 4 (Some d1) [PRevision 1; PEdit 1]) = Ok p0 /\
    option_map p_state (p_run true true all_ok p0 [mkOp 11 1 (Some d1) [PMerge 10 5];
                                                   mkOp 12 2 (Some d2) [PMerge 10 5]]) = Some (PMerged 10 5) /\
    is_delegate d2 1 = false.
Proof. eexists. split; [vm_compute; reflexivity|]. vm_compute. split; reflexivity. Qed.
