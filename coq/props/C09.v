(* C09 — The COB cache answers exactly like direct evaluation.
   This file contains only theorem statements closed by [exact]. *)
From HW Require Import lib.Base lib.SMap model.CobCache proofs.CobCacheProofs.
Local Open Scope N_scope.

(* For every history of patch / issue creations and updates (PutP/PutI: any transaction
   through PatchMut/IssueMut), removals (RemoveP/RemoveI, with whatever the repository
   evaluates to afterwards: None, or Some object when another peer still holds it),
   fetched updates (Fetch: any list of changed objects, each with its value after the
   fetch) and write_all, every query on the cache returns Ok of what direct evaluation
   of the repository returns:
   get, list (patches: in id order; issues: as a set), list_by_status for every status,
   counts, and find_by_revision for ANY id (revision, redacted revision, comment,
   review comment, stale, unknown).  `wf_store`: ids are content addresses (own id is a
   revision key, a revision id belongs to one patch, no duplicate keys). *)
Theorem C09_cache_refines_store :
  forall h : list step,
  let s := run_steps h in
  let tp := kv_table (st_p s) in let sp := kv_store (st_p s) in
  let ti := kv_table (st_i s) in let si := kv_store (st_i s) in
  (forall id, c_get parse_patch tp id = ROk (lookup id sp)) /\
  cp_list tp = ROk sp /\
  (forall st, cp_list_by tp st = ROk (dp_list_by sp st)) /\
  (exists c, cp_counts tp = ROk c /\ pc_tuple c = pc_tuple (dp_counts sp)) /\
  (wf_store sp -> forall rev, cp_find tp rev = ROk (dp_find sp rev)) /\
  (forall id, c_get parse_issue ti id = ROk (lookup id si)) /\
  (exists l, ci_list ti = ROk l /\ sort_pairs l = si) /\
  (forall st, ci_list_by ti st = ROk (di_list_by si st)) /\
  ci_counts ti = ROk (di_counts si).
Proof. exact cache_refines_store. Qed.

(* the invariant behind it: after any history the table holds exactly the serialisation
   of every object the repository evaluates to — no stale, missing or outdated row *)
Theorem C09_table_is_image_of_store :
  forall h : list step,
  let s := run_steps h in
  (forall id, find_row id (kv_table (st_p s)) = option_map ser_patch (lookup id (kv_store (st_p s)))) /\
  (forall id, find_row id (kv_table (st_i s)) = option_map ser_issue (lookup id (kv_store (st_i s)))) /\
  NoDup (ids (kv_table (st_p s))) /\ NoDup (ids (kv_table (st_i s))).
Proof. exact table_is_image. Qed.

(* the abstraction function: deserialising what was serialised gives the object back *)
Theorem C09_parse_ser :
  (forall p, parse_patch (ser_patch p) = Some p) /\
  (forall r, parse_revision (ser_revision r) = Some r) /\
  (forall i, parse_issue (ser_issue i) = Some i).
Proof. exact (conj parse_patch_ser (conj parse_revision_ser parse_issue_ser)). Qed.

(* non-vacuity: a history (updates, a fetch that creates and deletes, write_all, a removal
   of a patch another peer still holds) whose store satisfies wf_store, with a revision that
   has a comment, a reviewed revision with a review comment, a redacted comment and a
   redacted revision; find_by_revision answers for each kind of id *)
Example C09_example_wf : wf_store (kv_store (st_p (run_steps ex_history))).
Proof. exact ex_history_wf. Qed.
Example C09_example_find :
  cp_find (kv_table (st_p (run_steps ex_history))) 1 = ROk (Some (1, ex_patch1, ex_rev1)) /\
  cp_find (kv_table (st_p (run_steps ex_history))) 2 = ROk None /\
  cp_find (kv_table (st_p (run_steps ex_history))) 5 = ROk None /\
  cp_find (kv_table (st_p (run_steps ex_history))) 6 = ROk None /\
  cp_find (kv_table (st_p (run_steps ex_history))) 7 = ROk None.
Proof. exact ex_history_find. Qed.

(* The three statements as they were before the fixes (radicle b69853b, d9a762a, 27f2274),
   each refuted by the same witness history (replayed on the real code before the fix). *)

(* json_tree(patch,'$.revisions') matching the key at any depth, no type filter:
   comment ids give Err, redacted revision / comment ids panic; direct evaluation: None *)
Theorem C09_old_find_by_revision_refuted :
  let t := kv_table (st_p (run_steps ex_history)) in
  let s := kv_store (st_p (run_steps ex_history)) in
  wf_store s /\
  cp_find_tree t 5 = RErr /\ cp_find_tree t 6 = RErr /\ dp_find s 5 = None /\ dp_find s 6 = None /\
  cp_find_tree t 2 = RPanic /\ cp_find_tree t 7 = RPanic /\ dp_find s 2 = None /\ dp_find s 7 = None.
Proof. exact old_find_by_revision_refuted. Qed.

(* issues list_by_status without the close reason: `solved` returned every closed issue *)
Theorem C09_old_issue_list_by_status_refuted :
  let t := kv_table (st_i (run_steps ex_history)) in
  let s := kv_store (st_i (run_steps ex_history)) in
  ci_list_by_old t (IClosed true) = ROk s /\ length s = 2%nat /\
  length (di_list_by s (IClosed true)) = 1%nat.
Proof. exact old_issue_list_by_status_refuted. Qed.

(* Cache::remove deleting the row unconditionally: the object still evaluates (another
   peer holds it) but the cache has lost it; the fixed code keeps it *)
Theorem C09_old_remove_refuted :
  let s := fold_left apply_step_old ex_history state0 in
  lookup 3 (kv_store (st_p s)) = Some ex_patch3 /\
  c_get parse_patch (kv_table (st_p s)) 3 = ROk None /\
  c_get parse_patch (kv_table (st_p (run_steps ex_history))) 3 = ROk (Some ex_patch3).
Proof. exact old_remove_refuted. Qed.
