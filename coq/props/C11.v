(* C11 — Private repositories never leak through gossip.
   [confined c p a path] := a_kind a = KRefs ->
       match lookup (a_rid a) (c_storage c) with
       | Some d => visible d p = true        (p is a delegate / on the allow list, or the repo is public)
       | None => path = PReplay              (KNOWN FINDING, see below)
       end
   [own_inv_public c a] := a_node a = me -> a_kind a = KInv -> every rid in a_inv a is a
       public repository of the local storage. *)
From HW Require Import lib.Base lib.SMap model.Gossip proofs.GossipProofs.
Local Open Scope N_scope.

(* every refs announcement written to a peer, by any path (own announcement,
   immediate relay, relay at the gossip tick, replay to a subscriber), in any
   state whatsoever — no invariant is needed *)
Theorem C11_refs_confined_every_step :
  forall c s e s' o, step c s e = Ok s' o ->
  forall p a pth, In (OWrite p a pth) o -> confined c p a pth.
Proof. exact step_refs_confined. Qed.

(* whole traces, including traces in which identity documents change between
   events (ESetDoc, e.g. public -> private) and the node restarts (ERestart):
   every step is judged against the documents in force at that step
   ([all_confined], proofs/GossipProofs.v) *)
Theorem C11_refs_confined_every_trace :
  forall es c s, all_confined c s es.
Proof. exact run_refs_confined. Qed.

(* inventory announcements under our name list public local repositories only,
   for every trace with static identity documents whose AddInventory commands
   respect their precondition (radicle-cli only issues it for public repositories) *)
Theorem C11_inventory_public_only :
  forall c now nts inv known0 es s' os, sorted (c_storage c) ->
  (forall rid, In rid inv -> public c rid) -> Forall (fun e => cmd_ok c e /\ no_setdoc e) es ->
  run c (init_state c now nts inv known0) es = Some (s', os) ->
  forall o p a pth, In o os -> In (OWrite p a pth) o -> own_inv_public c a.
Proof.
  exact (fun c now nts inv known0 es s' os Hcs Hinv Hcmd Hrun =>
    run_inventory_public c Hcs es _ s' os
      (proj1 (proj2 (init_state_inv29 c now nts inv known0)))
      (init_state_invpub c now nts inv known0 Hinv) Hcmd Hrun).
Qed.

(* when documents do change: a restart rebuilds the cached inventory from the
   documents in force, whatever state the node was in *)
Theorem C11_restart_rebuilds_inventory_from_current_documents :
  forall c s s' o, sorted (c_storage c) -> step c s ERestart = Ok s' o ->
  forall rid, In rid (inv_rids s') -> public c rid.
Proof. exact restart_inventory_public. Qed.

(* KNOWN FINDING (class c11-inventory-lists-repo-made-private): between a
   visibility change public -> private and the next restart (and, for the stored
   copy of the last inventory announcement, until it is replaced) the node keeps
   announcing the repository in its inventory.  Witness: *)
Definition c11_pub_cfg := mkCfg 0 true [(4, mkDoc true [])] [4] [].
Theorem C11_inventory_after_going_private_witness :
  exists s os, run c11_pub_cfg (init_state c11_pub_cfg 1000 1001 [4] [0])
                 [ESetDoc 4 (mkDoc false []); EConnect 1] = Some (s, os) /\
    In [OWrite 1 (mkAnn 0 KNode 0 1001 true [] false true) PInitial;
        OWrite 1 (mkAnn 0 KInv 0 1002 true [4] false false) PInitial] os.
Proof.
  destruct (run c11_pub_cfg _ _) as [[s os]|] eqn:E; vm_compute in E; [|discriminate].
  inversion E; subst; clear E. eexists; eexists; split; [reflexivity|]. cbn; auto 10.
Qed.

(* KNOWN FINDING (class c11-refs-leak-repo-absent-from-storage): a stored refs
   announcement about a repository that is NOT in local storage is replayed to
   any subscriber, because without the identity document the node cannot tell
   whether the repository is private (Service::relay refuses in that case; the
   Subscribe handler does not).  Witness: *)
Definition c11_cfg := mkCfg 0 true [] [] [].
Definition c11_refs7 := mkAnn 3 KRefs 7 1000 true [] true false.
Theorem C11_replay_of_unknown_repo_witness :
  exists s os, run c11_cfg (init_state c11_cfg 1000 1001 [] [0; 3])
                 [EConnect 1; ERecvAnn 1 c11_refs7; EConnect 2; ERecvSub 2 SubAll 0 5000] = Some (s, os) /\
    lookup 7 (c_storage c11_cfg) = None /\ In [OWrite 2 c11_refs7 PReplay] os.
Proof.
  destruct (run c11_cfg _ _) as [[s os]|] eqn:E; vm_compute in E; [|discriminate].
  inversion E; subst; clear E. eexists; eexists; split; [reflexivity|]. split; cbn; auto 10.
Qed.

(* non-vacuity: a private repository's refs reach exactly the allowed subscriber *)
Example C11_example :
  let c := mkCfg 0 true [(4, mkDoc false [2])] [4] [4] in
  match run c (init_state c 1000 1001 [] [0])
          [EConnect 1; EConnect 2; ERecvSub 1 SubAll 0 9000; ERecvSub 2 SubAll 0 9000; ECmdAnnounceRefs 4] with
  | Some (_, os) => nth 4 os [] = [ODraw 1003; OWrite 2 (mkAnn 0 KRefs 4 1003 true [] true false) POwn]
  | None => False
  end.
Proof. vm_compute. reflexivity. Qed.
