(* C20 — Signed refs text round-trips and signatures bind exactly what is
   accepted: for every set of valid reference names and non-zero object ids the
   canonical signed-refs text parses back to the same set; verification
   succeeds only when the signature is by the claimed key over the canonical
   text of exactly the refs that are then accepted; changing any ref, object id
   or key makes verification fail.
   This file contains only theorem statements closed by [exact]. *)
From HW Require Import lib.Base model.SigRefs proofs.SigRefsProofs.
Local Open Scope N_scope.

(* refs_wf r: strictly sorted by name (BTreeMap order), every name accepted by
   RefString (name_ok) and valid UTF-8, every oid 20 bytes and non-zero *)
Theorem C20_roundtrip :
  forall r, refs_wf r -> from_canonical (canonical r) = Ok r.
Proof. exact roundtrip. Qed.

Theorem C20_canonical_injective :
  forall r1 r2, refs_wf r1 -> refs_wf r2 -> canonical r1 = canonical r2 -> r1 = r2.
Proof. exact canonical_injective. Qed.

(* whatever blob the parser accepts (CRLF, missing final newline, shuffled or
   duplicate lines, zero-oid lines, short or upper-case oids ...), the accepted
   set is well-formed, so its canonical text parses back to exactly it *)
Theorem C20_accepted_refs_wf :
  forall blob r, from_canonical blob = Ok r ->
  refs_wf r /\ from_canonical (canonical r) = Ok r.
Proof. exact (fun blob r H => conj (from_canonical_wf blob r H) (accepted_refs_roundtrip blob r H)). Qed.

(* Signature binding, for ANY signature scheme that is ideal in the sense
     verify pk m s = true <-> s = sign pk m      (correct and unforgeable)
     sign pk m = sign pk' m' -> pk = pk' /\ m = m'   (signatures do not collide)
   and any identity-root check of the repository. *)
Theorem C20_verify_binds :
  forall (sigT : Type) (sign : list N -> list N -> sigT)
         (verify_sig : list N -> list N -> sigT -> bool) (root_check : oid -> bool),
  (forall pk m s, verify_sig pk m s = true <-> s = sign pk m) ->
  (forall pk m pk' m', sign pk m = sign pk' m' -> pk = pk' /\ m = m') ->
  (* the honest signature over the canonical text verifies *)
  (forall pk r, root_ok root_check r ->
     verify_refs sigT verify_sig root_check pk r (sign pk (canonical r)) = VOk) /\
  (* a signature verifies for at most one (key, ref set) *)
  (forall pk pk' r r' s, refs_wf r -> refs_wf r' ->
     verify_refs sigT verify_sig root_check pk r s <> VErrSig ->
     verify_refs sigT verify_sig root_check pk' r' s <> VErrSig -> pk = pk' /\ r = r') /\
  (* any change of key or of the ref set makes verification fail *)
  (forall pk pk' r r', refs_wf r -> refs_wf r' -> pk' <> pk \/ r' <> r ->
     verify_refs sigT verify_sig root_check pk' r' (sign pk (canonical r)) = VErrSig).
Proof.
  exact (fun sigT sign verify_sig root_check Hv Hi =>
    conj (verify_accepts_signed sigT sign verify_sig root_check Hv)
   (conj (verify_binds sigT sign verify_sig root_check Hv Hi)
         (any_change_rejected sigT sign verify_sig root_check Hv Hi))).
Qed.

(* the single-point changes named in the property *)
Theorem C20_single_change_rejected :
  forall (sigT : Type) (sign : list N -> list N -> sigT)
         (verify_sig : list N -> list N -> sigT -> bool) (root_check : oid -> bool),
  (forall pk m s, verify_sig pk m s = true <-> s = sign pk m) ->
  (forall pk m pk' m', sign pk m = sign pk' m' -> pk = pk' /\ m = m') ->
  (forall pk r n o o', refs_wf r -> entry_wf (n, o') -> rlookup n r = Some o -> o' <> o ->
     verify_refs sigT verify_sig root_check pk (rinsert n o' r) (sign pk (canonical r)) = VErrSig) /\
  (forall pk r n o, refs_wf r -> entry_wf (n, o) -> rlookup n r = None ->
     verify_refs sigT verify_sig root_check pk (rinsert n o r) (sign pk (canonical r)) = VErrSig) /\
  (forall pk r n o, refs_wf r -> rlookup n r = Some o ->
     verify_refs sigT verify_sig root_check pk (rremove n r) (sign pk (canonical r)) = VErrSig) /\
  (forall pk pk' r, refs_wf r -> pk' <> pk ->
     verify_refs sigT verify_sig root_check pk' r (sign pk (canonical r)) = VErrSig).
Proof.
  exact (fun sigT sign verify_sig root_check Hv Hi =>
    conj (oid_change_rejected sigT sign verify_sig root_check Hv Hi)
   (conj (ref_added_rejected sigT sign verify_sig root_check Hv Hi)
   (conj (ref_removed_rejected sigT sign verify_sig root_check Hv Hi)
         (key_change_rejected sigT sign verify_sig root_check Hv Hi)))).
Qed.

(* loading (parse the refs blob, then verify): what is accepted is exactly the
   parsed set, it is well-formed, and the signature is the claimed key's
   signature over the canonical text of THAT set (not over the blob); a
   signature made by pk over canonical(r0) lets only (pk, r0) through, whatever
   blob accompanies it; and every blob that parses to r0 is accepted with it. *)
Theorem C20_load_accepts_exactly_signed :
  forall (sigT : Type) (sign : list N -> list N -> sigT)
         (verify_sig : list N -> list N -> sigT -> bool) (root_check : oid -> bool),
  (forall pk m s, verify_sig pk m s = true <-> s = sign pk m) ->
  (forall pk m pk' m', sign pk m = sign pk' m' -> pk = pk' /\ m = m') ->
  (forall pk blob so r, load sigT verify_sig root_check pk blob so = Accepted r ->
     exists s, so = Some s /\ from_canonical blob = Ok r /\ refs_wf r /\
               s = sign pk (canonical r) /\ root_ok root_check r) /\
  (forall pk pk' blob r0 r, refs_wf r0 ->
     load sigT verify_sig root_check pk' blob (Some (sign pk (canonical r0))) = Accepted r ->
     pk' = pk /\ r = r0) /\
  (forall pk blob r, from_canonical blob = Ok r -> root_ok root_check r ->
     load sigT verify_sig root_check pk blob (Some (sign pk (canonical r))) = Accepted r) /\
  (forall pk r, refs_wf r -> root_ok root_check r ->
     load sigT verify_sig root_check pk (canonical r) (Some (sign pk (canonical r))) = Accepted r).
Proof.
  exact (fun sigT sign verify_sig root_check Hv Hi =>
    conj (load_sound sigT sign verify_sig root_check Hv)
   (conj (load_binds sigT sign verify_sig root_check Hv Hi)
   (conj (load_complete sigT sign verify_sig root_check Hv)
         (load_canonical sigT sign verify_sig root_check Hv)))).
Qed.

(* non-vacuity: the ideal-signature hypotheses are satisfiable (the scheme used
   by the correspondence run), and well-formed ref sets exist *)
Example C20_example_ideal_scheme :
  (forall pk m s, iverify pk m s = true <-> s = isign pk m) /\
  (forall pk m pk' m', isign pk m = isign pk' m' -> pk = pk' /\ m = m').
Proof. exact (conj ideal_verify_spec ideal_sign_inj). Qed.

Definition ex_refs : refs :=
  [ ([114; 101; 102; 115; 47; 104; 101; 97; 100; 115; 47; 109; 97; 105; 110],          (* refs/heads/main *)
     [1; 2; 3; 4; 5; 6; 7; 8; 9; 10; 11; 12; 13; 14; 15; 16; 17; 18; 19; 20]);
    ([114; 101; 102; 115; 47; 114; 97; 100; 47; 105; 100],                                (* refs/rad/id *)
     [0; 0; 0; 0; 0; 0; 0; 0; 0; 0; 0; 0; 0; 0; 0; 0; 0; 0; 0; 255]) ].

Example C20_example_refs_wf : refs_wf ex_refs /\ from_canonical (canonical ex_refs) = Ok ex_refs.
Proof.
  split; [|vm_compute; reflexivity].
  split.
  - repeat constructor.
  - repeat constructor; try (vm_compute; reflexivity); cbn; lia.
Qed.
