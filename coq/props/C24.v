(* C24 — Node databases behave like their simple models.
   Model: coq/model/Stores.v (every SQL statement of the routing / repo-sync-status /
   refs / following / seeding / announcements stores as a function on row lists in
   rowid order).  [wf] = every table's UNIQUE/PRIMARY KEY holds and rowids are unique;
   it holds in every reachable state (C24_reachable_wf), so the theorems below apply
   after ANY operation sequence.  This file contains only statements closed by [exact]. *)
From HW Require Import lib.Base model.Stores proofs.StoresProofs proofs.StoresRefine.
Local Open Scope N_scope.

(* key uniqueness is an invariant of every operation, hence of every history *)
Theorem C24_reachable_wf :
  wf empty /\ (forall s o, wf s -> wf (fst (step s o))) /\ (forall ops s, wf s -> wf (exec s ops)).
Proof. exact (conj wf_empty (conj step_wf (fun ops s => exec_wf ops s))). Qed.

(* routing: an entry's timestamp only increases — per step, and along any run during
   which the (repo, node) entry is not deleted *)
Theorem C24_routing_ts_monotone :
  (forall s o k t t', wf s -> tget k2_eqb k (routing s) = Some t ->
     tget k2_eqb k (routing (fst (step s o))) = Some t' -> t <= t') /\
  (forall ops s k t, wf s -> tget k2_eqb k (routing s) = Some t -> present_along k s ops ->
     exists t', tget k2_eqb k (routing (exec s ops)) = Some t' /\ t <= t').
Proof. exact (conj routing_step_monotone routing_ts_monotone). Qed.

(* routing prune: the local node's entries stay; only entries older than the cutoff are
   removed, at most `limit`, oldest first, all of them when the limit allows; the
   returned count is the number removed; nothing else changes; errors leave the state alone *)
Theorem C24_prune_spares_local :
  forall s oldest limit ignore, wf s ->
  let lim := match limit with Some l => l | None => I64_MAX end in
  let sr := step s (RPrune oldest limit ignore) in
  match snd sr with
  | RErr e => fst sr = s /\ (I64_MAX < lim /\ e = EOverflow \/ lim <= I64_MAX /\ I64_MAX < oldest /\ e = EBind)
  | RNum n =>
      lim <= I64_MAX /\ oldest <= I64_MAX /\
      (forall rid t, tget k2_eqb (rid, ignore) (routing s) = Some t ->
                     tget k2_eqb (rid, ignore) (routing (fst sr)) = Some t) /\
      (forall k t, tget k2_eqb k (routing (fst sr)) = Some t -> tget k2_eqb k (routing s) = Some t) /\
      (forall k t, tget k2_eqb k (routing s) = Some t -> tget k2_eqb k (routing (fst sr)) = None ->
                   t < oldest /\ snd k <> ignore) /\
      n = lenN (routing s) - lenN (routing (fst sr)) /\ n <= lim /\
      lenN (routing (fst sr)) <= lenN (routing s) /\
      (forall k t k' t', tget k2_eqb k (routing s) = Some t -> tget k2_eqb k (routing (fst sr)) = None ->
          tget k2_eqb k' (routing (fst sr)) = Some t' -> snd k' <> ignore -> t' < oldest -> t <= t') /\
      (lenN (filter (fun r => N.ltb (snd r) oldest) (routing s)) <= lim ->
         forall k t, tget k2_eqb k (routing s) = Some t -> t < oldest -> snd k <> ignore ->
                     tget k2_eqb k (routing (fst sr)) = None) /\
      nodes (fst sr) = nodes s /\ sync (fst sr) = sync s /\ refs (fst sr) = refs s /\
      following (fst sr) = following s /\ seeding (fst sr) = seeding s /\ gossip (fst sr) = gossip s
  | _ => False
  end.
Proof. exact prune_spec. Qed.

(* repository sync status: a row only moves to a strictly newer timestamp AND a different
   head — whatever the operation; exact effect / return value of `synced` *)
Theorem C24_sync_strictly_newer_and_different :
  (forall s o k v v', wf s -> tget k2_eqb k (sync s) = Some v ->
     tget k2_eqb k (sync (fst (step s o))) = Some v' ->
     v' = v \/ (snd v < snd v' /\ fst v <> fst v')) /\
  (forall ops s k v, wf s -> tget k2_eqb k (sync s) = Some v -> sync_present_along k s ops ->
     exists v', tget k2_eqb k (sync (exec s ops)) = Some v' /\ (v' = v \/ snd v < snd v')) /\
  (forall s rid nid head ts,
     let sr := step s (SSynced rid nid head ts) in
     let old := tget k2_eqb (rid, nid) (sync s) in
     match snd sr with
     | RErr e => fst sr = s /\ (I64_MAX < ts /\ e = EBind \/
                   ts <= I64_MAX /\ old = None /\ tmem N.eqb nid (nodes s) = false /\ e = EFk)
     | RBool true =>
         ts <= I64_MAX /\
         (old = None /\ tmem N.eqb nid (nodes s) = true \/
          exists h t, old = Some (h, t) /\ t < ts /\ h <> head) /\
         (forall k, tget k2_eqb k (sync (fst sr)) =
                    if k2_eqb k (rid, nid) then Some (head, ts) else tget k2_eqb k (sync s))
     | RBool false => fst sr = s /\ exists h t, old = Some (h, t) /\ (ts <= t \/ h = head)
     | _ => False
     end).
Proof. exact (conj sync_step_rule (conj sync_ts_monotone synced_spec)). Qed.

(* cached refs: same rule *)
Theorem C24_refs_strictly_newer_and_different :
  (forall s o k v v', wf s -> tget k3_eqb k (refs s) = Some v ->
     tget k3_eqb k (refs (fst (step s o))) = Some v' ->
     v' = v \/ (snd v < snd v' /\ fst v <> fst v')) /\
  (forall ops s k v, wf s -> tget k3_eqb k (refs s) = Some v -> refs_present_along k s ops ->
     exists v', tget k3_eqb k (refs (exec s ops)) = Some v' /\ (v' = v \/ snd v < snd v')) /\
  (forall s repo ns rf oid ts,
     let sr := step s (FSet repo ns rf oid ts) in
     let old := tget k3_eqb (repo, ns, rf) (refs s) in
     match snd sr with
     | RPanic p => fst sr = s /\ U64_LIM <= ts /\ p = PLocalTimeMillis
     | RErr e => fst sr = s /\ ts < U64_LIM /\ I64_MAX < ts /\ e = ETimestamp
     | RBool true =>
         ts <= I64_MAX /\
         (old = None \/ exists o t, old = Some (o, t) /\ t < ts /\ o <> oid) /\
         (forall k, tget k3_eqb k (refs (fst sr)) =
                    if k3_eqb k (repo, ns, rf) then Some (oid, ts) else tget k3_eqb k (refs s))
     | RBool false => fst sr = s /\ exists o t, old = Some (o, t) /\ (ts <= t \/ o = oid)
     | _ => False
     end).
Proof. exact (conj refs_step_rule (conj refs_ts_monotone fset_spec)). Qed.

(* policies: last write per column wins — for any earlier history [s] and any later
   operations that do not write that column of that row (or delete the row) *)
Theorem C24_policy_last_write_per_column :
  (forall s id a ops, forallb (fun o => negb (writes_alias id o)) ops = true ->
     alias_of (exec s (PFollow id a :: ops)) id = Some a) /\
  (forall s id p ops, forallb (fun o => negb (writes_fpolicy id o)) ops = true ->
     fpolicy_of (exec s (PSetFollow id p :: ops)) id = Some p) /\
  (forall s id sc ops, forallb (fun o => negb (writes_scope id o)) ops = true ->
     scope_of (exec s (PSeed id sc :: ops)) id = Some sc) /\
  (forall s id p ops, forallb (fun o => negb (writes_spolicy id o)) ops = true ->
     spolicy_of (exec s (PSetSeed id p :: ops)) id = Some p).
Proof. exact policy_last_write_per_column. Qed.

(* the column an upsert does not name keeps its value (schema default on a fresh row):
   in particular `seed` after `block` leaves the row blocked *)
Theorem C24_policy_other_column_kept :
  (forall s id a, fpolicy_of (fst (step s (PFollow id a))) id =
                  Some (match fpolicy_of s id with Some p => p | None => Allow end)) /\
  (forall s id p, alias_of (fst (step s (PSetFollow id p))) id =
                  Some (match alias_of s id with Some a => a | None => 0 end)) /\
  (forall s id sc, spolicy_of (fst (step s (PSeed id sc))) id =
                   Some (match spolicy_of s id with Some p => p | None => Allow end)) /\
  (forall s id p, scope_of (fst (step s (PSetSeed id p))) id =
                  Some (match scope_of s id with Some sc => sc | None => Followed end)).
Proof. exact policy_other_column. Qed.

Theorem C24_policy_delete_wins :
  (forall s id ops, forallb (fun o => negb (creates_following id o)) ops = true ->
     tget N.eqb id (following (exec s (PUnfollow id :: ops))) = None) /\
  (forall s id ops, forallb (fun o => negb (creates_seeding id o)) ops = true ->
     tget N.eqb id (seeding (exec s (PUnseed id :: ops))) = None).
Proof. exact policy_delete_wins. Qed.

(* gossip: a stored announcement keeps its rowid and is replaced only by `announced` with a
   strictly newer timestamp for the same (node, repo, type) key *)
Theorem C24_gossip_replaced_only_by_newer_same_kind :
  (forall s o k r r', wf s -> tget k3_eqb k (gossip s) = Some r ->
     tget k3_eqb k (gossip (fst (step s o))) = Some r' ->
     g_id r' = g_id r /\
     (gcontent r' = gcontent r \/
      (g_ts r < g_ts r' /\ g_relay r' = g_relay r /\
       exists nid kd, gkey nid kd = k /\ o = GAnnounced nid kd (g_msg r') (g_sig r') (g_ts r')))) /\
  (forall nid kd nid' kd', gkey nid kd = gkey nid' kd' <->
     nid = nid' /\ akind_type kd = akind_type kd' /\ akind_repo kd = akind_repo kd') /\
  (forall ops s k r, wf s -> tget k3_eqb k (gossip s) = Some r -> gossip_present_along k s ops ->
     exists r', tget k3_eqb k (gossip (exec s ops)) = Some r' /\ g_id r' = g_id r /\
                (gcontent r' = gcontent r \/ g_ts r < g_ts r')).
Proof. exact (conj gossip_step_rule (conj gkey_inj gossip_ts_monotone)). Qed.

(* `announced` returns the rowid exactly when the row was inserted or replaced, None exactly
   when a stored announcement of the key is at least as new; zero timestamp panics *)
Theorem C24_gossip_announced_returns_rowid :
  forall s nid kd msg sg ts,
  let sr := step s (GAnnounced nid kd msg sg ts) in
  let key := gkey nid kd in
  let old := tget k3_eqb key (gossip s) in
  match snd sr with
  | RPanic p => fst sr = s /\ ts = 0 /\ p = PAnnouncedZero
  | RErr e => fst sr = s /\ ts <> 0 /\ I64_MAX < ts /\ e = EBind
  | ROptN None => fst sr = s /\ exists r, old = Some r /\ ts <= g_ts r
  | ROptN (Some id) =>
      0 < ts /\ ts <= I64_MAX /\
      (forall k, tget k3_eqb k (gossip (fst sr)) =
         if k3_eqb k key
         then Some {| g_id := id; g_msg := msg; g_sig := sg; g_ts := ts;
                      g_relay := match old with Some r => g_relay r | None => DontRelay end |}
         else tget k3_eqb k (gossip s)) /\
      match old with
      | Some r => id = g_id r /\ g_ts r < ts
      | None => forall k r, tget k3_eqb k (gossip s) = Some r -> g_id r < id
      end
  | _ => False
  end.
Proof. exact announced_spec. Qed.

Theorem C24_gossip_prune_and_rowids :
  (forall s cutoff, wf s ->
     let sr := step s (GPrune cutoff) in
     match snd sr with
     | RErr e => fst sr = s /\ I64_MAX < cutoff /\ e = EBind
     | RNum n =>
         cutoff <= I64_MAX /\
         (forall k r, tget k3_eqb k (gossip (fst sr)) = Some r <->
                      (tget k3_eqb k (gossip s) = Some r /\ cutoff <= g_ts r)) /\
         n = lenN (gossip s) - lenN (gossip (fst sr))
     | _ => False
     end) /\
  (forall s k1 r1 k2 r2, wf s -> tget k3_eqb k1 (gossip s) = Some r1 ->
     tget k3_eqb k2 (gossip s) = Some r2 -> g_id r1 = g_id r2 -> k1 = k2).
Proof. exact (conj gossip_prune_spec gossip_rowid_unique). Qed.

(* every failing call (sql bind / foreign key / overflow error, or a panic) leaves every
   table exactly as it was — including add_inventory, whose transaction is rolled back *)
Theorem C24_failures_change_nothing :
  forall s o, (exists e, snd (step s o) = RErr e) \/ (exists p, snd (step s o) = RPanic p) ->
              fst (step s o) = s.
Proof. exact failure_leaves_state. Qed.

(* refinement: read as plain finite maps (key -> row), the stores after ANY operation
   sequence equal the fold of the map-level specification [mstep] (StoresRefine.v: ordinary
   map update / delete / filter per statement) over that sequence.  [mstep] is a function of
   the map contents only ([mstep_ext]) and of two choices made below the map level, which the
   theorems above pin down: the rowid of a fresh announcement row and the victims of a prune. *)
Theorem C24_stores_refine_maps :
  (forall ops s, wf s -> meq (abs (exec s ops)) (mexec s (abs s) ops)) /\
  (forall s o, wf s -> meq (abs (fst (step s o))) (mstep (fresh_of s) (victim_of s o) (abs s) o)) /\
  (forall fresh victim m m' o, meq m m' -> meq (mstep fresh victim m o) (mstep fresh victim m' o)).
Proof. exact (conj stores_refine_maps (conj step_refines mstep_ext)). Qed.

(* non-vacuity: concrete histories exercising the hypotheses / branches *)
Example C24_example_routing :
  (* newer timestamp updates, older is ignored, prune spares node 0 and honours the limit *)
  run [NInsert 0 1; NInsert 1 1; RAdd [1; 2] 0 5; RAdd [1] 1 3; RAdd [2] 1 4; RAdd [1] 1 2; RAdd [1] 0 7;
       RPrune 6 (Some 1) 0; REntry 1 1; REntry 2 1; REntry 2 0] =
  {| o_rets := [RBool true; RBool true; RIns [(1, SeedAdded); (2, SeedAdded)]; RIns [(1, SeedAdded)];
                RIns [(2, SeedAdded)]; RIns [(1, NotUpdated)]; RIns [(1, TimeUpdated)];
                RNum 1; ROptN None; ROptN (Some 4); ROptN (Some 5)];
     o_final := {| nodes := [(0, 1); (1, 1)]; routing := [((1, 0), 7); ((2, 0), 5); ((2, 1), 4)];
                   sync := []; refs := []; following := []; seeding := []; gossip := [] |} |}.
Proof. vm_compute. reflexivity. Qed.

Example C24_example_policy_and_gossip :
  run [PSetSeed 1 Block; PSeed 1 All; PSeedPolicy 1;
       GAnnounced 0 ANode 1 1 5; GAnnounced 0 ANode 2 2 5; GAnnounced 0 ANode 3 3 6; GAnnounced 0 AInv 4 4 1;
       GPrune 6; GAnnounced 1 ANode 5 5 9; GAnnounced 0 ANode 0 0 0] =
  {| o_rets := [RBool true; RBool true; ROptSeed (Some SBlock);
                ROptN (Some 1); ROptN None; ROptN (Some 1); ROptN (Some 2);
                RNum 1; ROptN (Some 2); RPanic PAnnouncedZero];
     o_final := {| nodes := []; routing := []; sync := []; refs := []; following := [];
                   seeding := [(1, (All, Block))];
                   gossip := [((0, 0, 1), {| g_id := 1; g_msg := 3; g_sig := 3; g_ts := 6; g_relay := DontRelay |});
                              ((1, 0, 1), {| g_id := 2; g_msg := 5; g_sig := 5; g_ts := 9; g_relay := DontRelay |})] |} |}.
Proof. vm_compute. reflexivity. Qed.
