(* C05 — Collaborative object state is a function of the change set.
   Only theorem statements closed by [exact] (and Examples showing the
   hypotheses are satisfiable).

   Vocabulary (model/ChangeGraph.v, proofs/ChangeGraphBuild.v, ChangeGraphEval.v):
     cstore P          the change storage: id -> entry (parents, timestamp, author,
                       signature validity, manifest, payload); an id without
                       binding is a commit `load` fails on
     load st tips      ChangeGraph::load from the ref targets [tips] (LIFO work list,
                       edges after nodes); LoadNone = `roots().next()?` gave None
     evaluate / get    ChangeGraph::evaluate / cob::get, generic in the object
                       type's init/apply
     creach st tips x  x is reachable from the tips through parents of loadable changes
     closure st tips x creach and loadable: the change set of the object
     canon ns es g     g is THE graph with nodes ns and edges es (as sets)
     build_graph ns es `Dag::node` for every element of ns, then `Dag::dependency`
                       for every element of es
     store_ranked r st no parent cycles (ids are hashes over the parents' ids) *)
From HW Require Import lib.Base lib.SMap model.Dag model.ChangeGraph proofs.DagBase proofs.DagOps
  proofs.ChangeGraphBuild proofs.ChangeGraphOrder proofs.ChangeGraphEval.
From Coq Require Import Permutation.

(* ---------------------------------------------------------------- load *)

(* The loaded graph depends only on the closure of the ref targets: any two
   sets of refs (any order, duplicates, refs to interior changes, other
   namespaces) with the same reachable loadable changes give the same graph *)
Theorem C05_load_closure_only :
  forall (P : Type) (st : cstore P) tips1 tips2,
  (forall x, closure st tips1 x <-> closure st tips2 x) -> load st tips1 = load st tips2.
Proof. exact @load_closure_only. Qed.

(* … and on the store only through what `load(id)` returns for the closure:
   not on the order in which changes were written or received *)
Theorem C05_load_store_order_irrelevant :
  forall (P : Type) (st1 st2 : cstore P) tips1 tips2,
  (forall k, lookup k st1 = lookup k st2) ->
  (forall x, closure st1 tips1 x <-> closure st2 tips2 x) -> load st1 tips1 = load st2 tips2.
Proof. exact @load_ext. Qed.

(* special cases: permuted refs; several refs to one change; an extra ref to a
   change that is already reachable *)
Theorem C05_load_refs_order_duplicates_interior :
  forall (P : Type) (st : cstore P),
  (forall tips1 tips2, Permutation tips1 tips2 -> load st tips1 = load st tips2) /\
  (forall tips1 tips2, (forall x, In x tips1 <-> In x tips2) -> load st tips1 = load st tips2) /\
  (forall tips x, creach st tips x -> load st (x :: tips) = load st tips).
Proof.
  exact (fun P st => conj (load_tips_perm st) (conj (load_tips_set st) (load_interior_ref st))).
Qed.

(* what `load` computes: the work list never runs out of fuel, and the graph
   is the canonical graph of the closure — its nodes are exactly the closure
   with the stored entries as values, its edges exactly the parent links of
   closure changes (dangling when the parent is not loadable) *)
Theorem C05_load_is_closure_graph :
  forall (P : Type) (st : cstore P) tips,
  load st tips <> LoadFuel /\
  exists ns edges g, load_graph st tips = Some g /\ canon ns edges g /\ NoDup (map fst ns) /\
    (forall k e, In (k, e) ns <-> (closure st tips k /\ lookup k st = Some e)) /\
    (forall c p, In (c, p) edges <-> (closure st tips c /\ parent_of st c p)) /\
    load st tips = match dag_roots g with [] => LoadNone | _ :: _ => Loaded g end.
Proof. exact @load_is_closure_graph. Qed.

(* ---------------------------------------------------------------- Dag construction *)

(* `node` calls followed by `dependency` calls build the same graph whatever
   the order (and multiplicity of edges) in which they are made *)
Theorem C05_dag_insertion_order_irrelevant :
  forall (V : Type) (ns : list (N * V)) (es : list (N * N)) (ns' : list (N * V)) (es' : list (N * N)),
  NoDup (map fst ns) -> NoDup (map fst ns') ->
  (forall kv, In kv ns <-> In kv ns') -> (forall e, In e es <-> In e es') ->
  build_graph ns es = build_graph ns' es'.
Proof. exact @build_order_irrelevant. Qed.

Theorem C05_dag_insertion_permutation :
  forall (V : Type) (ns : list (N * V)) (es : list (N * N)) (ns' : list (N * V)) (es' : list (N * N)),
  NoDup (map fst ns) -> Permutation ns ns' -> Permutation es es' ->
  build_graph ns es = build_graph ns' es'.
Proof. exact @build_perm. Qed.

(* the canonical form itself: representation invariant, node values, exact
   dependency/dependent sets, exact tips and roots *)
Theorem C05_dag_canonical_form :
  forall (V : Type) (ns : list (N * V)) (es : list (N * N)),
  NoDup (map fst ns) -> canon ns es (build_graph ns es).
Proof. exact @build_canon. Qed.

(* ---------------------------------------------------------------- evaluation *)

(* The evaluated object, its history graph, the pruned set and the evaluation
   order (the whole result of `get`, including the log of filter calls) are a
   function of the reachable change set — for every object type *)
Theorem C05_state_function_of_changes :
  forall (P S : Type) (init : N -> entry P -> option S)
         (apply : S -> N -> entry P -> list (N * entry P) -> bool * S)
         (st1 st2 : cstore P) tips1 tips2 oid,
  (forall k, lookup k st1 = lookup k st2) ->
  (forall x, closure st1 tips1 x <-> closure st2 tips2 x) ->
  get init apply st1 tips1 oid = get init apply st2 tips2 oid.
Proof. exact @get_function_of_changes. Qed.

(* On a store without parent cycles the loaded graph is well-formed, so that
   evaluation never exhausts its fuel and `History::new` never panics: `get`
   is a total function of the change set *)
Theorem C05_get_total :
  forall (P S : Type) (init : N -> entry P -> option S)
         (apply : S -> N -> entry P -> list (N * entry P) -> bool * S)
         (r : N -> N) (st : cstore P) tips oid,
  store_ranked r st ->
  get init apply st tips oid <> GFuel /\
  get init apply st tips oid <> GEval EvFuel /\
  get init apply st tips oid <> GEval EvHistoryPanic /\
  (forall g, load st tips = Loaded g -> dag_wf g).
Proof. exact @get_total. Qed.

(* the ordering used for concurrent changes is a total preorder (a total order
   on distinct ids), as `slice::sort_by` requires *)
Theorem C05_chronological_total_preorder :
  forall P : Type, total_preorder (@chronological P).
Proof. exact @chronological_total. Qed.

(* ---------------------------------------------------------------- non-vacuity *)

Local Open Scope N_scope.

(* root 1; 2 and 3 concurrent children (equal timestamps); 4 merges them;
   5 hangs on 4 and on the unloadable 0 *)
Definition ex_store : cstore N :=
  mk_store [(1, ([], 10, 0, true, 0, 0)); (2, ([1], 11, 1, true, 0, 0)); (3, ([1], 11, 0, true, 0, 0));
            (4, ([2; 3], 12, 0, true, 0, 0)); (5, ([4; 0], 13, 2, true, 0, 0))].

Example C05_example_ranked : store_ranked (fun k => k) ex_store.
Proof.
  intros c p [e [Hl Hp]]. apply lookup_In in Hl. unfold ex_store, mk_store in Hl. simpl in Hl.
  repeat (destruct Hl as [Hl|Hl]; [inversion Hl; subst; simpl in Hp; intuition (subst; reflexivity)|]).
  destruct Hl.
Qed.

Example C05_example_runs :
  (* the same closure through different refs: one tip / all changes in reverse / duplicates *)
  load ex_store [5] = load ex_store [1; 2; 3; 4; 5] /\
  load ex_store [5] = load ex_store [5; 4; 5; 2] /\
  (* evaluation order as implemented: the root's direct dependents are handed to
     `prune_by` in id order and each is pushed to the front, so among the root's
     children the LARGER id is evaluated first, whatever the timestamps (here 3
     before 2); `chronological` only orders the dependents of deeper nodes *)
  run (CGet [(1, ([], 10, 0, true, 0, 0)); (2, ([1], 11, 1, true, 0, 0)); (3, ([1], 11, 0, true, 0, 0));
             (4, ([2; 3], 12, 0, true, 0, 0)); (5, ([4; 0], 13, 2, true, 0, 0))] [5] 1)
  = OOk 0 [(1, []); (3, [2]); (2, [3]); (4, []); (5, [])]
        [(3, [2], true); (2, [3], true); (4, [], true); (5, [], true)]
        ([(1, ([], [2; 3])); (2, ([1], [4])); (3, ([1], [4])); (4, ([2; 3], [5])); (5, ([0; 4], []))], [5]).
Proof. vm_compute. repeat split. Qed.
