(* C01 — Replicated refs always match their owner's signed refs.
   This file contains only theorem statements closed by [exact]
   (and [vm_compute] witnesses for the Examples / the refutation).

   Reading guide: [run anc U c L S = (res, L')] is one fetch with configuration
   [c] from a server whose reference store is [S] into local storage [L];
   [ns_of L r] is namespace [r] of a store as a map name -> oid that includes
   the signed-refs reference (name [SIGREFS]); [U] maps the oid of a
   signed-refs commit to its parsed content and the two verdicts of
   SignedRefs::verify.  "The fetch changed namespace r" is
   [ns_of L' r <> ns_of L r].  [sorted S] only says that S is a map. *)
From HW Require Import lib.Base lib.SMap model.Fetch proofs.FetchProofs.
Local Open Scope N_scope.

(* After ANY fetch (success, failure, error, the mid-apply abort), a namespace
   the fetch changed points its rad/sigrefs at an object with a valid signature
   that names this repository, contains every reference that object lists with
   the listed target, and contains nothing else -- except possibly refs/rad/*
   references which were already there before the fetch, are unchanged, and
   are no longer signed (the recorded finding c01-stale-rad-ref-kept). *)
Theorem C01_touched_namespaces_match :
  forall anc U c L S res L' r, sorted S ->
    run anc U c L S = (res, L') ->
    ns_of L' r <> ns_of L r ->
    exists t o,
      sigrefs_of L' r = Some t /\ lookup t U = Some o /\
      so_sig_ok o = true /\ so_root_ok o = true /\
      (forall n v, lookup n (so_content o) = Some v -> lookup n (ns_of L' r) = Some v) /\
      (forall n v, n <> SIGREFS -> lookup n (ns_of L' r) = Some v ->
         lookup n (so_content o) = Some v \/
         (is_rad n = true /\ lookup n (so_content o) = None /\ lookup n (ns_of L r) = Some v)).
Proof. exact touched_namespaces_match. Qed.

(* Outside the recorded class the match is exact: if the namespace held no
   refs/rad/* reference other than rad/sigrefs before the fetch (e.g. every
   clone, every new namespace), then after the fetch it holds exactly the
   signed references. *)
Theorem C01_touched_namespaces_match_exactly :
  forall anc U c L S res L' r, sorted S ->
    run anc U c L S = (res, L') ->
    ns_of L' r <> ns_of L r ->
    (forall n, is_rad n = true -> n <> SIGREFS -> lookup n (ns_of L r) = None) ->
    exists t o,
      sigrefs_of L' r = Some t /\ lookup t U = Some o /\
      so_sig_ok o = true /\ so_root_ok o = true /\
      forall n, n <> SIGREFS -> lookup n (ns_of L' r) = lookup n (so_content o).
Proof. exact touched_namespaces_exact. Qed.

(* The recorded class is real: a pull after which the changed namespace keeps
   refs/rad/root (41) although its new signed refs no longer list it. *)
Definition stale_U : universe :=
  [(100, mkSigObj [(20, 5); (41, 1)] true true); (101, mkSigObj [(20, 6)] true true)].
Definition stale_cfg : cfg := mkCfg [1] 1 9 [] None false None true.
Definition stale_L : store := [(1, [(20, 5); (41, 1); (42, 100)])].
Definition stale_S : store := [(1, [(20, 6); (42, 101)])].

Theorem C01_exact_match_refuted_by_stale_rad_ref :
  exists anc U c L S res L' r t o n v,
    sorted S /\ run anc U c L S = (res, L') /\ ns_of L' r <> ns_of L r /\
    sigrefs_of L' r = Some t /\ lookup t U = Some o /\
    n <> SIGREFS /\ lookup n (ns_of L' r) = Some v /\ lookup n (so_content o) = None.
Proof.
  exists (anc_of [(100, 101)]), stale_U, stale_cfg, stale_L, stale_S, RSuccess,
    [(1, [(20, 6); (41, 1); (42, 101)])], 1, 101, (mkSigObj [(20, 6)] true true), 41, 1.
  split; [repeat constructor|].
  split; [vm_compute; reflexivity|].
  split; [vm_compute; discriminate|].
  repeat split; try (vm_compute; reflexivity). vm_compute. discriminate.
Qed.

(* What "the advertised data of namespace r fails a check" means, spelled out:
   r is blocked; or no rad/sigrefs is announced (refs_at) / advertised in scope
   for it; or the announced object is unknown, has a bad signature (or does not
   parse), or names another repository; or the server advertises a rad/id that
   the object does not sign; or the object signs the name rad/sigrefs itself or
   a name that is not a qualified reference name; or r's stored rad/sigrefs is
   neither the announced commit nor an ancestor of it. *)
Theorem C01_failing_namespace_untouched :
  forall anc U c L S res L' r, sorted S ->
    run anc U c L S = (res, L') ->
    ( is_blocked c r = true \/
      announced c S r = None \/
      exists t, announced c S r = Some t /\
        (lookup t U = None \/
         exists o, lookup t U = Some o /\
           (so_sig_ok o = false \/ so_root_ok o = false \/
            (exists x, advertised_id c S r = Some x /\ lookup RAD_ID (so_content o) = None) \/
            lookup SIGREFS (so_content o) <> None \/
            (exists n v, lookup n (so_content o) = Some v /\ is_qualified n = false) \/
            (exists a, sigrefs_of L r = Some a /\ a <> t /\ anc a t = false))) ) ->
    ns_of L' r = ns_of L r.
Proof. exact failing_namespace_untouched. Qed.

(* Conversely, a changed namespace has passed all of them, and its stored
   rad/sigrefs is exactly the announced / advertised object. *)
Theorem C01_changed_namespace_passed_all_checks :
  forall anc U c L S res L' r, sorted S ->
    run anc U c L S = (res, L') ->
    ns_of L' r <> ns_of L r ->
    exists t o, accepted anc U c L S r t o /\ sigrefs_of L' r = Some t.
Proof. exact changed_namespace_accepted. Qed.

(* A namespace that is blocked -- on a pull that includes the local node's own
   namespace -- is never changed, whatever the server advertises or the
   announcement lists. *)
Theorem C01_blocked_namespace_untouched :
  forall anc U c L S res L' r, sorted S ->
    run anc U c L S = (res, L') -> is_blocked c r = true -> ns_of L' r = ns_of L r.
Proof. exact blocked_namespace_untouched. Qed.

(* Every outcome other than Success and the non-fast-forward abort in the
   middle of applying (RErr 4) leaves local storage literally unchanged; for
   RErr 4 the first theorem still applies to every namespace it touched. *)
Theorem C01_error_leaves_storage :
  forall anc U c L S res L',
    run anc U c L S = (res, L') -> res <> RSuccess -> res <> RErr 4 -> L' = L.
Proof. exact run_no_apply_unchanged. Qed.

(* Non-vacuity: a clone that creates a namespace, a pull that moves one. *)
Example C01_example_clone_changes_a_namespace :
  run (anc_of []) [(100, mkSigObj [(20, 5); (40, 1)] true true)]
      (mkCfg [1] 1 9 [] None true None true) [] [(1, [(20, 5); (40, 1); (42, 100)])]
  = (RSuccess, [(1, [(20, 5); (40, 1); (42, 100)])]).
Proof. vm_compute. reflexivity. Qed.

Example C01_example_tampered_signature_is_an_error :
  run (anc_of []) [(100, mkSigObj [(20, 5); (40, 1)] false true)]
      (mkCfg [1] 1 9 [] None true None true) [] [(1, [(20, 5); (40, 1); (42, 100)])]
  = (RErr 2, []).
Proof. vm_compute. reflexivity. Qed.

Example C01_example_unsigned_rad_id_rejects_the_namespace :
  (* namespace 2 advertises a rad/id its signed refs do not list: it is left out,
     namespace 1 (the delegate) is replicated *)
  run (anc_of []) [(100, mkSigObj [(20, 5); (40, 1)] true true); (200, mkSigObj [(20, 7)] true true)]
      (mkCfg [1] 1 9 [] None true None true) []
      [(1, [(20, 5); (40, 1); (42, 100)]); (2, [(20, 7); (40, 1); (42, 200)])]
  = (RSuccess, [(1, [(20, 5); (40, 1); (42, 100)])]).
Proof. vm_compute. reflexivity. Qed.
