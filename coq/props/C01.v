(* C01 — Replicated refs always match their owner's signed refs.
   This file contains only theorem statements closed by [exact]. *)
From HW Require Import lib.Base lib.SMap model.Fetch proofs.FetchProofs.
Local Open Scope N_scope.

(* Every outcome other than Success and the non-fast-forward abort in the
   middle of applying (RErr 4) leaves local storage literally unchanged. *)
Theorem C01_error_leaves_storage :
  forall anc U c L S res L',
    run anc U c L S = (res, L') -> res <> RSuccess -> res <> RErr 4 -> L' = L.
Proof. exact run_no_apply_unchanged. Qed.
