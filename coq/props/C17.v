(* C17 — Rate limiting lets through at most capacity plus refill.
   For any timeline of requests from a rate-limited host, the number of requests
   let through in any time window never exceeds the bucket capacity plus the refill
   rate times the window length in whole seconds.  Bypassed nodes and
   non-routable addresses are never limited.
   Model: model/Limiter.v (tokens scaled by the rate's denominator, so the
   bound reads  passed * den <= capacity * den + num * whole_seconds).
   This file contains only theorem statements closed by [exact]. *)
From HW Require Import lib.Base model.Limiter proofs.LimiterProofs proofs.LimiterIsolation.
From Coq Require Import QArith.
Local Open Scope Z_scope.

(* Any timeline at all — any interleaving of hosts, node ids and token
   configurations, any clock readings, panics caught and the limiter used
   further.  [pre] is the history, [win] any run of consecutive calls.  If the
   calls of host [h] in the window were made at times within [lo, hi], the
   calls of [h] that took a token in the window number at most
   capacity + rate * floor((hi - lo) / 1000); a host without a bucket took none. *)
Theorem C17_window_bound :
  forall (bypass : list N) (pre win : list req) (h : host) (lo hi : N),
  let l0 := fst (run_limiter (limiter_new bypass) pre) in
  let l1 := fst (run_limiter l0 win) in
  let outs := snd (run_limiter l0 win) in
  (forall r, In r win -> r_host r = h -> (lo <= r_now r <= hi)%N) ->
  match bk_lookup h (l_buckets l1) with
  | Some b =>
      0 <= b_num b ->
      passed_for h win outs * Zpos (b_den b)
        <= Z.of_N (b_cap b) * Zpos (b_den b) + b_num b * Z.of_N ((hi - lo) / 1000)
  | None => passed_for h win outs = 0
  end.
Proof. exact window_bound_any_timeline. Qed.

(* the same statement in exact rationals *)
Theorem C17_window_bound_rational :
  forall (bypass : list N) (pre win : list req) (h : host) (lo hi : N) (b : bucket),
  let l0 := fst (run_limiter (limiter_new bypass) pre) in
  let l1 := fst (run_limiter l0 win) in
  let outs := snd (run_limiter l0 win) in
  (forall r, In r win -> r_host r = h -> (lo <= r_now r <= hi)%N) ->
  bk_lookup h (l_buckets l1) = Some b -> 0 <= b_num b ->
  (inject_Z (passed_for h win outs)
     <= inject_Z (Z.of_N (b_cap b)) + (b_num b # b_den b) * inject_Z (Z.of_N ((hi - lo) / 1000)))%Q.
Proof. exact window_bound_rational. Qed.

(* monotone clock (what `Service` provides): nothing panics, and for every
   window first :: rest of consecutive calls the length is last - first time *)
Theorem C17_window_bound_monotone :
  forall (bypass : list N) (pre win : list req) (h : host) (first : req) (rest : list req),
  win = first :: rest ->
  monotone_from 0 (pre ++ win) ->
  let l0 := fst (run_limiter (limiter_new bypass) pre) in
  let l1 := fst (run_limiter l0 win) in
  let outs := snd (run_limiter l0 win) in
  let len := (last (map r_now win) 0 - r_now first)%N in
  ~ In ClockPanic outs /\
  match bk_lookup h (l_buckets l1) with
  | Some b =>
      0 <= b_num b ->
      passed_for h win outs * Zpos (b_den b)
        <= Z.of_N (b_cap b) * Zpos (b_den b) + b_num b * Z.of_N (len / 1000)
  | None => passed_for h win outs = 0
  end.
Proof. exact window_bound_monotone. Qed.

(* "the bucket capacity / refill rate" are those of the first call of the host
   that reached the limiter (not bypassed, routable); later calls with other
   token settings do not change them, and buckets are never dropped *)
Theorem C17_bucket_keeps_first_tokens :
  forall (bypass : list N) (rs : list req) (h : host),
  option_map tokens_of (bk_lookup h (l_buckets (fst (run_limiter (limiter_new bypass) rs))))
  = option_map r_tok (first_reaching bypass h rs).
Proof. exact bucket_keeps_first_tokens. Qed.

(* bypassed nodes and non-routable addresses: answered "not limited", in any
   state, and no bucket is created or touched *)
Theorem C17_bypass_and_lan_never_limited :
  forall (l : limiter) (r : req),
  (match r_nid r with Some n => In n (l_bypass l) | None => False end) \/
  host_unroutable (r_host r) = true ->
  fst (limit l r) = l /\ (snd (limit l r) = Bypassed \/ snd (limit l r) = Unroutable).
Proof. exact bypass_and_lan_never_limited. Qed.

Theorem C17_lan_ranges_unroutable :
  forall a b c d : N, (a < 256 -> b < 256 -> c < 256 -> d < 256 ->
  a = 10 \/ (a = 172 /\ 16 <= b <= 31) \/ (a = 192 /\ b = 168) \/ a = 127 \/ (a = 169 /\ b = 254) \/ a = 0 ->
  host_unroutable (HIp4 (a * 16777216 + b * 65536 + c * 256 + d)) = true)%N.
Proof. exact lan_ranges_unroutable. Qed.

(* the backwards-clock panic of `duration_since`: exactly when the call reaches
   an existing bucket refilled later than `now`; it changes no bucket (so it
   grants nothing); it cannot happen on a monotone timeline *)
Theorem C17_backward_clock_panics_exactly :
  forall (l : limiter) (r : req),
  snd (limit l r) = ClockPanic <->
  (reaches l r = true /\ exists b, hb (r_host r) l = Some b /\ (r_now r < b_refilled b)%N).
Proof. exact clock_panic_exactly. Qed.

Theorem C17_backward_clock_grants_nothing :
  forall (l : limiter) (r : req), snd (limit l r) = ClockPanic ->
  is_passed (snd (limit l r)) = false /\ forall h, hb h (fst (limit l r)) = hb h l.
Proof. exact clock_panic_grants_nothing. Qed.

Theorem C17_monotone_clock_never_panics :
  forall (bypass : list N) (rs : list req),
  monotone_from 0 rs -> ~ In ClockPanic (snd (run_limiter (limiter_new bypass) rs)).
Proof. exact monotone_timeline_never_panics. Qed.

(* no spurious limiting: a call that reaches the bucket is refused exactly when
   less than one whole token is left after the refill *)
Theorem C17_passes_iff_token_available :
  forall (l : limiter) (r : req) (b1 : bucket),
  reaches l r = true -> bucket_refill (entry_bucket l r) (r_now r) = Some b1 ->
  (snd (limit l r) = Passed <-> Zpos (b_den b1) <= b_tokens b1) /\
  (snd (limit l r) = Limited <-> b_tokens b1 < Zpos (b_den b1)).
Proof. exact passes_iff_token_available. Qed.

(* Hosts are isolated: in any timeline (any interleaving, clock readings, token
   settings, bypass list, starting state) the answers given to host [h] and the
   bucket kept for [h] are exactly those of the timeline with every other
   host's request deleted — no peer can drain, refill or reset another peer's
   allowance.  [outs_for h rs os] = the outcomes of the requests of [h]. *)
Theorem C17_hosts_are_isolated :
  forall (h : host) (rs : list req) (l : limiter),
  outs_for h rs (snd (run_limiter l rs)) = snd (run_limiter l (filter (on_host h) rs)) /\
  hb h (fst (run_limiter l rs)) = hb h (fst (run_limiter l (filter (on_host h) rs))).
Proof. exact host_isolation. Qed.

Theorem C17_other_hosts_traffic_is_irrelevant :
  forall (h : host) (rs rs' : list req) (l : limiter),
  filter (on_host h) rs = filter (on_host h) rs' ->
  outs_for h rs (snd (run_limiter l rs)) = outs_for h rs' (snd (run_limiter l rs')) /\
  hb h (fst (run_limiter l rs)) = hb h (fst (run_limiter l rs')).
Proof. exact host_isolation_two_timelines. Qed.

(* ---- non-vacuity ---- *)

Definition ex_host := HDns 0.
Definition ex_tok := {| t_cap := 3; t_num := 1; t_den := 5 |}.     (* 3 tokens, 0.2 / s *)
Definition ex_req (ms : N) := {| r_host := ex_host; r_nid := Some 1%N; r_tok := ex_tok; r_now := ms |}.
Definition ex_timeline := map ex_req [0; 1000; 2000; 3000; 4000; 5000; 6000]%N.

(* the crate's own test timeline: burst of 3, limited, one refill after 5 s;
   the bound 3 + 0.2 * 5 = 4 is attained by the window [0 s, 5 s] *)
Example C17_example_bound_attained :
  snd (run_limiter (limiter_new []) ex_timeline) = [Passed; Passed; Passed; Limited; Limited; Passed; Limited] /\
  monotone_from 0 ex_timeline /\
  passed_for ex_host (firstn 6 ex_timeline) (snd (run_limiter (limiter_new []) (firstn 6 ex_timeline))) * 5
    = 3 * 5 + 1 * Z.of_N ((5000 - 0) / 1000).
Proof. vm_compute. repeat split; intros H; discriminate H. Qed.

(* the hypothesis 0 <= rate is needed: with a negative rate the right-hand side
   shrinks with the window while a token taken at its start still counts *)
Example C17_example_negative_rate :
  let tok := {| t_cap := 1; t_num := -1; t_den := 1 |} in
  let rs := [ {| r_host := ex_host; r_nid := None; r_tok := tok; r_now := 0 |};
              {| r_host := ex_host; r_nid := None; r_tok := tok; r_now := 1000 |} ] in
  passed_for ex_host rs (snd (run_limiter (limiter_new []) rs)) = 1 /\
  ~ (1 * 1 <= 1 * 1 + (-1) * Z.of_N ((1000 - 0) / 1000)).
Proof. vm_compute. split; [reflexivity | intros H; apply H; reflexivity]. Qed.

(* a clock regression panics, and the limiter is as before *)
Example C17_example_clock_panic :
  snd (run_limiter (limiter_new []) [ex_req 5000; ex_req 4999; ex_req 5000]) = [Passed; ClockPanic; Passed].
Proof. vm_compute. reflexivity. Qed.

(* isolation, concretely: a flood from another host between the calls of
   ex_host changes none of ex_host's answers *)
Example C17_example_isolation :
  let other ms := {| r_host := HDns 1; r_nid := None; r_tok := ex_tok; r_now := ms |} in
  let mixed := flat_map (fun ms => [other ms; ex_req ms; other ms; other ms]) [0; 1000; 2000; 3000; 4000; 5000; 6000]%N in
  outs_for ex_host mixed (snd (run_limiter (limiter_new []) mixed))
    = [Passed; Passed; Passed; Limited; Limited; Passed; Limited].
Proof. vm_compute. reflexivity. Qed.
