(* C28 — Storage cleanup never deletes the local or delegate namespaces.
   Model: coq/model/Clean.v.  Only statements closed by [exact]. *)
From HW Require Import lib.Base model.Clean proofs.CleanProofs.
Local Open Scope N_scope.

(* Whenever cleaning succeeds without removing the repository: every deleted namespace is a
   remote that is neither the local node nor a delegate; every namespace of the local node,
   of a delegate, without rad/sigrefs, or with a malformed name survives unchanged; nothing
   else appears; what disappeared is exactly what is reported. *)
Theorem C28_only_strangers_removed :
  forall local doc_ok delegates r after deleted,
  storage_clean local doc_ok delegates r = OCleaned after deleted ->
  (forall id, In id deleted ->
     id <> local /\ ~ In id delegates /\
     exists n, In n r /\ ns_id n = id /\ is_remote n = true /\ ns_key n = true) /\
  (forall n, In n r -> (ns_id n = local \/ In (ns_id n) delegates) \/ is_remote n = false \/ ns_key n = false ->
     In n after) /\
  (forall n, In n after -> In n r) /\
  (forall n, In n r -> ~ In n after -> In (ns_id n) deleted) /\
  (forall n, In n after -> In (ns_id n) deleted -> NoDup (map ns_id r) -> False) /\
  local_sig local after = SValid.
Proof.
  intros local doc_ok delegates r after deleted H.
  pose proof (storage_clean_spec local doc_ok delegates r) as S. rewrite H in S.
  destruct S as [Hs [_ Hr]].
  pose proof (repo_clean_spec local delegates r) as R. rewrite <- Hr in R.
  destruct R as [R1 [R2 [R3 [R4 R5]]]].
  repeat split; try assumption.
  - apply R1; assumption.
  - apply R1; assumption.
  - apply R1; assumption.
  - pose proof (local_sig_after local delegates r) as L. rewrite <- Hr in L. simpl in L. congruence.
Qed.

(* The repository is removed as a whole iff the local node has no signed refs (and then the
   remote list can be read); with signed refs present the outcome is a clean or an error that
   deleted nothing; every error is classified. *)
Theorem C28_repo_removed_iff_no_local_sigrefs :
  (forall local doc_ok delegates r remotes,
     storage_clean local doc_ok delegates r = ORemoved remotes -> local_sig local r = SNone) /\
  (forall local doc_ok delegates r,
     local_sig local r = SNone -> forallb ns_key (filter is_remote r) = true ->
     storage_clean local doc_ok delegates r = ORemoved (map ns_id (filter is_remote r))) /\
  (forall local doc_ok delegates r,
     match storage_clean local doc_ok delegates r with
     | OCleaned after deleted =>
         local_sig local r = SValid /\ doc_ok = true /\ (after, deleted) = repo_clean local delegates r
     | ORemoved remotes => local_sig local r = SNone /\ remotes = map ns_id (filter is_remote r)
     | OErr e =>
         (local_sig local r = SBad /\ e = ESigrefs) \/
         (local_sig local r = SValid /\ doc_ok = false /\ (e = EDoc \/ e = ERemoteId)) \/
         (local_sig local r = SNone /\ e = ERemoteId /\
          exists n, In n r /\ is_remote n = true /\ ns_key n = false)
     end).
Proof.
  exact (conj removed_only_without_local_sigrefs (conj removed_if_no_local_sigrefs storage_clean_spec)).
Qed.

(* Repository::clean called directly with any `local` (the public API does not require it to
   have signed refs): same protection, never removes the repository *)
Theorem C28_repository_clean_direct :
  forall local doc_ok delegates r,
  match repository_clean local doc_ok delegates r with
  | OCleaned after deleted =>
      doc_ok = true /\
      (forall id, In id deleted ->
         id <> local /\ ~ In id delegates /\
         exists n, In n r /\ ns_id n = id /\ is_remote n = true /\ ns_key n = true) /\
      (forall n, In n r -> (ns_id n = local \/ In (ns_id n) delegates) \/ is_remote n = false \/ ns_key n = false ->
         In n after) /\
      (forall n, In n after -> In n r) /\
      (forall n, In n r -> ~ In n after -> In (ns_id n) deleted)
  | ORemoved _ => False
  | OErr e => doc_ok = false /\ (e = EDoc \/ e = ERemoteId)
  end.
Proof.
  intros local doc_ok delegates r.
  pose proof (repository_clean_spec local doc_ok delegates r) as S.
  destruct (repository_clean local doc_ok delegates r) as [after deleted|rem|e]; try exact S.
  destruct S as [Hd Hr]. split; [exact Hd|].
  pose proof (repo_clean_spec local delegates r) as R. rewrite <- Hr in R.
  destruct R as [R1 [R2 [R3 [R4 _]]]]. repeat split; try assumption; apply R1; assumption.
Qed.

(* a second clean deletes nothing *)
Theorem C28_clean_idempotent :
  forall local delegates r,
  repo_clean local delegates (fst (repo_clean local delegates r)) = (fst (repo_clean local delegates r), []).
Proof. exact repo_clean_idempotent. Qed.

(* non-vacuity: local = 0 (also a delegate here), delegates 0 and 1, strangers 2 and 3, a
   namespace without sigrefs (4) and one whose name is not a key (5) *)
Example C28_example_clean :
  let r := [ {| ns_id := 0; ns_key := true; ns_sig := SValid; ns_refs := [1] |};
             {| ns_id := 1; ns_key := true; ns_sig := SBad; ns_refs := [1; 2] |};
             {| ns_id := 2; ns_key := true; ns_sig := SValid; ns_refs := [1] |};
             {| ns_id := 3; ns_key := true; ns_sig := SBad; ns_refs := [] |};
             {| ns_id := 4; ns_key := true; ns_sig := SNone; ns_refs := [7] |};
             {| ns_id := 5; ns_key := false; ns_sig := SValid; ns_refs := [] |} ] in
  NoDup (map ns_id r) /\
  storage_clean 0 true [0; 1] r =
    OCleaned [ {| ns_id := 0; ns_key := true; ns_sig := SValid; ns_refs := [1] |};
               {| ns_id := 1; ns_key := true; ns_sig := SBad; ns_refs := [1; 2] |};
               {| ns_id := 4; ns_key := true; ns_sig := SNone; ns_refs := [7] |};
               {| ns_id := 5; ns_key := false; ns_sig := SValid; ns_refs := [] |} ] [2; 3] /\
  storage_clean 9 true [0; 1] r = OErr ERemoteId /\
  storage_clean 4 true [0; 1] (firstn 5 r) = ORemoved [0; 1; 2; 3] /\
  storage_clean 1 true [0; 1] r = OErr ESigrefs /\
  storage_clean 0 false [0; 1] r = OErr ERemoteId /\
  storage_clean 0 false [0; 1] (firstn 5 r) = OErr EDoc.
Proof.
  simpl. split.
  - repeat constructor; simpl; intuition discriminate.
  - vm_compute. repeat split.
Qed.
