(* C07 — Issue and patch actions obey the authorization rules.
   This file contains only theorem statements closed by [exact].

   Reading guide. [i_run]/[p_run] evaluate a list of ops the way the COB
   evaluator does: a rejected op is skipped and evaluation continues with the
   state the failed call left behind ([atomic] says whether that is the
   untouched state or the partially updated one — the theorems hold for both,
   and for debug and release builds [dbg]). [i_step s o = Some s'] therefore
   covers accepted and rejected ops alike. [op_priv o] = the op's author is a
   delegate of the identity document the op refers to (an op whose document
   cannot be loaded is never privileged). *)
From HW Require Import lib.Base lib.SMap model.CobThread model.CobIssue model.CobPatch
  proofs.CobThreadProofs proofs.CobIssueProofs proofs.CobPatchProofs.
Local Open Scope N_scope.

(* For ANY history (any ops, any authors, any documents) and each of its ops:
   - by a non-delegate: assignees and labels are unchanged;
   - by someone who is neither a delegate nor the issue's author: title and
     state are unchanged;
   - every comment not created by this very op: a redacted comment stays
     redacted; a live comment whose author is not the actor stays live with its
     author and its edits unchanged unless the actor is a delegate.
   The only hypothesis: no later op carries the id of the root op (ids are
   content addresses). *)
Theorem C07_issue_guarded_fields :
  forall dbg atomic (root : iop) (pre : list iop) (o : iop) i0 i1 i2,
    i_init dbg root = Ok i0 ->
    Forall (fun o' => op_id o' <> op_id root) (pre ++ [o]) ->
    i_run dbg atomic i0 pre = Some i1 ->
    i_step dbg atomic i1 o = Some i2 ->
    (op_priv o = false -> i_assignees i2 = i_assignees i1 /\ i_labels i2 = i_labels i1) /\
    (op_priv o = false -> op_actor o <> op_actor root ->
       i_title i2 = i_title i1 /\ i_state i2 = i_state i1) /\
    (forall cid, cid <> op_id o ->
       match lookup cid (t_comments (i_thread i1)) with
       | Some (Some c) =>
           op_priv o = false -> c_author c <> op_actor o ->
           exists c', lookup cid (t_comments (i_thread i2)) = Some (Some c') /\
                      c_author c' = c_author c /\ c_edits c' = c_edits c
       | Some None => lookup cid (t_comments (i_thread i2)) = Some None
       | None => True
       end).
Proof. exact issue_history_guarded. Qed.

(* the root op itself: an issue opened by a non-delegate starts without
   assignees and labels, whatever actions the root op carried *)
Theorem C07_issue_creation_guarded :
  forall dbg (root : iop) d i,
    op_doc root = Some d -> is_delegate d (op_actor root) = false ->
    i_init dbg root = Ok i -> i_assignees i = [] /\ i_labels i = [].
Proof. exact i_init_guard. Qed.

(* whole histories: without ops by delegates the assignees and labels never
   move; without ops by delegates or the author neither do title and state *)
Theorem C07_issue_history_without_delegates :
  forall dbg atomic (root : iop) (ops : list iop) i0 i,
    i_init dbg root = Ok i0 ->
    Forall (fun o' => op_id o' <> op_id root) ops ->
    Forall (fun o' => op_priv o' = false) ops ->
    i_run dbg atomic i0 ops = Some i ->
    i_assignees i = i_assignees i0 /\ i_labels i = i_labels i0 /\
    (Forall (fun o' => op_actor o' <> op_actor root) ops ->
       i_title i = i_title i0 /\ i_state i = i_state i0).
Proof. exact issue_history_no_delegate. Qed.

(* unknown / redacted targets: a non-delegate's edit or redaction of a redacted
   comment is ignored, of an unknown comment rejected; the issue is untouched *)
Theorem C07_issue_unknown_or_redacted_target_no_effect :
  forall dbg i id body entry actor d,
    is_delegate d actor = false -> i_root i <> None ->
    (lookup id (t_comments (i_thread i)) = Some None ->
       i_op_action dbg i (ICommentEdit id body) entry actor d = Ok i /\
       i_op_action dbg i (ICommentRedact id) entry actor d = Ok i) /\
    (lookup id (t_comments (i_thread i)) = None ->
       i_op_action dbg i (ICommentEdit id body) entry actor d = Err EMissing i /\
       i_op_action dbg i (ICommentRedact id) entry actor d = Err EMissing i).
Proof. exact issue_ignored_targets. Qed.

(* the issue's author (the code recomputes it on every authorization as the
   author of the first live comment of the timeline) is, in every reachable
   state, the author of the root op: the root comment can be neither redacted
   nor displaced; in particular Issue::author/root never hit their `expect` *)
Theorem C07_issue_author_fixed :
  forall dbg atomic (root : iop) (ops : list iop) i0 i,
    i_init dbg root = Ok i0 ->
    Forall (fun o' => op_id o' <> op_id root) ops ->
    i_run dbg atomic i0 ops = Some i ->
    exists c, i_root i = Some (op_id root, c) /\ c_author c = op_actor root.
Proof. exact issue_author_fixed. Qed.

(* the premises [i_run .. = Some _] above are not restrictive: without debug
   assertions the evaluation of an issue history never panics (with them, only
   the duplicate-timeline-entry assertions of thread.rs can fire, when one op
   carries two thread actions) *)
Theorem C07_issue_release_never_panics :
  forall atomic (root : iop) (ops : list iop) i0,
    i_init false root = Ok i0 ->
    Forall (fun o' => op_id o' <> op_id root) ops ->
    i_run false atomic i0 ops <> None.
Proof. exact issue_release_never_panics. Qed.

(* ------------------------------------------------------------------ patches *)

(* For ANY patch history and each of its ops (accepted or rejected):
   - the patch author never changes (it is the author of the root op);
   - by a non-delegate: assignees, labels and the merge table are unchanged;
   - by someone who is neither a delegate nor the patch author: title and
     state are unchanged;
   - every revision not created by this op: a redacted revision stays redacted;
     a live one is redacted or has its description edited only by its author or
     a delegate; while it is there, its author is fixed, every comment of its
     discussion is guarded as for issues, and every review on it (not created
     by this op) is removed or edited (summary, verdict, labels) only by the
     review's author or a delegate and, while it is there, the comments in it
     are guarded as for issues.
   No hypothesis on ids is needed: statements exclude only the objects the op
   itself creates. *)
Theorem C07_patch_guarded_fields :
  forall dbg atomic orc (root : pop) (pre : list pop) (o : pop) p0 p1 p2,
    p_init dbg orc root = Ok p0 ->
    p_run dbg atomic orc p0 pre = Some p1 ->
    p_step dbg atomic orc p1 o = Some p2 ->
    p_author p1 = op_actor root /\
    p_author p2 = p_author p1 /\
    (op_priv o = false ->
       p_assignees p2 = p_assignees p1 /\ p_labels p2 = p_labels p1 /\ p_merges p2 = p_merges p1) /\
    (op_priv o = false -> op_actor o <> p_author p1 ->
       p_title p2 = p_title p1 /\ p_state p2 = p_state p1) /\
    (forall rid, rid <> op_id o ->
       match lookup rid (p_revisions p1) with
       | None => True
       | Some None => lookup rid (p_revisions p2) = Some None
       | Some (Some r) =>
           (op_priv o = false -> r_author r <> op_actor o ->
              exists r', lookup rid (p_revisions p2) = Some (Some r') /\ r_descr r' = r_descr r) /\
           (forall r', lookup rid (p_revisions p2) = Some (Some r') ->
              r_author r' = r_author r /\
              comments_guarded (op_priv o) (op_actor o) (op_id o) (r_discussion r) (r_discussion r') /\
              review_guarded (op_priv o) (op_actor o) (op_id o) (r_reviews r) (r_reviews r'))
       end).
Proof. exact patch_history_guarded. Qed.

(* the two auxiliary predicates used above, spelled out *)
Theorem C07_guard_predicates_meaning :
  (forall privileged a entry t t',
     comments_guarded privileged a entry t t' <->
     (forall cid, cid <> entry ->
        match lookup cid (t_comments t) with
        | Some (Some c) =>
            privileged = false -> c_author c <> a ->
            exists c', lookup cid (t_comments t') = Some (Some c') /\
                       c_author c' = c_author c /\ c_edits c' = c_edits c
        | Some None => lookup cid (t_comments t') = Some None
        | None => True
        end)) /\
  (forall privileged a entry m m',
     review_guarded privileged a entry m m' <->
     (forall k v, lookup k m = Some v -> rv_id v <> entry ->
        (privileged = false -> rv_author v <> a ->
           exists v', lookup k m' = Some v' /\ rv_id v' = rv_id v /\ rv_author v' = rv_author v /\
                      rv_summary v' = rv_summary v /\ rv_verdict v' = rv_verdict v /\
                      rv_labels v' = rv_labels v) /\
        (forall v', lookup k m' = Some v' -> rv_id v' = rv_id v ->
           rv_author v' = rv_author v /\
           comments_guarded privileged a entry (rv_comments v) (rv_comments v')))).
Proof. split; intros; reflexivity. Qed.

(* the root op: a patch opened by a non-delegate starts without assignees,
   labels and merges, whatever actions the root op carried *)
Theorem C07_patch_creation_guarded :
  forall dbg orc (root : pop) p,
    p_init dbg orc root = Ok p ->
    p_author p = op_actor root /\
    (forall d, op_doc root = Some d -> is_delegate d (op_actor root) = false ->
       p_assignees p = [] /\ p_labels p = [] /\ p_merges p = []).
Proof. intros dbg orc root p H. exact (proj2 (p_init_inv dbg orc root p H)). Qed.

Theorem C07_patch_history_without_delegates :
  forall dbg atomic orc (root : pop) (ops : list pop) p0 p,
    p_init dbg orc root = Ok p0 ->
    Forall (fun o' => op_priv o' = false) ops ->
    p_run dbg atomic orc p0 ops = Some p ->
    p_assignees p = p_assignees p0 /\ p_labels p = p_labels p0 /\ p_merges p = p_merges p0 /\
    (Forall (fun o' => op_actor o' <> op_actor root) ops ->
       p_title p = p_title p0 /\ p_state p = p_state p0).
Proof. exact patch_history_no_delegate. Qed.

(* unknown / redacted targets: a non-delegate's edit or redaction of a redacted
   revision (or of a comment on it) is ignored, of an unknown revision rejected,
   of an unknown-or-redacted comment on a live revision ignored; the patch is
   untouched *)
Theorem C07_patch_unknown_or_redacted_target_no_effect :
  forall dbg orc p entry actor d rid cid body descr,
    is_delegate d actor = false ->
    (lookup rid (p_revisions p) = Some None ->
       p_op_action dbg orc p (PRevisionEdit rid descr) entry actor d = Ok p /\
       p_op_action dbg orc p (PRevisionRedact rid) entry actor d = Ok p /\
       p_op_action dbg orc p (PRevisionCommentEdit rid cid body) entry actor d = Ok p /\
       p_op_action dbg orc p (PRevisionCommentRedact rid cid) entry actor d = Ok p) /\
    (lookup rid (p_revisions p) = None ->
       p_op_action dbg orc p (PRevisionEdit rid descr) entry actor d = Err EMissing p /\
       p_op_action dbg orc p (PRevisionRedact rid) entry actor d = Err EMissing p /\
       p_op_action dbg orc p (PRevisionCommentEdit rid cid body) entry actor d = Err EMissing p /\
       p_op_action dbg orc p (PRevisionCommentRedact rid cid) entry actor d = Err EMissing p) /\
    (forall r, lookup rid (p_revisions p) = Some (Some r) ->
       t_get (r_discussion r) cid = None ->
       p_op_action dbg orc p (PRevisionCommentEdit rid cid body) entry actor d = Ok p /\
       p_op_action dbg orc p (PRevisionCommentRedact rid cid) entry actor d = Ok p).
Proof. exact patch_ignored_targets. Qed.

(* ------------------------------------------------------------------ non-vacuity *)

Local Definition d12 := mkDoc [1; 2] 1.

(* an issue by actor 3 (no delegate); a stranger's (4) label and edit are
   rejected, a no-op label is accepted, a delegate's (1) label goes through;
   actor 4 cannot redact 3's comment, actor 3 can *)
Example C07_example_issue :
  let root := mkOp 10 3 (Some d12) [IComment 1 None; IEdit 1 false] in
  let ops := [ mkOp 11 4 (Some d12) [ILabel [7]];
               mkOp 12 4 (Some d12) [ILabel []];
               mkOp 13 1 (Some d12) [ILabel [7]];
               mkOp 14 4 (Some d12) [IEdit 2 false];
               mkOp 15 4 (Some d12) [ICommentRedact 10];
               mkOp 16 3 (Some d12) [IComment 2 (Some 10)];
               mkOp 17 4 (Some d12) [ICommentRedact 16];
               mkOp 18 3 (Some d12) [ICommentRedact 16] ] in
  match i_init true root with
  | Ok i0 =>
      match i_run true true i0 ops with
      | Some i => keys (i_labels i) = [7] /\ i_title i = 1 /\
                  lookup 16 (t_comments (i_thread i)) = Some None /\
                  Forall (fun o' => op_id o' <> op_id root) ops
      | None => False
      end
  | _ => False
  end.
Proof. vm_compute. repeat split; repeat constructor; discriminate. Qed.
