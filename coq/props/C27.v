(* C27 — SSH agent client never panics and key encodings round-trip.
   This file contains only theorem statements closed by [exact].

   [safe r] (SshAgentProofs.v) says the parser returned a value or an error:
   it did not panic at any slice / index / copy site and its loop did not run
   out of the stated fuel.  Responses and buffers are arbitrary byte lists of
   any length. *)
From HW Require Import lib.Base model.SshAgent proofs.SshAgentProofs.
Local Open Scope N_scope.

(* Parsing any response from the agent yields a value or an error: identity
   lists (any count field up to 2^32-1, any blobs), signature responses (blobs
   of any length), extension answers.  The identity loop returns within
   (response length + 1) iterations. *)
Theorem C27_parsers_total :
  forall resp : bytes,
    safe (request_identities resp) /\ safe (sign resp) /\ safe (query_extension resp).
Proof.
  exact (fun resp => conj (request_identities_safe resp)
                    (conj (sign_safe resp) (query_extension_safe resp))).
Qed.

(* The cursor primitives and the Encodable readers for public keys, signatures
   and secret keys are total on every buffer and every starting position
   (including positions past the end). *)
Theorem C27_readers_total :
  forall c : cursor,
    safe (read_u32 c) /\ safe (read_string c) /\ safe (read_byte c) /\
    safe (pk_read c) /\ safe (sig_read c) /\ safe (sk_read c).
Proof.
  exact (fun c => conj (read_u32_safe c) (conj (read_string_safe c) (conj (read_byte_safe c)
                 (conj (pk_read_safe c) (conj (sig_read_safe c) (sk_read_safe c)))))).
Qed.

(* What the client hands back has the right shape: a signature is 64 bytes,
   every listed key 32 bytes. *)
Theorem C27_results_well_sized :
  (forall resp sg, sign resp = Ok sg -> len sg = 64) /\
  (forall c k c', pk_read c = Ok (k, c') -> len k = 32).
Proof. exact (conj sign_ok_64 pk_read_ok_32). Qed.

(* Public key: for every 32-byte key, what PublicKey::write produced is read
   back unchanged the way the client reads it (read_string for the blob, then
   PublicKey::read inside the blob), whatever follows in the buffer. *)
Theorem C27_key_roundtrip :
  forall k rest : bytes, len k = 32 ->
  exists blob c c', read_string (reader (pk_write k ++ rest) 0) = Ok (blob, c) /\
                    pos c = len (pk_write k) /\
                    pk_read (reader blob 0) = Ok (k, c').
Proof. exact pk_roundtrip. Qed.

(* Signature: for every 64-byte signature, Signature::read returns what
   Signature::write wrote and leaves the cursor just after it. *)
Theorem C27_sig_roundtrip :
  forall s rest : bytes, len s = 64 ->
  exists c, sig_read (reader (sig_write s ++ rest) 0) = Ok (s, c) /\ pos c = len (sig_write s).
Proof. exact sig_roundtrip. Qed.

(* Secret key: for every 64-byte key pair. *)
Theorem C27_secret_key_roundtrip :
  forall sk rest : bytes, len sk = 64 ->
  exists c, sk_read (reader (sk_write sk ++ rest) 0) = Ok (sk, c) /\ pos c = len (sk_write sk).
Proof. exact sk_roundtrip. Qed.

(* Through the client: a SIGN_RESPONSE carrying a written signature yields
   exactly that signature; an IDENTITIES_ANSWER listing any number of keys with
   any comments yields exactly those keys, in order. *)
Theorem C27_client_roundtrip :
  (forall s rest : bytes, len s = 64 -> sign (SIGN_RESPONSE :: sig_write s ++ rest) = Ok s) /\
  (forall (es : list (bytes * bytes)) (rest : bytes),
     Forall entry_ok es -> N.of_nat (length es) < 4294967296 ->
     request_identities (IDENTITIES_ANSWER :: u32_bytes (N.of_nat (length es)) ++ listing es ++ rest)
     = Ok (map fst es)).
Proof. exact (conj sign_roundtrip identities_roundtrip). Qed.

(* SSH strings and u32s round-trip at any offset of any buffer. *)
Theorem C27_string_roundtrip :
  (forall pre s rest : bytes, len s < 4294967296 ->
     exists c, read_string {| cs := pre ++ ssh_string s ++ rest; pos := len pre |} = Ok (s, c) /\
               pos c = len pre + len (ssh_string s)) /\
  (forall n rest, n < 4294967296 -> be32 (u32_bytes n ++ rest) = Some n).
Proof. exact (conj string_roundtrip be32_u32_bytes). Qed.

(* the hypotheses of the round trips are satisfiable *)
Example C27_entry_ok_example :
  Forall entry_ok [(repeat 7 32, [104; 105]); (repeat 0 32, [])].
Proof. repeat constructor; cbn; lia. Qed.

(* The code as found (before the two fix commits) violates the property:
   an empty response panics request_identities (`resp[0]`), and a signature
   blob of one byte panics sign (`copy_from_slice`). *)
Theorem C27_code_as_found_refuted :
  (exists resp p, request_identities_orig resp = Panic p) /\
  (exists resp p, sign_orig resp = Panic p).
Proof.
  exact (conj (ex_intro _ [] (ex_intro _ 10 request_identities_orig_panics))
              (ex_intro _ _ (ex_intro _ 11 sign_orig_panics))).
Qed.
