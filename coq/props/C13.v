(* C13 — No input from a remote peer can crash the node.
   The property spans three input surfaces; each has its own executable model
   in which every panic-capable construct of the anchored Rust code (assert!,
   slice/index, unreachable!, allocation by attacker-controlled size) is an
   explicit Panic-like outcome, and a totality theorem over ALL inputs:
   - gossip messages delivered to the Service (model/Gossip.v: the
     `assert_ne!(timestamp, 0)` of gossip::Store::announced is [APanic]; the
     `assert!(from <= to)` of Store::filtered was removed by a fix: commit);
   - bytes on the wire (model/Deser.v, WireFrame.v, WireVarint.v: frames,
     varints, payload allocation; theorems of property C14 are cited here);
   - fetch scheduling triggered by messages (model/FetchSched.v, property C16);
   - git stream request headers (model/Pktline.v, built with property C12). *)
From HW Require Import lib.Base lib.SMap model.Gossip proofs.GossipProofs.
From HW Require Import model.WireVarint model.WireFrame model.Deser proofs.DeserProofs.
From HW Require model.FetchSched proofs.FetchSchedProofs.
From HW Require model.Pktline proofs.PktlineProofs.
From HW Require gen.ConstsWire model.WireMsg proofs.WireMsgProofs.
Local Open Scope N_scope.

(* any sequence of events — connections, disconnections, ANY announcements
   (forged, zero / huge timestamps, unknown announcers, duplicates), ANY
   subscriptions (incl. since > until), clock steps, local commands — from the
   initial state of any configuration: no step panics *)
Theorem C13_messages_never_panic :
  forall c now nts inv known0 es, Gossip.run c (init_state c now nts inv known0) es <> None.
Proof. exact (fun c now nts inv known0 es => run_no_panic es c _ (init_state_inv13 c now nts inv known0)). Qed.

(* one step from any state whose cached inventory timestamp is non-zero *)
Theorem C13_message_step_never_panics :
  forall c s e, Inv13 s -> exists s' o, Gossip.step c s e = Gossip.Ok s' o /\ Inv13 s'.
Proof. exact step_no_panic. Qed.

(* the only reaction to an invalid announcement is a session error (the peer is disconnected) *)
Theorem C13_invalid_announcement_only_disconnects :
  forall c s p a n, handle_announcement c s p a <> HPanic n.
Proof. exact handle_announcement_no_panic. Qed.

(* any bytes whatsoever fed to the frame deserializer, with any inner message
   decoder: no `unreachable!`, no fuel exhaustion (C14_decode_total), and every
   allocation request is bounded by 4096 + bytes received (C14_alloc_bounded is
   stated in props/C14.v) *)
Theorem C13_frames_never_panic :
  forall (M : Type) (inner_decode : list N -> ires M) (buf : list N), bytes_ok buf ->
    snd (fst (deserialize_next inner_decode buf)) <> NPanic /\
    snd (fst (deserialize_next inner_decode buf)) <> NFuel.
Proof. exact deserialize_next_total. Qed.

(* fetch scheduling driven by announcements, commands, connects/disconnects and
   late worker results, for every configuration, event sequence and shuffle
   order: none of the assert!/panic!/debug_assert! sites of service.rs and
   session.rs is reachable (property C16's model) *)
Theorem C13_fetch_scheduling_never_panics :
  forall cfg evs, exists st, FetchSched.run cfg evs = FetchSched.Ret st.
Proof. exact FetchSchedProofs.no_panic. Qed.

(* the header of a git stream request: for ANY bytes (any 4-hex-digit length
   field incl. 0000..0003 and values above the 1024-byte buffer, non-hex,
   non-UTF-8, truncated) the parser returns a request or an error; every slice
   of the Rust code is an explicit bounds-checked operation in model/Pktline.v *)
Theorem C13_git_header_never_panics :
  forall ext bytes site, Pktline.git_request ext bytes <> Pktline.Panic site.
Proof. exact PktlineProofs.pktline_no_panic. Qed.

(* gossip message bytes: the decoder model (model/WireMsg.v, property C15) is a
   total function into explicit error kinds — filter sizes, vector limits, string
   checks are all tests that yield an error — and whatever it accepts can be
   re-serialised (Announcement::verify re-encodes every received announcement and
   unwraps): the re-encoding exists and fits the frame limit *)
Theorem C13_decoded_message_reencodes_without_panic :
  forall (utf8_ok alias_ok agent_ok onion_ok : list N -> bool) (bs : list N) (m : WireMsg.message),
    WireVarint.bytes_ok bs ->
    WireMsg.decode utf8_ok alias_ok agent_ok onion_ok bs = WireMsg.DecOk m ->
    exists bs', WireMsg.encode m = Some bs' /\ WireVarint.len bs' <= ConstsWire.SIZE_MAX.
Proof. exact WireMsgProofs.decoded_reencodes. Qed.

Example C13_example_zero_timestamp_disconnects :
  let c := mkCfg 0 true [] [] [] in
  match Gossip.run c (init_state c 1000 1001 [] [0; 3]) [EConnect 1; ERecvAnn 1 (mkAnn 3 KNode 0 0 true [] false true);
                                                  ERecvSub 1 SubAll 9000 0] with
  | Some (_, os) => nth 1 os [] = [ODisconnect 1] /\ nth 2 os [] = []
  | None => False
  end.
Proof. vm_compute. split; reflexivity. Qed.
