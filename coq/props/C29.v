(* C29 — Node-signed announcement timestamps strictly increase.
   [draws o]: the timestamps drawn by Service::timestamp during a step (ghost output ODraw);
   [own_ts c o]: timestamps of the announcements written under our own node id;
   [incr_from b l]: b < l_1 < l_2 < ... *)
From HW Require Import lib.Base lib.SMap model.Gossip proofs.GossipProofs.
Local Open Scope N_scope.

(* for any start state, any clock behaviour (EElapse 0 = stalled clock; the
   service never moves its clock backwards, Service::tick ignores such ticks)
   and any event sequence: the drawn timestamps are strictly increasing and
   greater than the cached node/inventory timestamps, and every announcement
   sent under our name carries the cached node timestamp, the initial
   inventory timestamp, or one of the drawn ones (re-sent cached announcements
   are the same announcement, not a new one) *)
Theorem C29_timestamps_strictly_increase :
  forall c now nts inv known0 es s' os,
  let s := init_state c now nts inv known0 in
  run c s es = Some (s', os) ->
  node_ts s < inv_ts s /\ inv_ts s = last_ts s /\
  incr_from (last_ts s) (all_draws os) /\
  Forall (fun t => In t ([node_ts s; inv_ts s] ++ all_draws os)) (flat_map (own_ts c) os).
Proof.
  intros c now nts inv known0 es s' os s Hrun.
  destruct (init_state_inv29 c now nts inv known0) as (HI & Hs & Hlt & Heq).
  destruct (run_29 es c _ s s' os Hs HI Hrun) as (H1 & H2).
  exact (conj Hlt (conj Heq (conj H1 H2))).
Qed.

(* the same from any state satisfying the invariant, with H the timestamps used so far *)
Theorem C29_from_any_state :
  forall es c H s s' os, sorted (sessions s) -> Inv29 c H s -> run c s es = Some (s', os) ->
  incr_from (last_ts s) (all_draws os) /\
  Forall (fun t => In t (H ++ all_draws os)) (flat_map (own_ts c) os).
Proof. exact run_29. Qed.

(* a single draw is strictly above everything drawn before, whatever the clock says *)
Theorem C29_draw_strict :
  forall s s' t, draw s = (s', t) -> last_ts s < t /\ last_ts s' = t.
Proof.
  intros s s' t E. destruct (draw_spec s s' t E) as (H1 & _ & H2 & _). exact (conj H1 H2).
Qed.

Example C29_example_stalled_clock :
  let c := mkCfg 0 true [(4, mkDoc true [])] [4] [4] in
  match run c (init_state c 1000 1001 [4] [0]) [ECmdAnnounceRefs 4; ECmdAnnounceRefs 4; EElapse 0; ECmdAddInventory 4] with
  | Some (_, os) => all_draws os = [1003; 1004; 1005]
  | None => False
  end.
Proof. vm_compute. reflexivity. Qed.
