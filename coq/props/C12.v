(* C12 — Repository data is served only to peers allowed to see it: an incoming
   fetch request is served only if the requested repository is seeded and the
   requesting node is allowed to see it (public repository, delegate, or
   allow-listed); otherwise the request is refused before any repository data
   is sent.
   Model: coq/model/Worker.v (Worker::_process Responder arm, is_authorized,
   upload_pack's version gate) over coq/model/Pktline.v (the header parser).
   [gup] is the spawned `git upload-pack` (any function of the repository and
   the client's bytes).  This file contains only theorem statements closed by
   [exact]. *)
From HW Require Import lib.Base model.Worker proofs.PktlineProofs proofs.WorkerProofs.
Local Open Scope N_scope.

(* The upload is started (the request ends with Ok) only for a repository the
   node seeds and whose identity document makes it visible to the requester. *)
Theorem C12_served_implies_allowed :
  forall gup st remote ext stream rid out,
  process gup st remote ext stream = Done rid None out ->
  exists r, rid = Some r /\ seeded st r /\
    exists d, repo_doc st r d /\
      (d_visibility d = Public \/ In remote (d_delegates d) \/
       exists allow, d_visibility d = Private allow /\ In remote allow).
Proof. exact served_implies_allowed. Qed.

(* Not one byte reaches the stream on any other branch: whatever is written is
   the output of `git upload-pack` on exactly the repository that was checked,
   for a requester allowed to see it. *)
Theorem C12_no_data_unless_allowed :
  forall gup st remote ext stream rid result out,
  process gup st remote ext stream = Done rid result out ->
  out <> [] ->
  exists h rest, git_request ext stream = Ok (h, rest) /\
    rid = Some (g_repo h) /\ result = None /\ out = gup (g_repo h) rest /\
    allowed st remote (g_repo h).
Proof. exact data_implies_allowed. Qed.

Theorem C12_refused_sends_nothing :
  forall gup st remote ext stream rid e out,
  process gup st remote ext stream = Done rid (Some e) out -> out = [].
Proof. exact refused_sends_nothing. Qed.

(* The decision itself: Ok exactly for seeded /\ stored /\ visible ... *)
Theorem C12_is_authorized_iff :
  forall st remote rid,
  is_authorized st remote rid = None <->
  (seeded st rid /\ exists d, repo_doc st rid d /\ visible d remote).
Proof. exact is_authorized_iff. Qed.

(* ... where the boolean visibility test is the stated one ... *)
Theorem C12_visibility_spec :
  forall d n,
  is_visible_to d n = true <->
  (d_visibility d = Public \/ In n (d_delegates d) \/
   exists allow, d_visibility d = Private allow /\ In n allow).
Proof. exact is_visible_to_spec. Qed.

(* ... and a blocked repository is refused as Unauthorized before (and whatever)
   the storage holds for it. *)
Theorem C12_block_refused_before_load :
  forall st repos' remote rid,
  seed_policy st rid = Some Block ->
  is_authorized {| st_default := st_default st; st_policy_err := st_policy_err st;
                   st_explicit := st_explicit st; st_repos := repos' |} remote rid
  = Some UUnauthorized.
Proof. exact block_independent_of_storage. Qed.

(* Converse (the theorems above are not vacuous: the responder does serve): a
   well-formed protocol-2 request for an allowed repository is served. *)
Theorem C12_allowed_is_served :
  forall gup st remote ext stream h rest,
  git_request ext stream = Ok (h, rest) ->
  protocol_version (g_extra h) = 2 ->
  allowed st remote (g_repo h) ->
  process gup st remote ext stream = Done (Some (g_repo h)) None (gup (g_repo h) rest).
Proof. exact allowed_is_served. Qed.

(* A whole session of requests against changing policy databases / storage:
   every byte written was authorised by the state in force for its request. *)
Theorem C12_session :
  forall gup (reqs : list session_request),
  Forall (fun r =>
    let '(st, remote, ext, stream) := r in
    forall rid result out, handle gup r = Done rid result out -> out <> [] ->
      exists rid', rid = Some rid' /\ result = None /\ allowed st remote rid') reqs.
Proof. exact session_data_allowed. Qed.

(* No request header, whatever its bytes, makes the responder panic. *)
Theorem C12_process_no_panic :
  forall gup st remote ext stream site,
  process gup st remote ext stream <> ProcPanic site.
Proof. exact process_no_panic. Qed.

(* The hypotheses are satisfiable: an allow-listed requester of a private
   repository is served and data flows; a stranger gets nothing. *)
Example C12_ex_served :
  process marker_pack (ex_state (Private [2]) Allow) 2 None ex_stream = Done (Some ex_rid) None [1].
Proof. exact ex_served. Qed.

Example C12_ex_refused :
  process marker_pack (ex_state (Private [2]) Allow) 3 None ex_stream
  = Done (Some ex_rid) (Some UUnauthorized) [].
Proof. exact ex_stranger_refused. Qed.
