(* C23 — DAG traversals respect dependencies and pruning removes exactly
   descendants; merge is the union.  Only theorem statements closed by [exact]
   (and Examples showing the hypotheses are satisfiable).

   Vocabulary (proofs/DagBase.v, DagTraverse.v, DagRemove.v, DagFold.v, DagPrune.v):
     dag_repr g      every BTreeMap/BTreeSet image is sorted (holds for any API-built graph)
     dag_shape g     dag_repr + dependents mirror dependencies + tips/roots exact
     dag_wf g        dag_shape + acyclic (a rank function grows along dependents)
     edge g k d      d is listed as a dependent of node k;  depends g a b: b is a dependency of a
     reach / desc    reflexive-transitive / transitive closure of [edge]
     closed_order g l   every element of l is followed in l by all its dependents
     before l x y    x occurs in l before an occurrence of y
     removed g g' R  g' is g without exactly the nodes R: other nodes keep value and
                     dependencies and lose exactly the dependents in R
     subseq s l      s is a subsequence of l *)
From HW Require Import lib.Base lib.SMap model.Dag proofs.DagBase proofs.DagOps proofs.DagTraverse
  proofs.DagBfs proofs.DagRemove proofs.DagFold proofs.DagPrune proofs.DagMerge proofs.DagFuel.
From Coq Require Import Permutation.

(* ---------------------------------------------------------------- sorted_by *)

(* for ANY comparison function and any well-formed graph of any size: the
   supplied fuel suffices, the order has no duplicates, is a permutation of
   the keys, and every node is followed by all its dependents *)
Theorem C23_sorted_topological :
  forall (V : Type) (g : dag V) (compare : N -> N -> comparison), dag_wf g ->
  exists o, dag_sorted_by compare g = Some o /\ NoDup o /\
    Permutation o (keys (graph g)) /\ closed_order g o.
Proof. exact @sorted_by_topological. Qed.

(* … i.e. every node comes after each of its dependencies *)
Theorem C23_sorted_after_dependencies :
  forall (V : Type) (g : dag V) compare o, dag_wf g -> dag_sorted_by compare g = Some o ->
  forall a b, depends g a b -> in_graph g b -> before o b a.
Proof. exact @sorted_by_after_dependencies. Qed.

(* ---------------------------------------------------------------- fold *)

(* for any stateful filter: the traversal order is duplicate-free and
   dependency-closed and consists of what is reachable from the start nodes;
   the filter is called on a subsequence of it, namely on every node that is
   not a transitive dependent of a node where it answered Break *)
Theorem C23_fold_skips_exactly_dependents :
  forall (V A : Type) (g : dag V) rts (acc : A) filter,
  dag_wf g -> strictly_ascending rts = true ->
  exists order a log,
    fold_order g rts = Some order /\ dag_fold_log g rts acc filter = Done (a, log) /\
    NoDup order /\ closed_order g order /\
    (forall k, In k order <-> exists s, In s rts /\ reach g s k) /\
    subseq (map fst log) order /\ log_run g filter acc log a /\
    (forall k, In k order ->
       (In k (map fst log) <-> (in_graph g k /\ ~ exists b, broke log b /\ desc g b k))).
Proof. exact @fold_spec. Qed.

(* the visited sequence is duplicate-free and respects dependencies *)
Theorem C23_fold_order_respects_dependencies :
  forall (V A : Type) (g : dag V) rts (acc : A) filter a log, dag_wf g ->
  dag_fold_log g rts acc filter = Done (a, log) ->
  NoDup (map fst log) /\
  forall x y, In x (map fst log) -> In y (map fst log) -> depends g x y -> before (map fst log) y x.
Proof. exact @fold_order_respects. Qed.

(* the only panic of the crate: fold's assertion on its roots *)
Theorem C23_fold_panics_iff_roots_unsorted :
  forall (V A : Type) (g : dag V) rts (acc : A) filter,
  dag_fold_log g rts acc filter = Panicked <-> strictly_ascending rts = false.
Proof. exact @fold_panics_iff. Qed.

(* ---------------------------------------------------------------- remove / prune *)

(* remove(key): exactly key and its transitive dependents go (nothing if key is
   not a node); shape and acyclicity are kept *)
Theorem C23_remove_exact :
  forall (V : Type) (g : dag V) key, dag_shape g ->
  exists g', dag_remove g key = Some g' /\ dag_shape g' /\
    removed g g' (fun x => in_graph g key /\ reach g key x) /\
    (dag_acyclic g -> dag_acyclic g').
Proof. exact @remove_exact. Qed.

(* prune_by, for any start keys, stateful filter and ordering: the filter is
   called on a dependency-respecting subsequence of the traversal order (every
   node of it that is not a transitive dependent of a node where it broke);
   exactly the broken nodes and their transitive dependents are removed; the
   result is well-formed *)
Theorem C23_prune_exact :
  forall (V A : Type) (g : dag V) rts (acc : A) (filter : prune_filter V A) ordering, dag_wf g ->
  exists order a g' log,
    prune_order ordering g rts = Some order /\
    dag_prune_by_log g rts acc filter ordering = Some (a, g', log) /\
    NoDup order /\ closed_order g order /\
    (forall k, In k order <-> exists s, In s rts /\ reach g s k) /\
    subseq (pkeys log) order /\ prune_run filter g acc log a g' /\
    (forall k, In k order ->
       (In k (pkeys log) <-> (in_graph g k /\ ~ exists b, pbroke log b /\ desc g b k))) /\
    dag_wf g' /\ removed g g' (fun x => exists b, pbroke log b /\ reach g b x).
Proof. exact @prune_by_spec. Qed.

(* ---------------------------------------------------------------- merge *)

(* merge a b (b with symmetric edges, any number of roots): union of the nodes,
   union of the dependencies, dependents mirrored, values of a win, tips/roots exact *)
Theorem C23_merge_union :
  forall (V : Type) (a b : dag V), dag_repr a -> dag_shape b ->
  let m := dag_merge a b in
  dag_repr m /\
  (forall x, in_graph m x <-> (in_graph a x \/ in_graph b x)) /\
  (forall x y, depends m x y <-> (depends a x y \/ depends b x y)) /\
  (forall y x, edge m y x <-> (edge a y x \/ (in_graph m y /\ depends b x y))) /\
  (forall x n, lookup x (graph a) = Some n -> option_map nvalue (lookup x (graph m)) = Some (nvalue n)) /\
  (forall x n, lookup x (graph a) = None -> lookup x (graph b) = Some n ->
               option_map nvalue (lookup x (graph m)) = Some (nvalue n)) /\
  (tips_ok a -> tips_ok m) /\ (roots_ok a -> roots_ok m).
Proof. exact @merge_union. Qed.

Theorem C23_merge_shape :
  forall (V : Type) (a b : dag V), dag_shape a -> dag_shape b ->
  (forall x y, depends a x y -> in_graph b y -> in_graph a y) ->
  dag_shape (dag_merge a b).
Proof. exact @merge_shape. Qed.

Theorem C23_merge_acyclic :
  forall (V : Type) r (a b : dag V), dag_repr a -> dag_shape b ->
  dag_ranked r a -> (forall x y, depends b x y -> (r y < r x)%N) ->
  dag_ranked r (dag_merge a b).
Proof. exact @merge_ranked. Qed.

(* ---------------------------------------------------------------- fuel, constructors *)

(* the fuel supplied by the top-level functions always suffices, on every graph
   the API can build (cyclic ones included) *)
Theorem C23_fuel_suffices :
  (forall ops, exists g, build ops = Some g /\ dag_repr g) /\
  (forall (V : Type) (g : dag V) compare, exists o, dag_sorted_by compare g = Some o) /\
  (forall (V : Type) (g : dag V) key, dag_repr g -> exists g', dag_remove g key = Some g' /\ dag_repr g') /\
  (forall (V : Type) (g : dag V) nd, exists ds, descendants_of g nd = Some ds) /\
  (forall (V A : Type) (g : dag V) rts (acc : A) filter,
      dag_fold_log g rts acc filter <> OutOfFuel /\ dag_fold g rts acc filter <> OutOfFuel) /\
  (forall (V A : Type) (g : dag V) rts (acc : A) (filter : prune_filter V A) ordering,
      dag_repr g -> exists r, dag_prune_by g rts acc filter ordering = Some r).
Proof.
  exact (conj build_repr (conj (@sorted_by_total) (conj (@remove_fuel_suffices)
        (conj (@descendants_total) (conj (@fold_never_out_of_fuel) (@prune_by_total)))))).
Qed.

(* descendants_of is exactly the set of transitive dependents *)
Theorem C23_descendants_exact :
  forall (V : Type) (g : dag V) k nd, dag_shape g -> lookup k (graph g) = Some nd ->
  exists ds, descendants_of g nd = Some ds /\ forall x, In x ds <-> desc g k x.
Proof. exact @descendants_spec. Qed.

(* ancestors_of / siblings_of (what prune_by hands to its filter) *)
Theorem C23_siblings_exact :
  forall (V : Type) (g : dag V) k nd, dag_shape g -> lookup k (graph g) = Some nd ->
  (exists anc, ancestors_of g nd = Some anc /\ forall x, In x anc <-> desc g x k) /\
  (exists sib, siblings_of g k nd = Some sib /\
     forall x, In x sib <-> (in_graph g x /\ x <> k /\ ~ desc g x k /\ ~ desc g k x)).
Proof. exact (fun V g k nd Hs El => conj (ancestors_spec g k nd Hs El) (siblings_spec g k nd Hs El)). Qed.

(* the model's sort_by: a permutation, and for total preorders (slice::sort_by's
   contract) the sorted and stable one — the result any stable sort must give *)
Theorem C23_sort_by_stable_sort :
  forall (A : Type) (cmp : A -> A -> comparison) l,
  Permutation (sort_by cmp l) l /\
  (total_preorder cmp ->
   Sorted.StronglySorted (fun a b => cmp a b <> Gt) (sort_by cmp l) /\
   forall a, filter (fun b => match cmp a b with Eq => true | _ => false end) (sort_by cmp l) =
             filter (fun b => match cmp a b with Eq => true | _ => false end) l).
Proof.
  exact (fun A cmp l => conj (sort_by_perm cmp l)
           (fun H => conj (sort_by_sorted cmp l H) (fun a => sort_by_stable cmp l a H))).
Qed.

(* how well-formed graphs arise: the empty graph; a node under an unused,
   unreferenced key; a dependency from an existing node that respects a rank *)
Theorem C23_wf_constructible :
  (forall (V : Type) r, dag_wfr r (@dag_new V)) /\
  (forall (V : Type) r (g : dag V) k v, dag_wfr r g -> ~ in_graph g k -> (forall x, ~ depends g x k) ->
      dag_wfr r (dag_node g k v)) /\
  (forall (V : Type) r (g : dag V) f t, dag_wfr r g -> in_graph g f -> (r t < r f)%N ->
      dag_wfr r (dag_dependency g f t)) /\
  (forall (V : Type) r (g : dag V), dag_wfr r g -> dag_wf g).
Proof. exact (conj (@wfr_new) (conj (@wfr_node) (conj (@wfr_dep) (@wfr_wf)))). Qed.

(* ---------------------------------------------------------------- non-vacuity *)

Local Open Scope N_scope.

(* the diamond 1→0, 2→0, 3→1, 3→2 built through the API *)
Definition ex_diamond : dag N :=
  dag_dependency (dag_dependency (dag_dependency (dag_dependency
    (dag_node (dag_node (dag_node (dag_node dag_new 0 7) 1 7) 2 7) 3 7) 1 0) 2 0) 3 1) 3 2.

Example C23_example_wf : dag_wf ex_diamond.
Proof.
  apply (wfr_wf (fun k => k)). unfold ex_diamond.
  repeat (apply wfr_dep; [| unfold in_graph; vm_compute; congruence | reflexivity]).
  repeat (apply wfr_node;
          [| unfold in_graph; vm_compute; intros H; apply H; reflexivity
           | apply forall_not_depends; vm_compute; repeat constructor]).
  apply wfr_new.
Qed.

Example C23_example_runs :
  dag_sorted ex_diamond = Some [0; 1; 2; 3] /\
  dag_sorted_by (keycmp (KTab [(1, 5); (2, 4)])) ex_diamond = Some [0; 2; 1; 3] /\
  (* Break at 1 skips 3 (its only transitive dependent) *)
  dag_fold_log ex_diamond [0] tt (fun _ k _ => (brk_flow [1] k, tt))
    = Done (tt, [(0, Continue); (1, Break); (2, Continue)]) /\
  option_map (fun g => keys (graph g)) (dag_remove ex_diamond 1) = Some [0; 2] /\
  dag_fold_log ex_diamond [1; 0] tt (fun _ k _ => (Continue, tt)) = Panicked.
Proof. vm_compute. repeat split. Qed.

(* the defect found by this property (fixed in /repo): merging a graph with
   several roots — a = {0}, b = {1, 2, 3; 3 depends on 2} — now yields all
   four nodes and the edge (before the fix: len 2) *)
Example C23_example_merge_multiroot :
  let a := dag_node dag_new 0 0 in
  let b := dag_dependency (dag_node (dag_node (dag_node dag_new 1 0) 2 0) 3 0) 3 2 in
  keys (graph (dag_merge a b)) = [0; 1; 2; 3] /\
  dag_has_dependency (dag_merge a b) 3 2 = true /\
  sset_elems (roots (dag_merge a b)) = [0; 1; 2] /\ sset_elems (tips (dag_merge a b)) = [0; 1; 3].
Proof. vm_compute. repeat split. Qed.
