(* C18 — Canonical JSON has a single byte representation.
   Model: model/CanonJson.v ([encode] mirrors CanonicalFormatter driven by
   serde_json; [parse] is a JSON parser restricted to the emitted grammar;
   [norm v] is the value read back from [encode v]).  Unicode NFC is the
   parameter [nfc], assumed only to satisfy [nfc_ok] (idempotent, creates no
   escaped character, maps scalar values to scalar values).  [wfi v] says that
   v is something a serde_json::Value can hold (Unicode scalar values,
   integers within i64/u64).
   This file contains only theorem statements closed by [exact]. *)
From HW Require Import lib.Base model.CanonJson proofs.CanonJsonProofs.
Local Open Scope N_scope.

(* Floating-point numbers are rejected, and nothing else is: encoding fails
   exactly when the value contains a float. *)
Theorem C18_floats_rejected :
  forall nfc, nfc_ok nfc -> forall v, encode nfc v = None <-> has_float v = true.
Proof. intros nfc (H1 & H2 & H3). exact (floats_rejected nfc H2). Qed.

(* Decoding the output yields the normal form of the value ... *)
Theorem C18_parse_encode :
  forall nfc, nfc_ok nfc -> forall v bs, wfi v ->
  encode nfc v = Some bs -> parse bs = Some (norm nfc v).
Proof. intros nfc (H1 & H2 & H3). exact (parse_encode nfc H2 H3). Qed.

(* ... and encoding what was decoded reproduces the output byte for byte. *)
Theorem C18_idempotent :
  forall nfc, nfc_ok nfc -> forall v bs, wfi v ->
  encode nfc v = Some bs -> exists w, parse bs = Some w /\ encode nfc w = Some bs.
Proof. intros nfc (H1 & H2 & H3). exact (idempotent nfc H1 H2 H3). Qed.

(* A single byte representation: two values have the same encoding exactly
   when they have the same normal form. *)
Theorem C18_single_representation :
  forall nfc, nfc_ok nfc -> forall v1 v2 b1 b2, wfi v1 -> wfi v2 ->
  encode nfc v1 = Some b1 -> encode nfc v2 = Some b2 ->
  (b1 = b2 <-> norm nfc v1 = norm nfc v2).
Proof. intros nfc (H1 & H2 & H3). exact (single_representation nfc H2 H3). Qed.

(* No whitespace outside string literals; and in the emitted text the members
   of every object appear in strictly increasing byte order of the emitted
   (quoted, escaped) keys — hence no duplicate keys either. *)
Theorem C18_keys_sorted_no_ws :
  forall nfc, nfc_ok nfc -> forall v bs, wfi v -> encode nfc v = Some bs ->
  no_ws_outside false bs = true /\
  exists w, parse bs = Some w /\ objs_sorted emit_str w = true.
Proof. intros nfc (H1 & H2 & H3). exact (keys_sorted_no_ws nfc H2 H3). Qed.

(* The order of the emitted keys is the byte order of the keys themselves
   (UTF-8) whenever no key of the output contains a character below '#'
   (C0 controls, space, the exclamation mark, the double quote) or a backslash. *)
Theorem C18_key_byte_order_outside_known_class :
  forall nfc, nfc_ok nfc -> forall v bs w, wfi v -> encode nfc v = Some bs -> parse bs = Some w ->
  keys_all high_key w -> objs_sorted utf8s w = true.
Proof. intros nfc (H1 & H2 & H3). exact (plain_keys_byte_order nfc H2 H3). Qed.

(* KNOWN CLASS (key-order-by-encoded-bytes): for keys outside that class the
   two orders differ, because the BTreeMap is keyed by the quoted and escaped
   key: the key a! is emitted before the key a, since the exclamation mark
   (0x21) is below the closing double quote (0x22). *)
Theorem C18_key_byte_order_refuted :
  exists v bs w, wfi v /\ encode (fun s => s) v = Some bs /\ parse bs = Some w /\
                 objs_sorted utf8s w = false /\ ~ keys_all high_key w.
Proof.
  exists (Obj [([97], Int 1); ([97; 33], Int 2)]).
  exists [123; 34; 97; 33; 34; 58; 50; 44; 34; 97; 34; 58; 49; 125].
  exists (Obj [([97; 33], Int 2); ([97], Int 1)]).
  split; [|split; [vm_compute; reflexivity|split; [vm_compute; reflexivity|split; [vm_compute; reflexivity|]]]].
  - simpl. unfold int_range, scalar. repeat split; repeat constructor; lia.
  - simpl. unfold high_key, high_char. intros [[H _] _]. inversion H as [|? ? _ H']. inversion H' as [|? ? [H'' _] _]. lia.
Qed.

(* Control characters (and the two characters that delimit/escape strings)
   never appear raw: every emitted byte is >= 0x20; the escapes used are the
   ones [parse] reads back (C18_parse_encode), e.g. U+0001 -> backslash u0001, TAB -> backslash t. *)
Theorem C18_control_escaped :
  forall nfc, nfc_ok nfc -> forall v bs, encode nfc v = Some bs -> Forall (fun b => 32 <= b) bs.
Proof. intros nfc (H1 & H2 & H3). exact (control_escaped nfc H2). Qed.

(* the encoder is the plain compact writer applied to the normal form, and the
   normal form is a fixed point of normalisation *)
Theorem C18_encode_is_emit_of_normal_form :
  forall nfc, nfc_ok nfc -> forall v bs, encode nfc v = Some bs ->
  bs = emit (norm nfc v) /\ norm nfc (norm nfc v) = norm nfc v.
Proof.
  intros nfc (H1 & H2 & H3) v bs H. split; [exact (proj2 (encode_is_emit_norm nfc H2 v bs H))|exact (norm_idem nfc H1 H2 v)].
Qed.

(* non-vacuity: the hypotheses on nfc are satisfiable, by the identity and by a
   normaliser that really rewrites and makes two keys collide *)
Example C18_nfc_ok_satisfiable : nfc_ok (fun s => s) /\ nfc_ok toy_nfc.
Proof. exact (conj id_nfc_ok toy_nfc_ok). Qed.

Example C18_example_collision_and_escapes :
  (* object with keys U+212B, U+00C5 (collide after NFC; later wins) and k (a
     string with U+0001, TAB, double quote, backslash) *)
  encode toy_nfc (Obj [([8491], Int 1); ([197], Int 2); ([107], Str [1; 9; 34; 92])]) =
  Some [123; 34; 107; 34; 58; 34; 92; 117; 48; 48; 48; 49; 92; 116; 92; 34; 92; 92; 34; 44;
        34; 195; 133; 34; 58; 50; 125] /\
  encode toy_nfc (Arr [Int 1; Float]) = None.
Proof. vm_compute. split; reflexivity. Qed.
