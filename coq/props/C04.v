(* C04 — Identity revisions need a majority of valid delegate signatures.
   Model: model/CobIdentity.v (Identity::{from_root, op, action, adopt}, Revision::{accept, reject});
   proofs: proofs/CobIdentityProofs.v.  This file contains only statements closed by [exact].

   [sig_ok key blob sig] (signature verification) and [blob_store] (what a blob id resolves
   to) are arbitrary functions: the theorems hold for every behaviour of the signature scheme
   and of the repository, for every root accepted by [from_root], every list of operations
   (any ids, authors, actions, signatures, concurrency flags), in debug and release builds.
   [run_trace] lists the actions that took effect — for every accepted operation each executed
   action as (state before, author, action, state after); actions of rejected operations ran
   on a discarded copy (Identity::op) and are not part of the history. *)
From HW Require Import lib.Base lib.SMap model.CobIdentity proofs.CobIdentityProofs.
Local Open Scope N_scope.

(* Whenever an executed action changes `current`, a strict majority of the (distinct)
   delegates of the document being replaced have an accepting verdict on the new current
   revision whose signature verifies over that revision's blob. *)
Theorem C04_adoption_needs_majority :
  forall (sig_ok : N -> N -> N -> bool) (blob_store : N -> blob_res)
         (dbg : bool) (root : init_spec) (s0 : identity) (ops : list op)
         (pre : identity) (author : N) (a : action) (post : identity),
  from_root sig_ok root = inl s0 ->
  In (pre, author, a, post) (run_trace sig_ok blob_store dbg s0 ops) ->
  i_current post <> i_current pre ->
  exists prev r,
    get_rev pre (i_current pre) = Some prev /\
    get_rev post (i_current post) = Some r /\
    2 * N.of_nat (length (filter
          (fun k => match lookup k (r_verdicts r) with
                    | Some (VAccept sig) => sig_ok k (r_blob r) sig
                    | _ => false
                    end)
          (dedupN (d_delegates (r_doc prev)))))
      > N.of_nat (length (d_delegates (r_doc prev))).
Proof. exact adoption_needs_majority_any. Qed.

(* An operation authored by a key that is not a delegate of the current document leaves
   current, all revisions (documents, states, verdicts) and heads unchanged — whatever its
   actions, accepted or not.  (No invariant is needed: this holds in every state.) *)
Theorem C04_non_delegate_no_effect :
  forall (sig_ok : N -> N -> N -> bool) (blob_store : N -> blob_res)
         (dbg : bool) (s : identity) (o : op) (cur : revision),
  get_rev s (i_current s) = Some cur ->
  is_delegate (r_doc cur) (o_author o) = false ->
  let s' := fst (apply_op sig_ok blob_store dbg s o) in
  i_current s' = i_current s /\ i_revisions s' = i_revisions s /\ i_heads s' = i_heads s.
Proof. exact non_delegate_no_effect. Qed.

(* ... and inside a history: an executed action whose author is not a delegate of the
   document current at that moment is a no-op on the whole state. *)
Theorem C04_non_delegate_no_effect_trace :
  forall (sig_ok : N -> N -> N -> bool) (blob_store : N -> blob_res)
         (dbg : bool) (root : init_spec) (s0 : identity) (ops : list op)
         (pre : identity) (author : N) (a : action) (post : identity) (cur : revision),
  from_root sig_ok root = inl s0 ->
  In (pre, author, a, post) (run_trace sig_ok blob_store dbg s0 ops) ->
  get_rev pre (i_current pre) = Some cur ->
  is_delegate (r_doc cur) author = false ->
  post = pre.
Proof. exact non_delegate_no_effect_trace. Qed.

(* The current revision exists, is Accepted, and no executed action redacts or edits it (the
   record found under its id afterwards is the same record); the same holds for every accepted
   revision; and `current` only ever moves to an Accepted revision whose parent is the
   previous current revision. *)
Theorem C04_current_stable :
  forall (sig_ok : N -> N -> N -> bool) (blob_store : N -> blob_res)
         (dbg : bool) (root : init_spec) (s0 : identity) (ops : list op)
         (pre : identity) (author : N) (a : action) (post : identity),
  from_root sig_ok root = inl s0 ->
  In (pre, author, a, post) (run_trace sig_ok blob_store dbg s0 ops) ->
  (exists cur, get_rev pre (i_current pre) = Some cur /\ r_state cur = Accepted /\
               get_rev post (i_current pre) = Some cur) /\
  (forall id r, get_rev pre id = Some r -> r_state r = Accepted -> get_rev post id = Some r) /\
  (i_current post <> i_current pre ->
     exists r, get_rev post (i_current post) = Some r /\
               r_parent r = Some (i_current pre) /\ r_state r = Accepted).
Proof. exact current_stable_any. Qed.

(* The `expect`s in Identity::current / current_mut and the three
   assert_eq!(revision.parent, Some(current.id)) never fire, in any history. *)
Theorem C04_no_internal_panic :
  forall (sig_ok : N -> N -> N -> bool) (blob_store : N -> blob_res)
         (dbg : bool) (root : init_spec) (s0 : identity) (ops : list op),
  from_root sig_ok root = inl s0 ->
  Forall (fun x => fst x <> OPanic PCurrent /\ fst x <> OPanic PCurrentMut /\
                   fst x <> OPanic PAssertParent)
         (run_ops sig_ok blob_store dbg s0 ops).
Proof.
  intros sig_ok blob_store dbg root s0 ops H.
  eapply Forall_impl; [|exact (no_internal_panic_any sig_ok blob_store dbg root s0 ops H)].
  intros x Hx. unfold internal_panic in Hx. tauto.
Qed.

(* Beyond the property: if every document a blob parses to has a delegate (Delegates::new
   refuses an empty list), the ONLY panic any history can reach is the debug-only
   debug_assert!(!timeline.contains(&id)) (an operation with several actions in a debug build). *)
Theorem C04_only_debug_panic :
  forall (sig_ok : N -> N -> N -> bool) (blob_store : N -> blob_res)
         (dbg : bool) (root : init_spec) (s0 : identity) (ops : list op),
  (forall b d, blob_store b = BDoc d -> d_delegates d <> []) ->
  from_root sig_ok root = inl s0 ->
  Forall (fun x => forall p, fst x = OPanic p -> p = PDebugTimeline /\ dbg = true)
         (run_ops sig_ok blob_store dbg s0 ops).
Proof. exact only_debug_panic. Qed.

(* ---------------------------------------------------------------- non-vacuity *)

(* keys 1,2,3,4; blob 0 = root document (delegate 1), blob 1 = delegates 1,2,3,
   blob 2 = same delegates, other body; signature n by the key / over the blob listed *)
Definition ex_sigs : list (N * N * N) := [(1, 0, 1); (1, 1, 2); (1, 2, 3); (2, 2, 4)].
Definition ex_blobs : list (N * blob_res) :=
  [(1, BDoc (mkDoc [1; 2; 3] 1 0)); (2, BDoc (mkDoc [1; 2; 3] 1 1))].
Definition ex_root : init_spec :=
  mkInit (mkOp 1 1 false [ARevision 0 0 None 1]) (LDoc 0 (mkDoc [1] 1 0)) 0.
Definition ex_ops : list op :=
  [ mkOp 10 1 false [ARevision 1 1 (Some 1) 2];     (* 1 adds delegates 2 and 3: adopted, 1/1 *)
    mkOp 11 1 false [ARevision 2 2 (Some 10) 3];    (* 1 proposes: 1/3 *)
    mkOp 12 2 false [AAccept 11 4] ].               (* 2 accepts with a valid signature: 2/3 *)

(* a 3-delegate adoption: the hypotheses of the theorems are satisfiable and the
   adoption step is reached with exactly 2 valid signatures out of 3 delegates *)
Example C04_example_three_delegate_adoption :
  exists s0, from_root (sig_tbl ex_sigs) ex_root = inl s0 /\
  exists pre a post,
    In (pre, 2, a, post) (run_trace (sig_tbl ex_sigs) (blob_tbl ex_blobs) true s0 ex_ops) /\
    i_current pre = 10 /\ i_current post = 11 /\
    exists prev r, get_rev pre 10 = Some prev /\ get_rev post 11 = Some r /\
      valid_accepts (sig_tbl ex_sigs) (r_doc prev) r = 2 /\ ndelegates (r_doc prev) = 3.
Proof.
  eexists. split; [vm_compute; reflexivity|].
  eexists. eexists. eexists. split.
  { vm_compute. right. right. left. reflexivity. }
  split; [reflexivity|]. split; [reflexivity|].
  eexists. eexists. split; [vm_compute; reflexivity|]. split; [vm_compute; reflexivity|].
  split; vm_compute; reflexivity.
Qed.

(* an accept whose signature does not verify is rejected as a whole and is not counted:
   with 4 delegates, proposer + forged accept + one valid accept = 2/4 is not adopted,
   a third valid signature is *)
Definition ex4_blobs : list (N * blob_res) :=
  [(1, BDoc (mkDoc [1; 2; 3; 4] 1 0)); (2, BDoc (mkDoc [1; 2; 3; 4] 1 1))].
Definition ex4_sigs : list (N * N * N) := [(1, 0, 1); (1, 1, 2); (1, 2, 3); (3, 2, 5); (4, 2, 6)].
Definition ex4_ops : list op :=
  [ mkOp 10 1 false [ARevision 1 1 (Some 1) 2];
    mkOp 11 1 false [ARevision 2 2 (Some 10) 3];
    mkOp 12 2 false [AAccept 11 4];                 (* signature 4 verifies for nobody *)
    mkOp 13 3 false [AAccept 11 5] ].
Example C04_example_forged_accept_not_counted :
  exists s0, from_root (sig_tbl ex4_sigs) ex_root = inl s0 /\
    map (fun x => (fst x, i_current (snd x)))
        (run_ops (sig_tbl ex4_sigs) (blob_tbl ex4_blobs) true s0 ex4_ops)
      = [(OOk, 10); (OOk, 10); (OErr EInvalidSignature, 10); (OOk, 10)] /\
    map (fun x => (fst x, i_current (snd x)))
        (run_ops (sig_tbl ex4_sigs) (blob_tbl ex4_blobs) true s0 (ex4_ops ++ [mkOp 14 4 false [AAccept 11 6]]))
      = [(OOk, 10); (OOk, 10); (OErr EInvalidSignature, 10); (OOk, 10); (OOk, 11)].
Proof. eexists. split; [vm_compute; reflexivity|]. split; vm_compute; reflexivity. Qed.

(* a non-delegate (key 4 while the delegates are 1,2,3) cannot accept *)
Example C04_example_non_delegate :
  exists s0, from_root (sig_tbl ex_sigs) ex_root = inl s0 /\
    map (fun x => (fst x, i_current (snd x)))
        (run_ops (sig_tbl ((4, 2, 7) :: ex_sigs)) (blob_tbl ex_blobs) true s0
           [ mkOp 10 1 false [ARevision 1 1 (Some 1) 2];
             mkOp 11 1 false [ARevision 2 2 (Some 10) 3];
             mkOp 12 4 false [AAccept 11 7] ])
      = [(OOk, 10); (OOk, 10); (OErr EUnexpectedState, 10)].
Proof. eexists. split; [vm_compute; reflexivity|]. vm_compute; reflexivity. Qed.

(* Why the atomicity of Identity::op matters for this property (regression documentation;
   /repo commit 8571255): [action_step] records the vote in `heads` BEFORE the signature is
   verified.  If a rejected operation's partial effects were kept (the behaviour before that
   commit: actions applied in place), the forged accept of the previous example would be
   counted by the next `adopt`: 2 valid signatures out of 4 delegates get adopted. *)
Definition apply_op_in_place (sig_ok : N -> N -> N -> bool) (blob_store : N -> blob_res)
  (dbg : bool) (s : identity) (o : op) : identity :=
  fst (op_loop sig_ok blob_store dbg s (o_id o) (o_author o) (o_conc o) (o_actions o)).

Example C04_in_place_ops_would_break_majority :
  exists s0, from_root (sig_tbl ex4_sigs) ex_root = inl s0 /\
    let s := fold_left (apply_op_in_place (sig_tbl ex4_sigs) (blob_tbl ex4_blobs) true) ex4_ops s0 in
    i_current s = 11 /\
    exists prev r, get_rev s 10 = Some prev /\ get_rev s 11 = Some r /\
      valid_accepts (sig_tbl ex4_sigs) (r_doc prev) r = 2 /\ ndelegates (r_doc prev) = 4.
Proof.
  eexists. split; [vm_compute; reflexivity|]. split; [vm_compute; reflexivity|].
  eexists. eexists. split; [vm_compute; reflexivity|]. split; [vm_compute; reflexivity|].
  split; vm_compute; reflexivity.
Qed.

(* the debug-only assertion is reachable: a two-action operation in a debug build *)
Example C04_example_debug_timeline_panic :
  exists s0, from_root (sig_tbl ex_sigs) ex_root = inl s0 /\
    map fst (run_ops (sig_tbl ex_sigs) (blob_tbl ex_blobs) true s0
               [mkOp 10 1 true [ARevision 1 1 (Some 1) 2; AReject 10]]) = [OPanic PDebugTimeline] /\
    map fst (run_ops (sig_tbl ex_sigs) (blob_tbl ex_blobs) false s0
               [mkOp 10 1 true [ARevision 1 1 (Some 1) 2; AReject 10]]) = [OOk].
Proof. eexists. split; [vm_compute; reflexivity|]. split; vm_compute; reflexivity. Qed.
