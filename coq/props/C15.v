(* C15 — Wire messages round-trip and have a unique encoding.
   Statements about the executable model of the gossip message codec
   (coq/model/WireMsg.v: wire.rs, wire/message.rs, service/message.rs after the fix
   commits a394105, fcb77a0, 2822294), against the constants regenerated from the
   compiled crates (coq/gen/ConstsWire.v).  Every theorem is stated for ARBITRARY
   validity predicates [utf8_ok alias_ok agent_ok onion_ok] (String::from_utf8,
   Alias::from_str, UserAgent::from_str, OnionAddrV3::from_raw_bytes): nothing is assumed
   about them.  [wf] is "the node can construct it": field ranges of the Rust types,
   validated strings valid, vectors within their BoundedVec limits, ping/pong padding
   within Ping::MAX_PING_ZEROES / MAX_PONG_ZEROES, filter of one of the FILTER_SIZES.
   This file contains only theorem statements closed by [exact]. *)
From HW Require Import lib.Base model.WireVarint gen.ConstsWire model.WireMsg proofs.WireMsgProofs.
Local Open Scope N_scope.

(* Every constructible message is encoded (wire::serialize does not panic) and decodes —
   with no trailing bytes and without the missing-agent default — to the same message. *)
Theorem C15_roundtrip :
  forall (utf8_ok alias_ok agent_ok onion_ok : list N -> bool) (m : message),
    wf utf8_ok alias_ok agent_ok onion_ok m ->
    exists bs, encode m = Some bs /\
      decode_ext utf8_ok alias_ok agent_ok onion_ok bs = ROk (m, false) [] /\
      decode utf8_ok alias_ok agent_ok onion_ok bs = DecOk m.
Proof. exact roundtrip. Qed.

(* Every constructible message fits the frame limit Size::MAX (an arithmetic obligation
   over INVENTORY_LIMIT, REF_REMOTE_LIMIT, ADDRESS_LIMIT, FILTER_SIZES, MAX_PING_ZEROES,
   MAX_PONG_ZEROES and the 255-byte string limit, re-checked whenever ConstsWire.v changes). *)
Theorem C15_fits_frame :
  forall (utf8_ok alias_ok agent_ok onion_ok : list N -> bool) (m : message),
    wf utf8_ok alias_ok agent_ok onion_ok m ->
    exists bs, encode m = Some bs /\ len bs <= SIZE_MAX.
Proof. exact fits_frame. Qed.

(* Any bytes that wire::deserialize accepts re-encode to exactly the same bytes — except a
   node announcement that ends right after the nonce (user agent absent). *)
Theorem C15_canonical :
  forall (utf8_ok alias_ok agent_ok onion_ok : list N -> bool) (bs : list N) (m : message),
    bytes_ok bs ->
    decode utf8_ok alias_ok agent_ok onion_ok bs = DecOk m ->
    ~ agent_absent utf8_ok alias_ok agent_ok onion_ok bs ->
    encode m = Some bs.
Proof. exact canonical_plain. Qed.

(* The same with the decoder's own marker, plus: whatever decodes is constructible. *)
Theorem C15_canonical_wf :
  forall (utf8_ok alias_ok agent_ok onion_ok : list N -> bool) (bs : list N) (m : message) rest,
    bytes_ok bs ->
    decode_ext utf8_ok alias_ok agent_ok onion_ok bs = ROk (m, false) rest ->
    rest = [] /\ wf utf8_ok alias_ok agent_ok onion_ok m /\ encode m = Some bs.
Proof. exact canonical. Qed.

(* The exception, exactly: the input is a node announcement without its user agent; the
   decoded message carries the default agent and re-encodes to the input followed by the
   length-prefixed default agent (so the only thing that differs is that suffix). *)
Theorem C15_agent_exception :
  forall (utf8_ok alias_ok agent_ok onion_ok : list N -> bool) (bs : list N) (m : message) rest,
    bytes_ok bs ->
    decode_ext utf8_ok alias_ok agent_ok onion_ok bs = ROk (m, true) rest ->
    rest = [] /\ exists n sg na,
      m = MAnnouncement n sg (ANode na) /\ na_agent na = DEFAULT_AGENT /\
      len n = PUBKEY_LEN /\ len sg = SIGNATURE_LEN /\
      wf_node_ann_pre utf8_ok alias_ok onion_ok na /\
      encode m = Some (bs ++ enc_u8 (len DEFAULT_AGENT) ++ DEFAULT_AGENT).
Proof. exact canonical_exception. Qed.

(* A signature checked on the re-encoding is a signature over what the sender sent: the
   bytes Announcement::verify re-serialises (the AnnouncementMessage) are the bytes that
   followed the node id and the signature on the wire. *)
Theorem C15_signed_payload :
  forall (utf8_ok alias_ok agent_ok onion_ok : list N -> bool) (bs n sg : list N) (am : ann_msg) rest,
    bytes_ok bs ->
    decode_ext utf8_ok alias_ok agent_ok onion_ok bs = ROk (MAnnouncement n sg am, false) rest ->
    exists body, enc_ann am = Some body /\ bs = enc_u16 (ann_type am) ++ n ++ sg ++ body.
Proof. exact signed_payload. Qed.

(* Two accepted byte strings that decode to the same message are the same bytes. *)
Theorem C15_unique_encoding :
  forall (utf8_ok alias_ok agent_ok onion_ok : list N -> bool) (b1 b2 : list N) (m : message) r1 r2,
    bytes_ok b1 -> bytes_ok b2 ->
    decode_ext utf8_ok alias_ok agent_ok onion_ok b1 = ROk (m, false) r1 ->
    decode_ext utf8_ok alias_ok agent_ok onion_ok b2 = ROk (m, false) r2 ->
    b1 = b2.
Proof. exact unique_encoding. Qed.

(* Whatever wire::deserialize returns, wire::serialize accepts (no panic, within the limit). *)
Theorem C15_decoded_reencodes :
  forall (utf8_ok alias_ok agent_ok onion_ok : list N -> bool) (bs : list N) (m : message),
    bytes_ok bs ->
    decode utf8_ok alias_ok agent_ok onion_ok bs = DecOk m ->
    exists bs', encode m = Some bs' /\ len bs' <= SIZE_MAX.
Proof. exact decoded_reencodes. Qed.

(* The concrete checks used by the correspondence run imply the documented length limits. *)
Theorem C15_concrete_checks :
  (forall s, alias_valid s = true -> utf8_valid s = true /\ len s <= MAX_ALIAS_LENGTH /\ s <> []) /\
  (forall s, agent_valid s = true -> len s <= MAX_AGENT_LENGTH) /\
  utf8_valid DEFAULT_AGENT = true /\ agent_valid DEFAULT_AGENT = true.
Proof.
  exact (conj alias_valid_spec (conj agent_valid_spec default_agent_valid)).
Qed.

(* ---------------------------------------------------------------- non-vacuity *)

Definition ex_onion : list N := rpt 34 7 ++ [3].
Definition ex_node_ann : node_ann :=
  mkNodeAnn 1 1 1700000000000 [97; 108; 105; 99; 101]
    [mkAddr (HIp4 [127; 0; 0; 1]) 8776; mkAddr (HDns [115; 101; 101; 100]) 443;
     mkAddr (HOnion ex_onion) 9050; mkAddr (HIp6 (rpt 16 0)) 1]
    42 [47; 114; 97; 100; 105; 99; 108; 101; 58; 49; 47].
Definition ex_msg : message := MAnnouncement (rpt 32 9) (rpt 64 8) (ANode ex_node_ann).


Example C15_example_wf :
  wf utf8_valid alias_valid agent_valid (onion_tbl [ex_onion]) ex_msg.
Proof.
  unfold ex_msg. cbn [wf]. split; [reflexivity|]. split; [reflexivity|].
  cbn [wf_ann]. unfold wf_node_ann, wf_node_ann_pre, wf_str, wf_ts, ex_node_ann.
  cbn [na_version na_features na_timestamp na_alias na_addresses na_nonce na_agent].
  repeat split; try reflexivity; try (vm_compute; discriminate).
  repeat constructor; try reflexivity; try (vm_compute; discriminate).
Qed.

(* the exception is inhabited: the example announcement with its agent cut off *)
Definition ex_bytes : list N := match encode ex_msg with Some bs => bs | None => [] end.
Example C15_example_agent_absent :
  encode ex_msg = Some ex_bytes /\
  agent_absent utf8_valid alias_valid agent_valid (onion_tbl [ex_onion])
    (firstn (length ex_bytes - 12) ex_bytes).
Proof.
  split; [vm_compute; reflexivity|]. eexists. eexists. vm_compute. reflexivity.
Qed.

(* the limits are tight: one more inventory item / padding byte no longer fits *)
Definition ex_big_inventory : message :=
  MAnnouncement (rpt 32 0) (rpt 64 0) (AInventory (rptl (INVENTORY_LIMIT + 1) (rpt 20 0)) 0).
Definition ex_max_inventory : message :=
  MAnnouncement (rpt 32 0) (rpt 64 0) (AInventory (rptl INVENTORY_LIMIT (rpt 20 0)) 0).
Example C15_example_limits_tight :
  encode ex_big_inventory = None /\
  option_map len (encode ex_max_inventory) = Some 65514 /\
  encode (MPing 0 (MAX_PING_ZEROES + 1)) = None /\ encode (MPong (MAX_PONG_ZEROES + 1)) = None /\
  option_map len (encode (MPing 0 MAX_PING_ZEROES)) = Some SIZE_MAX /\
  option_map len (encode (MPong MAX_PONG_ZEROES)) = Some SIZE_MAX.
Proof. repeat split; vm_compute; reflexivity. Qed.

(* the behaviours introduced by the fix commits *)
Definition ex_oversize_pong : list N := [0; 12; 255; 255] ++ rpt 65535 0.
Example C15_example_fixed_decoders :
  decode utf8_valid alias_valid agent_valid (onion_tbl []) [0; 12; 0; 3; 0; 7; 0] = DecErr XUnexpectedBytes /\
  decode utf8_valid alias_valid agent_valid (onion_tbl []) ex_oversize_pong
    = DecErr (XInvalidSize MAX_PONG_ZEROES 65535) /\
  decode utf8_valid alias_valid agent_valid (onion_tbl []) [0; 12; 0; 3; 0; 0; 0] = DecOk (MPong 3).
Proof. repeat split; vm_compute; reflexivity. Qed.

(* ---------------------------------------------------------------- the Refs codec (not a message) *)

(* wire.rs also has a codec for storage::refs::Refs (BTreeMap<RefString, Oid>); no message
   carries it.  It is NOT canonical: entries that are out of order, or that repeat a name,
   are accepted by wire::deserialize::<Refs> and re-encode to different bytes (for any
   UTF-8 / ref-name checks that accept the two names used).  Replayed on the real code by
   the harness cases r:fixed:*. *)
Theorem C15_refs_codec_not_canonical :
  forall utf8_ok ref_ok : list N -> bool,
    utf8_ok ref_a = true -> utf8_ok ref_b = true -> ref_ok ref_a = true -> ref_ok ref_b = true ->
    bytes_ok refs_unsorted /\ bytes_ok refs_duplicate /\
    decode_refs utf8_ok ref_ok refs_unsorted = RefsOk [(ref_a, rpt 20 1); (ref_b, rpt 20 2)] /\
    enc_refs [(ref_a, rpt 20 1); (ref_b, rpt 20 2)] <> Some refs_unsorted /\
    decode_refs utf8_ok ref_ok refs_duplicate = RefsOk [(ref_a, rpt 20 2)] /\
    enc_refs [(ref_a, rpt 20 2)] <> Some refs_duplicate.
Proof. exact refs_not_canonical. Qed.

Example C15_example_refs_hypotheses :
  utf8_valid ref_a = true /\ utf8_valid ref_b = true /\
  (exists bs, enc_refs [(ref_a, rpt 20 1); (ref_b, rpt 20 2)] = Some bs /\
     decode_refs utf8_valid (fun _ => true) bs = RefsOk [(ref_a, rpt 20 1); (ref_b, rpt 20 2)]).
Proof. split; [reflexivity|]. split; [reflexivity|]. eexists. split; vm_compute; reflexivity. Qed.
