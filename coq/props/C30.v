(* C30 — unified diffs round-trip through their text encoding.
   This file contains only theorem statements closed by [exact].

   The model (model/Diff.v) is of radicle-cli/src/git/unified_diff.rs after the
   two repairs made for this property (the encoder used `trim_end()` on every
   line; HunkHeader::decode kept the '\n' in the header text).  Hence no
   hypothesis below mentions blanks or '\r'. *)
From HW Require Import lib.Base model.Diff proofs.DiffProofs.
Local Open Scope N_scope.

(* decimal numbers: printing then parsing is the identity for EVERY N, and the
   u32 parser of the decoder accepts exactly what was printed *)
Theorem C30_decimal_roundtrip :
  (forall n, parse_dec (print_dec n) = Some n) /\
  (forall n, n <= U32_MAX -> parse_u32 (print_dec n) = Some n) /\
  (forall s v, parse_u32 s = Some v -> v <= U32_MAX).
Proof. exact (conj parse_print_dec (conj parse_u32_print_dec parse_u32_bound)). Qed.

(* `@@ -a[,b] +c[,d] @@[ text]`: for all u32 numbers and every text without a
   newline (blanks anywhere, " @@", " +", ... allowed), decoding the encoding
   gives the header back and leaves the rest of the input unread *)
Theorem C30_header_roundtrip :
  forall h rest,
    old_no h <= U32_MAX -> old_sz h <= U32_MAX -> new_no h <= U32_MAX -> new_sz h <= U32_MAX ->
    ~ In 10 (htext h) ->
    decode_header (encode_header h ++ rest) = Ok (h, rest).
Proof.
  exact (fun h rest H1 H2 H3 H4 Ht => header_roundtrip h rest (conj H1 (conj H2 (conj H3 (conj H4 Ht))))).
Qed.

(* a hunk: header line printed from [hh], lines whose kinds are counted by the
   header, numbered consecutively from the header's start lines, each ending in
   its only '\n'.  Decoding the encoding gives back the same header line and the
   same lines (contents and numbers), and the input after the hunk is untouched.
   The two ranges are recomputed from the header by HunkHeader::old_line_range
   (start .. start+size+1; libgit2/radicle-surf use start .. start+size). *)
Theorem C30_hunk_roundtrip :
  forall hh lines ro rn rest,
    hunk_wf hh lines ->
    decode_hunk (encode_hunk (mkHunk (encode_header hh) lines ro rn) ++ rest) =
    Ok (mkHunk (encode_header hh) lines
          (old_no hh, old_no hh + old_sz hh + 1) (new_no hh, new_no hh + new_sz hh + 1), rest).
Proof. exact hunk_roundtrip. Qed.

(* the hypotheses are satisfiable — by a hunk with a function context ending in
   a blank, a line with trailing blanks and a "\t\r\n" line *)
Example C30_hunk_wf_example : hunk_wf ex_header ex_lines.
Proof. exact ex_hunk_wf. Qed.

(* the code as found: the same hunk does not survive encode/decode.  Replayed on
   the real code before the fix (lines "two  \n" -> "two\n", "\t\r\n" -> "\n"). *)
Theorem C30_trailing_whitespace_refuted :
  exists hh lines h',
    hunk_wf hh lines /\
    decode_hunk (encode_hunk_orig (mkHunk (encode_header hh) lines (0, 0) (0, 0))) = Ok (h', []) /\
    hlines h' <> lines.
Proof. exact orig_encoder_loses_trailing_whitespace. Qed.

(* the header decoder as found: decode (encode h) <> h *)
Theorem C30_header_text_terminator_refuted :
  exists h, header_ok h /\ decode_header_orig (encode_header h) <> Ok (h, []).
Proof. exact header_orig_keeps_terminator. Qed.

(* several hunks (DiffContent): the Rust content decoder reads back every hunk
   of the encoding, in order, with the addition/deletion totals *)
Theorem C30_content_roundtrip :
  forall ps : list (hheader * list modif),
    Forall (fun p => hunk_wf (fst p) (snd p)) ps ->
    decode_content (flat_map (fun p => encode_hunk (mk_hunk p)) ps) =
    Ok (match ps with
        | [] => CEmpty
        | _ :: _ => CPlain (map mk_hunk ps) (total_adds ps) (total_dels ps)
        end).
Proof. exact content_roundtrip. Qed.

(* the two decoder loops terminate on every input: the fuel the model supplies
   ([S (length input)]) is never exhausted, because every iteration consumes input *)
Theorem C30_decoders_terminate :
  (forall input, decode_hunk input <> OutOfFuel) /\
  (forall input h rest, decode_hunk input = Ok (h, rest) -> (length rest < length input)%nat) /\
  (forall input, decode_content input <> OutOfFuel).
Proof.
  exact (conj (fun i => proj1 (decode_hunk_fuel false i))
        (conj (fun i => proj2 (decode_hunk_fuel false i)) decode_content_fuel)).
Qed.

(* Whole diffs — PARTIAL by design.  `Diff::decode` is libgit2's patch parser
   followed by radicle-surf's conversion; here it is an oracle in two pieces
   ([git_header], [git_hunk]) composed as "per file: header, then hunks while the
   next line starts with `@@ -`".  ASSUMED (checked only by running the real code
   in the harness, not proved): the header parser reads back the file headers the
   encoder prints for the class [good_header] (added / deleted / modified files;
   NOT renamed ones and NOT paths with leading/trailing blanks — both are known
   findings), and the hunk parser agrees with the Gallina hunk decoder wherever
   that succeeds.  PROVED: under these assumptions every diff whose files have
   good headers and well-formed hunks decodes to the same files, headers and
   lines.  Missing: the file-header grammar itself (paths, quoting, modes,
   renames, abbreviated blob ids). *)
Theorem C30_diff_roundtrip_partial :
  forall (good_header : fheader -> Prop)
         (git_header : bytes -> option (fheader * bytes))
         (git_hunk : bytes -> option (bytes * list modif * bytes)),
    (forall f, good_header f -> f <> FCopied) ->
    (forall f text rest,
        good_header f -> encode_fheader f = Ok text -> follows_ok rest ->
        git_header (text ++ rest) = Some (f, rest)) ->
    (forall input h rest,
        decode_hunk input = Ok (h, rest) -> git_hunk input = Some (hline h, hlines h, rest)) ->
    forall d : list (fheader * list (hheader * list modif)),
      Forall (file_ok good_header) d ->
      exists text,
        encode_diff (map model_file d) = Ok text /\
        git_decode git_header git_hunk text =
        Some (map (fun f => (fst f, map hunk_core (snd f))) d).
Proof. exact diff_roundtrip_partial. Qed.

(* the assumptions are consistent for a non-empty header class, and the theorem
   then applies to a concrete one-file diff *)
Example C30_diff_oracle_example :
  exists text,
    encode_diff (map model_file [(ex_fheader, [(ex_header, ex_lines)])]) = Ok text /\
    git_decode ex_git_header ex_git_hunk text =
    Some [(ex_fheader, [(encode_header ex_header, ex_lines)])].
Proof. exact ex_diff_roundtrip. Qed.

(* the repair does not change what is printed for hunks without trailing
   whitespace (the recorded `rad patch` / `rad diff` / `rad id` outputs): on such
   hunks the encoder as found and the repaired encoder produce the same text *)
Theorem C30_fix_preserves_output :
  forall h body,
    hline h = body ++ [10] -> trim_end body = body -> ~ In 10 body ->
    Forall (fun m => exists c, modif_line m = c ++ [10] /\ trim_end c = c) (hlines h) ->
    encode_hunk_orig h = encode_hunk h.
Proof. exact fix_preserves_hunks. Qed.
