(* C16 — At most one fetch per repository, attributed to the right peer.
   Model: model/FetchSched.v (Service fetch scheduling + ghost fetch instances),
   with Service::fetched as FIXED in /repo (a result whose `remote` is not the
   `from` of the fetching entry is ignored) and Session::to_connected as FIXED
   (an already connected session keeps its fetching set).  Every theorem quantifies over all
   configurations (fetch_concurrency, MAX_FETCH_QUEUE_SIZE), all event sequences
   and — the visiting order of dequeue_fetches being an input of the events —
   all orders of `sessions.shuffled()`.
   This file contains only theorem statements closed by [exact]. *)
From HW Require Import lib.Base lib.SMap model.FetchSched proofs.FetchSchedProofs.
Local Open Scope N_scope.

(* (c) no schedule makes the scheduler panic: none of the assert!/panic!/
   debug_assert! sites of session.rs / service.rs modelled as [Panic] is reachable *)
Theorem C16_no_panic :
  forall cfg evs, exists st, run cfg evs = Ret st.
Proof. exact no_panic. Qed.

(* Inv16 (a)+(b) in every reachable state: one entry per repository; every fetch
   in flight is from a session in Connected state that holds the repository in
   its fetching set, and conversely every repository in a session's fetching set
   is being fetched from that session; |fetching set| <= fetch_concurrency,
   |queue| <= MAX_FETCH_QUEUE_SIZE, and at most fetch_concurrency fetches are in
   flight per peer *)
Theorem C16_inv_reachable :
  forall cfg evs st, run cfg evs = Ret st ->
    NoDup (keys (fetching st)) /\
    (forall r f, lookup r (fetching st) = Some f ->
       exists s fset, lookup (f_from f) (sessions st) = Some s /\ s_state s = Connected fset /\
                      sset_mem r fset = true) /\
    (forall n s fset r, lookup n (sessions st) = Some s -> s_state s = Connected fset ->
       sset_mem r fset = true -> exists f, lookup r (fetching st) = Some f /\ f_from f = n) /\
    (forall n s, lookup n (sessions st) = Some s ->
       lenN (s_queue s) <= max_queue cfg /\
       forall fset, s_state s = Connected fset -> lenN fset <= fetch_concurrency cfg) /\
    (forall n, lenN (fetches_from st n) <= fetch_concurrency cfg).
Proof. exact inv16_reachable. Qed.

(* (d) for every schedule outside KnownClass = "a worker result is delivered
   after its peer's session was re-established and a newer fetch of the same
   repository from that same peer is in flight": every result that completes a
   fetch completes the fetch it belongs to (ghost instance ids agree), hence its
   subscribers are notified with their own fetch's result *)
Theorem C16_attribution_outside_known_class :
  forall cfg evs st, known_class cfg evs = false -> run cfg evs = Ret st ->
    Forall (fun o => applied_ok o = true) (outs st).
Proof. exact attribution_outside_known_class. Qed.

(* KnownClass is real (witness evaluated by vm_compute) *)
Theorem C16_attribution_refuted :
  exists cfg evs st, known_class cfg evs = true /\
    run cfg evs = Ret st /\ ~ Forall (fun o => applied_ok o = true) (outs st).
Proof. exact attribution_refuted. Qed.

(* what the fix guarantees for EVERY schedule: a result never completes a fetch
   that runs on another peer *)
Theorem C16_result_never_crosses_peers :
  forall cfg evs st, run cfg evs = Ret st ->
    Forall (fun o => applied_same_peer o = true) (outs st).
Proof. exact applied_same_peer_always. Qed.

(* outside KnownClass there is at most one live worker per repository: two
   in-flight instances for the same repository, both started in the current
   epoch of their peer (no disconnection of that peer since), are the same *)
Theorem C16_one_live_fetch_per_repository :
  forall cfg evs st i i' r n n',
    known_class cfg evs = false -> run cfg evs = Ret st ->
    lookup i (inflight st) = Some (r, n, epoch_of st n) ->
    lookup i' (inflight st) = Some (r, n', epoch_of st n') -> i = i'.
Proof. exact one_live_fetch_per_repo. Qed.

(* non-vacuity: a schedule outside KnownClass that starts, queues, dequeues and
   completes fetches, including a late result that is (correctly) ignored
   because the repository is now fetched from another peer *)
Example C16_example_schedule :
  let evs := [EConnect 1 false true; EConnected 1 Outbound; EConnect 2 false true; EConnected 2 Outbound;
              EFetch 7 1 (Some 0); EFetch 7 2 (Some 1);
              EDisconnected 1 Outbound [2]; EConnect 1 false true; EConnected 1 Outbound;
              EResult 0 RErr true [1; 2]; EResult 1 ROk true [2; 1]] in
  known_class (mkCfg 1 128) evs = false /\
  exists st, run (mkCfg 1 128) evs = Ret st /\
     outs st = [OConnect 1; OConnect 2; OFetch 7 1 [] 0; ONotify 0 NDisconnected; OFetch 7 2 [] 1;
                OConnect 1; ONotify 1 (NResult 1 ROk); OApplied 1 7 2 1 2].
Proof. vm_compute. repeat split. eexists. split; reflexivity. Qed.
