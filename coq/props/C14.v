(* C14 — Frame decoding is memory-bounded and chunking-independent.
   Statements about the executable model of wire/varint.rs, wire/frame.rs and
   deserializer.rs (coq/model/{WireVarint,WireFrame,Deser}.v), which models the code
   after the two `fix:` commits (payload buffer grown as bytes arrive; an inner EOF
   inside a complete payload is an error).  The gossip message codec is abstract:
   every theorem holds for every inner decoder / encoder (with a round-trip
   hypothesis only where frames must decode back).
   This file contains only theorem statements closed by [exact]. *)
From HW Require Import lib.Base model.WireVarint model.WireFrame model.Deser
  proofs.WireVarintProofs proofs.DeserProofs.
Local Open Scope N_scope.

(* Every x < 2^62 is encoded on 1/2/4/8 bytes according to its range, and decoding
   the encoding (followed by any bytes) yields x and consumes exactly the encoding;
   every strict prefix of the encoding is reported as incomplete.  Non-minimal
   encodings (any of the four forms whose capacity exceeds x) decode to x too. *)
Theorem C14_varint_roundtrip :
  (forall x, x < 2 ^ 62 ->
     exists bs, varint_encode x = Some bs /\ len bs = varint_len x /\
       (forall rest, varint_decode (bs ++ rest) = DOk x rest) /\
       (forall p, sprefix p bs -> varint_decode p = DEof)) /\
  (forall t x, t < 4 -> x < class_cap t ->
     length (varint_form t x) = class_bytes t /\
     (forall rest, varint_decode (varint_form t x ++ rest) = DOk x rest) /\
     (forall p, sprefix p (varint_form t x) -> varint_decode p = DEof)) /\
  (forall x, 2 ^ 62 <= x -> varint_encode x = None).
Proof.
  exact (conj
    (fun x Hx =>
       ex_intro _ (varint_form (varint_tag x) x)
         (conj (varint_encode_form x Hx)
         (conj (proj1 (varint_encode_len x _ (varint_encode_form x Hx)))
         (conj (fun rest => varint_decode_form _ x rest (proj1 (varint_tag_spec x Hx)) (proj2 (varint_tag_spec x Hx)))
               (fun p => varint_decode_form_prefix _ x p (proj1 (varint_tag_spec x Hx)) (proj2 (varint_tag_spec x Hx)))))))
    (conj
    (fun t x Ht Hx =>
       conj (varint_form_length t x)
       (conj (fun rest => varint_decode_form t x rest Ht Hx)
             (fun p => varint_decode_form_prefix t x p Ht Hx)))
    varint_encode_none)).
Qed.

(* For any frames (stream-id kind bits consistent with the payload variant, as the
   constructors guarantee) that the encoder accepts, and ANY split of the
   concatenated encodings into chunks (empty chunks included) that respects the
   inbox bound B, feeding the chunks one by one and draining after each delivers
   exactly those frames, in order, without any error / panic / overflow event, and
   leaves the buffer empty. *)
Theorem C14_chunking_independent :
  forall (M : Type) (inner_decode : list N -> ires M) (inner_encode : M -> list N),
    (forall m, inner_decode (inner_encode m) = IOk m) ->
    forall (B : N) (fs : list (frame M)) (bss chunks : list (list N)),
      Forall frame_wf fs ->
      frames_encode inner_encode fs = Some bss ->
      concat chunks = concat bss ->
      (forall c b, In c chunks -> In b bss -> len c + len b <= B) ->
      exists evs, feed inner_decode B 0 [] chunks = (evs, []) /\
                  frames_of evs = fs /\ forallb event_clean evs = true.
Proof.
  exact (fun M idec ienc Hrt B fs bss chunks Hwf E Hc HB =>
    feed_frames idec ienc Hrt B chunks fs bss [] 0 Hwf E Hc (or_introl eq_refl) HB).
Qed.

(* ... and the frames the node can build are accepted by the encoder *)
Theorem C14_constructible_frames_encode :
  forall (M : Type) (inner_encode : M -> list N) (f : frame M),
    frame_ok inner_encode f -> exists bs, frame_encode inner_encode f = Some bs.
Proof. exact (fun M ienc f => frame_ok_encode ienc f). Qed.

(* Whatever bytes arrive (valid or not, whatever lengths they declare), in
   whatever chunks, for whatever inner decoder: every allocation request made by
   any decode attempt is at most READ_AHEAD (= 4096) plus the number of bytes
   received so far; the [recv] recorded in an event is indeed the total length of
   the chunks fed so far.  Also per attempt: at most READ_AHEAD + the bytes given
   to the frame decoder / the payload decoder. *)
Theorem C14_alloc_bounded :
  forall (M : Type) (inner_decode : list N -> ires M) (B : N) (chunks : list (list N)),
    Forall (fun e =>
              event_bounded e /\
              exists k, (k <= length chunks)%nat /\ event_recv e = len (concat (firstn k chunks)))
           (fst (feed inner_decode B 0 [] chunks)) /\
    (forall inp, Forall (fun a => a <= READ_AHEAD + len inp) (snd (frame_decode inner_decode inp))) /\
    (forall inp, Forall (fun a => a <= READ_AHEAD + len inp) (snd (payload_decode inp))).
Proof. exact alloc_bounded_all. Qed.

(* A buffer that starts with a complete frame which is invalid is answered with
   an error — never with "incomplete" (NNone) — whatever follows it:
   a gossip frame (header varints in any accepted form, minimal or not) whose
   complete payload the inner decoder rejects with end-of-file (message truncated /
   longer than its frame) or with any other error; a stream id of unknown kind; an
   unknown control command; a wrong magic/version. *)
Theorem C14_complete_invalid_is_error :
  forall (M : Type) (inner_decode : list N -> ires M),
    (forall sb sid hd p rest, encodes sb sid -> stream_kind sid = 1 -> encodes hd (len p) ->
       inner_decode p = IEof ->
       let buf := VERSION_BYTES ++ sb ++ hd ++ p ++ rest in
       exists al, deserialize_next inner_decode buf = (buf, NErr ETruncatedInner, al)) /\
    (forall sb sid hd p rest c, encodes sb sid -> stream_kind sid = 1 -> encodes hd (len p) ->
       inner_decode p = IErr c ->
       let buf := VERSION_BYTES ++ sb ++ hd ++ p ++ rest in
       exists al, deserialize_next inner_decode buf = (buf, NErr (EInner c), al)) /\
    (forall sb sid tail, encodes sb sid -> 3 <= stream_kind sid ->
       let buf := VERSION_BYTES ++ sb ++ tail in
       exists al, deserialize_next inner_decode buf = (buf, NErr (EInvalidStreamKind (stream_kind sid)), al)) /\
    (forall sb sid cmd tail, encodes sb sid -> stream_kind sid = 0 -> 3 <= cmd ->
       let buf := VERSION_BYTES ++ sb ++ cmd :: tail in
       exists al, deserialize_next inner_decode buf = (buf, NErr (EInvalidControl cmd), al)) /\
    (forall v tail, length v = 4%nat -> v <> VERSION_BYTES ->
       let buf := v ++ tail in
       exists al, deserialize_next inner_decode buf = (buf, NErr EInvalidVersion, al)).
Proof.
  exact (fun M idec =>
    conj (complete_gossip_truncated idec)
    (conj (complete_gossip_malformed idec)
    (conj (invalid_stream_kind idec)
    (conj (invalid_control idec) (invalid_version idec))))).
Qed.

(* conversely an incomplete valid frame is never an error: every strict prefix
   of an encoded frame is reported as incomplete, whatever the inner decoder *)
Theorem C14_strict_prefix_is_incomplete :
  forall (M : Type) (inner_decode : list N -> ires M) (inner_encode : M -> list N)
         (f : frame M) (bs p : list N),
    frame_wf f -> frame_encode inner_encode f = Some bs -> sprefix p bs ->
    exists al, deserialize_next inner_decode p = (p, NNone, al).
Proof.
  exact (fun M idec ienc f bs p Hwf E Hp =>
    ex_intro _ _ (deserialize_next_none idec p (frame_decode_prefix idec ienc f bs p Hwf E Hp))).
Qed.

(* on real bytes (< 256) no decode attempt hits VarInt::decode's `unreachable!`
   (nor exhausts the model's loop fuel) *)
Theorem C14_decode_total :
  forall (M : Type) (inner_decode : list N -> ires M) (buf : list N), bytes_ok buf ->
    snd (fst (deserialize_next inner_decode buf)) <> NPanic /\
    snd (fst (deserialize_next inner_decode buf)) <> NFuel.
Proof. exact deserialize_next_total. Qed.

(* ------------------------------------------------------------------ *)
(* non-vacuity: an inner codec satisfying the round-trip hypothesis, frames
   satisfying frame_wf / frame_ok, a split into chunks (one of them empty) *)
Definition ex_inner_decode (p : list N) : ires N :=
  match p with [_; m] => IOk m | [] | [_] => IEof | _ => IErr 1 end.
Definition ex_inner_encode (m : N) : list N := [7; m].
Definition ex_frames : list (frame N) :=
  [Frame 2 (FGossip 5); Frame 8 (FControl (COpen 20)); Frame 16389 (FGit [1; 2; 3])].

Example C14_example_hypotheses :
  (forall m, ex_inner_decode (ex_inner_encode m) = IOk m) /\
  Forall (frame_ok ex_inner_encode) ex_frames /\
  frames_encode ex_inner_encode ex_frames =
    Some [[114; 97; 100; 1; 2; 2; 7; 5]; [114; 97; 100; 1; 8; 0; 20];
          [114; 97; 100; 1; 128; 0; 64; 5; 3; 1; 2; 3]] /\
  feed ex_inner_decode 64 0 []
    [[114; 97; 100]; [1; 2; 2; 7; 5; 114; 97; 100; 1; 8]; []; [0; 20; 114; 97; 100; 1; 128; 0; 64; 5; 3; 1]; [2; 3]]
  = ([EvNext 3 NNone [];
      EvNext 13 (NFrame (Frame 2 (FGossip 5))) [2]; EvNext 13 NNone [];
      EvNext 13 NNone [];
      EvNext 25 (NFrame (Frame 8 (FControl (COpen 20)))) []; EvNext 25 NNone [3];
      EvNext 27 (NFrame (Frame 16389 (FGit [1; 2; 3]))) [3]; EvNext 27 NNone []], []).
Proof.
  split; [reflexivity|]. split.
  - repeat constructor; vm_compute; reflexivity.
  - split; vm_compute; reflexivity.
Qed.

(* a complete gossip frame with an empty payload, declared with a non-minimal
   2-byte length: an error, not "incomplete"; a declared length of 2^62-1 with
   5 bytes behind it: incomplete, one request of 4096 bytes *)
Example C14_example_invalid_and_huge :
  deserialize_next ex_inner_decode [114; 97; 100; 1; 2; 64; 0; 9; 9] =
    ([114; 97; 100; 1; 2; 64; 0; 9; 9], NErr ETruncatedInner, [])
  /\ deserialize_next ex_inner_decode [114; 97; 100; 1; 4; 255; 255; 255; 255; 255; 255; 255; 255; 1; 2; 3; 4; 5] =
    ([114; 97; 100; 1; 4; 255; 255; 255; 255; 255; 255; 255; 255; 1; 2; 3; 4; 5], NNone, [4096]).
Proof. split; vm_compute; reflexivity. Qed.
