(* C26 — Terminal truncation stays within width and never panics.
   This file contains only theorem statements closed by [exact].

   seg / dw / ws are the Unicode tables the code consults (grapheme cluster
   segmentation, double-wide scalar values, char::is_whitespace).  They are
   universally quantified; [UnicodeOK seg dw] (TermProofs.v) asks that clusters
   partition the string, none is empty, and display width is sub-additive under
   concatenation.  Strings are lists of scalar values, slices are taken at
   *byte* offsets as in the Rust code, and a slice off a char boundary is
   [Panic]. *)
From HW Require Import lib.Base model.Term proofs.TermProofs.
Local Open Scope N_scope.

(* Truncating any text to any width with any delimiter returns (no panic at
   either slice) a text whose display width is at most the requested width. *)
Theorem C26_truncate_safe :
  forall seg dw ws, UnicodeOK seg dw ->
  forall (s : str) (w : N) (dl : str),
  exists out, truncate seg dw ws s w dl = Ok out /\ cwidth seg dw out <= w.
Proof. exact truncate_safe. Qed.

(* Line::truncate returns after at most (number of items + 1) iterations of its
   `while` loop, never panics (no usize underflow in its two subtractions, no
   panic in the item truncation), and the remaining line is within the width,
   both as Line::width reports it and as the width of the printed text. *)
Theorem C26_line_truncate_terminates :
  forall seg dw ws, UnicodeOK seg dw ->
  forall (st : list str) (w : N) (dl : str),
  exists out, line_truncate seg dw ws (line_fuel st) st w dl = LOk out /\
              line_width seg dw out <= w /\
              cwidth seg dw (line_text out) <= w.
Proof.
  exact (fun seg dw ws HU st w dl =>
    match line_truncate_terminates seg dw ws HU st w dl with
    | ex_intro _ out (conj H1 H2) =>
        ex_intro _ out (conj H1 (conj H2
          (N.le_trans _ _ _ (line_text_width seg dw HU out) H2)))
    end).
Qed.

(* the fuel bound is not an artefact: any larger fuel gives the same result *)
Theorem C26_line_truncate_fuel_irrelevant :
  forall seg dw ws, UnicodeOK seg dw ->
  forall (st : list str) (w : N) (dl : str) (fuel : nat),
  (length st < fuel)%nat ->
  line_truncate seg dw ws fuel st w dl = line_truncate seg dw ws (line_fuel st) st w dl.
Proof. exact line_truncate_any_fuel. Qed.

(* What truncation returns: the text itself, the empty text, or a whole number
   of its grapheme clusters followed by the delimiter — the delimiter is left
   out exactly when only whitespace was cut off, and then the output is a
   prefix of the text (at most one more whitespace cluster is kept). *)
Theorem C26_truncate_shape :
  forall seg dw ws, UnicodeOK seg dw ->
  forall (s : str) (w : N) (dl out : str),
  truncate seg dw ws s w dl = Ok out ->
  out = s \/ out = [] \/
  exists k, let pre := concat (firstn k (seg s)) in
            let rest := concat (skipn k (seg s)) in
            (forallb ws rest = false /\ out = pre ++ dl) \/
            (forallb ws rest = true /\ exists r', s = out ++ r' /\ forallb ws r' = true
                                             /\ exists e, out = pre ++ e).
Proof. exact truncate_shape. Qed.

(* The result of Line::truncate is a prefix of the items (a suffix of the
   stack) whose last item may have been replaced by its own truncation. *)
Theorem C26_line_truncate_shape :
  forall seg dw ws, UnicodeOK seg dw ->
  forall (w : N) (dl : str) (st : list str) (fuel : nat),
  (length st < fuel)%nat ->
  exists out, line_truncate seg dw ws fuel st w dl = LOk out /\ line_width seg dw out <= w /\
    exists k, out = skipn k st \/
      exists it st' it', skipn k st = it :: st' /\ out = it' :: st' /\
                         truncate seg dw ws it (w - line_width seg dw st') dl = Ok it'.
Proof. exact line_truncate_safe. Qed.

(* The correspondence cases evaluate the model with a finite segmentation table
   dumped by the harness.  If the table agrees with a segmentation function
   [seg] on its own entries and contains every string the run consults (which
   [run] checks, reporting OTableIncomplete otherwise), the run is that of the
   model under [seg] itself: the table is not a source of false agreement. *)
Theorem C26_table_sufficient :
  forall (t : tables) seg dw ws,
  (forall k, in_table t k = true -> tseg t k = seg k) ->
  (forall s w dl,
     forallb (in_table t) (trunc_needs (tseg t) dw s w dl) = true ->
     truncate (tseg t) dw ws s w dl = truncate seg dw ws s w dl) /\
  (forall fuel st w dl,
     forallb (in_table t) (line_needs (tseg t) dw ws fuel st w dl) = true ->
     line_truncate (tseg t) dw ws fuel st w dl = line_truncate seg dw ws fuel st w dl).
Proof.
  exact (fun t seg dw ws H =>
    conj (fun s w dl => table_sufficient_str t seg dw ws s w dl H)
         (fun fuel st w dl => table_sufficient_line t seg dw ws fuel st w dl H)).
Qed.

(* the hypothesis is satisfiable *)
Example C26_hypotheses_satisfiable : UnicodeOK seg1 dw1.
Proof. exact UnicodeOK_seg1. Qed.

(* The code as found (`self[..boundary + 1]`, before the fix commit) violates
   all three parts of the property under the same hypotheses: it panics, it
   overruns the width, and Line::truncate does not terminate. *)
Theorem C26_code_as_found_refuted :
  exists seg dw ws, UnicodeOK seg dw /\
    (exists s w dl p, truncate_orig seg dw ws s w dl = Panic p) /\
    (exists s w dl out, truncate_orig seg dw ws s w dl = Ok out /\ w < cwidth seg dw out) /\
    (exists st w dl, forall fuel, line_truncate_orig seg dw ws fuel st w dl = LOutOfFuel).
Proof.
  exact (ex_intro _ seg1 (ex_intro _ dw1 (ex_intro _ ws1 (conj UnicodeOK_seg1 (conj
    (ex_intro _ [97; 160; 160] (ex_intro _ 2 (ex_intro _ [8230] (ex_intro _ 2 truncate_orig_panics))))
    (conj
    (ex_intro _ [97; 32; 32] (ex_intro _ 1 (ex_intro _ [] (ex_intro _ [97; 32]
       (conj (proj1 truncate_orig_overruns) orig_overrun_lt)))))
    (ex_intro _ [[97; 32; 32]] (ex_intro _ 1 (ex_intro _ [] line_truncate_orig_diverges))))))))).
Qed.
