(* C02 — Fetches respect the delegate threshold and never rewind delegate sigrefs.
   This file contains only theorem statements closed by [exact]. *)
From HW Require Import lib.Base lib.SMap model.Fetch proofs.FetchProofs.
Local Open Scope N_scope.

(* Fewer valid delegates than the threshold (one fewer when the local node is
   a delegate): the fetch reports Failed and storage is literally unchanged. *)
Theorem C02_below_threshold_unchanged :
  forall anc U c L S tips valid,
    plan anc U c L S = inr (tips, valid) ->
    N.of_nat (length valid) < eff_threshold c ->
    run anc U c L S = (RFailed, L).
Proof. exact run_below_threshold. Qed.
