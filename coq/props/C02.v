(* C02 — Fetches respect the delegate threshold and never rewind delegate sigrefs.
   This file contains only theorem statements closed by [exact]
   (and [vm_compute] Examples).  See props/C01.v for the reading guide. *)
From HW Require Import lib.Base lib.SMap model.Fetch proofs.FetchProofs.
Local Open Scope N_scope.

(* For EVERY outcome (success, failure, every error, the mid-apply abort) and
   for every namespace -- in particular every delegate's --: a rad/sigrefs
   that was in local storage is still there afterwards and points at the same
   commit or at a descendant.  ([anc] reflexive: it is "ancestor or equal".) *)
Theorem C02_delegate_sigrefs_monotone :
  forall anc, (forall x, anc x x = true) ->
  forall U c L S res L' d a, sorted S ->
    run anc U c L S = (res, L') ->
    sigrefs_of L d = Some a ->
    exists b, sigrefs_of L' d = Some b /\ anc a b = true.
Proof.
  exact (fun anc Hrefl U c L S res L' d a HS Hrun Ha =>
    match sigrefs_monotone anc U c L S res L' d a HS Hrun Ha with
    | ex_intro _ b (conj Hb Hor) =>
        ex_intro _ b (conj Hb
          match Hor with
          | or_introl E => eq_ind a (fun x => anc a x = true) (Hrefl a) b E
          | or_intror H => H
          end)
    end).
Qed.

(* Fewer valid delegates than the threshold (one fewer is required when the
   local node is itself a delegate: [eff_threshold]): the fetch reports Failed
   and storage is literally unchanged.  [valid] is the set the validation
   loop ends with: delegates already in storage, minus those whose advertised
   data failed validation, plus those that passed it. *)
Theorem C02_below_threshold_unchanged :
  forall anc U c L S tips valid,
    plan anc U c L S = inr (tips, valid) ->
    N.of_nat (length valid) < eff_threshold c ->
    run anc U c L S = (RFailed, L).
Proof. exact run_below_threshold. Qed.

(* Who is in [valid]: only non-blocked delegates that either already had a
   rad/sigrefs in local storage or whose announced / advertised signed refs
   verified in this fetch; no delegate is counted twice. *)
Theorem C02_valid_delegates_sound :
  forall anc U c L S tips valid, sorted S ->
    plan anc U c L S = inr (tips, valid) ->
    NoDup (keys valid) /\
    forall d, In d (keys valid) ->
      is_delegate c d = true /\
      (sigrefs_of L d <> None \/
       exists t o, announced c S d = Some t /\ lookup t U = Some o /\
                   so_sig_ok o = true /\ so_root_ok o = true).
Proof. exact valid_delegates_sound. Qed.

(* A successful fetch leaves at least threshold-many distinct, non-blocked
   delegates with a rad/sigrefs in local storage. *)
Theorem C02_success_needs_threshold :
  forall anc U c L S L', sorted S ->
    run anc U c L S = (RSuccess, L') ->
    exists V : list nid, NoDup V /\ eff_threshold c <= N.of_nat (length V) /\
      forall d, In d V -> is_delegate c d = true /\ sigrefs_of L' d <> None.
Proof. exact success_needs_threshold. Qed.

(* Non-vacuity for thresholds 1..4: with k-1 of k delegates valid the fetch
   fails and changes nothing, with all k valid it succeeds. *)
Definition good (n : N) : sigobj := mkSigObj [(20, n); (40, 1)] true true.
Definition ns_good (n t : N) : namespace := [(20, n); (40, 1); (42, t)].
Definition ex_U : universe :=
  [(101, good 1); (102, good 2); (103, good 3); (104, good 4);
   (201, mkSigObj [(20, 9)] true true)].   (* 201: does not sign the advertised rad/id *)
Definition ex_cfg (ds : list nid) (thr : N) : cfg := mkCfg ds thr 9 [] None true None true.

Example C02_threshold_1 :
  run (anc_of []) ex_U (ex_cfg [1] 1) [] [(1, [(20, 9); (40, 1); (42, 201)])] = (RFailed, []) /\
  run (anc_of []) ex_U (ex_cfg [1] 1) [] [(1, ns_good 1 101)] = (RSuccess, [(1, ns_good 1 101)]).
Proof. split; vm_compute; reflexivity. Qed.

Example C02_threshold_2 :
  run (anc_of []) ex_U (ex_cfg [1; 2] 2) [] [(1, ns_good 1 101); (2, [(20, 9); (40, 1); (42, 201)])]
    = (RFailed, []) /\
  run (anc_of []) ex_U (ex_cfg [1; 2] 2) [] [(1, ns_good 1 101); (2, ns_good 2 102)]
    = (RSuccess, [(1, ns_good 1 101); (2, ns_good 2 102)]).
Proof. split; vm_compute; reflexivity. Qed.

Example C02_threshold_3 :
  run (anc_of []) ex_U (ex_cfg [1; 2; 3] 3) []
      [(1, ns_good 1 101); (2, ns_good 2 102); (3, [(20, 9); (40, 1); (42, 201)])] = (RFailed, []) /\
  run (anc_of []) ex_U (ex_cfg [1; 2; 3] 3) []
      [(1, ns_good 1 101); (2, ns_good 2 102); (3, ns_good 3 103)]
    = (RSuccess, [(1, ns_good 1 101); (2, ns_good 2 102); (3, ns_good 3 103)]).
Proof. split; vm_compute; reflexivity. Qed.

Example C02_threshold_4 :
  run (anc_of []) ex_U (ex_cfg [1; 2; 3; 4] 4) []
      [(1, ns_good 1 101); (2, ns_good 2 102); (3, ns_good 3 103); (4, [(20, 9); (40, 1); (42, 201)])]
    = (RFailed, []) /\
  run (anc_of []) ex_U (ex_cfg [1; 2; 3; 4] 4) []
      [(1, ns_good 1 101); (2, ns_good 2 102); (3, ns_good 3 103); (4, ns_good 4 104)]
    = (RSuccess, [(1, ns_good 1 101); (2, ns_good 2 102); (3, ns_good 3 103); (4, ns_good 4 104)]).
Proof. split; vm_compute; reflexivity. Qed.

(* the local node being a delegate lowers the requirement by one *)
Example C02_local_delegate_counts :
  run (anc_of []) ex_U (mkCfg [1; 9] 2 9 [] None true None true) [] [(1, ns_good 1 101)]
    = (RSuccess, [(1, ns_good 1 101)]).
Proof. vm_compute. reflexivity. Qed.

(* a delegate whose advertised rad/sigrefs is behind / has diverged: nothing is rewound *)
Example C02_behind_and_diverged :
  (* 101 -> 102 is the history; local has 102, server advertises 101 (behind) *)
  run (anc_of [(101, 102)]) ex_U (mkCfg [1] 1 9 [] None false None true)
      [(1, ns_good 2 102)] [(1, ns_good 1 101)] = (RSuccess, [(1, ns_good 2 102)]) /\
  (* local has 102, server advertises the unrelated 103 (diverged): error, nothing changes *)
  run (anc_of [(101, 102)]) ex_U (mkCfg [1] 1 9 [] None false None true)
      [(1, ns_good 2 102)] [(1, ns_good 3 103)] = (RErr 3, [(1, ns_good 2 102)]) /\
  (* local has 101, server advertises 102 (ahead): fast-forward *)
  run (anc_of [(101, 102)]) ex_U (mkCfg [1] 1 9 [] None false None true)
      [(1, ns_good 1 101)] [(1, ns_good 2 102)] = (RSuccess, [(1, ns_good 2 102)]).
Proof. repeat split; vm_compute; reflexivity. Qed.
