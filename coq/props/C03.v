(* C03 — Canonical branch head is backed by the delegate threshold.
   Statements about model/Quorum.v ([quorum] = Canonical::quorum as it is in
   crates/radicle/src/git/canonical.rs after the fix "count distinct
   delegates per candidate").  Only statements closed by [exact].

   Vocabulary (proofs/QuorumProofs.v):
   - [GitHistory anc mb]: [anc] (ancestor-or-equal) is a partial order, an
     ancestor is the merge base of itself and a descendant (either argument
     order), a merge base is a common ancestor.  [mb a b = None] is a git2
     error (e.g. unrelated histories).
   - [tips : tipmap] is the sorted map delegate -> tip (BTreeMap<Did,Oid>);
     [supporters anc tips c] are the bindings (d,t) of [tips] with
     [anc c t = true]: the *distinct delegates* whose tip is c or descends
     from c.
   - [supported anc tips thr c] := c is one of the tips and
     thr <= |supporters anc tips c|   ("sufficiently supported"). *)
From HW Require Import lib.Base lib.SMap model.Quorum proofs.QuorumProofs.
Local Open Scope N_scope.

(* A returned head is one of the tips; at least [thr] distinct delegates have a
   tip that it is equal to or an ancestor of; it descends from every
   sufficiently supported tip, hence no other sufficiently supported tip
   descends from it. *)
Theorem C03_head_sound :
  forall anc mb, GitHistory anc mb ->
  forall (tips : tipmap) (thr : N), sorted tips ->
  forall h, quorum mb tips thr = QOk h ->
    In h (map snd tips) /\
    (exists ds : list N, NoDup ds /\ thr <= N.of_nat (length ds) /\
       forall d, In d ds -> exists t, lookup d tips = Some t /\ anc h t = true) /\
    (forall c, supported anc tips thr c -> anc c h = true) /\
    (forall c, supported anc tips thr c -> anc h c = true -> c = h).
Proof. exact head_sound. Qed.

(* No tip with enough distinct supporters: no head is returned (NoCandidates,
   or the git error if some pair of tips has no merge base); NoCandidates is
   returned only then; and when every pair of distinct tips has a merge base
   it is returned exactly then. *)
Theorem C03_no_candidates_iff :
  forall anc mb, GitHistory anc mb ->
  forall (tips : tipmap) (thr : N), sorted tips ->
    (quorum mb tips thr = QNoCandidates -> forall c, ~ supported anc tips thr c) /\
    ((forall c, ~ supported anc tips thr c) ->
       quorum mb tips thr = QNoCandidates \/ quorum mb tips thr = QGit) /\
    (git_ok mb tips ->
       (quorum mb tips thr = QNoCandidates <-> forall c, ~ supported anc tips thr c)).
Proof.
  intros anc mb GH tips thr Hs.
  exact (conj (no_candidates_only_if anc mb GH tips thr Hs)
        (conj (no_supported_no_head anc mb GH tips thr Hs)
              (no_candidates_iff anc mb GH tips thr Hs))).
Qed.

(* Some tip is sufficiently supported, but for each of them another one is not
   among its ancestors (none descends from all of them): the result is an
   error, never a head — the Diverging error naming two sufficiently supported,
   mutually divergent tips, or the git error. *)
Theorem C03_divergent_is_error :
  forall anc mb, GitHistory anc mb ->
  forall (tips : tipmap) (thr : N), sorted tips ->
    (exists c, supported anc tips thr c) ->
    (forall c, supported anc tips thr c ->
       exists c', supported anc tips thr c' /\ anc c' c = false) ->
    (exists b l x, quorum mb tips thr = QDiverging b l x /\
       supported anc tips thr l /\ supported anc tips thr x /\
       anc l x = false /\ anc x l = false) \/
    quorum mb tips thr = QGit.
Proof. exact divergent_is_error. Qed.

(* The Diverging error is itself sound: it names two distinct sufficiently
   supported tips, neither an ancestor of the other, and their merge base. *)
Theorem C03_diverging_sound :
  forall anc mb, GitHistory anc mb ->
  forall (tips : tipmap) (thr : N), sorted tips ->
  forall b l x, quorum mb tips thr = QDiverging b l x ->
    supported anc tips thr l /\ supported anc tips thr x /\ l <> x /\
    anc l x = false /\ anc x l = false /\ mb x l = Some b.
Proof. exact diverging_sound. Qed.

(* The git error is returned only if two distinct tips have no merge base. *)
Theorem C03_git_error_only_if :
  forall anc mb, GitHistory anc mb ->
  forall (tips : tipmap) (thr : N), sorted tips ->
    quorum mb tips thr = QGit ->
    exists a b, In a (map snd tips) /\ In b (map snd tips) /\ a <> b /\ mb a b = None.
Proof. exact git_error_only_if. Qed.

(* Complement: when every pair of distinct tips has a merge base and the
   sufficiently supported tips are pairwise comparable (a chain), a head is
   returned (by C03_head_sound it is the greatest of them). *)
Theorem C03_chain_returns_head :
  forall anc mb, GitHistory anc mb ->
  forall (tips : tipmap) (thr : N), sorted tips ->
    git_ok mb tips ->
    (exists c, supported anc tips thr c) ->
    (forall c c', supported anc tips thr c -> supported anc tips thr c' ->
       anc c c' = true \/ anc c' c = true) ->
    exists h, quorum mb tips thr = QOk h.
Proof. exact chain_returns_head. Qed.

(* The inputs of the correspondence cases satisfy the hypotheses above: the
   tips map built by successive inserts is sorted, and tables accepted by
   [hist_okb] (evaluated on the real git2 data in every case) form a
   [GitHistory]. *)
Theorem C03_case_inputs_meet_hypotheses :
  (forall l, sorted (tips_of_list l)) /\
  (forall ancp mbt, hist_okb ancp mbt = true -> GitHistory (tab_anc ancp) (tab_mb mbt)).
Proof. exact (conj tips_of_list_sorted tables_history). Qed.

(* ---------- non-vacuity and witnesses ----------
   History: 0 root; 1 child of 0; 2 child of 1; 3 another child of 0. *)
Definition ex_ancp : list (N * N) := [(0,1); (0,2); (0,3); (1,2)].
Definition ex_mbt : list (N * N * N) :=
  [(0,1,0); (1,0,0); (0,2,0); (2,0,0); (0,3,0); (3,0,0);
   (1,2,1); (2,1,1); (1,3,0); (3,1,0); (2,3,0); (3,2,0)].

Example C03_example_history : GitHistory (tab_anc ex_ancp) (tab_mb ex_mbt).
Proof. apply tables_history. vm_compute. reflexivity. Qed.

(* two delegates on commit 1, one on its child 2, two on the divergent 3.
   Commit 1 has 3 distinct supporters.  (Before the fix the per-pair count
   gave it 2 + 2*1 = 4 votes and `QOk 1` was returned for threshold 4.) *)
Example C03_example_thresholds :
  let tips := tips_of_list [(0,1); (1,1); (2,2); (3,3); (4,3)] in
  quorum (tab_mb ex_mbt) tips 4 = QNoCandidates /\
  quorum (tab_mb ex_mbt) tips 3 = QOk 1 /\
  quorum (tab_mb ex_mbt) tips 2 = QDiverging 0 1 3 /\
  quorum (tab_mb ex_mbt) tips 1 = QDiverging 0 2 3.
Proof. vm_compute. repeat split. Qed.

(* Remark (not part of the property): the converse of C03_divergent_is_error
   does not hold.  When a sufficiently supported merge commit descends from two
   divergent sufficiently supported tips, the answer depends on the oid order:
   the fold reports Diverging if it meets the two parents before the merge. *)
Example C03_remark_order_dependent :
  (* 0 root; 1, 2 children of 0; 3 = merge of 1 and 2 *)
  let mbt := [(0,1,0); (1,0,0); (0,2,0); (2,0,0); (0,3,0); (3,0,0);
              (1,2,0); (2,1,0); (1,3,1); (3,1,1); (2,3,2); (3,2,2)] in
  (* the same history with the merge numbered 1 and its parents 2, 3 *)
  let mbt' := [(0,1,0); (1,0,0); (0,2,0); (2,0,0); (0,3,0); (3,0,0);
               (2,3,0); (3,2,0); (2,1,2); (1,2,2); (3,1,3); (1,3,3)] in
  quorum (tab_mb mbt) (tips_of_list [(0,1); (1,2); (2,3)]) 1 = QDiverging 0 1 2 /\
  quorum (tab_mb mbt') (tips_of_list [(0,2); (1,3); (2,1)]) 1 = QOk 1.
Proof. vm_compute. repeat split. Qed.
