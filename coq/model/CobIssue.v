(* CobIssue.v — executable model of issue evaluation.

   covers: crates/radicle/src/cob/issue.rs::Issue::authorization, ::op_action,
           ::action, <Issue as Cob>::from_root, ::op, <Issue as Evaluate>::init,
           ::apply, Issue::author, Issue::root, Issue::new
   sites:  Issue::author / Issue::root `expect` (no live comment), thread
           debug assertions (see CobThread.v)

   Abstractions: titles are [N] tokens plus the flag "contains CR or LF" (the only
   thing the code inspects); labels, DIDs are [N]; close reasons are [N].
   [atomic] selects the op-application discipline: [false] = effects of the
   actions preceding a failing action stay (Issue::op / Patch::op before the
   `fix:` commits e6be104 / b9ccd5c); [true] = a rejected op leaves the object
   untouched (the actions are applied to a clone that replaces the state on
   success — the code since those commits). The harness measures which one the
   compiled code implements and passes it to the model; every theorem holds
   for both. *)
From HW Require Import lib.Base lib.SMap model.CobThread.
Local Open Scope N_scope.

Inductive istate := IOpen | IClosed (reason : N).
Definition istate_eqb (a b : istate) : bool :=
  match a, b with
  | IOpen, IOpen => true
  | IClosed x, IClosed y => x =? y
  | _, _ => false
  end.

Record issue := mkIssue {
  i_assignees : sset;
  i_title : N;
  i_state : istate;
  i_labels : sset;
  i_thread : thread }.

Inductive iaction :=
| IAssign (assignees : list N)
| IEdit (title : N) (has_newline : bool)
| ILifecycle (st : istate)
| ILabel (labels : list N)
| IComment (body : N) (reply : option N)
| ICommentEdit (id body : N)
| ICommentRedact (id : N)
| ICommentReact (id reaction : N) (active : bool).

Definition iop := op iaction.

Definition i_with_thread (i : issue) (t : thread) : issue :=
  mkIssue (i_assignees i) (i_title i) (i_state i) (i_labels i) t.

(* Issue::root(): first live comment along the timeline *)
Definition i_root (i : issue) : option (N * comment) := hd_error (live_comments (i_thread i)).

(* Issue::authorization *)
Definition i_authz (i : issue) (a : iaction) (actor : N) (d : doc) : ares :=
  if is_delegate d actor then AOk Allow else
  match i_root i with
  | None => APanic 20
  | Some (_, rc) =>
      let author := c_author rc in
      match a with
      | IAssign l =>
          AOk (if sset_eqb (sset_of_list l) (i_assignees i) then Allow else Deny)
      | IEdit _ _ => AOk (authz_of_bool (actor =? author))
      | ILifecycle _ => AOk (authz_of_bool (actor =? author))
      | ILabel l =>
          AOk (if sset_eqb (sset_of_list l) (i_labels i) then Allow else Deny)
      | IComment _ _ => AOk Allow
      | ICommentEdit id _ | ICommentRedact id =>
          match lookup id (t_comments (i_thread i)) with
          | Some (Some c) => AOk (authz_of_bool (actor =? c_author c))
          | Some None => AOk Unknown
          | None => AErr EMissing
          end
      | ICommentReact _ _ _ => AOk Allow
      end
  end.

Section Issue.
Variable dbg : bool.
Variable atomic : bool.

(* Issue::action *)
Definition i_action (i : issue) (a : iaction) (entry actor : N) : outcome issue :=
  match a with
  | IAssign l => Ok (mkIssue (sset_of_list l) (i_title i) (i_state i) (i_labels i) (i_thread i))
  | IEdit t bad =>
      if bad then Err EInvalidTitle i
      else Ok (mkIssue (i_assignees i) t (i_state i) (i_labels i) (i_thread i))
  | ILifecycle st => Ok (mkIssue (i_assignees i) (i_title i) st (i_labels i) (i_thread i))
  | ILabel l => Ok (mkIssue (i_assignees i) (i_title i) (i_state i) (sset_of_list l) (i_thread i))
  | IComment body reply =>
      omap (i_with_thread i) (t_comment dbg (i_thread i) entry actor body reply)
  | ICommentEdit id body =>
      omap (i_with_thread i) (t_edit dbg (i_thread i) entry actor id body)
  | ICommentRedact id =>
      match i_root i with
      | None => Panic 21
      | Some (root, _) =>
          if id =? root then Err ENotAllowed i
          else omap (i_with_thread i) (t_redact dbg (i_thread i) entry id)
      end
  | ICommentReact id reaction active =>
      omap (i_with_thread i) (t_react dbg (i_thread i) entry actor id reaction active)
  end.

(* Issue::op_action *)
Definition i_op_action (i : issue) (a : iaction) (entry actor : N) (d : doc) : outcome issue :=
  match i_authz i a actor d with
  | AOk Allow => i_action i a entry actor
  | AOk Deny => Err ENotAuthorized i
  | AOk Unknown => Ok i
  | AErr e => Err e i
  | APanic k => Panic k
  end.

Fixpoint i_actions (i : issue) (acts : list iaction) (entry actor : N) (d : doc) : outcome issue :=
  match acts with
  | [] => Ok i
  | a :: rest =>
      match i_op_action i a entry actor d with
      | Ok i' => i_actions i' rest entry actor d
      | r => r
      end
  end.

(* <Issue as Cob>::op / Evaluate::apply *)
Definition i_apply_raw (i : issue) (o : iop) : outcome issue :=
  match op_doc o with
  | None => Err EDoc i
  | Some d => i_actions i (op_actions o) (op_id o) (op_actor o) d
  end.

Definition i_apply (i : issue) (o : iop) : outcome issue :=
  match i_apply_raw i o with
  | Err e i' => Err e (if atomic then i else i')
  | r => r
  end.

(* <Issue as Cob>::from_root / Evaluate::init: on failure there is no object *)
Definition i_init (o : iop) : outcome issue :=
  match op_doc o with
  | None => Err EDoc (mkIssue [] 0 IOpen [] thread_empty)
  | Some d =>
      match op_actions o with
      | IComment body None :: rest =>
          let c := new_comment (op_actor o) body None in
          i_actions (mkIssue [] 0 IOpen [] (thread_new (op_id o) c)) rest (op_id o) (op_actor o) d
      | _ => Err EInit (mkIssue [] 0 IOpen [] thread_empty)
      end
  end.

(* evaluation of a history: the evaluator keeps going after a rejected op
   (the entry is pruned, the object stays as the failed call left it);
   a panic ends everything *)
Definition i_step (i : issue) (o : iop) : option issue :=
  match i_apply i o with Ok i' => Some i' | Err _ i' => Some i' | Panic _ => None end.

Fixpoint i_run (i : issue) (ops : list iop) : option issue :=
  match ops with
  | [] => Some i
  | o :: rest => match i_step i o with Some i' => i_run i' rest | None => None end
  end.

End Issue.

(* ---------- correspondence interface ---------- *)

Definition issue_eqb (a b : issue) : bool :=
  sset_eqb (i_assignees a) (i_assignees b) && (i_title a =? i_title b) &&
  istate_eqb (i_state a) (i_state b) && sset_eqb (i_labels a) (i_labels b) &&
  thread_eqb (i_thread a) (i_thread b).

(* guarded scalars observed after every op *)
Record iguard := mkIGuard { ig_assignees : list N; ig_title : N; ig_state : istate; ig_labels : list N }.
Definition iguard_of (i : issue) : iguard :=
  mkIGuard (keys (i_assignees i)) (i_title i) (i_state i) (keys (i_labels i)).
Definition iguard_eqb (a b : iguard) : bool :=
  list_eqb N.eqb (ig_assignees a) (ig_assignees b) && (ig_title a =? ig_title b) &&
  istate_eqb (ig_state a) (ig_state b) && list_eqb N.eqb (ig_labels a) (ig_labels b).

Inductive istep_obs := ISOk (g : iguard) | ISErr (e : err) (g : iguard) | ISPanic.
Definition istep_obs_eqb (a b : istep_obs) : bool :=
  match a, b with
  | ISOk g, ISOk h => iguard_eqb g h
  | ISErr e g, ISErr f h => err_eqb e f && iguard_eqb g h
  | ISPanic, ISPanic => true
  | _, _ => false
  end.

Record icase := mkICase { ic_dbg : bool; ic_atomic : bool; ic_root : iop; ic_ops : list iop }.

Inductive iobs :=
| IObsInitErr (e : err)
| IObsInitPanic
| IObsRun (g0 : iguard) (steps : list istep_obs) (final : option issue).

Fixpoint i_trace (dbg atomic : bool) (i : issue) (ops : list iop) : list istep_obs * option issue :=
  match ops with
  | [] => ([], Some i)
  | o :: rest =>
      match i_apply dbg atomic i o with
      | Ok i' => let r := i_trace dbg atomic i' rest in (ISOk (iguard_of i') :: fst r, snd r)
      | Err e i' => let r := i_trace dbg atomic i' rest in (ISErr e (iguard_of i') :: fst r, snd r)
      | Panic _ => ([ISPanic], None)
      end
  end.

Definition irun (c : icase) : iobs :=
  match i_init (ic_dbg c) (ic_root c) with
  | Err e _ => IObsInitErr e
  | Panic _ => IObsInitPanic
  | Ok i => let r := i_trace (ic_dbg c) (ic_atomic c) i (ic_ops c) in
            IObsRun (iguard_of i) (fst r) (snd r)
  end.

Definition iobs_eqb (a b : iobs) : bool :=
  match a, b with
  | IObsInitErr e, IObsInitErr f => err_eqb e f
  | IObsInitPanic, IObsInitPanic => true
  | IObsRun g s f, IObsRun g' s' f' =>
      iguard_eqb g g' && list_eqb istep_obs_eqb s s' && option_eqb issue_eqb f f'
  | _, _ => false
  end.
