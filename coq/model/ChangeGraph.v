(* ChangeGraph.v — executable model of the change graph of a collaborative
   object (no proofs here).
   covers: radicle-cob/src/change_graph.rs::ChangeGraph::{load, evaluate, chronological, tips},
           radicle-cob/src/object/collaboration/get.rs::get,
           radicle-cob/src/history.rs::History::{new, tips}
   built on model/Dag.v (radicle-dag).

   Store.  `change::Storage::load(id)` is a finite map from change ids to
   entries ([cstore], an association list looked up by first match); an id
   without binding is a commit on which `load` fails (not a change: no
   manifest, no signature, …).  Ids are N, preserving the byte order of the
   oids.  Of an `Entry` the model keeps what `load`/`evaluate` read: the
   parents (as `load` returns them: the commit parents minus resource/related
   trailers), the timestamp, the author, whether `valid_signatures()` holds,
   the manifest (type name), and the contents as an abstract payload.

   load.  `child_ids` is a Vec used as a stack (`pop` takes the *last*
   element): the model's stack has its top at the head, so it starts as
   [rev tips] and a change pushes [rev parents].  Already present nodes and
   unloadable ids are skipped; the edges are collected and added with
   `Dag::dependency` only after all nodes exist; `graph.roots().next()?`
   makes the result `None` when no node is a root.  The loop is modelled with
   fuel ([LoadFuel] when it runs out; proofs/ChangeGraphProofs.v shows the
   supplied fuel always suffices).
   `debug_assert_ne!(Some(parent), change.resource)` cannot fire: `load`
   filters the resource out of the parents.

   evaluate.  Generic in the object type: [init] is `T::init` (None = Err),
   [apply] is `T::apply` acting on the state *in place*: it returns whether it
   succeeded and the state it left behind — after an error too, because the
   Rust code keeps using the same `object` after a failed `apply`.
   Outcomes: the three `EvaluateError`s, the panic of `History::new` when the
   root is no longer in the pruned graph ([EvHistoryPanic]; impossible on
   acyclic stores, proved), or the object with manifest, state, history graph
   and the log of filter calls (key, sibling keys, Continue/Break). *)
From HW Require Import lib.Base lib.SMap model.Dag.

Section ChangeGraph.
Context {P : Type}.

Record entry := mkEntry {
  e_parents : list N;
  e_ts : N;
  e_author : N;
  e_sigok : bool;
  e_manifest : N;
  e_payload : P;
}.

Definition cstore := list (N * entry).

(* ---------- ChangeGraph::load ---------- *)

Definition push_edges (c : N) (ps : list N) : list (N * N) := map (fun p => (c, p)) ps.

Fixpoint load_loop (fuel : nat) (st : cstore) (stack : list N) (g : dag entry) (edges : list (N * N))
  : option (dag entry * list (N * N)) :=
  match stack with
  | [] => Some (g, edges)
  | c :: rest =>
      match fuel with
      | O => None
      | S f =>
          if dag_contains g c then load_loop f st rest g edges      (* already processed *)
          else match lookup c st with
               | Some e =>                                           (* Ok(change) *)
                   load_loop f st (rev (e_parents e) ++ rest) (dag_node g c e)
                             (edges ++ push_edges c (e_parents e))
               | None => load_loop f st rest g edges                 (* Err: warn and skip *)
               end
      end
  end.

Definition total_parents (st : cstore) : nat :=
  fold_right (fun ke n => (length (e_parents (snd ke)) + n)%nat) O st.
Definition load_fuel (st : cstore) (tips : list N) : nat := S (length tips + total_parents st).

(* `for (child, parent) in edges_to_add { graph.dependency(child, parent) }` *)
Definition add_edges (g : dag entry) (edges : list (N * N)) : dag entry :=
  fold_left (fun g e => dag_dependency g (fst e) (snd e)) edges g.

Inductive loaded := LoadFuel | LoadNone | Loaded (g : dag entry).

Definition load (st : cstore) (tips : list N) : loaded :=
  match load_loop (load_fuel st tips) st (rev tips) dag_new [] with
  | None => LoadFuel
  | Some ge =>
      let g := add_edges (fst ge) (snd ge) in
      match dag_roots g with [] => LoadNone | _ :: _ => Loaded g end
  end.

(* ChangeGraph::tips / History::tips *)
Definition graph_tips (g : dag entry) : list N := map fst (dag_tips g).

(* ---------- ChangeGraph::evaluate ---------- *)

(* x.timestamp.cmp(y.timestamp).then(x.oid.cmp(y.oid)) *)
Definition chronological (x y : N * entry) : comparison :=
  match N.compare (e_ts (snd x)) (e_ts (snd y)) with
  | Eq => N.compare (fst x) (fst y)
  | c => c
  end.

Section Evaluate.
Context {S : Type}.
Variable init : N -> entry -> option S.
Variable apply : S -> N -> entry -> list (N * entry) -> bool * S.

Definition plog := list (N * list N * flow).

Inductive eval_result :=
| EvMissingRoot
| EvSignature
| EvInit
| EvFuel
| EvHistoryPanic
| EvOk (manifest : N) (obj : S) (history : dag entry) (log : plog).

Definition eval_filter : prune_filter entry S := fun acc k nd sibs =>
  if e_sigok (nvalue nd) then
    let r := apply acc k (nvalue nd) (map (fun kn => (fst kn, nvalue (snd kn))) sibs) in
    (if fst r then Continue else Break, snd r)
  else (Break, acc).

Definition evaluate (oid : N) (g : dag entry) : eval_result :=
  match dag_get g oid with
  | None => EvMissingRoot
  | Some root =>
      if e_sigok (nvalue root) then
        match init oid (nvalue root) with
        | None => EvInit
        | Some obj =>
            match dag_prune_by_log g (sset_elems (ndpts root)) obj eval_filter chronological with
            | None => EvFuel
            | Some r =>
                let g' := snd (fst r) in
                if dag_contains g' oid
                then EvOk (e_manifest (nvalue root)) (fst (fst r)) g' (snd r)
                else EvHistoryPanic
            end
        end
      else EvSignature
  end.

(* object::collaboration::get *)
Inductive get_result := GFuel | GNone | GEval (r : eval_result).
Definition get (st : cstore) (tips : list N) (oid : N) : get_result :=
  match load st tips with
  | LoadFuel => GFuel
  | LoadNone => GNone
  | Loaded g => GEval (evaluate oid g)
  end.

End Evaluate.
End ChangeGraph.

Arguments entry : clear implicits.
Arguments cstore : clear implicits.
Arguments loaded : clear implicits.
Arguments eval_result : clear implicits.
Arguments get_result : clear implicits.

(* ------------------------------------------------------------------ *)
(* Correspondence interface.  The harness writes change DAGs as real COB
   commits, points namespace refs at some of them and calls the real
   `radicle_cob::get::<Toy, _>`, where `Toy` is an `Evaluate` implementation
   of the harness that records what it is asked to do.  The payload of a change
   selects the toy's behaviour:
     0  apply succeeds and appends (id, sibling ids) to the state
     1  apply fails, state untouched
     2  apply appends (id, sibling ids) and *then* fails (a non-atomic apply)
     3  `init` fails (on the root); otherwise a successful no-op
   [run] does the same on the model. *)

Definition toy := list (N * list N).

Definition toy_init (k : N) (e : entry N) : option toy :=
  if N.eqb (e_payload e) 3 then None else Some [(k, [])].

Definition toy_apply (acc : toy) (k : N) (e : entry N) (sibs : list (N * entry N)) : bool * toy :=
  if N.eqb (e_payload e) 0 then (true, acc ++ [(k, map fst sibs)])
  else if N.eqb (e_payload e) 1 then (false, acc)
  else if N.eqb (e_payload e) 2 then (false, acc ++ [(k, map fst sibs)])
  else (true, acc).

(* store entry as written by the harness: (id, (parents, ts, author, sigok, manifest, payload)) *)
Definition raw_entry := (N * (list N * N * N * bool * N * N))%type.
Definition mk_store (l : list raw_entry) : cstore N :=
  map (fun r => match r with
                | (k, (ps, ts, au, ok, mf, pl)) => (k, mkEntry ps ts au ok mf pl)
                end) l.

Inductive case :=
| CGet (st : list raw_entry) (tips : list N) (oid : N).

(* history: per node (key, (dependencies, dependents)), and History::tips *)
Definition hist_dump := (list (N * (list N * list N)) * list N)%type.
Definition hist_of (g : dag (entry N)) : hist_dump :=
  (map (fun kn => (fst kn, (sset_elems (ndeps (snd kn)), sset_elems (ndpts (snd kn))))) (graph g),
   graph_tips g).

Inductive obs :=
| OFuel                     (* the model ran out of fuel: never matches *)
| ONone                     (* get returned Ok(None) *)
| OMissingRoot | OSignature | OInit
| OPanic
| OOk (manifest : N) (obj : toy) (calls : list (N * list N * bool)) (h : hist_dump).

(* the calls made to `apply`: the filter calls on entries with a valid signature *)
Definition apply_calls (g : dag (entry N)) (log : list (N * list N * flow)) : list (N * list N * bool) :=
  flat_map (fun e => match lookup (fst (fst e)) (graph g) with
                     | Some nd => if e_sigok (nvalue nd)
                                  then [(fst (fst e), snd (fst e), flow_eqb (snd e) Continue)] else []
                     | None => []
                     end) log.

Definition run (c : case) : obs :=
  match c with
  | CGet st tips oid =>
      match load (mk_store st) tips with
      | LoadFuel => OFuel
      | LoadNone => ONone
      | Loaded g =>
          match evaluate toy_init toy_apply oid g with
          | EvMissingRoot => OMissingRoot
          | EvSignature => OSignature
          | EvInit => OInit
          | EvFuel => OFuel
          | EvHistoryPanic => OPanic
          | EvOk m obj h log => OOk m obj (apply_calls g log) (hist_of h)
          end
      end
  end.

Definition listN_eqb := list_eqb N.eqb.
Definition toy_eqb := list_eqb (prod_eqb N.eqb listN_eqb).
Definition hist_eqb : hist_dump -> hist_dump -> bool :=
  prod_eqb (list_eqb (prod_eqb N.eqb (prod_eqb listN_eqb listN_eqb))) listN_eqb.

Definition obs_eqb (x y : obs) : bool :=
  match x, y with
  | ONone, ONone | OMissingRoot, OMissingRoot | OSignature, OSignature | OInit, OInit
  | OPanic, OPanic => true
  | OOk m1 o1 c1 h1, OOk m2 o2 c2 h2 =>
      N.eqb m1 m2 && toy_eqb o1 o2 &&
      list_eqb (prod_eqb (prod_eqb N.eqb listN_eqb) Bool.eqb) c1 c2 && hist_eqb h1 h2
  | _, _ => false
  end.

Definition check_case (ce : case * obs) : bool := obs_eqb (run (fst ce)) (snd ce).
