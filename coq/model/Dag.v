(* Dag.v — executable model of crates/radicle-dag/src/lib.rs (no proofs here).
   covers: radicle-dag/src/lib.rs::Dag::{new, root, is_empty, len, node,
           dependency, contains, get, has_dependency, roots, tips, merge,
           sorted, sorted_by, prune, prune_by, fold, remove, descendants_of,
           ancestors_of, siblings_of, visit, visit_by}
   (merge is modelled as it is after the fix "Dag::merge merges every node of
   the other graph": a loop over `other.graph` in key order).

   Representation.  Keys are N; `BTreeMap<K, Node>` / `BTreeSet<K>` are the
   sorted association lists of lib/SMap.v, so iteration order (which the
   traversals observe) is key order, and two graphs with the same content are
   equal as terms.  Values are an arbitrary type V.  `Ordering` is Coq's
   [comparison]; `slice::sort_by` (a stable sort) is [sort_by], a stable
   insertion sort — it agrees with Rust whenever the comparison is a total
   preorder, which is `sort_by`'s contract.

   Recursion.  `visit`, `visit_by`, `remove` recurse through the graph and the
   two `*_of` functions are work-list loops; they are modelled with explicit
   fuel and return [None] when it runs out.  The top-level functions supply
   the fuel ([S (size g)] for the recursive ones); proofs/DagFuel.v (with
   DagTraverse.v, DagBfs.v, DagRemove.v) proves it always suffices, for every
   graph the API can build (well-formed or not).
   The only panic site is the `assert!` on the roots of `fold`: [Panicked]. *)
From HW Require Import lib.Base lib.SMap.

(* ---------- sets of N: the two operations lib/SMap does not name ---------- *)
Definition sset_remove (k : N) (s : sset) : sset := SMap.remove k s.
Definition sset_is_empty (s : sset) : bool := match s with [] => true | _ => false end.
Definition sset_extend (l : list N) (s : sset) : sset := fold_left (fun s k => sset_add k s) l s.

(* ---------- slice::sort_by (stable) ---------- *)
Section Sort.
  Context {A : Type} (cmp : A -> A -> comparison).
  (* x is placed in front of the sorted list and moves right only past
     elements it is strictly greater than: equal elements keep their order *)
  Fixpoint sort_insert (x : A) (l : list A) : list A :=
    match l with
    | [] => [x]
    | y :: l' => match cmp x y with Gt => y :: sort_insert x l' | _ => x :: l end
    end.
  Definition sort_by (l : list A) : list A := fold_right sort_insert [] l.
End Sort.

(* ControlFlow<(), ()> as returned by the user's filter *)
Inductive flow := Continue | Break.
Definition flow_eqb (a b : flow) : bool :=
  match a, b with Continue, Continue | Break, Break => true | _, _ => false end.

Inductive outcome (A : Type) := Done (a : A) | Panicked | OutOfFuel.
Arguments Done {A} a.
Arguments Panicked {A}.
Arguments OutOfFuel {A}.

Definition obind {A B} (o : option A) (f : A -> option B) : option B :=
  match o with Some a => f a | None => None end.

Section Dag.
Context {V : Type}.

(* struct Node { key, value, dependencies, dependents } — the `key` field always
   equals the key under which the node is stored (nodes are only ever inserted
   by `Dag::node`), so it is not repeated here. *)
Record node := mkNode { nvalue : V; ndeps : sset; ndpts : sset }.
(* struct Dag { graph, tips, roots } *)
Record dag := mkDag { graph : smap node; tips : sset; roots : sset }.

Definition dag_new : dag := mkDag [] [] [].
Definition dag_root (k : N) (v : V) : dag := mkDag [(k, mkNode v [] [])] [(k, tt)] [(k, tt)].
Definition dag_is_empty (g : dag) : bool := match graph g with [] => true | _ => false end.
Definition dag_size (g : dag) : nat := length (graph g).
Definition dag_len (g : dag) : N := N.of_nat (dag_size g).
Definition dag_contains (g : dag) (k : N) : bool := mem k (graph g).
Definition dag_get (g : dag) (k : N) : option node := lookup k (graph g).
Definition dag_has_dependency (g : dag) (from to : N) : bool :=
  match lookup from (graph g) with Some nd => sset_mem to (ndeps nd) | None => false end.

(* Dag::node — an existing node under the same key is *replaced* by a fresh
   one without edges (other nodes' references to it are left alone). *)
Definition dag_node (g : dag) (k : N) (v : V) : dag :=
  mkDag (insert k (mkNode v [] []) (graph g)) (sset_add k (tips g)) (sset_add k (roots g)).

(* Dag::dependency — each half is applied only if that endpoint exists *)
Definition dag_dependency (g : dag) (from to : N) : dag :=
  let g1 := match lookup from (graph g) with
            | Some nd => mkDag (insert from (mkNode (nvalue nd) (sset_add to (ndeps nd)) (ndpts nd)) (graph g))
                               (tips g) (sset_remove from (roots g))
            | None => g
            end in
  match lookup to (graph g1) with
  | Some nd => mkDag (insert to (mkNode (nvalue nd) (ndeps nd) (sset_add from (ndpts nd))) (graph g1))
                     (sset_remove to (tips g1)) (roots g1)
  | None => g1
  end.

(* Dag::roots() / Dag::tips(): the sets filtered by presence in the graph *)
Definition present (g : dag) (ks : list N) : list (N * node) :=
  flat_map (fun k => match lookup k (graph g) with Some nd => [(k, nd)] | None => [] end) ks.
Definition dag_roots (g : dag) : list (N * node) := present g (sset_elems (roots g)).
Definition dag_tips (g : dag) : list (N * node) := present g (sset_elems (tips g)).

(* Dag::merge (after the fix): for (next, node) in other.graph { … } *)
Definition merge_node (a : dag) (kn : N * node) : dag :=
  let k := fst kn in
  let nd := snd kn in
  let a1 := if dag_contains a k then a else dag_node a k (nvalue nd) in
  let a2 := fold_left (fun a d => dag_dependency a d k) (sset_elems (ndpts nd)) a1 in
  fold_left (fun a d => dag_dependency a k d) (sset_elems (ndeps nd)) a2.
Definition dag_merge (a b : dag) : dag := fold_left merge_node (graph b) a.

(* ---------- visit / visit_by: depth-first along `dependents`, pushing the
   node to the *front* of the order after its dependents ---------- *)
Definition vstate := (sset * list N)%type.    (* (visited, order) *)

Fixpoint dfs (children : node -> list N) (fuel : nat) (g : dag) (key : N) (st : vstate)
  : option vstate :=
  match fuel with
  | O => None
  | S f =>
      if sset_mem key (fst st) then Some st          (* visited.insert(key) == false *)
      else
        let vis1 := sset_add key (fst st) in
        match lookup key (graph g) with
        | Some nd =>
            match fold_left (fun acc d => obind acc (dfs children f g d)) (children nd)
                            (Some (vis1, snd st)) with
            | Some s2 => Some (fst s2, key :: snd s2)
            | None => None
            end
        | None => Some (vis1, key :: snd st)
        end
  end.
Definition dfs_list (children : node -> list N) (fuel : nat) (g : dag) (ks : list N) (st : vstate)
  : option vstate :=
  fold_left (fun acc k => obind acc (dfs children fuel g k)) ks (Some st).

(* visit: `for dependent in node.dependents.iter().rev()` *)
Definition visit_children (nd : node) : list N := rev (sset_elems (ndpts nd)).
(* visit_by: dependents present in the graph, sorted by `ordering` on
   (key, value), visited in reverse *)
Definition visit_by_children (ordering : N * V -> N * V -> comparison) (g : dag) (nd : node) : list N :=
  rev (map fst (sort_by ordering
         (map (fun kn => (fst kn, nvalue (snd kn))) (present g (sset_elems (ndpts nd)))))).

Definition visit_fuel (g : dag) : nat := S (dag_size g).

(* Dag::sorted_by *)
Definition dag_sorted_by (compare : N -> N -> comparison) (g : dag) : option (list N) :=
  let ks := sort_by (fun a b => CompOpp (compare a b)) (keys (graph g)) in
  option_map snd (dfs_list visit_children (visit_fuel g) g ks ([], [])).
Definition dag_sorted (g : dag) : option (list N) := dag_sorted_by N.compare g.

(* ---------- descendants_of / ancestors_of: work-list loops (VecDeque used as
   a queue: pop_front / push_back) ---------- *)
Fixpoint bfs (next : node -> sset) (fuel : nat) (g : dag) (queue : list N) (vis : sset)
  (nodes : list N) : option (list N) :=
  match queue with
  | [] => Some nodes
  | key :: q =>
      match fuel with
      | O => None
      | S f =>
          match lookup key (graph g) with
          | Some nd =>
              if sset_mem key vis then bfs next f g q vis nodes
              else bfs next f g (q ++ sset_elems (next nd)) (sset_add key vis) (nodes ++ [key])
          | None => bfs next f g q vis nodes
          end
      end
  end.
Definition total_size (next : node -> sset) (g : dag) : nat :=
  fold_right (fun kn n => (length (next (snd kn)) + n)%nat) O (graph g).
Definition bfs_fuel (next : node -> sset) (g : dag) (nd : node) : nat :=
  S (length (next nd) + total_size next g).
Definition descendants_of (g : dag) (nd : node) : option (list N) :=
  bfs ndpts (bfs_fuel ndpts g nd) g (sset_elems (ndpts nd)) [] [].
Definition ancestors_of (g : dag) (nd : node) : option (list N) :=
  bfs ndeps (bfs_fuel ndeps g nd) g (sset_elems (ndeps nd)) [] [].
(* siblings_of: keys that are neither ancestor, descendant nor the node itself *)
Definition siblings_of (g : dag) (key : N) (nd : node) : option (list N) :=
  obind (ancestors_of g nd) (fun anc =>
  obind (descendants_of g nd) (fun desc =>
  Some (filter (fun k => negb (memN k anc) && negb (memN k desc) && negb (N.eqb k key))
               (keys (graph g))))).

(* ---------- Dag::remove ---------- *)
(* `for k in &node.dependencies { if let Some(dependency) = graph.get_mut(k) { … } }` *)
Definition unlink_dep (key : N) (g : dag) (k : N) : dag :=
  match lookup k (graph g) with
  | Some dep =>
      let dp := sset_remove key (ndpts dep) in
      mkDag (insert k (mkNode (nvalue dep) (ndeps dep) dp) (graph g))
            (if sset_is_empty dp then sset_add k (tips g) else tips g) (roots g)
  | None => g
  end.
(* everything `remove` does before recursing into the dependents *)
Definition remove_node (key : N) (nd : node) (g : dag) : dag :=
  fold_left (unlink_dep key) (sset_elems (ndeps nd))
    (mkDag (SMap.remove key (graph g)) (sset_remove key (tips g)) (sset_remove key (roots g))).
Fixpoint dag_remove_fuel (fuel : nat) (g : dag) (key : N) : option dag :=
  match fuel with
  | O => None
  | S f =>
      match lookup key (graph g) with
      | None => Some g
      | Some nd =>
          fold_left (fun og k => obind og (fun g' => dag_remove_fuel f g' k))
                    (sset_elems (ndpts nd)) (Some (remove_node key nd g))
      end
  end.
Definition dag_remove (g : dag) (key : N) : option dag := dag_remove_fuel (S (dag_size g)) g key.

(* ---------- Dag::fold ---------- *)
Fixpoint strictly_ascending (l : list N) : bool :=
  match l with
  | a :: l' => match l' with b :: _ => N.ltb a b && strictly_ascending l' | [] => true end
  | [] => true
  end.

(* The filter is `FnMut(A, &K, &Node) -> ControlFlow<A, A>`: a function from
   the accumulator to (flow, accumulator).  Besides the accumulator the loop
   returns the log of the calls it made to the filter (key, answer). *)
Fixpoint fold_loop {A} (g : dag) (filter : A -> N -> node -> flow * A) (order : list N)
  (skip : sset) (acc : A) : option (A * list (N * flow)) :=
  match order with
  | [] => Some (acc, [])
  | next :: rest =>
      if sset_mem next skip then fold_loop g filter rest skip acc
      else match lookup next (graph g) with
           | None => fold_loop g filter rest skip acc
           | Some nd =>
               let r := filter acc next nd in
               match fst r with
               | Continue =>
                   option_map (fun al => (fst al, (next, Continue) :: snd al))
                              (fold_loop g filter rest skip (snd r))
               | Break =>
                   obind (descendants_of g nd) (fun ds =>
                   option_map (fun al => (fst al, (next, Break) :: snd al))
                              (fold_loop g filter rest (sset_extend ds skip) (snd r)))
               end
           end
  end.
(* the traversal order `fold` computes before looping *)
Definition fold_order (g : dag) (rts : list N) : option (list N) :=
  option_map snd (dfs_list visit_children (visit_fuel g) g (rev rts) ([], [])).
Definition dag_fold_log {A} (g : dag) (rts : list N) (acc : A) (filter : A -> N -> node -> flow * A)
  : outcome (A * list (N * flow)) :=
  if strictly_ascending rts then
    match obind (fold_order g rts) (fun order => fold_loop g filter order [] acc) with
    | Some r => Done r
    | None => OutOfFuel
    end
  else Panicked.
Definition dag_fold {A} (g : dag) (rts : list N) (acc : A) (filter : A -> N -> node -> flow * A)
  : outcome A :=
  match dag_fold_log g rts acc filter with
  | Done r => Done (fst r)
  | Panicked => Panicked
  | OutOfFuel => OutOfFuel
  end.

(* ---------- Dag::prune_by / prune ---------- *)
(* The filter is `FnMut(&K, &Node, siblings) -> ControlFlow<()>`; its captured
   state is the explicit accumulator A.  Log entry: (key, sibling keys, answer). *)
Definition prune_filter (A : Type) := A -> N -> node -> list (N * node) -> flow * A.
Fixpoint prune_loop {A} (filter : prune_filter A) (order : list N) (g : dag) (acc : A)
  : option (A * dag * list (N * list N * flow)) :=
  match order with
  | [] => Some (acc, g, [])
  | next :: rest =>
      match lookup next (graph g) with
      | None => prune_loop filter rest g acc
      | Some nd =>
          obind (siblings_of g next nd) (fun sib =>
          let r := filter acc next nd (present g sib) in
          obind (match fst r with Continue => Some g | Break => dag_remove g next end) (fun g' =>
          option_map (fun x => (fst (fst x), snd (fst x), (next, sib, fst r) :: snd x))
                     (prune_loop filter rest g' (snd r))))
      end
  end.
Definition prune_order (ordering : N * V -> N * V -> comparison) (g : dag) (rts : list N)
  : option (list N) :=
  option_map snd (dfs_list (visit_by_children ordering g) (visit_fuel g) g rts ([], [])).
Definition dag_prune_by_log {A} (g : dag) (rts : list N) (acc : A) (filter : prune_filter A)
  (ordering : N * V -> N * V -> comparison) : option (A * dag * list (N * list N * flow)) :=
  obind (prune_order ordering g rts) (fun order => prune_loop filter order g acc).
Definition dag_prune_by {A} (g : dag) (rts : list N) (acc : A) (filter : prune_filter A)
  (ordering : N * V -> N * V -> comparison) : option (A * dag) :=
  option_map fst (dag_prune_by_log g rts acc filter ordering).
Definition dag_prune {A} (g : dag) (rts : list N) (acc : A) (filter : prune_filter A)
  : option (A * dag) :=
  dag_prune_by g rts acc filter (fun a b => N.compare (fst a) (fst b)).

End Dag.

Arguments node : clear implicits.
Arguments dag : clear implicits.
Arguments prune_filter : clear implicits.

(* ------------------------------------------------------------------ *)
(* Correspondence interface: the harness drives a real `Dag<u8, u8>` with a
   sequence of API calls, then asks one query; [run] does the same on the
   model. *)

Inductive op :=
| ONode (k v : N)            (* dag.node(k, v) *)
| ODep (from to : N)         (* dag.dependency(from, to) *)
| ORemove (k : N).           (* dag.remove(&k) *)

Definition apply_op (og : option (dag N)) (o : op) : option (dag N) :=
  obind og (fun g =>
  match o with
  | ONode k v => Some (dag_node g k v)
  | ODep f t => Some (dag_dependency g f t)
  | ORemove k => dag_remove g k
  end).
Definition build (ops : list op) : option (dag N) := fold_left apply_op ops (Some dag_new).

(* comparison functions are passed as data *)
Definition rank_of (t : list (N * N)) (k : N) : N :=
  match lookup k t with Some r => r | None => 0%N end.
Inductive keyord := KAsc | KDesc | KTab (t : list (N * N)).   (* KTab: compare ranks; t is sorted by key *)
Definition keycmp (o : keyord) (a b : N) : comparison :=
  match o with
  | KAsc => N.compare a b
  | KDesc => N.compare b a
  | KTab t => N.compare (rank_of t a) (rank_of t b)
  end.
Inductive pairord := PKey (o : keyord) | PValAsc | PValDesc.
Definition paircmp (o : pairord) (a b : N * N) : comparison :=
  match o with
  | PKey o => keycmp o (fst a) (fst b)
  | PValAsc => N.compare (snd a) (snd b)
  | PValDesc => N.compare (snd b) (snd a)
  end.

Inductive case :=
| CDump (ops : list op)
| CSorted (ops : list op) (o : keyord)
| CFold (ops : list op) (rts : list N) (brk : list N)          (* Break exactly at the keys in brk *)
| CPrune (ops : list op) (rts : list N) (brk : list N) (o : pairord)
| CMerge (a b : list op).

(* full state: per node (key, value, dependencies, dependents); the raw tips
   and roots sets; and what the tips()/roots() iterators yield *)
Definition dump := (list (N * (N * (list N * list N))) * (list N * list N) * (list N * list N))%type.
Definition dump_of (g : dag N) : dump :=
  (map (fun kn => (fst kn, (nvalue (snd kn), (sset_elems (ndeps (snd kn)), sset_elems (ndpts (snd kn))))))
       (graph g),
   (sset_elems (tips g), sset_elems (roots g)),
   (map fst (dag_tips g), map fst (dag_roots g))).

Inductive obs :=
| ODump (d : dump)
| OOrder (l : list N)
| OFold (log : list (N * flow))
| OFoldPanic
| OPrune (log : list (N * list N * flow)) (d : dump)
| OFuel.                       (* the model ran out of fuel: never matches *)

Definition brk_flow (brk : list N) (k : N) : flow := if memN k brk then Break else Continue.

Definition run (c : case) : obs :=
  match c with
  | CDump ops => match build ops with Some g => ODump (dump_of g) | None => OFuel end
  | CSorted ops o =>
      match obind (build ops) (dag_sorted_by (keycmp o)) with Some l => OOrder l | None => OFuel end
  | CFold ops rts brk =>
      match build ops with
      | Some g =>
          match dag_fold_log g rts tt (fun _ k _ => (brk_flow brk k, tt)) with
          | Done r => OFold (snd r)
          | Panicked => OFoldPanic
          | OutOfFuel => OFuel
          end
      | None => OFuel
      end
  | CPrune ops rts brk o =>
      match obind (build ops) (fun g =>
              dag_prune_by_log g rts tt (fun _ k _ _ => (brk_flow brk k, tt)) (paircmp o)) with
      | Some r => OPrune (snd r) (dump_of (snd (fst r)))
      | None => OFuel
      end
  | CMerge a b =>
      match build a, build b with
      | Some ga, Some gb => ODump (dump_of (dag_merge ga gb))
      | _, _ => OFuel
      end
  end.

Definition listN_eqb := list_eqb N.eqb.
Definition dump_eqb (a b : dump) : bool :=
  prod_eqb (prod_eqb (list_eqb (prod_eqb N.eqb (prod_eqb N.eqb (prod_eqb listN_eqb listN_eqb))))
                     (prod_eqb listN_eqb listN_eqb))
           (prod_eqb listN_eqb listN_eqb) a b.

Definition obs_eqb (x y : obs) : bool :=
  match x, y with
  | ODump a, ODump b => dump_eqb a b
  | OOrder a, OOrder b => listN_eqb a b
  | OFold a, OFold b => list_eqb (prod_eqb N.eqb flow_eqb) a b
  | OFoldPanic, OFoldPanic => true
  | OPrune la da, OPrune lb db =>
      list_eqb (prod_eqb (prod_eqb N.eqb listN_eqb) flow_eqb) la lb && dump_eqb da db
  | _, _ => false
  end.

Definition check_case (ce : case * obs) : bool := obs_eqb (run (fst ce)) (snd ce).
