(* Stores.v — executable model of the node's SQLite-backed stores (no proofs here).
   covers: radicle/src/node/routing.rs::{add_inventory, remove_inventory, remove_inventories,
             prune, entry, len, count},
           radicle/src/node/seed/store.rs::synced,
           radicle/src/node/refs/store.rs::{set, get, delete, count},
           radicle/src/node/policy/store.rs::{follow, seed, set_follow_policy, set_seed_policy,
             unfollow, unseed, unblock_rid, unblock_nid, follow_policy, seed_policy},
           radicle-node/src/service/gossip/store.rs::{announced, set_relay, relays, prune, last, filtered},
           radicle/src/node/address/store.rs::{insert (nodes row only), remove}  (the FOREIGN KEY target
             of routing.node / repo-sync-status.node, ON DELETE CASCADE; PRAGMA foreign_keys = ON),
           radicle/src/node/timestamp.rs (bind of a Timestamp > i64::MAX is an sql error),
           schema: radicle/src/node/db/migrations/{1,3,5}.sql, radicle/src/node/policy/schema.sql.
   sites:  gossip::Store::announced assert_ne!(timestamp, MIN);
           LocalTime::as_millis (u128 -> u64 unwrap) reached from refs::Store::set.

   A table is the list of its rows in *rowid order*.  SQLite gives a new row the
   rowid max(rowid)+1, so a new row is always appended and ON CONFLICT DO UPDATE
   keeps the row in place; the list order is therefore exactly `ORDER BY rowid`
   (the harness dumps the real tables that way).  Every statement is a function
   returning the new state and the Rust method's return value. *)
From HW Require Import lib.Base.
Local Open Scope N_scope.

Definition I64_MAX : N := 9223372036854775807.
Definition U64_LIM : N := 18446744073709551616.

(* ------------------------------------------------------------------ tables *)

Definition table (K V : Type) := list (K * V).

Section Table.
  Context {K V : Type}.
  Variable keqb : K -> K -> bool.

  Fixpoint tget (k : K) (t : table K V) : option V :=
    match t with
    | [] => None
    | (k', v) :: t' => if keqb k k' then Some v else tget k t'
    end.

  (* UPDATE in place when the key exists, otherwise INSERT at the end *)
  Fixpoint tset (k : K) (v : V) (t : table K V) : table K V :=
    match t with
    | [] => [(k, v)]
    | (k', v') :: t' => if keqb k k' then (k', v) :: t' else (k', v') :: tset k v t'
    end.

  Definition tdel (k : K) (t : table K V) : table K V :=
    filter (fun kv => negb (keqb k (fst kv))) t.

  Definition tmem (k : K) (t : table K V) : bool :=
    match tget k t with Some _ => true | None => false end.
End Table.

Definition k2 := (N * N)%type.
Definition k3 := (N * N * N)%type.
Definition k2_eqb (a b : k2) : bool := N.eqb (fst a) (fst b) && N.eqb (snd a) (snd b).
Definition k3_eqb (a b : k3) : bool :=
  N.eqb (fst (fst a)) (fst (fst b)) && N.eqb (snd (fst a)) (snd (fst b)) && N.eqb (snd a) (snd b).

Definition lenN {A} (l : list A) : N := N.of_nat (length l).

Fixpoint firstnN {A} (n : N) (l : list A) : list A :=
  match l with
  | [] => []
  | x :: l' => if N.eqb n 0 then [] else x :: firstnN (N.pred n) l'
  end.

(* stable insertion sort (ties keep list order) *)
Fixpoint ins_by {A} (le : A -> A -> bool) (x : A) (l : list A) : list A :=
  match l with
  | [] => [x]
  | y :: l' => if le x y then x :: l else y :: ins_by le x l'
  end.
Definition sort_by {A} (le : A -> A -> bool) (l : list A) : list A := fold_right (ins_by le) [] l.

(* ------------------------------------------------------------------ rows *)

Inductive policy := Allow | Block.
Inductive scope := Followed | All.
Definition policy_eqb (a b : policy) : bool :=
  match a, b with Allow, Allow | Block, Block => true | _, _ => false end.
Definition scope_eqb (a b : scope) : bool :=
  match a, b with Followed, Followed | All, All => true | _, _ => false end.

(* announcements.relay: NULL = relay, -1 = don't relay, t >= 0 = relayed at t *)
Inductive relay := Relay | DontRelay | RelayedAt (t : N).
Definition relay_eqb (a b : relay) : bool :=
  match a, b with
  | Relay, Relay | DontRelay, DontRelay => true
  | RelayedAt x, RelayedAt y => N.eqb x y
  | _, _ => false
  end.

(* announcement kinds; the `type` column is text: "inventory" < "node" < "refs" *)
Inductive akind := AInv | ANode | ARefs (rid : N).
Definition akind_type (k : akind) : N := match k with AInv => 0 | ANode => 1 | ARefs _ => 2 end.
(* the `repo` column is '' (modelled as 0) unless the announcement is a refs announcement *)
Definition akind_repo (k : akind) : N := match k with ARefs r => r | _ => 0 end.
(* unique ("node", "repo", "type") *)
Definition gkey (nid : N) (k : akind) : k3 := (nid, akind_repo k, akind_type k).

Record grow := { g_id : N; g_msg : N; g_sig : N; g_ts : N; g_relay : relay }.
Definition grow_eqb (a b : grow) : bool :=
  N.eqb (g_id a) (g_id b) && N.eqb (g_msg a) (g_msg b) && N.eqb (g_sig a) (g_sig b) &&
  N.eqb (g_ts a) (g_ts b) && relay_eqb (g_relay a) (g_relay b).

Record state := {
  nodes : table N N;                    (* nodes: id -> timestamp *)
  routing : table k2 N;                 (* routing: (repo, node) -> timestamp *)
  sync : table k2 (N * N);              (* repo-sync-status: (repo, node) -> (head, timestamp) *)
  refs : table k3 (N * N);              (* refs: (repo, namespace, ref) -> (oid, timestamp) *)
  following : table N (N * policy);     (* following: id -> (alias ('' = 0), policy) *)
  seeding : table N (scope * policy);   (* seeding: id -> (scope, policy) *)
  gossip : table k3 grow                (* announcements: (node, repo, type) -> row *)
}.

Definition empty : state :=
  {| nodes := []; routing := []; sync := []; refs := []; following := []; seeding := []; gossip := [] |}.

Definition set_nodes (s : state) x :=
  {| nodes := x; routing := routing s; sync := sync s; refs := refs s;
     following := following s; seeding := seeding s; gossip := gossip s |}.
Definition set_routing (s : state) x :=
  {| nodes := nodes s; routing := x; sync := sync s; refs := refs s;
     following := following s; seeding := seeding s; gossip := gossip s |}.
Definition set_sync (s : state) x :=
  {| nodes := nodes s; routing := routing s; sync := x; refs := refs s;
     following := following s; seeding := seeding s; gossip := gossip s |}.
Definition set_refs (s : state) x :=
  {| nodes := nodes s; routing := routing s; sync := sync s; refs := x;
     following := following s; seeding := seeding s; gossip := gossip s |}.
Definition set_following (s : state) x :=
  {| nodes := nodes s; routing := routing s; sync := sync s; refs := refs s;
     following := x; seeding := seeding s; gossip := gossip s |}.
Definition set_seeding (s : state) x :=
  {| nodes := nodes s; routing := routing s; sync := sync s; refs := refs s;
     following := following s; seeding := x; gossip := gossip s |}.
Definition set_gossip (s : state) x :=
  {| nodes := nodes s; routing := routing s; sync := sync s; refs := refs s;
     following := following s; seeding := seeding s; gossip := x |}.

(* ------------------------------------------------------------------ results *)

Inductive err :=
| EBind         (* binding a Timestamp > i64::MAX: sql::Error without code *)
| EFk           (* FOREIGN KEY constraint failed (node not in `nodes`) *)
| EOverflow     (* routing::Error::UnitOverflow *)
| ETimestamp    (* refs::Error::Timestamp (TryFromIntError) *)
| EOther.       (* any other error: never produced by the model *)
Inductive psite :=
| PAnnouncedZero     (* gossip announced: assert_ne!(timestamp, Timestamp::MIN) *)
| PLocalTimeMillis   (* LocalTime::as_millis: u128 -> u64 try_into().unwrap() *)
| POther.            (* any other panic: never produced by the model *)

Inductive insres := NotUpdated | TimeUpdated | SeedAdded.

Inductive seedpol := SAllow (s : scope) | SBlock.

Inductive ret :=
| RUnit
| RBool (b : bool)
| RNum (n : N)
| RIns (l : list (N * insres))
| ROptN (o : option N)
| ROptRef (o : option (N * N))
| ROptFollow (o : option (N * policy))
| ROptSeed (o : option seedpol)
| RRows (l : list (N * k3 * N * N * N))     (* (rowid, key, msg, sig, ts) *)
| RErr (e : err)
| RPanic (p : psite).

(* ------------------------------------------------------------------ nodes *)

(* address::Store::insert with no addresses:
   INSERT INTO nodes .. ON CONFLICT DO UPDATE SET .. timestamp = ?7 WHERE timestamp < ?7;
   returns change_count() > 0 *)
Definition n_insert (s : state) (nid ts : N) : state * ret :=
  if N.ltb I64_MAX ts then (s, RErr EBind)
  else match tget N.eqb nid (nodes s) with
       | Some t => if N.ltb t ts then (set_nodes s (tset N.eqb nid ts (nodes s)), RBool true)
                   else (s, RBool false)
       | None => (set_nodes s (tset N.eqb nid ts (nodes s)), RBool true)
       end.

(* DELETE FROM nodes WHERE id = ?1, cascading to routing and repo-sync-status *)
Definition n_remove (s : state) (nid : N) : state * ret :=
  let existed := tmem N.eqb nid (nodes s) in
  let s1 := set_nodes s (tdel N.eqb nid (nodes s)) in
  let s2 := set_routing s1 (filter (fun r => negb (N.eqb (snd (fst r)) nid)) (routing s1)) in
  let s3 := set_sync s2 (filter (fun r => negb (N.eqb (snd (fst r)) nid)) (sync s2)) in
  (if existed then s3 else s, RBool existed).

(* ------------------------------------------------------------------ routing *)

(* one iteration of the loop in add_inventory; None = the statement failed *)
Definition r_add_one (nds : table N N) (rt : table k2 N) (rid nid time : N)
  : option (table k2 N * insres) :=
  let existed := tmem k2_eqb (rid, nid) rt in
  if N.ltb I64_MAX time then None                     (* insert_stmt.bind((3, &time))? *)
  else
    let upd : option (table k2 N * bool) :=            (* (table, change_count() > 0) *)
      match tget k2_eqb (rid, nid) rt with
      | Some t => if N.ltb t time then Some (tset k2_eqb (rid, nid) time rt, true)
                  else Some (rt, false)
      | None => if tmem N.eqb nid nds then Some (tset k2_eqb (rid, nid) time rt, true)
                else None                              (* FOREIGN KEY constraint failed *)
      end in
    match upd with
    | None => None
    | Some (rt', changed) =>
        Some (rt', match changed, existed with
                   | true, true => TimeUpdated
                   | true, false => SeedAdded
                   | false, _ => NotUpdated
                   end)
    end.

Definition r_add_err (nds : table N N) (rt : table k2 N) (rid nid time : N) : err :=
  if N.ltb I64_MAX time then EBind else EFk.

Fixpoint r_add_loop (nds : table N N) (rt : table k2 N) (rids : list N) (nid time : N)
  (acc : list (N * insres)) : table k2 N * list (N * insres) + err :=
  match rids with
  | [] => inl (rt, rev acc)
  | rid :: rest =>
      match r_add_one nds rt rid nid time with
      | None => inr (r_add_err nds rt rid nid time)
      | Some (rt', r) => r_add_loop nds rt' rest nid time ((rid, r) :: acc)
      end
  end.

(* transaction: commit on success, roll back on error *)
Definition r_add (s : state) (rids : list N) (nid time : N) : state * ret :=
  match r_add_loop (nodes s) (routing s) rids nid time [] with
  | inl (rt', res) => (set_routing s rt', RIns res)
  | inr e => (s, RErr e)
  end.

Definition r_remove (s : state) (rid nid : N) : state * ret :=
  (set_routing s (tdel k2_eqb (rid, nid) (routing s)), RBool (tmem k2_eqb (rid, nid) (routing s))).

Definition r_remove_many (s : state) (rids : list N) (nid : N) : state * ret :=
  (set_routing s (fold_left (fun rt rid => tdel k2_eqb (rid, nid) rt) rids (routing s)), RUnit).

(* SELECT rowid FROM routing WHERE timestamp < ?2 ORDER BY timestamp LIMIT ?3
   (ties in `timestamp` are resolved in rowid order: SQLite's sorter is not
   specified to do so; the harness compares exactly only when the LIMIT does not
   cut through a group of equal timestamps) *)
Definition r_prune_selected (rt : table k2 N) (oldest limit : N) : list (k2 * N) :=
  firstnN limit (sort_by (fun a b => N.leb (snd a) (snd b))
                         (filter (fun r => N.ltb (snd r) oldest) rt)).

Definition r_prune_keep (sel : list (k2 * N)) (ignore : N) (r : k2 * N) : bool :=
  negb (negb (N.eqb (snd (fst r)) ignore) && tmem k2_eqb (fst r) sel).

(* DELETE FROM routing WHERE node <> ?1 AND rowid IN (SELECT ...) *)
Definition r_prune (s : state) (oldest : N) (limit : option N) (ignore : N) : state * ret :=
  let lim := match limit with Some l => l | None => I64_MAX end in
  if N.ltb I64_MAX lim then (s, RErr EOverflow)
  else if N.ltb I64_MAX oldest then (s, RErr EBind)
  else
    let sel := r_prune_selected (routing s) oldest lim in
    let rt' := filter (r_prune_keep sel ignore) (routing s) in
    (set_routing s rt', RNum (lenN (routing s) - lenN rt')).

Definition r_entry (s : state) (rid nid : N) : state * ret :=
  (s, ROptN (tget k2_eqb (rid, nid) (routing s))).
Definition r_len (s : state) : state * ret := (s, RNum (lenN (routing s))).
Definition r_count (s : state) (rid : N) : state * ret :=
  (s, RNum (lenN (filter (fun r => N.eqb (fst (fst r)) rid) (routing s)))).

(* ------------------------------------------------------------------ repo-sync-status *)

(* INSERT .. ON CONFLICT DO UPDATE SET head = ?3, timestamp = ?4 WHERE timestamp < ?4 AND head <> ?3 *)
Definition s_synced (s : state) (rid nid head ts : N) : state * ret :=
  if N.ltb I64_MAX ts then (s, RErr EBind)
  else match tget k2_eqb (rid, nid) (sync s) with
       | Some (h, t) =>
           if N.ltb t ts && negb (N.eqb h head)
           then (set_sync s (tset k2_eqb (rid, nid) (head, ts) (sync s)), RBool true)
           else (s, RBool false)
       | None =>
           if tmem N.eqb nid (nodes s)
           then (set_sync s (tset k2_eqb (rid, nid) (head, ts) (sync s)), RBool true)
           else (s, RErr EFk)
       end.

(* ------------------------------------------------------------------ refs cache *)

(* INSERT .. ON CONFLICT DO UPDATE SET oid = ?4, timestamp = ?5 WHERE timestamp < ?5 AND oid <> ?4 *)
Definition f_set (s : state) (repo ns rf oid ts : N) : state * ret :=
  if N.leb U64_LIM ts then (s, RPanic PLocalTimeMillis)
  else if N.ltb I64_MAX ts then (s, RErr ETimestamp)
  else match tget k3_eqb (repo, ns, rf) (refs s) with
       | Some (o, t) =>
           if N.ltb t ts && negb (N.eqb o oid)
           then (set_refs s (tset k3_eqb (repo, ns, rf) (oid, ts) (refs s)), RBool true)
           else (s, RBool false)
       | None => (set_refs s (tset k3_eqb (repo, ns, rf) (oid, ts) (refs s)), RBool true)
       end.

Definition f_get (s : state) (repo ns rf : N) : state * ret :=
  (s, ROptRef (tget k3_eqb (repo, ns, rf) (refs s))).
Definition f_delete (s : state) (repo ns rf : N) : state * ret :=
  (set_refs s (tdel k3_eqb (repo, ns, rf) (refs s)), RBool (tmem k3_eqb (repo, ns, rf) (refs s))).
Definition f_count (s : state) : state * ret := (s, RNum (lenN (refs s))).

(* ------------------------------------------------------------------ policies *)

(* INSERT INTO following (id, alias) .. ON CONFLICT DO UPDATE SET alias = ?2 WHERE alias != ?2
   (a fresh row gets the column default policy = 'allow') *)
Definition p_follow (s : state) (id alias : N) : state * ret :=
  match tget N.eqb id (following s) with
  | Some (a, p) =>
      if negb (N.eqb a alias)
      then (set_following s (tset N.eqb id (alias, p) (following s)), RBool true)
      else (s, RBool false)
  | None => (set_following s (tset N.eqb id (alias, Allow) (following s)), RBool true)
  end.

(* INSERT INTO following (id, policy) .. SET policy = ?2 WHERE policy != ?2  (fresh row: alias = '') *)
Definition p_set_follow (s : state) (id : N) (p : policy) : state * ret :=
  match tget N.eqb id (following s) with
  | Some (a, p0) =>
      if negb (policy_eqb p0 p)
      then (set_following s (tset N.eqb id (a, p) (following s)), RBool true)
      else (s, RBool false)
  | None => (set_following s (tset N.eqb id (0, p) (following s)), RBool true)
  end.

(* INSERT INTO seeding (id, scope) .. SET scope = ?2 WHERE scope != ?2  (fresh row: policy = 'allow') *)
Definition p_seed (s : state) (id : N) (sc : scope) : state * ret :=
  match tget N.eqb id (seeding s) with
  | Some (sc0, p) =>
      if negb (scope_eqb sc0 sc)
      then (set_seeding s (tset N.eqb id (sc, p) (seeding s)), RBool true)
      else (s, RBool false)
  | None => (set_seeding s (tset N.eqb id (sc, Allow) (seeding s)), RBool true)
  end.

(* INSERT INTO seeding (id, policy) .. SET policy = ?2 WHERE policy != ?2  (fresh row: scope = 'followed') *)
Definition p_set_seed (s : state) (id : N) (p : policy) : state * ret :=
  match tget N.eqb id (seeding s) with
  | Some (sc, p0) =>
      if negb (policy_eqb p0 p)
      then (set_seeding s (tset N.eqb id (sc, p) (seeding s)), RBool true)
      else (s, RBool false)
  | None => (set_seeding s (tset N.eqb id (Followed, p) (seeding s)), RBool true)
  end.

Definition p_unfollow (s : state) (id : N) : state * ret :=
  (set_following s (tdel N.eqb id (following s)), RBool (tmem N.eqb id (following s))).
Definition p_unseed (s : state) (id : N) : state * ret :=
  (set_seeding s (tdel N.eqb id (seeding s)), RBool (tmem N.eqb id (seeding s))).

(* DELETE FROM seeding WHERE id = ? AND policy = 'block' *)
Definition p_unblock_rid (s : state) (id : N) : state * ret :=
  match tget N.eqb id (seeding s) with
  | Some (_, Block) => (set_seeding s (tdel N.eqb id (seeding s)), RBool true)
  | _ => (s, RBool false)
  end.
Definition p_unblock_nid (s : state) (id : N) : state * ret :=
  match tget N.eqb id (following s) with
  | Some (_, Block) => (set_following s (tdel N.eqb id (following s)), RBool true)
  | _ => (s, RBool false)
  end.

Definition p_follow_policy (s : state) (id : N) : state * ret :=
  (s, ROptFollow (tget N.eqb id (following s))).
(* seed_policy: the scope is only read when the policy is 'allow' *)
Definition p_seed_policy (s : state) (id : N) : state * ret :=
  (s, ROptSeed (match tget N.eqb id (seeding s) with
                | Some (sc, Allow) => Some (SAllow sc)
                | Some (_, Block) => Some SBlock
                | None => None
                end)).

(* ------------------------------------------------------------------ gossip *)

(* rowid of a fresh row: one more than the largest rowid in use (1 if empty) *)
Definition g_next_id (g : table k3 grow) : N :=
  N.succ (fold_left (fun m r => N.max m (g_id (snd r))) g 0).

(* INSERT .. ON CONFLICT DO UPDATE SET message = ?4, signature = ?5, timestamp = ?6
   WHERE timestamp < ?6 RETURNING rowid   (fresh row: relay = -1) *)
Definition g_announced (s : state) (nid : N) (k : akind) (msg sg ts : N) : state * ret :=
  if N.eqb ts 0 then (s, RPanic PAnnouncedZero)
  else if N.ltb I64_MAX ts then (s, RErr EBind)
  else
    let key := gkey nid k in
    match tget k3_eqb key (gossip s) with
    | Some r =>
        if N.ltb (g_ts r) ts
        then (set_gossip s (tset k3_eqb key
                {| g_id := g_id r; g_msg := msg; g_sig := sg; g_ts := ts; g_relay := g_relay r |}
                (gossip s)), ROptN (Some (g_id r)))
        else (s, ROptN None)
    | None =>
        let id := g_next_id (gossip s) in
        (set_gossip s (tset k3_eqb key
            {| g_id := id; g_msg := msg; g_sig := sg; g_ts := ts; g_relay := DontRelay |}
            (gossip s)), ROptN (Some id))
    end.

Definition g_with_relay (r : grow) (x : relay) : grow :=
  {| g_id := g_id r; g_msg := g_msg r; g_sig := g_sig r; g_ts := g_ts r; g_relay := x |}.

Definition relay_bindable (r : relay) : bool :=
  match r with RelayedAt t => N.leb t I64_MAX | _ => true end.

(* UPDATE announcements SET relay = ?1 WHERE rowid = ?2 *)
Definition g_set_relay (s : state) (id : N) (x : relay) : state * ret :=
  if negb (relay_bindable x) then (s, RErr EBind)
  else (set_gossip s (map (fun kr => if N.eqb (g_id (snd kr)) id
                                     then (fst kr, g_with_relay (snd kr) x) else kr) (gossip s)),
        RUnit).

Definition g_obs_row (kr : k3 * grow) : N * k3 * N * N * N :=
  (g_id (snd kr), fst kr, g_msg (snd kr), g_sig (snd kr), g_ts (snd kr)).

(* UPDATE announcements SET relay = ?1 WHERE relay IS NULL RETURNING ..; sorted by rowid *)
Definition g_relays (s : state) (now : N) : state * ret :=
  if N.ltb I64_MAX now then (s, RErr EBind)
  else
    let due := filter (fun kr => relay_eqb (g_relay (snd kr)) Relay) (gossip s) in
    (set_gossip s (map (fun kr => if relay_eqb (g_relay (snd kr)) Relay
                                  then (fst kr, g_with_relay (snd kr) (RelayedAt now)) else kr)
                       (gossip s)),
     RRows (map g_obs_row due)).

(* DELETE FROM announcements WHERE timestamp < ?1 *)
Definition g_prune (s : state) (cutoff : N) : state * ret :=
  if N.ltb I64_MAX cutoff then (s, RErr EBind)
  else
    let g' := filter (fun kr => negb (N.ltb (g_ts (snd kr)) cutoff)) (gossip s) in
    (set_gossip s g', RNum (lenN (gossip s) - lenN g')).

(* SELECT MAX(timestamp) *)
Definition g_last (s : state) : state * ret :=
  (s, ROptN (match gossip s with
             | [] => None
             | _ => Some (fold_left (fun m kr => N.max m (g_ts (snd kr))) (gossip s) 0)
             end)).

(* ORDER BY timestamp, node, type; rows equal on all three (refs announcements of
   one node for different repositories with the same timestamp) come in an
   unspecified order: the model (and the harness, on what it observed) orders
   them by repo *)
Definition g_row_le (a b : k3 * grow) : bool :=
  let ka := fst a in let kb := fst b in
  let ta := g_ts (snd a) in let tb := g_ts (snd b) in
  if N.ltb ta tb then true else if N.ltb tb ta then false
  else if N.ltb (fst (fst ka)) (fst (fst kb)) then true else if N.ltb (fst (fst kb)) (fst (fst ka)) then false
  else if N.ltb (snd ka) (snd kb) then true else if N.ltb (snd kb) (snd ka) then false
  else N.leb (snd (fst ka)) (snd (fst kb)).

(* `let to = if *from <= *to { to } else { from };` — an inverted range matches
   nothing (was an assert! before fix 8ad4496); then both bounds are bound *)
Definition g_filtered (s : state) (from to : N) : state * ret :=
  let to' := if N.leb from to then to else from in
  if N.ltb I64_MAX from || N.ltb I64_MAX to' then (s, RErr EBind)
  else
    (s, RRows (map g_obs_row
         (sort_by g_row_le
            (filter (fun kr => N.leb from (g_ts (snd kr)) && N.ltb (g_ts (snd kr)) to') (gossip s))))).

(* ------------------------------------------------------------------ operations *)

Inductive op :=
| NInsert (nid ts : N)
| NRemove (nid : N)
| RAdd (rids : list N) (nid time : N)
| RRemove (rid nid : N)
| RRemoveMany (rids : list N) (nid : N)
| RPrune (oldest : N) (limit : option N) (ignore : N)
| REntry (rid nid : N)
| RLen
| RCount (rid : N)
| SSynced (rid nid head ts : N)
| FSet (repo ns rf oid ts : N)
| FGet (repo ns rf : N)
| FDelete (repo ns rf : N)
| FCount
| PFollow (id alias : N)
| PSetFollow (id : N) (p : policy)
| PSeed (id : N) (sc : scope)
| PSetSeed (id : N) (p : policy)
| PUnfollow (id : N)
| PUnseed (id : N)
| PUnblockRid (id : N)
| PUnblockNid (id : N)
| PFollowPolicy (id : N)
| PSeedPolicy (id : N)
| GAnnounced (nid : N) (k : akind) (msg sg ts : N)
| GSetRelay (id : N) (x : relay)
| GRelays (now : N)
| GPrune (cutoff : N)
| GLast
| GFiltered (from to : N).

Definition step (s : state) (o : op) : state * ret :=
  match o with
  | NInsert nid ts => n_insert s nid ts
  | NRemove nid => n_remove s nid
  | RAdd rids nid time => r_add s rids nid time
  | RRemove rid nid => r_remove s rid nid
  | RRemoveMany rids nid => r_remove_many s rids nid
  | RPrune oldest limit ignore => r_prune s oldest limit ignore
  | REntry rid nid => r_entry s rid nid
  | RLen => r_len s
  | RCount rid => r_count s rid
  | SSynced rid nid head ts => s_synced s rid nid head ts
  | FSet repo ns rf oid ts => f_set s repo ns rf oid ts
  | FGet repo ns rf => f_get s repo ns rf
  | FDelete repo ns rf => f_delete s repo ns rf
  | FCount => f_count s
  | PFollow id alias => p_follow s id alias
  | PSetFollow id p => p_set_follow s id p
  | PSeed id sc => p_seed s id sc
  | PSetSeed id p => p_set_seed s id p
  | PUnfollow id => p_unfollow s id
  | PUnseed id => p_unseed s id
  | PUnblockRid id => p_unblock_rid s id
  | PUnblockNid id => p_unblock_nid s id
  | PFollowPolicy id => p_follow_policy s id
  | PSeedPolicy id => p_seed_policy s id
  | GAnnounced nid k msg sg ts => g_announced s nid k msg sg ts
  | GSetRelay id x => g_set_relay s id x
  | GRelays now => g_relays s now
  | GPrune cutoff => g_prune s cutoff
  | GLast => g_last s
  | GFiltered from to => g_filtered s from to
  end.

(* run a sequence: final state and the return values in order *)
Fixpoint run_ops (s : state) (ops : list op) : state * list ret :=
  match ops with
  | [] => (s, [])
  | o :: rest =>
      let (s1, r) := step s o in
      let (s2, rs) := run_ops s1 rest in
      (s2, r :: rs)
  end.

Definition exec (s : state) (ops : list op) : state := fst (run_ops s ops).

(* ------------------------------------------------------------------ correspondence *)

(* a case is an operation sequence applied to freshly created (empty) databases *)
Definition case := list op.
(* observation: every return value and the final dump of all tables in rowid order *)
Record obs := { o_rets : list ret; o_final : state }.

Definition run (c : case) : obs :=
  let (s, rs) := run_ops empty c in {| o_rets := rs; o_final := s |}.

Definition err_eqb (a b : err) : bool :=
  match a, b with
  | EBind, EBind | EFk, EFk | EOverflow, EOverflow | ETimestamp, ETimestamp | EOther, EOther => true
  | _, _ => false
  end.
Definition psite_eqb (a b : psite) : bool :=
  match a, b with
  | PAnnouncedZero, PAnnouncedZero
  | PLocalTimeMillis, PLocalTimeMillis | POther, POther => true
  | _, _ => false
  end.
Definition insres_eqb (a b : insres) : bool :=
  match a, b with
  | NotUpdated, NotUpdated | TimeUpdated, TimeUpdated | SeedAdded, SeedAdded => true
  | _, _ => false
  end.
Definition seedpol_eqb (a b : seedpol) : bool :=
  match a, b with
  | SAllow x, SAllow y => scope_eqb x y
  | SBlock, SBlock => true
  | _, _ => false
  end.
Definition nn_eqb : N * N -> N * N -> bool := prod_eqb N.eqb N.eqb.
Definition row_eqb : N * k3 * N * N * N -> N * k3 * N * N * N -> bool :=
  prod_eqb (prod_eqb (prod_eqb (prod_eqb N.eqb k3_eqb) N.eqb) N.eqb) N.eqb.

Definition ret_eqb (a b : ret) : bool :=
  match a, b with
  | RUnit, RUnit => true
  | RBool x, RBool y => Bool.eqb x y
  | RNum x, RNum y => N.eqb x y
  | RIns x, RIns y => list_eqb (prod_eqb N.eqb insres_eqb) x y
  | ROptN x, ROptN y => option_eqb N.eqb x y
  | ROptRef x, ROptRef y => option_eqb nn_eqb x y
  | ROptFollow x, ROptFollow y => option_eqb (prod_eqb N.eqb policy_eqb) x y
  | ROptSeed x, ROptSeed y => option_eqb seedpol_eqb x y
  | RRows x, RRows y => list_eqb row_eqb x y
  | RErr x, RErr y => err_eqb x y
  | RPanic x, RPanic y => psite_eqb x y
  | _, _ => false
  end.

Definition state_eqb (a b : state) : bool :=
  list_eqb (prod_eqb N.eqb N.eqb) (nodes a) (nodes b) &&
  list_eqb (prod_eqb k2_eqb N.eqb) (routing a) (routing b) &&
  list_eqb (prod_eqb k2_eqb nn_eqb) (sync a) (sync b) &&
  list_eqb (prod_eqb k3_eqb nn_eqb) (refs a) (refs b) &&
  list_eqb (prod_eqb N.eqb (prod_eqb N.eqb policy_eqb)) (following a) (following b) &&
  list_eqb (prod_eqb N.eqb (prod_eqb scope_eqb policy_eqb)) (seeding a) (seeding b) &&
  list_eqb (prod_eqb k3_eqb grow_eqb) (gossip a) (gossip b).

Definition obs_eqb (x y : obs) : bool :=
  list_eqb ret_eqb (o_rets x) (o_rets y) && state_eqb (o_final x) (o_final y).

Definition check_case (ce : case * obs) : bool := obs_eqb (run (fst ce)) (snd ce).
