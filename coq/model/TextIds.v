(* TextIds.v — executable model of the textual identifier codecs (C21).
   covers: crates/radicle-crypto/src/lib.rs::PublicKey::{to_human, from_str, Display},
           crates/radicle/src/identity/did.rs::Did::{encode, decode, from_str, Display},
           crates/radicle/src/identity/doc/id.rs::RepoId::{urn, from_urn, canonical, from_canonical, from_str, Display},
           crates/radicle/src/node.rs::{Alias::from_str, Alias Display, From<&NodeId> for Alias,
                                        From<&Alias> for [u8;32], UserAgent::from_str, UserAgent Display},
           (external crates, re-implemented) multibase-0.9.1::{encode, decode}, base-x-0.2.11::{encode, decode}
   sites: to_human buf[..2]/buf[2..].copy_from_slice (length-checked copies),
          multibase::decode &input[code.len_utf8()..] (str slice: range + char boundary),
          From<&Alias> for [u8;32] alias[..input.len()].copy_from_slice

   Every way of constructing an Alias / UserAgent from text goes through from_str
   (FromStr, TryFrom<String>, serde try_from = "String", sqlite, wire Decode);
   for UserAgent the serde path only since the fix recorded for C21 (it used to
   derive Deserialize on the inner String, accepting any text).

   Text is a list of Unicode scalar values (N); byte strings are lists of N < 256.
   str::len() is the sum of len_utf8; s.bytes() is utf8_encode.  No proofs here. *)
From HW Require Import lib.Base.
Local Open Scope N_scope.

(* ---------------------------------------------------------------- results *)

Inductive terr :=
| EInvalidBaseString   (* multibase::Error::InvalidBaseString (empty text or undecodable payload) *)
| EUnknownBase         (* multibase::Error::UnknownBase *)
| EMulticodec          (* PublicKeyError::Multicodec *)
| EKeyLen              (* PublicKeyError::InvalidKey (ed25519 from_slice: length <> 32) *)
| EOidLen              (* IdError::InvalidOid (git2 Oid::from_bytes: length <> 20) *)
| EDid                 (* DidError::Did (missing did:key: prefix) *)
| EAliasEmpty | EAliasChar | EAliasLen   (* AliasError::{Empty, InvalidCharacter, MaxBytesExceeded} *)
| EAgent.              (* UserAgent::from_str Err(input) *)

Inductive res (A : Type) :=
| Ok (a : A)
| Err (e : terr)
| Panic (site : N).
Arguments Ok {A} a.
Arguments Err {A} e.
Arguments Panic {A} site.

Definition bind {A B} (r : res A) (f : A -> res B) : res B :=
  match r with Ok a => f a | Err e => Err e | Panic s => Panic s end.

(* panic sites *)
Definition SITE_COPY_LEN := 1.        (* copy_from_slice: source/destination length differ *)
Definition SITE_STR_RANGE := 2.       (* str slice start beyond the end *)
Definition SITE_STR_BOUNDARY := 3.    (* str slice start inside a multi-byte char *)
Definition SITE_SLICE_RANGE := 4.     (* alias[..n] with n > 32 *)

(* ---------------------------------------------------------------- UTF-8 *)

Definition len_utf8 (c : N) : N :=
  if c <? 128 then 1 else if c <? 2048 then 2 else if c <? 65536 then 3 else 4.

Definition utf8_char (c : N) : list N :=
  if c <? 128 then [c]
  else if c <? 2048 then [192 + c / 64; 128 + c mod 64]
  else if c <? 65536 then [224 + c / 4096; 128 + (c / 64) mod 64; 128 + c mod 64]
  else [240 + c / 262144; 128 + (c / 4096) mod 64; 128 + (c / 64) mod 64; 128 + c mod 64].

Definition utf8_encode (s : list N) : list N := flat_map utf8_char s.

(* str::len() *)
Fixpoint str_len (s : list N) : N :=
  match s with [] => 0 | c :: s' => len_utf8 c + str_len s' end.

(* &s[off..] : panics when off is past the end or not on a char boundary *)
Fixpoint str_slice_from (s : list N) (off : N) : res (list N) :=
  if off =? 0 then Ok s else
  match s with
  | [] => Panic SITE_STR_RANGE
  | c :: s' => if len_utf8 c <=? off then str_slice_from s' (off - len_utf8 c)
               else Panic SITE_STR_BOUNDARY
  end.

(* dst.copy_from_slice(src) where dst has dst_len elements *)
Definition copy_from_slice (dst_len : N) (src : list N) : res (list N) :=
  if N.of_nat (length src) =? dst_len then Ok src else Panic SITE_COPY_LEN.

Fixpoint strip_prefix (p s : list N) : option (list N) :=
  match p, s with
  | [], _ => Some s
  | a :: p', b :: s' => if a =? b then strip_prefix p' s' else None
  | _ :: _, [] => None
  end.

(* ---------------------------------------------------------------- positional digits *)

Definition of_digits (b : N) (ds : list N) : N := fold_left (fun a d => a * b + d) ds 0.

Fixpoint to_digits_fuel (fuel : nat) (b n : N) (acc : list N) : list N :=
  match fuel with
  | O => acc
  | S f => if n =? 0 then acc else to_digits_fuel f b (n / b) (n mod b :: acc)
  end.

(* big-endian digits of n in base b, no leading zero, [] for 0.  The fuel
   (bit length of n) is proved sufficient in TextIdsProofs.to_digits_step. *)
Definition to_digits (b n : N) : list N := to_digits_fuel (N.to_nat (N.size n)) b n [].

Fixpoint count_leading (x : N) (l : list N) : nat :=
  match l with
  | y :: l' => if y =? x then S (count_leading x l') else O
  | [] => O
  end.

(* ---------------------------------------------------------------- base-x (crate base-x 0.2.11) *)

Definition alpha_at (al : list N) (d : N) : N := nth (N.to_nat d) al 0.

Fixpoint index_of (c : N) (al : list N) : option N :=
  match al with
  | [] => None
  | a :: al' => if a =? c then Some 0
                else match index_of c al' with Some i => Some (N.succ i) | None => None end
  end.

Fixpoint map_opt {A B} (f : A -> option B) (l : list A) : option (list B) :=
  match l with
  | [] => Some []
  | x :: l' => match f x, map_opt f l' with
               | Some y, Some ys => Some (y :: ys)
               | _, _ => None
               end
  end.

Definition alen (al : list N) : N := N.of_nat (length al).

(* base_x::encode: one alphabet[0] per leading zero byte, then the digits of
   the big-endian number.  Output bytes are ASCII. *)
Definition basex_encode (al : list N) (bs : list N) : list N :=
  repeat (alpha_at al 0) (count_leading 0 bs) ++
  map (alpha_at al) (to_digits (alen al) (of_digits 256 bs)).

(* base_x::decode over the bytes of the text *)
Definition basex_decode (al : list N) (s : list N) : option (list N) :=
  match map_opt (fun c => index_of c al) s with
  | None => None
  | Some ds => Some (repeat 0 (count_leading (alpha_at al 0) s) ++
                     to_digits 256 (of_digits (alen al) ds))
  end.

Definition B58BTC : list N := [49; 50; 51; 52; 53; 54; 55; 56; 57; 65; 66; 67; 68; 69; 70; 71; 72; 74; 75; 76; 77; 78; 80; 81; 82; 83; 84; 85; 86; 87; 88; 89; 90; 97; 98; 99; 100; 101; 102; 103; 104; 105; 106; 107; 109; 110; 111; 112; 113; 114; 115; 116; 117; 118; 119; 120; 121; 122].
Definition B58FLICKR : list N := [49; 50; 51; 52; 53; 54; 55; 56; 57; 97; 98; 99; 100; 101; 102; 103; 104; 105; 106; 107; 109; 110; 111; 112; 113; 114; 115; 116; 117; 118; 119; 120; 121; 122; 65; 66; 67; 68; 69; 70; 71; 72; 74; 75; 76; 77; 78; 80; 81; 82; 83; 84; 85; 86; 87; 88; 89; 90].
Definition B10 : list N := [48; 49; 50; 51; 52; 53; 54; 55; 56; 57].
Definition B36L : list N := [48; 49; 50; 51; 52; 53; 54; 55; 56; 57; 97; 98; 99; 100; 101; 102; 103; 104; 105; 106; 107; 108; 109; 110; 111; 112; 113; 114; 115; 116; 117; 118; 119; 120; 121; 122].
Definition B36U : list N := [48; 49; 50; 51; 52; 53; 54; 55; 56; 57; 65; 66; 67; 68; 69; 70; 71; 72; 73; 74; 75; 76; 77; 78; 79; 80; 81; 82; 83; 84; 85; 86; 87; 88; 89; 90].

Definition b58_encode := basex_encode B58BTC.
Definition b58_decode := basex_decode B58BTC.

Definition ascii_lower (c : N) : N := if (65 <=? c) && (c <=? 90) then c + 32 else c.
Definition ascii_upper (c : N) : N := if (97 <=? c) && (c <=? 122) then c - 32 else c.

(* ---------------------------------------------------------------- multibase 0.9.1 *)

Inductive mbase :=
| MIdentity
| MBaseX (al : list N)
| MBase36 (upper : bool)
| MExternal.   (* data-encoding based bases: result observed from the crate, passed as data *)

Definition CODE_Z := 122.   (* 'z' *)

Definition base_of_code (c : N) : option mbase :=
  if c =? 0 then Some MIdentity
  else if c =? 122 then Some (MBaseX B58BTC)
  else if c =? 90 then Some (MBaseX B58FLICKR)
  else if c =? 57 then Some (MBaseX B10)
  else if c =? 107 then Some (MBase36 false)
  else if c =? 75 then Some (MBase36 true)
  else if memN c [48; 55; 102; 70; 98; 66; 99; 67; 118; 86; 116; 84; 104; 109; 77; 117; 85]
       then Some MExternal
  else None.

(* [ext] : for an MExternal base, what the data-encoding decoder returned on
   the tail (None = DecodeError). *)
Definition base_decode (ext : option (list N)) (b : mbase) (tail : list N) : res (list N) :=
  let r := match b with
           | MIdentity => Some (utf8_encode tail)
           | MBaseX al => basex_decode al (utf8_encode tail)
           | MBase36 false => basex_decode B36L (map ascii_lower (utf8_encode tail))
           | MBase36 true => basex_decode B36U (map ascii_upper (utf8_encode tail))
           | MExternal => ext
           end in
  match r with Some bs => Ok bs | None => Err EInvalidBaseString end.

(* multibase::decode (the Base component of the result is dropped by all callers) *)
Definition multibase_decode (ext : option (list N)) (s : list N) : res (list N) :=
  match s with
  | [] => Err EInvalidBaseString
  | code :: _ =>
      match base_of_code code with
      | None => Err EUnknownBase
      | Some b => bind (str_slice_from s (len_utf8 code)) (base_decode ext b)
      end
  end.

(* multibase::encode(Base::Base58Btc, bytes) *)
Definition multibase_encode_b58 (bs : list N) : list N := CODE_Z :: b58_encode bs.

(* ---------------------------------------------------------------- PublicKey *)

Definition MULTICODEC : list N := [237; 1].
Definition KEY_BYTES := 32.
Definition OID_BYTES := 20.

Definition pk_to_human (k : list N) : res (list N) :=
  bind (copy_from_slice 2 MULTICODEC) (fun a =>
  bind (copy_from_slice KEY_BYTES k) (fun b =>
  Ok (multibase_encode_b58 (a ++ b)))).

Definition pk_from_str (ext : option (list N)) (s : list N) : res (list N) :=
  bind (multibase_decode ext s) (fun bytes =>
  match strip_prefix MULTICODEC bytes with
  | Some rest => if N.of_nat (length rest) =? KEY_BYTES then Ok rest else Err EKeyLen
  | None => Err EMulticodec
  end).

(* ---------------------------------------------------------------- Did *)

Definition DID_PREFIX : list N := [100; 105; 100; 58; 107; 101; 121; 58].  (* "did:key:" *)

Definition did_encode (k : list N) : res (list N) :=
  bind (pk_to_human k) (fun h => Ok (DID_PREFIX ++ h)).

Definition did_decode (ext : option (list N)) (s : list N) : res (list N) :=
  match strip_prefix DID_PREFIX s with
  | None => Err EDid
  | Some key => pk_from_str ext key
  end.

(* ---------------------------------------------------------------- RepoId *)

Definition RAD_PREFIX : list N := [114; 97; 100; 58].  (* "rad:" *)

Definition rid_canonical (oid : list N) : list N := multibase_encode_b58 oid.
Definition rid_urn (oid : list N) : list N := RAD_PREFIX ++ rid_canonical oid.

Definition rid_from_canonical (ext : option (list N)) (s : list N) : res (list N) :=
  bind (multibase_decode ext s) (fun bytes =>
  if N.of_nat (length bytes) =? OID_BYTES then Ok bytes else Err EOidLen).

Definition rid_from_urn (ext : option (list N)) (s : list N) : res (list N) :=
  rid_from_canonical ext (match strip_prefix RAD_PREFIX s with Some t => t | None => s end).

(* ---------------------------------------------------------------- Alias / UserAgent *)

Definition MAX_ALIAS_LENGTH := 32.
Definition MAX_AGENT_LENGTH := 64.
Definition SLASH := 47.
Definition COLON := 58.

Definition is_nil {A} (l : list A) : bool := match l with [] => true | _ => false end.

(* str::split(sep): always at least one piece *)
Fixpoint split_on (sep : N) (s : list N) : list (list N) :=
  match s with
  | [] => [[]]
  | c :: s' =>
      if c =? sep then [] :: split_on sep s'
      else match split_on sep s' with
           | seg :: segs => (c :: seg) :: segs
           | [] => [[c]]
           end
  end.

Fixpoint split_once (sep : N) (s : list N) : option (list N * list N) :=
  match s with
  | [] => None
  | c :: s' =>
      if c =? sep then Some ([], s')
      else match split_once sep s' with
           | Some (a, b) => Some (c :: a, b)
           | None => None
           end
  end.

Definition strip_prefix_char (c : N) (s : list N) : option (list N) :=
  match s with x :: t => if x =? c then Some t else None | [] => None end.

Definition strip_suffix_char (c : N) (s : list N) : option (list N) :=
  match rev s with x :: t => if x =? c then Some (rev t) else None | [] => None end.

Section CharClasses.
(* char::is_control, char::is_whitespace, char::is_ascii_graphic — data *)
Variable is_control is_whitespace is_ascii_graphic : N -> bool.

Definition alias_from_str (s : list N) : res (list N) :=
  if is_nil s then Err EAliasEmpty
  else if existsb (fun c => is_control c || is_whitespace c) s then Err EAliasChar
  else if MAX_ALIAS_LENGTH <? str_len s then Err EAliasLen
  else Ok s.

Definition alias_display (a : list N) : list N := a.

Definition reserved (c : N) : bool := (c =? SLASH) || (c =? COLON).

Definition segment_ok (seg : list N) : bool :=
  match split_once COLON seg with
  | Some (client, version) =>
      if is_nil client || is_nil version then false
      else forallb (fun c => is_ascii_graphic c && negb (reserved c)) client &&
           forallb (fun c => is_ascii_graphic c || negb (reserved c)) version
  | None => true
  end.

Definition agent_from_str (input : list N) : res (list N) :=
  if MAX_AGENT_LENGTH <? str_len input then Err EAgent else
  match strip_prefix_char SLASH input with
  | None => Err EAgent
  | Some s =>
      match strip_suffix_char SLASH s with
      | None => Err EAgent
      | Some s =>
          if is_nil s then Err EAgent
          else if forallb segment_ok (split_on SLASH s) then Ok input
          else Err EAgent
      end
  end.

Definition agent_display (a : list N) : list N := a.
End CharClasses.

(* From<&NodeId> for Alias: Alias(nid.to_human().chars().take(MAX_ALIAS_LENGTH).collect())
   (no validation; before the fix it was Alias(nid.to_string()), 48 bytes, see
   TextIdsProofs.nid_text_exceeds_alias_limit) *)
Definition alias_of_nid (k : list N) : res (list N) :=
  bind (pk_to_human k) (fun h => Ok (firstn (N.to_nat MAX_ALIAS_LENGTH) h)).

(* From<&Alias> for [u8; 32]: alias[..input.len()].copy_from_slice(input.as_bytes()) *)
Definition alias_to_array (a : list N) : res (list N) :=
  let bytes := utf8_encode a in
  let n := str_len a in
  if 32 <? n then Panic SITE_SLICE_RANGE
  else bind (copy_from_slice n bytes) (fun b =>
       Ok (b ++ repeat 0 (N.to_nat (32 - n)))).

(* concrete tables used by the correspondence run (Unicode general category Cc,
   property White_Space, ASCII '!'..'~'); compared with the Rust std tables
   by the CCharClass cases *)
Definition std_is_control (c : N) : bool := (c <=? 31) || ((127 <=? c) && (c <=? 159)).
Definition std_is_whitespace (c : N) : bool :=
  ((9 <=? c) && (c <=? 13)) || (c =? 32) || (c =? 133) || (c =? 160) || (c =? 5760) ||
  ((8192 <=? c) && (c <=? 8202)) || (c =? 8232) || (c =? 8233) || (c =? 8239) ||
  (c =? 8287) || (c =? 12288).
Definition std_is_ascii_graphic (c : N) : bool := (33 <=? c) && (c <=? 126).

(* ---------------------------------------------------------------- correspondence interface *)

Inductive case :=
| CB58Enc (bs : list N)                             (* multibase::encode(Base58Btc, bs) *)
| CMbDec (ext : option (list N)) (s : list N)       (* multibase::decode(s) *)
| CPkPrint (k : list N)                             (* PublicKey::to_human / Display *)
| CPkParse (ext : option (list N)) (s : list N)     (* PublicKey::from_str *)
| CDidPrint (k : list N)                            (* Did::encode / Display *)
| CDidParse (ext : option (list N)) (s : list N)    (* Did::decode / from_str *)
| CRidCanonical (oid : list N)                      (* RepoId::canonical *)
| CRidUrn (oid : list N)                            (* RepoId::urn / Display *)
| CRidFromCanonical (ext : option (list N)) (s : list N)
| CRidFromUrn (ext : option (list N)) (s : list N)  (* RepoId::from_urn / from_str *)
| CAlias (s : list N)                               (* Alias::from_str then Display *)
| CAgent (s : list N)                               (* UserAgent::from_str then Display *)
| CAliasOfNid (k : list N)                          (* Alias::from(&nid) then Display *)
| CAliasToArray (s : list N)                        (* <[u8;32]>::from(&Alias) for an unchecked alias text *)
| CCharClass (c : N).                               (* [is_control; is_whitespace; is_ascii_graphic; len_utf8] *)

(* observation: Ok payload (text or bytes), error kind, or a panic *)
Definition obs := res (list N).

Definition b2n (b : bool) : N := if b then 1 else 0.

Definition run (c : case) : obs :=
  match c with
  | CB58Enc bs => Ok (multibase_encode_b58 bs)
  | CMbDec ext s => multibase_decode ext s
  | CPkPrint k => pk_to_human k
  | CPkParse ext s => pk_from_str ext s
  | CDidPrint k => did_encode k
  | CDidParse ext s => did_decode ext s
  | CRidCanonical o => Ok (rid_canonical o)
  | CRidUrn o => Ok (rid_urn o)
  | CRidFromCanonical ext s => rid_from_canonical ext s
  | CRidFromUrn ext s => rid_from_urn ext s
  | CAlias s => bind (alias_from_str std_is_control std_is_whitespace s) (fun a => Ok (alias_display a))
  | CAgent s => bind (agent_from_str std_is_ascii_graphic s) (fun a => Ok (agent_display a))
  | CAliasOfNid k => bind (alias_of_nid k) (fun a => Ok (alias_display a))
  | CAliasToArray s => alias_to_array s
  | CCharClass c => Ok [b2n (std_is_control c); b2n (std_is_whitespace c);
                        b2n (std_is_ascii_graphic c); len_utf8 c]
  end.

Definition terr_code (e : terr) : N :=
  match e with
  | EInvalidBaseString => 1 | EUnknownBase => 2 | EMulticodec => 3 | EKeyLen => 4
  | EOidLen => 5 | EDid => 6 | EAliasEmpty => 7 | EAliasChar => 8 | EAliasLen => 9
  | EAgent => 10
  end.

(* panics are compared as panics (the site is reported, not compared) *)
Definition obs_eqb (x y : obs) : bool :=
  match x, y with
  | Ok a, Ok b => list_eqb N.eqb a b
  | Err e1, Err e2 => terr_code e1 =? terr_code e2
  | Panic _, Panic _ => true
  | _, _ => false
  end.

Definition check_case (ce : case * obs) : bool := obs_eqb (run (fst ce)) (snd ce).
