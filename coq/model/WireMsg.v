(* WireMsg.v — executable model of the gossip message codec.
   covers: crates/radicle-node/src/wire.rs::{serialize, deserialize,
             <u8/u16/u32/u64 as Encode/Decode>, <[u8; N] as Encode/Decode>, <&[T] as Encode>::encode,
             <BoundedVec<T,N> as Encode/Decode>, <&str/String as Encode>::encode, <String as Decode>::decode,
             <PublicKey/Signature/git::Oid/RepoId as Encode/Decode>, <Alias/UserAgent as Encode/Decode>,
             <filter::Filter as Encode/Decode>, <RefsAt as Encode/Decode>, <node::Features as Encode/Decode>,
             <tor::OnionAddrV3 as Encode/Decode>, <Timestamp as Encode/Decode>},
           crates/radicle-node/src/wire/message.rs::{MessageType, AddressType, InfoType,
             <Message as Encode/Decode>, <AnnouncementMessage as Encode>::encode,
             <RefsAnnouncement/InventoryAnnouncement/Info/Address/ZeroBytes as Encode/Decode>},
           crates/radicle-node/src/service/message.rs::{<NodeAnnouncement as Encode/Decode>,
             ADDRESS_LIMIT, REF_REMOTE_LIMIT, INVENTORY_LIMIT, Message::MAX_SIZE,
             Ping::MAX_PING_ZEROES, Ping::MAX_PONG_ZEROES},
           crates/radicle-node/src/bounded.rs::{BoundedVec::with_capacity, push},
           crates/radicle/src/node.rs::{<Alias as FromStr>::from_str, <UserAgent as FromStr>::from_str,
             UserAgent::default, MAX_ALIAS_LENGTH}, crates/radicle/src/node/timestamp.rs::TryFrom<u64>
   The code modelled is the code AFTER the three `fix:` commits
     a394105 (ZeroBytes::decode rejects non-zero padding),
     fcb77a0 (Message::decode rejects ping/pong padding above MAX_PING/PONG_ZEROES),
     2822294 (NodeAnnouncement::decode defaults the agent only when it is absent).
   sites: <&str as Encode>::encode `assert!(self.len() <= u8::MAX)` (EStrTooLong);
          serialize `data.encode(..).unwrap()` on Message::encode's "exceeds maximum size" error (ETooBig);
          git::Oid::decode `.expect("the buffer is exactly the right size")` (unreachable: the length
          was checked two lines above); filter::Filter::decode `debug_assert_eq!(f.hashes(), FILTER_HASHES)`
          (debug-only; exercised by the harness on all three sizes); BoundedVec::decode `push(..).ok()`.
   Conventions (as in WireVarint.v): bytes are `N`; a reader is the list of bytes not yet
   consumed; a successful decode returns the remaining input.  The message codec uses NO
   varints (all lengths are fixed-width big-endian u8/u16): of WireVarint.v only the
   big-endian helpers `be`/`be_bytes`, `len`, `bytes_ok`, `rpt` are reused.
   The data types mirror the Rust types field by field; values whose Rust type carries an
   invariant checked by external code (String: UTF-8; Alias; UserAgent; OnionAddrV3) are byte
   strings, and the checks are Section variables [utf8_ok alias_ok agent_ok onion_ok] that decode
   evaluates exactly where the Rust code calls String::from_utf8 / Alias::from_str /
   UserAgent::from_str / OnionAddrV3::from_raw_bytes.  Concrete instances of the first three
   (used by the correspondence check) follow the section.  The Refs codec of wire.rs
   (<Refs as Encode/Decode>; carried by no message) is modelled in its own section further
   down.  No proofs in this file. *)
From HW Require Import lib.Base model.WireVarint gen.ConstsWire.
Local Open Scope N_scope.

(* ------------------------------------------------------------------ data *)

(* cyphernet HostName (features tor + dns): Ip(V4) | Ip(V6) | Dns(String) | Tor(OnionAddrV3) *)
Inductive host :=
| HIp4 (octets : list N)            (* 4 bytes *)
| HIp6 (octets : list N)            (* 16 bytes *)
| HDns (name : list N)              (* String *)
| HOnion (raw : list N).            (* OnionAddrV3::into_raw_bytes: 35 bytes *)

(* radicle::node::Address = NetAddr<HostName> *)
Record address := mkAddr { a_host : host; a_port : N }.

(* storage::refs::RefsAt *)
Record refs_at := mkRefsAt { ra_remote : list N (* NodeId, 32 bytes *); ra_at : list N (* Oid, 20 bytes *) }.

(* service::message::NodeAnnouncement *)
Record node_ann := mkNodeAnn {
  na_version : N;                   (* u8 *)
  na_features : N;                  (* node::Features(u64) *)
  na_timestamp : N;                 (* Timestamp(u64) *)
  na_alias : list N;                (* Alias *)
  na_addresses : list address;      (* BoundedVec<Address, ADDRESS_LIMIT> *)
  na_nonce : N;                     (* u64 *)
  na_agent : list N                 (* UserAgent *)
}.

(* service::message::AnnouncementMessage *)
Inductive ann_msg :=
| AInventory (inventory : list (list N)) (timestamp : N)     (* BoundedVec<RepoId, INVENTORY_LIMIT> *)
| ANode (na : node_ann)
| ARefs (rid : list N) (refs : list refs_at) (timestamp : N). (* BoundedVec<RefsAt, REF_REMOTE_LIMIT> *)

(* service::message::Info *)
Inductive info := IRefsAlreadySynced (rid at_ : list N).

(* service::message::Message; Announcement { node, signature, message } is inlined *)
Inductive message :=
| MSubscribe (filter : list N) (since until : N)
| MAnnouncement (node signature : list N) (msg : ann_msg)
| MInfo (i : info)
| MPing (ponglen zeroes : N)        (* Ping { ponglen: u16, zeroes: ZeroBytes(u16) } *)
| MPong (zeroes : N).

(* ------------------------------------------------------------------ encoding *)

Definition enc_u8 (x : N) : list N := be_bytes 1 x.
Definition enc_u16 (x : N) : list N := be_bytes 2 x.    (* `x as u16` truncation included *)
Definition enc_u64 (x : N) : list N := be_bytes 8 x.

(* <&str as Encode>::encode; None = `assert!(self.len() <= u8::MAX as usize)` fails *)
Definition enc_str (s : list N) : option (list N) :=
  if len s <=? 255 then Some (enc_u8 (len s) ++ s) else None.

(* <&[u8] as Encode>::encode: u16 length prefix (`self.len() as Size`), then the bytes *)
Definition enc_slice (s : list N) : list N := enc_u16 (len s) ++ s.

Definition obind {A B} (o : option A) (f : A -> option B) : option B :=
  match o with Some a => f a | None => None end.

Fixpoint enc_items {A} (f : A -> option (list N)) (l : list A) : option (list N) :=
  match l with
  | [] => Some []
  | x :: l' => obind (f x) (fun a => obind (enc_items f l') (fun b => Some (a ++ b)))
  end.

(* <&[T] as Encode>::encode / <BoundedVec<T,N> as Encode>::encode *)
Definition enc_vec {A} (f : A -> option (list N)) (l : list A) : option (list N) :=
  obind (enc_items f l) (fun b => Some (enc_u16 (len l) ++ b)).

(* git::Oid / RepoId: `self.as_bytes().encode(writer)` (length-prefixed) *)
Definition enc_oid (o : list N) : list N := enc_slice o.

Definition enc_refs_at (r : refs_at) : list N := ra_remote r ++ enc_oid (ra_at r).

(* AddressType: Ipv4 = 1, Ipv6 = 2, Dns = 3, Onion = 4 *)
Definition enc_host (h : host) : option (list N) :=
  match h with
  | HIp4 o => Some (enc_u8 1 ++ o)
  | HIp6 o => Some (enc_u8 2 ++ o)
  | HDns s => obind (enc_str s) (fun b => Some (enc_u8 3 ++ b))
  | HOnion r => Some (enc_u8 4 ++ r)
  end.

Definition enc_addr (a : address) : option (list N) :=
  obind (enc_host (a_host a)) (fun b => Some (b ++ enc_u16 (a_port a))).

(* NodeAnnouncement::encode without the trailing user agent *)
Definition enc_node_ann_pre (na : node_ann) : option (list N) :=
  obind (enc_str (na_alias na)) (fun alias =>
  obind (enc_vec enc_addr (na_addresses na)) (fun addrs =>
  Some (enc_u8 (na_version na) ++ enc_u64 (na_features na) ++ enc_u64 (na_timestamp na)
        ++ alias ++ addrs ++ enc_u64 (na_nonce na)))).

Definition enc_node_ann (na : node_ann) : option (list N) :=
  obind (enc_node_ann_pre na) (fun pre =>
  obind (enc_str (na_agent na)) (fun agent => Some (pre ++ agent))).

(* <AnnouncementMessage as Encode>::encode — these are the bytes that are signed
   (AnnouncementMessage::signed) and verified (Announcement::verify) *)
Definition enc_ann (am : ann_msg) : option (list N) :=
  match am with
  | AInventory inv ts =>
      obind (enc_vec (fun o => Some (enc_oid o)) inv) (fun b => Some (b ++ enc_u64 ts))
  | ANode na => enc_node_ann na
  | ARefs rid refs ts =>
      obind (enc_vec (fun r => Some (enc_refs_at r)) refs) (fun b =>
      Some (enc_oid rid ++ b ++ enc_u64 ts))
  end.

(* InfoType::RefsAlreadySynced = 1 *)
Definition enc_info (i : info) : list N :=
  match i with IRefsAlreadySynced rid at_ => enc_u16 1 ++ enc_oid rid ++ enc_oid at_ end.

(* <ZeroBytes as Encode>::encode *)
Definition enc_zeroes (z : N) : list N := enc_u16 z ++ rpt z 0.

(* MessageType *)
Definition ann_type (am : ann_msg) : N :=
  match am with ANode _ => 2 | AInventory _ _ => 4 | ARefs _ _ _ => 6 end.

(* the bytes <Message as Encode>::encode writes to the writer (before its final size
   check); None = a string-length assertion panicked on the way *)
Definition encode_raw (m : message) : option (list N) :=
  match m with
  | MSubscribe f s u => Some (enc_u16 8 ++ enc_slice f ++ enc_u64 s ++ enc_u64 u)
  | MAnnouncement n sg am =>
      obind (enc_ann am) (fun body => Some (enc_u16 (ann_type am) ++ n ++ sg ++ body))
  | MInfo i => Some (enc_u16 14 ++ enc_info i)
  | MPing p z => Some (enc_u16 10 ++ enc_u16 p ++ enc_zeroes z)
  | MPong z => Some (enc_u16 12 ++ enc_zeroes z)
  end.

Inductive eres :=
| EBytes (bs : list N)          (* Ok(n), n = bs.len() *)
| EStrTooLong                   (* panic: assert in <&str as Encode>::encode *)
| ETooBig.                      (* Err("Message exceeds maximum size"); `serialize` panics on unwrap *)

(* <Message as Encode>::encode: `if n > wire::Size::MAX as usize { return Err(..) }` *)
Definition encode_res (m : message) : eres :=
  match encode_raw m with
  | None => EStrTooLong
  | Some bs => if len bs <=? SIZE_MAX then EBytes bs else ETooBig
  end.

(* wire::serialize(&msg): Some bytes, None where it panics *)
Definition encode (m : message) : option (list N) :=
  match encode_res m with EBytes bs => Some bs | _ => None end.

(* ------------------------------------------------------------------ decoding *)

(* wire::Error, as far as the message codec can produce it *)
Inductive merr :=
| XEof                                  (* Io(UnexpectedEof): Error::is_eof() *)
| XUtf8                                 (* FromUtf8 *)
| XInvalidSize (expected actual : N)
| XInvalidFilterSize (n : N)
| XInvalidAlias
| XInvalidUserAgent
| XInvalidOnion                         (* InvalidOnionAddr *)
| XInvalidTimestamp (n : N)
| XUnknownAddressType (n : N)
| XUnknownMessageType (n : N)
| XUnknownInfoType (n : N)
| XUnexpectedBytes
| XInvalidRefName                       (* InvalidRefName: only the Refs codec below *)
| XOther.                               (* any other wire::Error: never produced by the modelled code *)

Inductive res (A : Type) :=
| ROk (a : A) (rest : list N)
| RErr (e : merr).
Arguments ROk {A} a rest.
Arguments RErr {A} e.

Definition bind {A B} (r : res A) (f : A -> list N -> res B) : res B :=
  match r with ROk a rest => f a rest | RErr e => RErr e end.

(* reader.read_exact(&mut [0; k]): the first k bytes and the rest, None if fewer remain *)
Fixpoint take_opt (k : nat) (inp : list N) : option (list N * list N) :=
  match k with
  | O => Some ([], inp)
  | S k' => match inp with
            | [] => None
            | b :: r => match take_opt k' r with
                        | Some (a, r') => Some (b :: a, r')
                        | None => None
                        end
            end
  end.

Definition dec_bytes (k : nat) (inp : list N) : res (list N) :=
  match take_opt k inp with Some (a, r) => ROk a r | None => RErr XEof end.

(* read_u16/u32/u64::<NetworkEndian> *)
Definition dec_be (k : nat) (inp : list N) : res N :=
  match take_opt k inp with Some (a, r) => ROk (be a) r | None => RErr XEof end.

Definition dec_u8 (inp : list N) : res N :=
  match inp with [] => RErr XEof | b :: r => ROk b r end.

Fixpoint dec_n {A} (item : list N -> res A) (n : nat) (inp : list N) : res (list A) :=
  match n with
  | O => ROk [] inp
  | S n' => bind (item inp) (fun x r => bind (dec_n item n' r) (fun xs r' => ROk (x :: xs) r'))
  end.

(* <BoundedVec<T,N> as Decode>::decode: `with_capacity(len)` fails above N; then
   `for _ in 0..items.capacity()` — the capacity of `Vec::with_capacity(len)` is taken to be
   exactly `len` (true of the std allocator path for non-zero-sized T; trusted, see registry) *)
Definition dec_vec {A} (limit : N) (item : list N -> res A) (inp : list N) : res (list A) :=
  bind (dec_be 2 inp) (fun l r =>
    if l <=? limit then dec_n item (N.to_nat l) r else RErr (XInvalidSize limit l)).

(* the `for _ in 0..zeroes` loop of <ZeroBytes as Decode>::decode *)
Fixpoint dec_zero_run (n : nat) (inp : list N) : res unit :=
  match n with
  | O => ROk tt inp
  | S n' => match inp with
            | [] => RErr XEof
            | b :: r => if b =? 0 then dec_zero_run n' r else RErr XUnexpectedBytes
            end
  end.

Definition dec_zeroes (inp : list N) : res N :=
  bind (dec_be 2 inp) (fun z r => bind (dec_zero_run (N.to_nat z) r) (fun _ r' => ROk z r')).

(* <git::Oid as Decode>::decode / RepoId *)
Definition dec_oid (inp : list N) : res (list N) :=
  bind (dec_be 2 inp) (fun l r =>
    if l =? OID_LEN then dec_bytes (N.to_nat OID_LEN) r else RErr (XInvalidSize OID_LEN l)).

Definition dec_refs_at (inp : list N) : res refs_at :=
  bind (dec_bytes (N.to_nat PUBKEY_LEN) inp) (fun n r =>
  bind (dec_oid r) (fun o r' => ROk (mkRefsAt n o) r')).

Definition dec_timestamp (inp : list N) : res N :=
  bind (dec_be 8 inp) (fun v r =>
    if v <=? TIMESTAMP_MAX then ROk v r else RErr (XInvalidTimestamp v)).

Definition dec_filter (inp : list N) : res (list N) :=
  bind (dec_be 2 inp) (fun sz r =>
    if memN sz FILTER_SIZES then dec_bytes (N.to_nat sz) r else RErr (XInvalidFilterSize sz)).

(* result of wire::deserialize::<Message> *)
Inductive dresult :=
| DecOk (m : message)
| DecErr (e : merr).

Section Codec.
  (* String::from_utf8(..).is_ok(), Alias::from_str(..).is_ok(), UserAgent::from_str(..).is_ok(),
     OnionAddrV3::from_raw_bytes(..).is_ok() on the given bytes *)
  Variable utf8_ok alias_ok agent_ok onion_ok : list N -> bool.

  (* <String as Decode>::decode *)
  Definition dec_string (inp : list N) : res (list N) :=
    bind (dec_u8 inp) (fun l r =>
    bind (dec_bytes (N.to_nat l) r) (fun s r' =>
      if utf8_ok s then ROk s r' else RErr XUtf8)).

  Definition dec_alias (inp : list N) : res (list N) :=
    bind (dec_string inp) (fun s r => if alias_ok s then ROk s r else RErr XInvalidAlias).

  Definition dec_agent (inp : list N) : res (list N) :=
    bind (dec_string inp) (fun s r => if agent_ok s then ROk s r else RErr XInvalidUserAgent).

  (* `match AddressType::try_from(addrtype)` *)
  Definition dec_host (t : N) (inp : list N) : res host :=
    if t =? 1 then bind (dec_bytes 4 inp) (fun o r => ROk (HIp4 o) r)
    else if t =? 2 then bind (dec_bytes 16 inp) (fun o r => ROk (HIp6 o) r)
    else if t =? 3 then bind (dec_string inp) (fun s r => ROk (HDns s) r)
    else if t =? 4 then bind (dec_bytes (N.to_nat ONION_RAW_LEN) inp) (fun o r =>
             if onion_ok o then ROk (HOnion o) r else RErr XInvalidOnion)
    else RErr (XUnknownAddressType t).

  (* <Address as Decode>::decode *)
  Definition dec_addr (inp : list N) : res address :=
    bind (dec_u8 inp) (fun t r =>
    bind (dec_host t r) (fun h r' =>
    bind (dec_be 2 r') (fun p r'' => ROk (mkAddr h p) r''))).

  (* <NodeAnnouncement as Decode>::decode; the boolean says that the user agent was
     absent (the input ended right after the nonce) and has been defaulted *)
  Definition dec_node_ann (inp : list N) : res (node_ann * bool) :=
    bind (dec_u8 inp) (fun version r1 =>
    bind (dec_be 8 r1) (fun features r2 =>
    bind (dec_timestamp r2) (fun ts r3 =>
    bind (dec_alias r3) (fun alias r4 =>
    bind (dec_vec ADDRESS_LIMIT dec_addr r4) (fun addrs r5 =>
    bind (dec_be 8 r5) (fun nonce r6 =>
      match r6 with
      | [] => ROk (mkNodeAnn version features ts alias addrs nonce DEFAULT_AGENT, true) []
      | _ :: _ => bind (dec_agent r6) (fun agent r7 =>
                    ROk (mkNodeAnn version features ts alias addrs nonce agent, false) r7)
      end)))))).

  Definition dec_info (inp : list N) : res info :=
    bind (dec_be 2 inp) (fun t r =>
      if t =? 1 then bind (dec_oid r) (fun rid r' => bind (dec_oid r') (fun at_ r'' =>
               ROk (IRefsAlreadySynced rid at_) r''))
      else RErr (XUnknownInfoType t)).

  Definition dec_ann_head (inp : list N) : res (list N * list N) :=
    bind (dec_bytes (N.to_nat PUBKEY_LEN) inp) (fun node r =>
    bind (dec_bytes (N.to_nat SIGNATURE_LEN) r) (fun sg r' => ROk (node, sg) r')).

  Definition dec_subscribe (r : list N) : res (message * bool) :=
    bind (dec_filter r) (fun f r1 =>
    bind (dec_timestamp r1) (fun since r2 =>
    bind (dec_timestamp r2) (fun until r3 => ROk (MSubscribe f since until, false) r3))).

  Definition dec_node_msg (r : list N) : res (message * bool) :=
    bind (dec_ann_head r) (fun h r1 =>
    bind (dec_node_ann r1) (fun nf r2 =>
      ROk (MAnnouncement (fst h) (snd h) (ANode (fst nf)), snd nf) r2)).

  Definition dec_inventory_msg (r : list N) : res (message * bool) :=
    bind (dec_ann_head r) (fun h r1 =>
    bind (dec_vec INVENTORY_LIMIT dec_oid r1) (fun inv r2 =>
    bind (dec_timestamp r2) (fun ts r3 =>
      ROk (MAnnouncement (fst h) (snd h) (AInventory inv ts), false) r3))).

  Definition dec_refs_msg (r : list N) : res (message * bool) :=
    bind (dec_ann_head r) (fun h r1 =>
    bind (dec_oid r1) (fun rid r2 =>
    bind (dec_vec REF_REMOTE_LIMIT dec_refs_at r2) (fun refs r3 =>
    bind (dec_timestamp r3) (fun ts r4 =>
      ROk (MAnnouncement (fst h) (snd h) (ARefs rid refs ts), false) r4)))).

  Definition dec_ping (r : list N) : res (message * bool) :=
    bind (dec_be 2 r) (fun ponglen r1 =>
    bind (dec_zeroes r1) (fun z r2 =>
      if z <=? MAX_PING_ZEROES then ROk (MPing ponglen z, false) r2
      else RErr (XInvalidSize MAX_PING_ZEROES z))).

  Definition dec_pong (r : list N) : res (message * bool) :=
    bind (dec_zeroes r) (fun z r1 =>
      if z <=? MAX_PONG_ZEROES then ROk (MPong z, false) r1
      else RErr (XInvalidSize MAX_PONG_ZEROES z)).

  (* <Message as Decode>::decode: `match MessageType::try_from(type_id)` *)
  Definition decode_msg (inp : list N) : res (message * bool) :=
    bind (dec_be 2 inp) (fun t r =>
      if t =? 8 then dec_subscribe r
      else if t =? 2 then dec_node_msg r
      else if t =? 4 then dec_inventory_msg r
      else if t =? 6 then dec_refs_msg r
      else if t =? 14 then bind (dec_info r) (fun i r1 => ROk (MInfo i, false) r1)
      else if t =? 10 then dec_ping r
      else if t =? 12 then dec_pong r
      else RErr (XUnknownMessageType t)).

  (* wire::deserialize::<Message>: trailing bytes are rejected.  The flag is the
     "node announcement without the trailing user agent" marker. *)
  Definition decode_ext (bs : list N) : res (message * bool) :=
    match decode_msg bs with
    | ROk mf [] => ROk mf []
    | ROk _ (_ :: _) => RErr XUnexpectedBytes
    | RErr e => RErr e
    end.

  Definition decode (bs : list N) : dresult :=
    match decode_ext bs with
    | ROk mf _ => DecOk (fst mf)
    | RErr e => DecErr e
    end.

  (* --- the messages the node can construct: every field within the range of its Rust
     type, every validated string valid, every BoundedVec within its limit, ping/pong
     padding within Ping::MAX_PING_ZEROES / MAX_PONG_ZEROES (as Ping::new and the pong
     reply guarantee), filters of one of the three sizes (Filter::new/default/empty),
     timestamps within Timestamp::MAX, host names at most 255 bytes *)
  Definition wf_str (s : list N) : Prop := len s <= 255 /\ utf8_ok s = true.

  Definition wf_host (h : host) : Prop :=
    match h with
    | HIp4 o => len o = 4
    | HIp6 o => len o = 16
    | HDns s => wf_str s
    | HOnion r => len r = ONION_RAW_LEN /\ onion_ok r = true
    end.

  Definition wf_addr (a : address) : Prop := wf_host (a_host a) /\ a_port a < 2 ^ 16.

  Definition wf_oid (o : list N) : Prop := len o = OID_LEN.

  Definition wf_refs_at (r : refs_at) : Prop := len (ra_remote r) = PUBKEY_LEN /\ wf_oid (ra_at r).

  Definition wf_ts (t : N) : Prop := t <= TIMESTAMP_MAX.

  (* everything but the user agent *)
  Definition wf_node_ann_pre (na : node_ann) : Prop :=
    na_version na < 2 ^ 8 /\ na_features na < 2 ^ 64 /\ wf_ts (na_timestamp na) /\
    (wf_str (na_alias na) /\ alias_ok (na_alias na) = true) /\
    (len (na_addresses na) <= ADDRESS_LIMIT /\ Forall wf_addr (na_addresses na)) /\
    na_nonce na < 2 ^ 64.

  Definition wf_node_ann (na : node_ann) : Prop :=
    wf_node_ann_pre na /\ wf_str (na_agent na) /\ agent_ok (na_agent na) = true.

  Definition wf_ann (am : ann_msg) : Prop :=
    match am with
    | AInventory inv ts => (len inv <= INVENTORY_LIMIT /\ Forall wf_oid inv) /\ wf_ts ts
    | ANode na => wf_node_ann na
    | ARefs rid refs ts =>
        wf_oid rid /\ (len refs <= REF_REMOTE_LIMIT /\ Forall wf_refs_at refs) /\ wf_ts ts
    end.

  Definition wf (m : message) : Prop :=
    match m with
    | MSubscribe f s u => In (len f) FILTER_SIZES /\ wf_ts s /\ wf_ts u
    | MAnnouncement n sg am => len n = PUBKEY_LEN /\ len sg = SIGNATURE_LEN /\ wf_ann am
    | MInfo (IRefsAlreadySynced rid at_) => wf_oid rid /\ wf_oid at_
    | MPing p z => p < 2 ^ 16 /\ z <= MAX_PING_ZEROES
    | MPong z => z <= MAX_PONG_ZEROES
    end.
End Codec.

(* ------------------------------------------------------------------ concrete string checks *)

(* core::str::from_utf8 (Unicode Table 3-7, well-formed UTF-8 byte sequences), returning
   the scalar values *)
Definition is_cont (b : N) : bool := (128 <=? b) && (b <=? 191).

Fixpoint utf8_decode (inp : list N) : option (list N) :=
  match inp with
  | [] => Some []
  | b0 :: r =>
      if b0 <? 128 then option_map (cons b0) (utf8_decode r)
      else if (194 <=? b0) && (b0 <=? 223) then
        match r with
        | b1 :: r1 =>
            if is_cont b1
            then option_map (cons ((b0 - 192) * 64 + (b1 - 128))) (utf8_decode r1)
            else None
        | _ => None
        end
      else if (224 <=? b0) && (b0 <=? 239) then
        match r with
        | b1 :: b2 :: r2 =>
            if ((if b0 =? 224 then 160 else 128) <=? b1)
               && (b1 <=? (if b0 =? 237 then 159 else 191)) && is_cont b2
            then option_map (cons ((b0 - 224) * 4096 + (b1 - 128) * 64 + (b2 - 128))) (utf8_decode r2)
            else None
        | _ => None
        end
      else if (240 <=? b0) && (b0 <=? 244) then
        match r with
        | b1 :: b2 :: b3 :: r3 =>
            if ((if b0 =? 240 then 144 else 128) <=? b1)
               && (b1 <=? (if b0 =? 244 then 143 else 191)) && is_cont b2 && is_cont b3
            then option_map (cons ((b0 - 240) * 262144 + (b1 - 128) * 4096 + (b2 - 128) * 64 + (b3 - 128)))
                            (utf8_decode r3)
            else None
        | _ => None
        end
      else None
  end.

Definition utf8_valid (s : list N) : bool :=
  match utf8_decode s with Some _ => true | None => false end.

(* char::is_control (general category Cc) *)
Definition is_control (c : N) : bool := (c <=? 31) || ((127 <=? c) && (c <=? 159)).

(* char::is_whitespace (property White_Space) *)
Definition is_whitespace (c : N) : bool :=
  ((9 <=? c) && (c <=? 13)) || (c =? 32) || (c =? 133) || (c =? 160) || (c =? 5760) ||
  ((8192 <=? c) && (c <=? 8202)) || (c =? 8232) || (c =? 8233) || (c =? 8239) || (c =? 8287) ||
  (c =? 12288).

(* <Alias as FromStr>::from_str(..).is_ok() (on valid UTF-8) *)
Definition alias_valid (s : list N) : bool :=
  match utf8_decode s with
  | Some cps =>
      negb (len s =? 0)
      && forallb (fun c => negb (is_control c || is_whitespace c)) cps
      && (len s <=? MAX_ALIAS_LENGTH)
  | None => false
  end.

(* str::split(sep) on bytes ('/' and ':' are ASCII, so byte and char splitting agree) *)
Fixpoint split_on (sep : N) (cur : list N) (inp : list N) : list (list N) :=
  match inp with
  | [] => [rev cur]
  | b :: r => if b =? sep then rev cur :: split_on sep [] r else split_on sep (b :: cur) r
  end.

(* str::split_once(sep) *)
Fixpoint split_once (sep : N) (acc : list N) (inp : list N) : option (list N * list N) :=
  match inp with
  | [] => None
  | b :: r => if b =? sep then Some (rev acc, r) else split_once sep (b :: acc) r
  end.

Definition is_nil {A} (l : list A) : bool := match l with [] => true | _ => false end.

(* `c.is_ascii_graphic() && !reserved.contains(&c)` *)
Definition client_char (b : N) : bool :=
  (33 <=? b) && (b <=? 126) && negb (b =? 47) && negb (b =? 58).

(* the closure of `s.split('/').all(..)`; the version part is only required to be
   non-empty: its character test `c.is_ascii_graphic() || !reserved.contains(&c)` is
   true of every character, as written in the code *)
Definition segment_ok (seg : list N) : bool :=
  match split_once 58 [] seg with
  | Some (client, version) =>
      negb (is_nil client) && negb (is_nil version) && forallb client_char client
  | None => true
  end.

(* <UserAgent as FromStr>::from_str(..).is_ok() (on valid UTF-8) *)
Definition agent_valid (s : list N) : bool :=
  (len s <=? MAX_AGENT_LENGTH) &&
  match s with
  | 47 :: t =>
      match rev t with
      | 47 :: m' => let mid := rev m' in
                    negb (is_nil mid) && forallb segment_ok (split_on 47 [] mid)
      | _ => false
      end
  | _ => false
  end.

(* OnionAddrV3::from_raw_bytes involves SHA3-256: its verdicts are observed on the real
   code and passed to the model as the list of accepted 35-byte strings *)
Definition onion_tbl (valid : list (list N)) (raw : list N) : bool :=
  existsb (fun v => list_eqb N.eqb v raw) valid.

(* ------------------------------------------------------------------ the Refs codec of wire.rs *)
(* covers: crates/radicle-node/src/wire.rs::{<Refs as Encode>::encode, <Refs as Decode>::decode}.
   storage::refs::Refs = BTreeMap<git::RefString, Oid>: modelled as an association list kept
   sorted by the byte-lexicographic order of the names (RefString derives Ord from String).
   NOT part of any Message (no message carries Refs / SignedRefs); modelled to answer whether
   this codec is canonical: it is not (C15_refs_codec_not_canonical). *)

Fixpoint bytes_ltb (a b : list N) : bool :=
  match a, b with
  | [], [] => false
  | [], _ :: _ => true
  | _ :: _, [] => false
  | x :: a', y :: b' => if x <? y then true else if y <? x then false else bytes_ltb a' b'
  end.

Definition refs_map := list (list N * list N).

(* BTreeMap::insert: replaces the value of an existing key *)
Fixpoint refs_insert (k v : list N) (m : refs_map) : refs_map :=
  match m with
  | [] => [(k, v)]
  | (k', v') :: m' =>
      if list_eqb N.eqb k k' then (k, v) :: m'
      else if bytes_ltb k k' then (k, v) :: m
      else (k', v') :: refs_insert k v m'
  end.

(* <Refs as Encode>::encode: `self.len().try_into()` (Err above u16::MAX: serialize panics),
   then name (string) and oid of every entry in key order *)
Definition enc_refs (m : refs_map) : option (list N) :=
  if len m <=? 65535
  then enc_vec (fun kv => obind (enc_str (fst kv)) (fun s => Some (s ++ enc_oid (snd kv)))) m
  else None.

Section RefsCodec.
  (* String::from_utf8(..).is_ok(), git::RefString::try_from(..).is_ok() *)
  Variable utf8_ok ref_ok : list N -> bool.

  Fixpoint dec_refs_n (n : nat) (acc : refs_map) (inp : list N) : res refs_map :=
    match n with
    | O => ROk acc inp
    | S n' =>
        bind (dec_string utf8_ok inp) (fun name r =>
          if ref_ok name
          then bind (dec_oid r) (fun o r' => dec_refs_n n' (refs_insert name o acc) r')
          else RErr XInvalidRefName)
    end.

  (* <Refs as Decode>::decode *)
  Definition dec_refs (inp : list N) : res refs_map :=
    bind (dec_be 2 inp) (fun l r => dec_refs_n (N.to_nat l) [] r).

  Inductive refs_result := RefsOk (m : refs_map) | RefsErr (e : merr).

  (* wire::deserialize::<Refs> *)
  Definition decode_refs (bs : list N) : refs_result :=
    match dec_refs bs with
    | ROk m [] => RefsOk m
    | ROk _ (_ :: _) => RefsErr XUnexpectedBytes
    | RErr e => RefsErr e
    end.
End RefsCodec.

(* ------------------------------------------------------------------ boolean equalities *)

Definition bytes_eqb : list N -> list N -> bool := list_eqb N.eqb.

Definition host_eqb (a b : host) : bool :=
  match a, b with
  | HIp4 x, HIp4 y | HIp6 x, HIp6 y | HDns x, HDns y | HOnion x, HOnion y => bytes_eqb x y
  | _, _ => false
  end.

Definition addr_eqb (a b : address) : bool :=
  host_eqb (a_host a) (a_host b) && (a_port a =? a_port b).

Definition refs_at_eqb (a b : refs_at) : bool :=
  bytes_eqb (ra_remote a) (ra_remote b) && bytes_eqb (ra_at a) (ra_at b).

Definition node_ann_eqb (a b : node_ann) : bool :=
  (na_version a =? na_version b) && (na_features a =? na_features b) &&
  (na_timestamp a =? na_timestamp b) && bytes_eqb (na_alias a) (na_alias b) &&
  list_eqb addr_eqb (na_addresses a) (na_addresses b) && (na_nonce a =? na_nonce b) &&
  bytes_eqb (na_agent a) (na_agent b).

Definition ann_eqb (a b : ann_msg) : bool :=
  match a, b with
  | AInventory i t, AInventory i' t' => list_eqb bytes_eqb i i' && (t =? t')
  | ANode x, ANode y => node_ann_eqb x y
  | ARefs r l t, ARefs r' l' t' => bytes_eqb r r' && list_eqb refs_at_eqb l l' && (t =? t')
  | _, _ => false
  end.

Definition message_eqb (a b : message) : bool :=
  match a, b with
  | MSubscribe f s u, MSubscribe f' s' u' => bytes_eqb f f' && (s =? s') && (u =? u')
  | MAnnouncement n g m, MAnnouncement n' g' m' => bytes_eqb n n' && bytes_eqb g g' && ann_eqb m m'
  | MInfo (IRefsAlreadySynced r a), MInfo (IRefsAlreadySynced r' a') => bytes_eqb r r' && bytes_eqb a a'
  | MPing p z, MPing p' z' => (p =? p') && (z =? z')
  | MPong z, MPong z' => z =? z'
  | _, _ => false
  end.

Definition merr_eqb (a b : merr) : bool :=
  match a, b with
  | XEof, XEof | XUtf8, XUtf8 | XInvalidAlias, XInvalidAlias | XInvalidUserAgent, XInvalidUserAgent
  | XInvalidOnion, XInvalidOnion | XUnexpectedBytes, XUnexpectedBytes
  | XInvalidRefName, XInvalidRefName => true
  | XInvalidSize e x, XInvalidSize e' x' => (e =? e') && (x =? x')
  | XInvalidFilterSize x, XInvalidFilterSize y | XInvalidTimestamp x, XInvalidTimestamp y
  | XUnknownAddressType x, XUnknownAddressType y | XUnknownMessageType x, XUnknownMessageType y
  | XUnknownInfoType x, XUnknownInfoType y => x =? y
  | _, _ => false
  end.

Definition dresult_eqb (a b : dresult) : bool :=
  match a, b with
  | DecOk m, DecOk m' => message_eqb m m'
  | DecErr e, DecErr e' => merr_eqb e e'
  | _, _ => false
  end.

Definition eres_eqb (a b : eres) : bool :=
  match a, b with
  | EBytes x, EBytes y => bytes_eqb x y
  | EStrTooLong, EStrTooLong | ETooBig, ETooBig => true
  | _, _ => false
  end.

(* ------------------------------------------------------------------ correspondence interface *)

(* run-length helper for item lists in generated case files *)
Definition rptl {A} (n : N) (x : A) : list A := repeat x (N.to_nat n).
(* [n] copies of the byte pattern [p] *)
Definition rptb (n : N) (p : list N) : list N := concat (repeat p (N.to_nat n)).

Inductive case :=
| CEnc (m : message)                              (* Message::encode into a Vec / wire::serialize *)
| CDec (bs : list N) (onions : list (list N))     (* wire::deserialize::<Message>(bs); onions = the 35-byte
                                                     windows of bs accepted by OnionAddrV3::from_raw_bytes *)
| CStr (kind : N) (s : list N)                    (* 0: String::from_utf8, 1: Alias::from_str, 2: UserAgent::from_str
                                                     (1 and 2 on valid UTF-8 only) *)
| CRefs (bs : list N) (names : list (list N))     (* wire::deserialize::<Refs>(bs); names = the candidate
                                                     names of bs accepted by git::RefString::try_from *)
| CConsts.                                        (* the compiled constants *)

Inductive obs :=
| OEnc (r : eres)
| ODec (r : dresult)
| OStr (b : bool)
| ORefs (r : refs_result)
| OConsts (scalars : list N) (filter_sizes : list N) (default_agent : list N).

Definition consts_scalars : list N :=
  [SIZE_MAX; MESSAGE_MAX_SIZE; INVENTORY_LIMIT; REF_REMOTE_LIMIT; ADDRESS_LIMIT; MAX_ALIAS_LENGTH;
   MAX_AGENT_LENGTH; MAX_PING_ZEROES; MAX_PONG_ZEROES; TIMESTAMP_MAX; OID_LEN; PUBKEY_LEN;
   SIGNATURE_LEN; ONION_RAW_LEN].

Definition run (c : case) : obs :=
  match c with
  | CEnc m => OEnc (encode_res m)
  | CDec bs onions => ODec (decode utf8_valid alias_valid agent_valid (onion_tbl onions) bs)
  | CStr k s => OStr (match k with 0 => utf8_valid s | 1 => alias_valid s | _ => agent_valid s end)
  | CRefs bs names => ORefs (decode_refs utf8_valid (onion_tbl names) bs)
  | CConsts => OConsts consts_scalars FILTER_SIZES DEFAULT_AGENT
  end.

Definition refs_result_eqb (a b : refs_result) : bool :=
  match a, b with
  | RefsOk m, RefsOk m' => list_eqb (prod_eqb bytes_eqb bytes_eqb) m m'
  | RefsErr e, RefsErr e' => merr_eqb e e'
  | _, _ => false
  end.

Definition obs_eqb (a b : obs) : bool :=
  match a, b with
  | OEnc x, OEnc y => eres_eqb x y
  | ODec x, ODec y => dresult_eqb x y
  | OStr x, OStr y => Bool.eqb x y
  | ORefs x, ORefs y => refs_result_eqb x y
  | OConsts s f d, OConsts s' f' d' => bytes_eqb s s' && bytes_eqb f f' && bytes_eqb d d'
  | _, _ => false
  end.

Definition check_case (ce : case * obs) : bool := obs_eqb (run (fst ce)) (snd ce).
