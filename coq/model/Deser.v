(* Deser.v — executable model of the stream deserializer and of the loop that
   feeds it, plus the correspondence interface of C14.
   covers: crates/radicle-node/src/deserializer.rs::{Deserializer::new, input,
           deserialize_next}; crates/radicle-node/src/bounded.rs::{BoundedVec::with_capacity,
           extend_from_slice (the bound check), drain};
           crates/radicle-node/src/wire/protocol.rs::Wire::received (only the shape of the
           loop: `inbox.input(&data)`, error => disconnect, then `deserialize_next` until
           `Ok(None)` or `Err`)
   sites: Deserializer::new `expect("capacity exceeds maximum")` (NewPanic).
   The buffer `unparsed` is the list of bytes received and not yet consumed; its
   amortised growth inside `input` (Vec::extend_from_slice) is not modelled: the
   allocation output is that of *decoding*.  No proofs in this file. *)
From HW Require Import lib.Base model.WireVarint model.WireFrame.
Local Open Scope N_scope.

(* Deserializer::new(capacity) for the bound B: None is the `expect` panic *)
Definition deser_new (B capacity : N) : option (list N) :=
  if capacity <=? B then Some [] else None.

(* Deserializer::input: None is Err(bounded::Error::InvalidSize) *)
Definition deser_input (B : N) (buf bytes : list N) : option (list N) :=
  if B <? len buf + len bytes then None else Some (buf ++ bytes).

Section Deser.
  Context {M : Type}.
  Variable inner_decode : list N -> ires M.

  (* outcome of one deserialize_next call *)
  Inductive next :=
  | NFrame (f : frame M)        (* Ok(Some(frame)) *)
  | NNone                       (* Ok(None): incomplete *)
  | NErr (e : werr)             (* Err(e) *)
  | NPanic                      (* VarInt::decode unreachable!{} *)
  | NFuel.

  (* Deserializer::deserialize_next: new buffer, outcome, allocation requests.
     On success the consumed prefix is drained: what remains is what the cursor
     had not read. *)
  Definition deserialize_next (buf : list N) : list N * next * list N :=
    match frame_decode inner_decode buf with
    | (DOk f rest, al) => (rest, NFrame f, al)
    | (DEof, al) => (buf, NNone, al)
    | (DErr e, al) => (buf, NErr e, al)
    | (DUnreachable, al) => (buf, NPanic, al)
    | (DFuel, al) => (buf, NFuel, al)
    end.

  (* one observable step of the receive loop; [recv] = bytes received so far *)
  Inductive event :=
  | EvNext (recv : N) (n : next) (allocs : list N)   (* a deserialize_next call *)
  | EvOverflow (recv : N).                           (* input() refused: disconnect *)

  (* `loop { match inbox.deserialize_next() { Ok(Some) => .., Ok(None) => break, Err => disconnect } }`
     returns the events, the buffer, and whether the connection goes on *)
  Fixpoint drain (fuel : nat) (recv : N) (buf : list N) : list event * list N * bool :=
    match fuel with
    | O => ([EvNext recv NFuel []], buf, false)
    | S fuel' =>
        match deserialize_next buf with
        | (buf', NFrame f, al) =>
            let '(evs, b, go) := drain fuel' recv buf' in
            (EvNext recv (NFrame f) al :: evs, b, go)
        | (buf', NNone, al) => ([EvNext recv NNone al], buf', true)
        | (buf', n, al) => ([EvNext recv n al], buf', false)
        end
    end.

  (* feed the chunks one after the other, draining after each *)
  Fixpoint feed (B : N) (recv : N) (buf : list N) (chunks : list (list N))
    : list event * list N :=
    match chunks with
    | [] => ([], buf)
    | c :: cs =>
        let recv' := recv + len c in
        match deser_input B buf c with
        | None => ([EvOverflow recv'], buf)
        | Some buf1 =>
            let '(evs, buf2, go) := drain (S (length buf1)) recv' buf1 in
            if go then
              let '(evs', buf3) := feed B recv' buf2 cs in (evs ++ evs', buf3)
            else (evs, buf2)
        end
    end.

  (* the frames delivered, in order *)
  Fixpoint frames_of (evs : list event) : list (frame M) :=
    match evs with
    | [] => []
    | EvNext _ (NFrame f) _ :: evs' => f :: frames_of evs'
    | _ :: evs' => frames_of evs'
    end.

  (* no error, panic or overflow event *)
  Definition event_clean (e : event) : bool :=
    match e with
    | EvNext _ (NFrame _) _ | EvNext _ NNone _ => true
    | _ => false
    end.
End Deser.
Arguments NFrame {M} f.
Arguments NNone {M}.
Arguments NErr {M} e.
Arguments NPanic {M}.
Arguments NFuel {M}.
Arguments EvNext {M} recv n allocs.
Arguments EvOverflow {M} recv.

(* ------------------------------------------------------------------ *)
(* Correspondence interface (C14).  The gossip message type is instantiated by
   message identifiers: the harness observes what the real inner decoder
   (`Message::decode`) does on every payload it is given and passes that table in;
   likewise `wire::serialize(msg)` for the encoder. *)

Definition bytes_eqb := list_eqb N.eqb.

Fixpoint tab_decode (tab : list (list N * ires N)) (p : list N) : ires N :=
  match tab with
  | [] => IErr 999                       (* not observed: never matches an observation *)
  | (q, r) :: tab' => if bytes_eqb p q then r else tab_decode tab' p
  end.

Fixpoint tab_encode (tab : list (N * list N)) (m : N) : list N :=
  match tab with
  | [] => []
  | (k, b) :: tab' => if m =? k then b else tab_encode tab' m
  end.

Inductive case :=
| CConsts
| CVarDec (inp : list N)
| CVarEnc (x : N)
| CPayDec (inp : list N)
| CPayEnc (p : list N)
| CFrameEnc (etab : list (N * list N)) (f : frame N)
| CStream (dtab : list (list N * ires N)) (B capacity : N) (chunks : list (list N)).

(* a decode result reduced to value + number of bytes consumed *)
Inductive dobs (A : Type) :=
| OOk (a : A) (consumed : N)
| OEof
| OErr (e : werr)
| OPanic.
Arguments OOk {A} a consumed.
Arguments OEof {A}.
Arguments OErr {A} e.
Arguments OPanic {A}.

Definition dobs_of {A} (inp : list N) (r : dres A) : dobs A :=
  match r with
  | DOk a rest => OOk a (len inp - len rest)
  | DEof => OEof
  | DErr e => OErr e
  | DUnreachable | DFuel => OPanic
  end.

Inductive obs :=
| OConsts (version : list N) (varint_max read_ahead : N)
| OVarDec (r : dobs N)
| OBytes (r : option (list N))                     (* None: panic / encode error *)
| OPayDec (r : dobs (list N)) (allocs : list N)
| OStream (new_ok : bool) (evs : list (event (M:=N))) (buffered : N).

Definition run (c : case) : obs :=
  match c with
  | CConsts => OConsts VERSION_BYTES VARINT_MAX READ_AHEAD
  | CVarDec inp => OVarDec (dobs_of inp (varint_decode inp))
  | CVarEnc x => OBytes (varint_encode x)
  | CPayDec inp => let '(r, al) := payload_decode inp in OPayDec (dobs_of inp r) al
  | CPayEnc p => OBytes (payload_encode p)
  | CFrameEnc etab f => OBytes (frame_encode (tab_encode etab) f)
  | CStream dtab B capacity chunks =>
      match deser_new B capacity with
      | None => OStream false [] 0
      | Some buf0 =>
          let '(evs, buf) := feed (tab_decode dtab) B 0 buf0 chunks in
          OStream true evs (len buf)
      end
  end.

Definition werr_eqb (a b : werr) : bool :=
  match a, b with
  | EInvalidVersion, EInvalidVersion => true
  | EWrongVersion x, EWrongVersion y => x =? y
  | EInvalidStreamKind x, EInvalidStreamKind y => x =? y
  | EInvalidControl x, EInvalidControl y => x =? y
  | ETruncatedInner, ETruncatedInner => true
  | EInner x, EInner y => x =? y
  | _, _ => false
  end.

Definition dobs_eqb {A} (eqb : A -> A -> bool) (a b : dobs A) : bool :=
  match a, b with
  | OOk x n, OOk y m => eqb x y && (n =? m)
  | OEof, OEof => true
  | OErr e, OErr e' => werr_eqb e e'
  | OPanic, OPanic => true
  | _, _ => false
  end.

Definition control_eqb (a b : control) : bool :=
  match a, b with
  | COpen x, COpen y | CClose x, CClose y | CEof x, CEof y => x =? y
  | _, _ => false
  end.

Definition frame_eqb (a b : frame N) : bool :=
  (f_stream a =? f_stream b) &&
  match f_data a, f_data b with
  | FControl x, FControl y => control_eqb x y
  | FGossip x, FGossip y => x =? y
  | FGit x, FGit y => bytes_eqb x y
  | _, _ => false
  end.

Definition next_eqb (a b : next (M:=N)) : bool :=
  match a, b with
  | NFrame x, NFrame y => frame_eqb x y
  | NNone, NNone => true
  | NErr x, NErr y => werr_eqb x y
  | NPanic, NPanic => true
  | _, _ => false
  end.

Definition event_eqb (a b : event (M:=N)) : bool :=
  match a, b with
  | EvNext r n al, EvNext r' n' al' => (r =? r') && next_eqb n n' && list_eqb N.eqb al al'
  | EvOverflow r, EvOverflow r' => r =? r'
  | _, _ => false
  end.

Definition obs_eqb (x y : obs) : bool :=
  match x, y with
  | OConsts v m r, OConsts v' m' r' => bytes_eqb v v' && (m =? m') && (r =? r')
  | OVarDec a, OVarDec b => dobs_eqb N.eqb a b
  | OBytes a, OBytes b => option_eqb bytes_eqb a b
  | OPayDec a al, OPayDec b bl => dobs_eqb bytes_eqb a b && list_eqb N.eqb al bl
  | OStream k e n, OStream k' e' n' => Bool.eqb k k' && list_eqb event_eqb e e' && (n =? n')
  | _, _ => false
  end.

Definition check_case (ce : case * obs) : bool := obs_eqb (run (fst ce)) (snd ce).
