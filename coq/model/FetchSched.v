(* FetchSched.v — executable model of the fetch-scheduling part of
   radicle-node's Service (no proofs here).

   covers: radicle-node/src/service.rs::fetch, ::_fetch, ::fetch_refs_at,
             ::queue_fetch, ::try_fetch, ::fetched (AFTER the fix that ignores a
             result whose `remote` is not `fetching.from`), ::dequeue_fetches,
             ::connected, ::disconnected, ::attempted, ::connect, ::reconnect,
             ::maintain_persistent, the `Command::Fetch` / `Command::Connect`
             arms of ::command, the session-state prelude of ::handle_message
             (Disconnected => ignore, Initial/Attempted => to_connected), the
             refs-announcement arm of ::handle_announcement (-> fetch_refs_at),
             ::refs_status_of / message.rs::RefsStatus (the `want` filter),
             ::wake (idle task -> dequeue_fetches; maintain_persistent);
           radicle-node/src/service/session.rs (all of it that touches
             scheduling): Session::{outbound, inbound, is_connected,
             is_at_capacity, is_fetching, queue_fetch, dequeue_fetch, fetching,
             fetched, to_attempted, to_connected (AFTER the fix that keeps the
             fetching set of an already connected session), to_disconnected,
             to_initial},
             QueuedFetch::eq, MAX_FETCH_QUEUE_SIZE;
           radicle-node/src/service/io.rs::Outbox::fetch;
           radicle-node/src/wire/protocol.rs::worker_result (the nid-keyed
             forwarding decision is the input [fwd] of [EResult]),
             the Io::Connect arm of Wire::next (service.attempted is called
             unless the wire already holds a connected peer with that nid:
             input [att]).
   sites (explicit Panic results, never totalised):
     session.rs Session::fetching   assert!(fetching.insert(rid))        SiteSessionAlreadyFetching
     session.rs Session::fetching   panic!("... disconnected session")   SiteSessionFetchNotConnected
     session.rs Session::queue_fetch assert_eq!(fetch.from, self.id)     SiteQueueFetchFrom
     session.rs Session::to_attempted assert!(self.is_initial())         SiteToAttemptedNotInitial
     session.rs Session::to_initial  assert!(self.is_disconnected())     SiteToInitialNotDisconnected
     service.rs Service::attempted  #[cfg(debug_assertions)] panic!      SiteAttemptedUnknownSession (debug only)
     service.rs Service::try_fetch  debug_assert!(!session.is_fetching)  SiteTryFetchIsFetching      (debug only)
   (service.rs Service::fetched  debug_assert_eq!(fetching.from, remote) was
    removed by the fix: the comparison is now a guard.)

   Identifiers (node ids, repo ids, refs, subscriber channels) are N.
   `sessions.shuffled()` in dequeue_fetches: the visiting order is the explicit
   input [ord] of every event that dequeues.
   Not modelled (no influence on the scheduling state): gossip relay, routing
   and address tables, pings, rate limiter, inventory announcements after a
   successful fetch, the outbound connection limit of Service::connect,
   Service::maintain_connections (it only calls Service::connect, i.e. it is an
   [EConnect _ false _] event), fetch_missing_repositories and the inventory
   announcement arm (both only call Service::fetch, i.e. [EFetch _ _ None]).

   GHOST state (not in the Rust code): a unique instance id attached to every
   emitted Io::Fetch / fetching entry, the set of worker instances whose result
   has not been produced yet, and a per-peer epoch counting the disconnections
   of that peer that the service acted upon. *)
From HW Require Import lib.Base lib.SMap.
Local Open Scope N_scope.

(* ------------------------------------------------------------------ *)
(* Panic monad *)

Inductive site :=
| SiteSessionAlreadyFetching
| SiteSessionFetchNotConnected
| SiteQueueFetchFrom
| SiteToAttemptedNotInitial
| SiteToInitialNotDisconnected
| SiteAttemptedUnknownSession
| SiteTryFetchIsFetching.

Inductive res (A : Type) := Ret (a : A) | Panic (s : site).
Arguments Ret {A} a.
Arguments Panic {A} s.

Definition bind {A B} (x : res A) (f : A -> res B) : res B :=
  match x with Ret a => f a | Panic s => Panic s end.
Notation "x <- e ;; k" := (bind e (fun x => k))
  (at level 61, e at next level, right associativity).

(* ------------------------------------------------------------------ *)
(* Data *)

Inductive link := Inbound | Outbound.
Definition link_eqb (a b : link) : bool :=
  match a, b with Inbound, Inbound | Outbound, Outbound => true | _, _ => false end.

(* session::State; Connected carries the `fetching: HashSet<RepoId>` *)
Inductive sstate := Initial | Attempted | Connected (fs : sset) | Disconnected.

(* session::QueuedFetch (timeout omitted; channel = subscriber id) *)
Record qfetch := mkQ { q_rid : N; q_from : N; q_refs : list N; q_sub : option N }.

Record session := mkS { s_link : link; s_state : sstate; s_queue : list qfetch }.

(* service::FetchState + ghost instance id *)
Record fstate := mkF { f_from : N; f_refs : list N; f_subs : list N; f_inst : N }.

(* limits.fetch_concurrency, session::MAX_FETCH_QUEUE_SIZE *)
Record config := mkCfg { fetch_concurrency : N; max_queue : N }.

Inductive result := ROk | RErr | RTimeout.

(* what a Command::Fetch subscriber receives *)
Inductive notif :=
| NResult (i : N) (r : result)     (* result of worker instance i *)
| NDisconnected                    (* "disconnected: ..." *)
| NFailed.                         (* immediate failure (session not connected) *)

Inductive out :=
| OFetch (rid nid : N) (refs : list N) (inst : N)     (* Io::Fetch *)
| OConnect (nid : N)                                  (* Io::Connect *)
| ODisconnect (nid : N)                               (* Io::Disconnect(_, Fetch(timeout)) *)
| ONotify (sub : N) (n : notif)
(* ghost: result of instance [inst] (a fetch of rid from nid) completed the
   fetching entry that belongs to instance [entry_inst], fetched from [entry_from] *)
| OApplied (inst rid nid entry_inst entry_from : N).

Record state := mkSt {
  sessions : smap session;
  fetching : smap fstate;
  persistent : sset;              (* config.connect *)
  seeded : sset;                  (* repos with an Allow seeding policy *)
  stored : list (N * N);          (* (rid, ref) pairs the refs db already has *)
  (* ghost *)
  next_inst : N;
  inflight : smap (N * N * N);    (* inst -> (rid, nid, epoch of nid at emission) *)
  epochs : smap N;
  (* everything emitted so far, in order *)
  outs : list out
}.

Definition init : state := mkSt [] [] [] [] [] 0 [] [] [].

Definition set_sessions (st : state) (v : smap session) : state :=
  mkSt v (fetching st) (persistent st) (seeded st) (stored st) (next_inst st) (inflight st) (epochs st) (outs st).
Definition set_fetching (st : state) (v : smap fstate) : state :=
  mkSt (sessions st) v (persistent st) (seeded st) (stored st) (next_inst st) (inflight st) (epochs st) (outs st).
Definition emit (o : out) (st : state) : state :=
  mkSt (sessions st) (fetching st) (persistent st) (seeded st) (stored st) (next_inst st) (inflight st) (epochs st) (outs st ++ [o]).
Definition emits (os : list out) (st : state) : state :=
  mkSt (sessions st) (fetching st) (persistent st) (seeded st) (stored st) (next_inst st) (inflight st) (epochs st) (outs st ++ os).

Definition epoch_of (st : state) (n : N) : N :=
  match lookup n (epochs st) with Some e => e | None => 0 end.

Definition lenN {A} (l : list A) : N := N.of_nat (length l).

Definition sset_remove (k : N) (s : sset) : sset := remove k s.

(* ------------------------------------------------------------------ *)
(* session.rs *)

Definition is_connected (s : session) : bool :=
  match s_state s with Connected _ => true | _ => false end.

Definition is_at_capacity (cfg : config) (s : session) : bool :=
  match s_state s with
  | Connected fs => fetch_concurrency cfg <=? lenN fs
  | _ => false
  end.

Definition is_fetching (s : session) (r : N) : bool :=
  match s_state s with Connected fs => sset_mem r fs | _ => false end.

Definition with_state (s : session) (x : sstate) : session := mkS (s_link s) x (s_queue s).
Definition with_queue (s : session) (q : list qfetch) : session := mkS (s_link s) (s_state s) q.

(* Session::fetching *)
Definition session_fetching (s : session) (r : N) : res session :=
  match s_state s with
  | Connected fs =>
      if sset_mem r fs then Panic SiteSessionAlreadyFetching
      else Ret (with_state s (Connected (sset_add r fs)))
  | _ => Panic SiteSessionFetchNotConnected
  end.

(* Session::fetched *)
Definition session_fetched (s : session) (r : N) : session :=
  match s_state s with
  | Connected fs => with_state s (Connected (sset_remove r fs))
  | _ => s
  end.

Definition is_none {A} (o : option A) : bool := match o with None => true | Some _ => false end.

(* QueuedFetch::eq: channels must both be None *)
Definition qeq (a b : qfetch) : bool :=
  N.eqb (q_rid a) (q_rid b) && N.eqb (q_from a) (q_from b) &&
  list_eqb N.eqb (q_refs a) (q_refs b) && is_none (q_sub a) && is_none (q_sub b).

(* Session::queue_fetch; [key] is the session's id.  A refused fetch
   (capacity / duplicate) is dropped together with its channel. *)
Definition session_queue_fetch (cfg : config) (key : N) (s : session) (q : qfetch) : res session :=
  if negb (N.eqb (q_from q) key) then Panic SiteQueueFetchFrom
  else if max_queue cfg <=? lenN (s_queue s) then Ret s
  else if existsb (fun x => qeq x q) (s_queue s) then Ret s
  else Ret (with_queue s (s_queue s ++ [q])).

(* Session::to_connected (after the fix): a session that is already connected
   keeps its fetching set; otherwise the set starts empty *)
Definition to_connected (s : session) : session :=
  with_state s (Connected (match s_state s with Connected fs => fs | _ => [] end)).

Definition to_attempted (s : session) : res session :=
  match s_state s with
  | Initial => Ret (with_state s Attempted)
  | _ => Panic SiteToAttemptedNotInitial
  end.

Definition to_initial (s : session) : res session :=
  match s_state s with
  | Disconnected => Ret (with_state s Initial)
  | _ => Panic SiteToInitialNotDisconnected
  end.

(* ------------------------------------------------------------------ *)
(* service.rs *)

Inductive tf := TFStarted | TFAlready (f : fstate) | TFCapacity | TFNotConnected.

(* Service::try_fetch + Outbox::fetch *)
Definition try_fetch (cfg : config) (st : state) (r from : N) (refs : list N) : res (tf * state) :=
  match lookup from (sessions st) with
  | None => Ret (TFNotConnected, st)
  | Some s =>
      match lookup r (fetching st) with
      | Some f => Ret (TFAlready f, st)
      | None =>
          if is_fetching s r then Panic SiteTryFetchIsFetching
          else if negb (is_connected s) then Ret (TFNotConnected, st)
          else if is_at_capacity cfg s then Ret (TFCapacity, st)
          else
            s' <- session_fetching s r ;;
            let i := next_inst st in
            Ret (TFStarted,
                 mkSt (insert from s' (sessions st))
                      (insert r (mkF from refs [] i) (fetching st))
                      (persistent st) (seeded st) (stored st)
                      (i + 1)
                      (insert i (r, from, epoch_of st from) (inflight st))
                      (epochs st)
                      (outs st ++ [OFetch r from refs i]))
      end
  end.

(* FetchState::subscribe (same_channel de-duplication) *)
Definition subscribe (sub : option N) (f : fstate) : fstate :=
  match sub with
  | None => f
  | Some c => if memN c (f_subs f) then f else mkF (f_from f) (f_refs f) (f_subs f ++ [c]) (f_inst f)
  end.

Definition subscribe_at (st : state) (r : N) (sub : option N) : state :=
  match lookup r (fetching st) with
  | Some f => set_fetching st (insert r (subscribe sub f) (fetching st))
  | None => st
  end.

(* Service::queue_fetch *)
Definition queue_fetch (cfg : config) (st : state) (q : qfetch) : res state :=
  match lookup (q_from q) (sessions st) with
  | None => Ret st
  | Some s =>
      s' <- session_queue_fetch cfg (q_from q) s q ;;
      Ret (set_sessions st (insert (q_from q) s' (sessions st)))
  end.

(* Service::_fetch *)
Definition fetch_ (cfg : config) (st : state) (r from : N) (refs : list N) (sub : option N) : res state :=
  x <- try_fetch cfg st r from refs ;;
  let st1 := snd x in
  match fst x with
  | TFStarted => Ret (subscribe_at st1 r sub)
  | TFAlready f =>
      if N.eqb (f_from f) from && list_eqb N.eqb (f_refs f) refs
      then Ret (subscribe_at st1 r sub)
      else queue_fetch cfg st1 (mkQ r from refs sub)
  | TFCapacity => queue_fetch cfg st1 (mkQ r from refs sub)
  | TFNotConnected =>
      match sub with
      | Some c => Ret (emit (ONotify c NFailed) st1)
      | None => Ret st1
      end
  end.

Definition is_stored (st : state) (r x : N) : bool :=
  existsb (fun p => N.eqb (fst p) r && N.eqb (snd p) x) (stored st).

(* Service::fetch_refs_at with Scope::All: want = refs not in the refs db *)
Definition fetch_refs_at (cfg : config) (st : state) (r from : N) (refs : list N) (sub : option N) : res state :=
  match filter (fun x => negb (is_stored st r x)) refs with
  | [] => Ret st
  | want => fetch_ cfg st r from want sub
  end.

(* one iteration of the loop in Service::dequeue_fetches *)
Definition dequeue_one (cfg : config) (st : state) (n : N) : res state :=
  match lookup n (sessions st) with
  | None => Ret st
  | Some s =>
      if negb (is_connected s) || is_at_capacity cfg s then Ret st
      else match s_queue s with
           | [] => Ret st
           | q :: rest =>
               let st1 := set_sessions st (insert n (with_queue s rest) (sessions st)) in
               match q_refs q with
               | [] => fetch_ cfg st1 (q_rid q) (q_from q) [] (q_sub q)
               | _ => if sset_mem (q_rid q) (seeded st1)
                      then fetch_refs_at cfg st1 (q_rid q) (q_from q) (q_refs q) (q_sub q)
                      else Ret st1
               end
           end
  end.

(* Service::dequeue_fetches, visiting the sessions in the order [ord] *)
Fixpoint dequeue_fetches (cfg : config) (st : state) (ord : list N) : res state :=
  match ord with
  | [] => Ret st
  | n :: ord' => st1 <- dequeue_one cfg st n ;; dequeue_fetches cfg st1 ord'
  end.

(* Service::fetched (fixed).  [i] is the ghost id of the worker instance the
   result comes from. *)
Definition fetched (cfg : config) (st : state) (i r remote : N) (x : result) (ord : list N) : res state :=
  match lookup r (fetching st) with
  | None => Ret st
  | Some f =>
      if negb (N.eqb (f_from f) remote) then Ret st
      else
        let ss := match lookup remote (sessions st) with
                  | Some s => insert remote (session_fetched s r) (sessions st)
                  | None => sessions st
                  end in
        let st1 := set_fetching (set_sessions st ss) (remove r (fetching st)) in
        let st2 := emits (map (fun c => ONotify c (NResult i x)) (f_subs f)) st1 in
        let st3 := emit (OApplied i r remote (f_inst f) (f_from f)) st2 in
        let st4 := match x with RTimeout => emit (ODisconnect remote) st3 | _ => st3 end in
        dequeue_fetches cfg st4 ord
  end.

(* Service::attempted, as called by the wire when it processes Io::Connect *)
Definition attempted (st : state) (n : N) : res state :=
  match lookup n (sessions st) with
  | None => Panic SiteAttemptedUnknownSession
  | Some s => s' <- to_attempted s ;; Ret (set_sessions st (insert n s' (sessions st)))
  end.

(* Command::Connect -> Service::connect; [att]: the wire calls attempted *)
Definition connect_cmd (st : state) (n : N) (pers att : bool) : res state :=
  let st0 := if pers
             then mkSt (sessions st) (fetching st) (sset_add n (persistent st)) (seeded st) (stored st)
                       (next_inst st) (inflight st) (epochs st) (outs st)
             else st in
  match lookup n (sessions st0) with
  | Some _ => Ret st0
  | None =>
      let st1 := emit (OConnect n) (set_sessions st0 (insert n (mkS Outbound Initial []) (sessions st0))) in
      if att then attempted st1 n else Ret st1
  end.

(* Service::connected *)
Definition connected (st : state) (n : N) (l : link) : state :=
  match l with
  | Outbound =>
      match lookup n (sessions st) with
      | Some s => set_sessions st (insert n (to_connected s) (sessions st))
      | None => st
      end
  | Inbound =>
      match lookup n (sessions st) with
      | Some s => set_sessions st (insert n (to_connected (mkS Inbound (s_state s) (s_queue s))) (sessions st))
      | None => set_sessions st (insert n (mkS Inbound (Connected []) []) (sessions st))
      end
  end.

Definition from_is (n : N) (kv : N * fstate) : bool := N.eqb (f_from (snd kv)) n.

(* Service::disconnected *)
Definition disconnected (cfg : config) (st : state) (n : N) (l : link) (ord : list N) : res state :=
  match lookup n (sessions st) with
  | None => Ret st
  | Some s =>
      if negb (link_eqb (s_link s) l) then Ret st
      else
        let notes := flat_map (fun kv => if from_is n kv
                                         then map (fun c => ONotify c NDisconnected) (f_subs (snd kv))
                                         else []) (fetching st) in
        let fs := filter (fun kv => negb (from_is n kv)) (fetching st) in
        let ss := if sset_mem n (persistent st)
                  then insert n (with_state s Disconnected) (sessions st)
                  else remove n (sessions st) in
        let st1 := mkSt ss fs (persistent st) (seeded st) (stored st) (next_inst st) (inflight st)
                        (insert n (epoch_of st n + 1) (epochs st)) (outs st ++ notes) in
        dequeue_fetches cfg st1 ord
  end.

(* session-state prelude of Service::handle_message; None = message ignored *)
Definition recv_prelude (st : state) (n : N) : option state :=
  match lookup n (sessions st) with
  | None => None
  | Some s =>
      match s_state s with
      | Disconnected => None
      | Connected _ => Some st
      | Initial | Attempted => Some (set_sessions st (insert n (to_connected s) (sessions st)))
      end
  end.

(* a fresh, valid refs announcement by [announcer] received from [relayer] *)
Definition recv_refs (cfg : config) (st : state) (relayer announcer r : N) (refs : list N) : res state :=
  match recv_prelude st relayer with
  | None => Ret st
  | Some st1 =>
      match refs with
      | [] => Ret st1
      | _ =>
          if negb (sset_mem r (seeded st1)) then Ret st1
          else match lookup announcer (sessions st1) with
               | None => Ret st1
               | Some _ => fetch_refs_at cfg st1 r announcer refs None
               end
      end
  end.

(* Service::maintain_persistent + the wire's handling of the Io::Connect *)
Fixpoint reconnect_due (st : state) (due : list (N * bool)) : res state :=
  match due with
  | [] => Ret st
  | (n, att) :: due' =>
      match lookup n (sessions st) with
      | Some s =>
          if sset_mem n (persistent st) && match s_state s with Disconnected => true | _ => false end
          then s' <- to_initial s ;;
               let st1 := emit (OConnect n) (set_sessions st (insert n s' (sessions st))) in
               st2 <- (if att then attempted st1 n else Ret st1) ;;
               reconnect_due st2 due'
          else reconnect_due st due'
      | None => reconnect_due st due'
      end
  end.

(* ------------------------------------------------------------------ *)
(* Events and the step function *)

Inductive event :=
| EConnect (n : N) (pers att : bool)
| EConnected (n : N) (l : link)
| EDisconnected (n : N) (l : link) (ord : list N)
| ERecv (n : N)
| ERefs (relayer announcer rid : N) (refs : list N)
| EFetch (rid n : N) (sub : option N)
| EResult (inst : N) (x : result) (fwd : bool) (ord : list N)
| EWake (idle : bool) (due : list (N * bool)) (ord : list N)
| ESeed (rid : N) (on : bool)
| EStore (rid ref : N).

Definition step (cfg : config) (st : state) (e : event) : res state :=
  match e with
  | EConnect n pers att => connect_cmd st n pers att
  | EConnected n l => Ret (connected st n l)
  | EDisconnected n l ord => disconnected cfg st n l ord
  | ERecv n => match recv_prelude st n with Some st1 => Ret st1 | None => Ret st end
  | ERefs relayer announcer r refs => recv_refs cfg st relayer announcer r refs
  | EFetch r n sub => fetch_ cfg st r n [] sub
  | EResult i x fwd ord =>
      match lookup i (inflight st) with
      | None => Ret st
      | Some (r, n, _) =>
          let st1 := mkSt (sessions st) (fetching st) (persistent st) (seeded st) (stored st)
                          (next_inst st) (remove i (inflight st)) (epochs st) (outs st) in
          if fwd then fetched cfg st1 i r n x ord else Ret st1
      end
  | EWake idle due ord =>
      st1 <- (if idle then dequeue_fetches cfg st ord else Ret st) ;;
      reconnect_due st1 due
  | ESeed r on =>
      Ret (mkSt (sessions st) (fetching st) (persistent st)
                (if on then sset_add r (seeded st) else sset_remove r (seeded st))
                (stored st) (next_inst st) (inflight st) (epochs st) (outs st))
  | EStore r x =>
      Ret (mkSt (sessions st) (fetching st) (persistent st) (seeded st)
                ((r, x) :: stored st) (next_inst st) (inflight st) (epochs st) (outs st))
  end.

Fixpoint run_from (cfg : config) (st : state) (evs : list event) : res state :=
  match evs with
  | [] => Ret st
  | e :: evs' => st1 <- step cfg st e ;; run_from cfg st1 evs'
  end.

Definition run (cfg : config) (evs : list event) : res state := run_from cfg init evs.

(* ------------------------------------------------------------------ *)
(* The class of schedules on which the property is known to fail *)

(* KnownClass: "a worker result is delivered after its peer's session was
   re-established and a newer fetch of the same repository from that same peer
   is in flight" *)
Definition kc_step (st : state) (e : event) : bool :=
  match e with
  | EResult i _ true _ =>
      match lookup i (inflight st) with
      | Some (r, n, ep) =>
          (ep <? epoch_of st n) &&
          match lookup r (fetching st) with Some f => N.eqb (f_from f) n | None => false end
      | None => false
      end
  | _ => false
  end.

Fixpoint any_step (p : state -> event -> bool) (cfg : config) (st : state) (evs : list event) : bool :=
  match evs with
  | [] => false
  | e :: evs' =>
      p st e || match step cfg st e with
                | Ret st1 => any_step p cfg st1 evs'
                | Panic _ => false
                end
  end.

Definition known_class (cfg : config) (evs : list event) : bool := any_step kc_step cfg init evs.

(* attribution: a result completes exactly the fetch it belongs to *)
Definition applied_ok (o : out) : bool :=
  match o with OApplied i _ _ j _ => N.eqb i j | _ => true end.
(* ... and, whatever the schedule, a fetch from the same peer *)
Definition applied_same_peer (o : out) : bool :=
  match o with OApplied _ _ n _ m => N.eqb n m | _ => true end.

(* ------------------------------------------------------------------ *)
(* Correspondence interface *)

Definition state_tag (x : sstate) : N :=
  match x with Initial => 0 | Attempted => 1 | Connected _ => 2 | Disconnected => 3 end.
Definition state_fetching (x : sstate) : list N :=
  match x with Connected fs => sset_elems fs | _ => [] end.
Definition link_tag (l : link) : N := match l with Inbound => 0 | Outbound => 1 end.

(* one session as observed: (nid, link, state tag, fetching (sorted), queue) *)
Definition qobs := (N * list N * option N)%type.
Definition sobs := (N * N * N * list N * list qobs)%type.
(* one fetching entry: (rid, from, refs, subscribers in subscription order) *)
Definition fobs := (N * N * list N * list N)%type.

Definition obs_session (kv : N * session) : sobs :=
  (fst kv, link_tag (s_link (snd kv)), state_tag (s_state (snd kv)), state_fetching (s_state (snd kv)),
   map (fun q => (q_rid q, q_refs q, q_sub q)) (s_queue (snd kv))).
Definition obs_fetching (kv : N * fstate) : fobs :=
  (fst kv, f_from (snd kv), f_refs (snd kv), f_subs (snd kv)).

Inductive io := IoFetch (rid nid : N) (refs : list N) (inst : N) | IoConnect (nid : N) | IoDisconnect (nid : N).
Inductive nobs := NoResult (i : N) (r : N) | NoDisconnected | NoFailed.   (* r: 0 ok, 1 err, 2 timeout *)

Definition result_tag (x : result) : N := match x with ROk => 0 | RErr => 1 | RTimeout => 2 end.

Definition ios_of (os : list out) : list io :=
  flat_map (fun o => match o with
                     | OFetch r n refs i => [IoFetch r n refs i]
                     | OConnect n => [IoConnect n]
                     | ODisconnect n => [IoDisconnect n]
                     | _ => []
                     end) os.
Definition notifs_of (os : list out) : list (N * nobs) :=
  flat_map (fun o => match o with
                     | ONotify c (NResult i x) => [(c, NoResult i (result_tag x))]
                     | ONotify c NDisconnected => [(c, NoDisconnected)]
                     | ONotify c NFailed => [(c, NoFailed)]
                     | _ => []
                     end) os.

(* what the implementation is observed to do in one step *)
Inductive step_obs :=
| SPanic
| SOk (ios : list io)                    (* Io::Fetch / Connect / Disconnect(fetch timeout), in order *)
      (notifs : list (N * nobs))         (* subscriber results received, sorted by subscriber *)
      (ss : list sobs) (fs : list fobs). (* state after the step, sorted by key *)

Definition io_eqb (a b : io) : bool :=
  match a, b with
  | IoFetch r n refs i, IoFetch r' n' refs' i' =>
      N.eqb r r' && N.eqb n n' && list_eqb N.eqb refs refs' && N.eqb i i'
  | IoConnect n, IoConnect n' => N.eqb n n'
  | IoDisconnect n, IoDisconnect n' => N.eqb n n'
  | _, _ => false
  end.
Definition nobs_eqb (a b : nobs) : bool :=
  match a, b with
  | NoResult i r, NoResult i' r' => N.eqb i i' && N.eqb r r'
  | NoDisconnected, NoDisconnected => true
  | NoFailed, NoFailed => true
  | _, _ => false
  end.
Definition qobs_eqb : qobs -> qobs -> bool :=
  prod_eqb (prod_eqb N.eqb (list_eqb N.eqb)) (option_eqb N.eqb).
Definition sobs_eqb : sobs -> sobs -> bool :=
  prod_eqb (prod_eqb (prod_eqb (prod_eqb N.eqb N.eqb) N.eqb) (list_eqb N.eqb)) (list_eqb qobs_eqb).
Definition fobs_eqb : fobs -> fobs -> bool :=
  prod_eqb (prod_eqb (prod_eqb N.eqb N.eqb) (list_eqb N.eqb)) (list_eqb N.eqb).

(* insertion sort of notifications by subscriber id (stable) *)
Fixpoint ins_notif (x : N * nobs) (l : list (N * nobs)) : list (N * nobs) :=
  match l with
  | [] => [x]
  | y :: l' => if fst y <=? fst x then y :: ins_notif x l' else x :: l
  end.
Definition sort_notifs (l : list (N * nobs)) : list (N * nobs) := fold_left (fun acc x => ins_notif x acc) l [].

(* the outputs of the last step: the suffix of [outs] beyond the old length *)
Definition new_outs (before after : state) : list out := skipn (length (outs before)) (outs after).

Definition observe (before after : state) : step_obs :=
  let os := new_outs before after in
  SOk (ios_of os) (sort_notifs (notifs_of os)) (map obs_session (sessions after)) (map obs_fetching (fetching after)).

Definition step_obs_eqb (a b : step_obs) : bool :=
  match a, b with
  | SPanic, SPanic => true
  | SOk i n s f, SOk i' n' s' f' =>
      list_eqb io_eqb i i' && list_eqb (prod_eqb N.eqb nobs_eqb) n n' &&
      list_eqb sobs_eqb s s' && list_eqb fobs_eqb f f'
  | _, _ => false
  end.

(* all permutations of a list (the candidate visiting orders of dequeue_fetches) *)
Fixpoint insert_all (x : N) (l : list N) : list (list N) :=
  match l with
  | [] => [[x]]
  | y :: l' => (x :: l) :: map (cons y) (insert_all x l')
  end.
Fixpoint perms (l : list N) : list (list N) :=
  match l with
  | [] => [[]]
  | x :: l' => flat_map (insert_all x) (perms l')
  end.

(* the harness leaves [ord] empty; the checker tries every visiting order of
   the sessions that exist when dequeue_fetches runs *)
Definition candidates (st : state) (e : event) : list event :=
  match e with
  | EDisconnected n l _ =>
      (* dequeue runs after the session was (possibly) removed; an order over
         all current keys covers it, absent keys are skipped *)
      map (fun o => EDisconnected n l o) (perms (keys (sessions st)))
  | EResult i x fwd _ => map (fun o => EResult i x fwd o) (perms (keys (sessions st)))
  | EWake idle due _ => map (fun o => EWake idle due o) (perms (keys (sessions st)))
  | _ => [e]
  end.

Definition case := (config * list event)%type.
Definition obs := list step_obs.

Fixpoint check_steps (cfg : config) (st : state) (evs : list event) (os : list step_obs) : bool :=
  match evs, os with
  | [], [] => true
  | e :: evs', o :: os' =>
      (fix try (cs : list event) : bool :=
         match cs with
         | [] => false
         | c :: cs' =>
             match step cfg st c with
             | Panic _ => match o with
                          | SPanic => match evs' with [] => true | _ => false end
                          | _ => try cs'
                          end
             | Ret st1 =>
                 if step_obs_eqb (observe st st1) o then check_steps cfg st1 evs' os' else try cs'
             end
         end) (candidates st e)
  | _, _ => false
  end.

Definition check_case (ce : case * obs) : bool :=
  check_steps (fst (fst ce)) init (snd (fst ce)) (snd ce).
