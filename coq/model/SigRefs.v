(* SigRefs.v — executable model of the signed-refs text codec and verification (C20).
   covers: crates/radicle/src/storage/refs.rs::Refs::{canonical, from_canonical},
           crates/radicle/src/storage/refs.rs::SignedRefs::{new, verify, verified},
           crates/radicle/src/storage/refs.rs::SignedRefs::load_at (the parse-then-verify composition;
             the two blob reads are git and not modelled),
           (external, re-implemented) git-ref-format-core-0.3.1::check::ref_format (allow_onelevel, no pattern),
           libgit2 git_oid_fromstrn via git2::Oid::from_str, std BufRead::lines, core::str::from_utf8
   sites: none (no indexing / unwrap in the anchored functions)

   Bytes are N < 256.  A ref name is the byte string of a RefString, an object id
   is 20 bytes.  Refs is a BTreeMap<RefString, Oid>: a list strictly sorted by
   byte-lexicographic name order.  No proofs here. *)
From HW Require Import lib.Base.
Local Open Scope N_scope.

Definition name := list N.
Definition oid := list N.
Definition refs := list (name * oid).

(* ---------------------------------------------------------------- byte-string order (str::cmp) *)

Fixpoint bl_compare (a b : list N) : comparison :=
  match a, b with
  | [], [] => Eq
  | [], _ :: _ => Lt
  | _ :: _, [] => Gt
  | x :: a', y :: b' =>
      match N.compare x y with
      | Eq => bl_compare a' b'
      | c => c
      end
  end.

Definition bl_eqb (a b : list N) : bool := list_eqb N.eqb a b.

(* BTreeMap::insert (overwrites) *)
Fixpoint rinsert (k : name) (v : oid) (m : refs) : refs :=
  match m with
  | [] => [(k, v)]
  | (k', v') :: m' =>
      match bl_compare k k' with
      | Lt => (k, v) :: m
      | Eq => (k, v) :: m'
      | Gt => (k', v') :: rinsert k v m'
      end
  end.

Fixpoint rlookup (k : name) (m : refs) : option oid :=
  match m with
  | [] => None
  | (k', v') :: m' => if bl_eqb k k' then Some v' else rlookup k m'
  end.

(* BTreeMap::from_iter / repeated insert *)
Definition refs_of_list (l : list (name * oid)) : refs :=
  fold_left (fun m kv => rinsert (fst kv) (snd kv) m) l [].

(* ---------------------------------------------------------------- hex object ids *)

Definition hexdigit (n : N) : N := if n <? 10 then 48 + n else 87 + n.   (* 0-9 a-f *)

Fixpoint to_hex (bs : list N) : list N :=
  match bs with
  | [] => []
  | b :: bs' => hexdigit (b / 16) :: hexdigit (b mod 16) :: to_hex bs'
  end.

(* git__fromhex *)
Definition hexval (c : N) : option N :=
  if (48 <=? c) && (c <=? 57) then Some (c - 48)
  else if (97 <=? c) && (c <=? 102) then Some (c - 87)
  else if (65 <=? c) && (c <=? 70) then Some (c - 55)
  else None.

Fixpoint map_opt {A B} (f : A -> option B) (l : list A) : option (list B) :=
  match l with
  | [] => Some []
  | x :: l' => match f x, map_opt f l' with
               | Some y, Some ys => Some (y :: ys)
               | _, _ => None
               end
  end.

Fixpoint pack_nibbles (ns : list N) : list N :=
  match ns with
  | hi :: lo :: ns' => (hi * 16 + lo) :: pack_nibbles ns'
  | [hi] => [hi * 16]
  | [] => []
  end.

Definition OID_HEX := 40%nat.

(* git2::Oid::from_str = git_oid_fromstrn: 1..40 hex digits (either case),
   right-padded with zero nibbles *)
Definition oid_from_str (s : list N) : option oid :=
  match s with
  | [] => None
  | _ =>
      if Nat.ltb OID_HEX (length s) then None
      else match map_opt hexval s with
           | None => None
           | Some ns => Some (pack_nibbles (ns ++ repeat 0 (OID_HEX - length s)))
           end
  end.

Definition is_zero (o : oid) : bool := forallb (fun b => b =? 0) o.

(* ---------------------------------------------------------------- UTF-8 validity (core::str::from_utf8) *)

Definition in_range (lo hi b : N) : bool := (lo <=? b) && (b <=? hi).
Definition is_cont (b : N) : bool := in_range 128 191 b.

Fixpoint utf8_valid (bs : list N) : bool :=
  match bs with
  | [] => true
  | b0 :: r0 =>
      if b0 <? 128 then utf8_valid r0
      else if in_range 194 223 b0 then
        match r0 with b1 :: r1 => is_cont b1 && utf8_valid r1 | _ => false end
      else if in_range 224 239 b0 then
        match r0 with
        | b1 :: b2 :: r2 =>
            (if b0 =? 224 then in_range 160 191 b1
             else if b0 =? 237 then in_range 128 159 b1
             else is_cont b1) && is_cont b2 && utf8_valid r2
        | _ => false
        end
      else if in_range 240 244 b0 then
        match r0 with
        | b1 :: b2 :: b3 :: r3 =>
            (if b0 =? 240 then in_range 144 191 b1
             else if b0 =? 244 then in_range 128 143 b1
             else is_cont b1) && is_cont b2 && is_cont b3 && utf8_valid r3
        | _ => false
        end
      else false
  end.

(* ---------------------------------------------------------------- ref names (git-ref-format check::ref_format) *)

Fixpoint split_on (sep : N) (s : list N) : list (list N) :=
  match s with
  | [] => [[]]
  | c :: s' =>
      if c =? sep then [] :: split_on sep s'
      else match split_on sep s' with
           | seg :: segs => (c :: seg) :: segs
           | [] => [[c]]
           end
  end.

Fixpoint split_once (sep : N) (s : list N) : option (list N * list N) :=
  match s with
  | [] => None
  | c :: s' =>
      if c =? sep then Some ([], s')
      else match split_once sep s' with
           | Some (a, b) => Some (c :: a, b)
           | None => None
           end
  end.

Definition is_nil {A} (l : list A) : bool := match l with [] => true | _ => false end.

(* per-character rules (all special characters are ASCII, so they can be
   checked on bytes): NUL \ ~ ^ : ? [ * space, ASCII control (incl. DEL) *)
Definition byte_ok (b : N) : bool :=
  negb ((b <=? 31) || (b =? 127) || (b =? 32) || (b =? 92) || (b =? 126) || (b =? 94) ||
        (b =? 58) || (b =? 63) || (b =? 91) || (b =? 42)).

Definition DOT := 46.
Definition AT := 64.
Definition LBRACE := 123.
Definition DOT_LOCK : list N := [46; 108; 111; 99; 107].

Fixpoint ends_with (suffix s : list N) : bool :=
  if bl_eqb suffix s then true
  else match s with [] => false | _ :: s' => ends_with suffix s' end.

Definition bad_pair (a b : N) : bool :=
  ((a =? DOT) && (b =? DOT)) || ((a =? AT) && (b =? LBRACE)).

(* the zip(chars, chars.cycle().skip(1)) loop: adjacent pairs, and the last
   character paired with the FIRST one *)
Fixpoint pairs_ok (first : N) (x : list N) : bool :=
  match x with
  | [] => true
  | [a] => negb (bad_pair a first)
  | a :: ((b :: _) as x') => negb (bad_pair a b) && pairs_ok first x'
  end.

Definition comp_ok (x : list N) : bool :=
  match x with
  | [] => false                                   (* consecutive / leading / trailing slash *)
  | c0 :: _ =>
      negb (ends_with DOT_LOCK x) &&
      negb (c0 =? DOT) &&                         (* component starts with '.' *)
      negb (last x 0 =? DOT) &&                   (* component ends with '.' *)
      pairs_ok c0 x
  end.

(* RefString::try_from(&str).is_ok(), on the bytes of the str *)
Definition name_ok (n : list N) : bool :=
  negb (is_nil n) && negb (bl_eqb n [AT]) && negb (bl_eqb n [DOT]) &&
  forallb byte_ok n && forallb comp_ok (split_on 47 n).

(* ---------------------------------------------------------------- canonical text *)

Definition line_of (kv : name * oid) : list N := to_hex (snd kv) ++ 32 :: fst kv ++ [10].

(* Refs::canonical *)
Definition canonical (r : refs) : list N := flat_map line_of r.

(* BufRead::lines: segments terminated by \n lose the \n and one preceding \r;
   an unterminated non-empty tail is a line as it is *)
Fixpoint strip_cr (s : list N) : list N :=
  match s with
  | [] => []
  | [c] => if c =? 13 then [] else [c]
  | c :: t => c :: strip_cr t
  end.

Fixpoint lines_of_segs (segs : list (list N)) : list (list N) :=
  match segs with
  | [] => []
  | [tail] => if is_nil tail then [] else [tail]
  | s :: rest => strip_cr s :: lines_of_segs rest
  end.

Definition lines (bs : list N) : list (list N) := lines_of_segs (split_on 10 bs).

Inductive cerr :=
| EIo        (* canonical::Error::Io: a line is not valid UTF-8 *)
| EFormat    (* canonical::Error::InvalidFormat: no space in the line *)
| ERef       (* canonical::Error::InvalidRef *)
| EGit.      (* canonical::Error::Git: object id does not parse *)

Inductive res (A : Type) := Ok (a : A) | Err (e : cerr).
Arguments Ok {A} a.
Arguments Err {A} e.

Fixpoint parse_lines (ls : list (list N)) (acc : refs) : res refs :=
  match ls with
  | [] => Ok acc
  | l :: ls' =>
      if negb (utf8_valid l) then Err EIo else
      match split_once 32 l with
      | None => Err EFormat
      | Some (o, n) =>
          if negb (name_ok n) then Err ERef else
          match oid_from_str o with
          | None => Err EGit
          | Some id => if is_zero id then parse_lines ls' acc
                       else parse_lines ls' (rinsert n id acc)
          end
      end
  end.

(* Refs::from_canonical *)
Definition from_canonical (bs : list N) : res refs := parse_lines (lines bs) [].

(* ---------------------------------------------------------------- signatures and verification *)

Definition IDENTITY_ROOT : name :=   (* "refs/rad/root" *)
  [114; 101; 102; 115; 47; 114; 97; 100; 47; 114; 111; 111; 116].

Inductive vres :=
| VOk
| VErrSig              (* Error::InvalidSignature *)
| VErrIdentity.        (* Error::MissingIdentity / Error::MismatchedIdentity *)

Inductive lres :=
| Accepted (r : refs)
| RejectedParse (e : cerr)
| RejectedSig
| RejectedIdentity.

Section Verify.
(* the signature scheme (Ed25519) and the repository's identity lookup are external *)
Variable sigT : Type.
Variable verify_sig : list N -> list N -> sigT -> bool.   (* key, message, signature *)
Variable root_check : oid -> bool.   (* identity_doc_at(oid) exists and its blob id is the local RepoId *)

(* SignedRefs::verify *)
Definition verify_refs (pk : list N) (r : refs) (s : sigT) : vres :=
  if verify_sig pk (canonical r) s then
    match rlookup IDENTITY_ROOT r with
    | Some o => if root_check o then VOk else VErrIdentity
    | None => VOk
    end
  else VErrSig.

(* SignedRefs::load_at after the two blob reads: the signature blob is converted
   first (None = it is not 64 bytes long), then Refs::from_canonical(refs blob),
   then SignedRefs::new(refs, remote, signature).verified(repo) *)
Definition load (pk : list N) (blob : list N) (so : option sigT) : lres :=
  match so with
  | None => RejectedSig
  | Some s =>
      match from_canonical blob with
      | Err e => RejectedParse e
      | Ok r => match verify_refs pk r s with
                | VOk => Accepted r
                | VErrSig => RejectedSig
                | VErrIdentity => RejectedIdentity
                end
      end
  end.
End Verify.

(* the ideal scheme used by the correspondence run: a signature is the
   (key, message) pair it was made for, or a forgery *)
Inductive isig := SigOf (k : list N) (m : list N) | SigForged.

Definition isign (k m : list N) : isig := SigOf k m.
Definition iverify (k m : list N) (s : isig) : bool :=
  match s with
  | SigOf k' m' => bl_eqb k k' && bl_eqb m m'
  | SigForged => false
  end.

(* ---------------------------------------------------------------- correspondence interface *)

Inductive case :=
| CCanonical (l : list (name * oid))       (* Refs::from(BTreeMap::from_iter(l)).canonical() *)
| CFromCanonical (blob : list N)           (* Refs::from_canonical(blob) *)
| CNameOk (n : list N)                     (* RefString::try_from(str).is_ok() *)
| COidFromStr (s : list N)                 (* Oid::from_str(str) *)
| CLoad (pk : list N) (blob : list N) (s : option isig) (root_ok : bool).
                                           (* from_canonical + SignedRefs::new(..).verified(repo) *)

Inductive obs :=
| OBytes (b : list N)
| ORefs (r : res refs)
| OBool (b : bool)
| OOid (o : option oid)
| OLoad (l : lres).

Definition run (c : case) : obs :=
  match c with
  | CCanonical l => OBytes (canonical (refs_of_list l))
  | CFromCanonical blob => ORefs (from_canonical blob)
  | CNameOk n => OBool (name_ok n)
  | COidFromStr s => OOid (oid_from_str s)
  | CLoad pk blob s root_ok => OLoad (load isig iverify (fun _ => root_ok) pk blob s)
  end.

Definition refs_eqb (a b : refs) : bool :=
  list_eqb (prod_eqb bl_eqb bl_eqb) a b.

Definition cerr_code (e : cerr) : N :=
  match e with EIo => 1 | EFormat => 2 | ERef => 3 | EGit => 4 end.

Definition res_eqb (a b : res refs) : bool :=
  match a, b with
  | Ok x, Ok y => refs_eqb x y
  | Err e1, Err e2 => cerr_code e1 =? cerr_code e2
  | _, _ => false
  end.

Definition lres_eqb (a b : lres) : bool :=
  match a, b with
  | Accepted x, Accepted y => refs_eqb x y
  | RejectedParse e1, RejectedParse e2 => cerr_code e1 =? cerr_code e2
  | RejectedSig, RejectedSig => true
  | RejectedIdentity, RejectedIdentity => true
  | _, _ => false
  end.

Definition obs_eqb (x y : obs) : bool :=
  match x, y with
  | OBytes a, OBytes b => bl_eqb a b
  | ORefs a, ORefs b => res_eqb a b
  | OBool a, OBool b => Bool.eqb a b
  | OOid a, OOid b => option_eqb bl_eqb a b
  | OLoad a, OLoad b => lres_eqb a b
  | _, _ => false
  end.

Definition check_case (ce : case * obs) : bool := obs_eqb (run (fst ce)) (snd ce).
