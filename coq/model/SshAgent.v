(* SshAgent.v — executable model of the SSH agent client's response parsers and
   of the SSH wire encoding of keys and signatures (no proofs here).
   covers: radicle-ssh/src/encoding.rs::Cursor::{read_u32, read_string, read_mpint,
             read_byte}, Reader::reader, Encoding::{extend_ssh_string, extend_u32}
           radicle-ssh/src/agent/client.rs::AgentClient::{request_identities, sign,
             read_signature, query_extension}
           radicle-crypto/src/ssh.rs::<impl Encodable for PublicKey / Signature /
             SecretKey>::{read, write}
   sites:  encoding.rs `&self.s[self.position..]`, `&self.s[position..position+len]`,
                        `self.s[self.position]` (slice / index)      -> Panic 1 / 2 / 3
           client.rs   `resp[0]` in request_identities                -> Panic 10
           client.rs   `out.copy_from_slice(sig)` in read_signature   -> Panic 11
           client.rs   `resp[0]` in sign / query_extension (guarded)  -> Panic 12
           client.rs   `for _ in 0..n` with n read from the response  -> OutOfFuel

   The model is of the code *after* the two commits
     "fix: ssh: an empty agent response to REQUEST_IDENTITIES is a protocol error, not a panic"
     "fix: ssh: a signature blob that is not 64 bytes is a protocol error, not a panic".
   The code as found is kept as [request_identities_orig] / [read_signature_orig].

   Bytes are N (the harness only supplies values < 256; nothing here depends on
   it except the u32 round trip, which is stated for values < 2^32).  usize is
   64 bit: `position + len` with len < 2^32 cannot overflow for any buffer that
   fits in memory, so cursor arithmetic is in unbounded N.  ed25519
   `from_slice` for public keys, secret keys and signatures is a pure length
   check (ec25519-0.1.0), modelled as such. *)
From HW Require Import lib.Base.
Local Open Scope N_scope.

Definition bytes := list N.

Inductive err :=
| EIndex          (* encoding::Error::IndexOutOfBounds *)
| EProtocol       (* client::Error::AgentProtocolError *)
| EFailure        (* client::Error::AgentFailure *)
| EUnknownAlg     (* *Error::UnknownAlgorithm *)
| EInvalid        (* crypto::Error (wrong length) *)
| EMismatch       (* SecretKeyError::Mismatch *)
| EOther.         (* any other error (never produced by the model) *)

Inductive res (A : Type) :=
| Ok (a : A)
| Err (e : err)
| Panic (site : N)
| OutOfFuel.
Arguments Ok {A} a.
Arguments Err {A} e.
Arguments Panic {A} site.
Arguments OutOfFuel {A}.

Definition bind {A B} (r : res A) (f : A -> res B) : res B :=
  match r with
  | Ok a => f a
  | Err e => Err e
  | Panic p => Panic p
  | OutOfFuel => OutOfFuel
  end.
Notation "x <- r ;; k" := (bind r (fun x => k)) (at level 61, r at next level, right associativity).

Definition len (s : bytes) : N := N.of_nat (length s).

(* &s[a..b]: None = the slice panics *)
Definition slice (s : bytes) (a b : N) : option bytes :=
  if (a <=? b) && (b <=? len s)
  then Some (firstn (N.to_nat (b - a)) (skipn (N.to_nat a) s))
  else None.

(* BigEndian::read_u32 of the first four bytes (panics if fewer) *)
Definition be32 (s : bytes) : option N :=
  match s with
  | a :: b :: c :: d :: _ => Some (((a * 256 + b) * 256 + c) * 256 + d)
  | _ => None
  end.

(* write_u32::<BigEndian>(n as u32) *)
Definition u32_bytes (n : N) : bytes :=
  let n := n mod 4294967296 in
  [n / 16777216; (n / 65536) mod 256; (n / 256) mod 256; n mod 256].

(* Encoding::extend_ssh_string *)
Definition ssh_string (s : bytes) : bytes := u32_bytes (len s) ++ s.

(* ---- Cursor { s, position } ---- *)
Record cursor := { cs : bytes; pos : N }.
Definition reader (s : bytes) (start : N) : cursor := {| cs := s; pos := start |}.

(* Cursor::read_u32 *)
Definition read_u32 (c : cursor) : res (N * cursor) :=
  if pos c + 4 <=? len (cs c) then
    match slice (cs c) (pos c) (len (cs c)) with
    | None => Panic 1
    | Some t =>
        match be32 t with
        | None => Panic 1
        | Some u => Ok (u, {| cs := cs c; pos := pos c + 4 |})
        end
    end
  else Err EIndex.

(* Cursor::read_string (read_mpint has the same body) *)
Definition read_string (c : cursor) : res (bytes * cursor) :=
  ul <- read_u32 c ;;
  let '(l, c) := ul in
  if pos c + l <=? len (cs c) then
    match slice (cs c) (pos c) (pos c + l) with
    | None => Panic 2
    | Some t => Ok (t, {| cs := cs c; pos := pos c + l |})
    end
  else Err EIndex.

(* Cursor::read_byte *)
Definition read_byte (c : cursor) : res (N * cursor) :=
  if pos c <? len (cs c) then
    match nth_error (cs c) (N.to_nat (pos c)) with
    | None => Panic 3
    | Some b => Ok (b, {| cs := cs c; pos := pos c + 1 |})
    end
  else Err EIndex.

(* ---- Encodable impls (radicle-crypto/src/ssh.rs) ---- *)

(* b"ssh-ed25519" *)
Definition alg : bytes := [115; 115; 104; 45; 101; 100; 50; 53; 53; 49; 57].
Definition bytes_eqb : bytes -> bytes -> bool := list_eqb N.eqb.

(* ed25519::{PublicKey,SecretKey,Signature}::from_slice *)
Definition from_slice (n : N) (s : bytes) : res bytes :=
  if len s =? n then Ok s else Err EInvalid.

(* <PublicKey as Encodable>::read *)
Definition pk_read (c : cursor) : res (bytes * cursor) :=
  tc <- read_string c ;;
  let '(t, c) := tc in
  if bytes_eqb t alg then
    sc <- read_string c ;;
    let '(s, c) := sc in
    k <- from_slice 32 s ;;
    Ok (k, c)
  else Err EUnknownAlg.

(* <PublicKey as Encodable>::write: the blob is wrapped in an outer string *)
Definition pk_write (k : bytes) : bytes :=
  ssh_string (ssh_string alg ++ ssh_string k).

(* <Signature as Encodable>::read *)
Definition sig_read (c : cursor) : res (bytes * cursor) :=
  bc <- read_string c ;;
  let '(buf, c) := bc in
  tc <- read_string (reader buf 0) ;;
  let '(t, inner) := tc in
  if bytes_eqb t alg then
    sc <- read_string inner ;;
    let '(s, _) := sc in
    k <- from_slice 64 s ;;
    Ok (k, c)
  else Err EUnknownAlg.

Definition sig_write (s : bytes) : bytes :=
  ssh_string (ssh_string alg ++ ssh_string s).

(* SecretKey::public_key: the last 32 of the 64 bytes *)
Definition sk_public (sk : bytes) : bytes := skipn 32 sk.
(* b"radicle" *)
Definition comment : bytes := [114; 97; 100; 105; 99; 108; 101].

(* <SecretKey as Encodable>::read *)
Definition sk_read (c : cursor) : res (bytes * cursor) :=
  tc <- read_string c ;;
  let '(t, c) := tc in
  if bytes_eqb t alg then
    pc <- read_string c ;;
    let '(public, c) := pc in
    qc <- read_string c ;;
    let '(kp, c) := qc in
    cc <- read_string c ;;
    let '(_, c) := cc in
    key <- from_slice 64 kp ;;
    if bytes_eqb public (sk_public key) then Ok (key, c) else Err EMismatch
  else Err EUnknownAlg.

Definition sk_write (sk : bytes) : bytes :=
  ssh_string alg ++ ssh_string (sk_public sk) ++ ssh_string sk ++ ssh_string comment.

(* ---- AgentClient (radicle-ssh/src/agent/client.rs) ---- *)

Definition IDENTITIES_ANSWER := 12.
Definition SIGN_RESPONSE := 14.
Definition FAILURE := 5.
Definition SUCCESS := 6.

(* the `for _ in 0..n` loop of request_identities; keys that fail to parse
   are skipped (`if let Ok(pk) = K::read(..)`) *)
Fixpoint ids_loop (fuel : nat) (n : N) (r : cursor) (acc : list bytes) : res (list bytes) :=
  if n =? 0 then Ok (rev acc)
  else match fuel with
       | O => OutOfFuel
       | S f =>
           kc <- read_string r ;;
           let '(key, r) := kc in
           cc <- read_string r ;;
           let '(_, r) := cc in
           match pk_read (reader key 0) with
           | Ok (pk, _) => ids_loop f (n - 1) r (pk :: acc)
           | Err _ => ids_loop f (n - 1) r acc
           | Panic p => Panic p
           | OutOfFuel => OutOfFuel
           end
       end.

(* every iteration that does not return consumes at least 8 bytes *)
Definition ids_fuel (resp : bytes) : nat := S (length resp).

Definition ids_answer (resp : bytes) : res (list bytes) :=
  nr <- read_u32 (reader resp 1) ;;
  let '(n, r) := nr in
  ids_loop (ids_fuel resp) n r [].

(* AgentClient::request_identities::<PublicKey>, given the agent's response *)
Definition request_identities (resp : bytes) : res (list bytes) :=
  match resp with
  | [] => Err EProtocol
  | b :: _ => if b =? IDENTITIES_ANSWER then ids_answer resp else Ok []
  end.

(* the code as found: `if resp[0] == msg::IDENTITIES_ANSWER` *)
Definition request_identities_orig (resp : bytes) : res (list bytes) :=
  match resp with
  | [] => Panic 10
  | b :: _ => if b =? IDENTITIES_ANSWER then ids_answer resp else Ok []
  end.

(* AgentClient::read_signature, generic in what happens to a blob that is not
   64 bytes long *)
Definition read_signature_with (bad : res bytes) (resp : bytes) : res bytes :=
  ic <- read_string (reader resp 1) ;;
  let '(inner, _) := ic in
  tc <- read_string (reader inner 0) ;;
  let '(_, r) := tc in
  sc <- read_string r ;;
  let '(sg, _) := sc in
  if len sg =? 64 then Ok sg else bad.

Definition read_signature := read_signature_with (Err EProtocol).
Definition read_signature_orig := read_signature_with (Panic 11).

(* AgentClient::sign, given the agent's response *)
Definition sign_with (rs : bytes -> res bytes) (resp : bytes) : res bytes :=
  match resp with
  | [] => Err EProtocol
  | b :: _ =>
      if b =? SIGN_RESPONSE then rs resp
      else if b =? FAILURE then Err EFailure
      else Err EProtocol
  end.
Definition sign := sign_with read_signature.
Definition sign_orig := sign_with read_signature_orig.

(* AgentClient::query_extension, given the agent's response *)
Definition query_extension (resp : bytes) : res bool :=
  sc <- read_string (reader resp 1) ;;
  let '(_, _) := sc in
  Ok (match resp with b :: _ => b =? SUCCESS | [] => false end).

(* ------------------------------------------------------------------ *)
(* Correspondence interface *)

Inductive cop := OpU32 | OpString | OpByte | OpMpint.

Inductive case :=
| CIdentities (resp : bytes)
| CSign (resp : bytes)
| CQueryExt (resp : bytes)
| CPkRead (buf : bytes) (start : N)
| CSigRead (buf : bytes) (start : N)
| CSkRead (buf : bytes) (start : N)
| CCursor (buf : bytes) (start : N) (ops : list cop)
| CPkWrite (k : bytes)
| CSigWrite (s : bytes)
| CSkWrite (sk : bytes)
| CString (s : bytes).

(* one step of a cursor script: the value read (numbers as one-element lists) *)
Inductive cval := VNum (n : N) | VBytes (b : bytes) | VErr | VPanic.

Inductive obs :=
| OKeys (ks : list bytes)
| OBytes (b : bytes)
| OBool (b : bool)
| OErr (e : err)
| OPanic
| OHang
| ORead (v : bytes) (position : N)   (* Encodable::read: value and cursor position after *)
| OCursor (vs : list cval) (position : N).

Definition obs_of {A} (f : A -> obs) (r : res A) : obs :=
  match r with
  | Ok a => f a
  | Err e => OErr e
  | Panic _ => OPanic
  | OutOfFuel => OHang
  end.

(* one cursor operation: what it returned and the cursor afterwards.  A failing
   read_string has already consumed its length prefix (position += 4 happens
   inside read_u32 before the bounds check of the body). *)
Definition cstep (o : cop) (c : cursor) : cval * cursor :=
  let fin {A} (f : A -> cval) (r : res (A * cursor)) (c_err : cursor) : cval * cursor :=
    match r with
    | Ok (v, c') => (f v, c')
    | Err _ => (VErr, c_err)
    | _ => (VPanic, c)
    end in
  match o with
  | OpU32 => fin VNum (read_u32 c) c
  | OpByte => fin VNum (read_byte c) c
  | OpString | OpMpint =>
      fin VBytes (read_string c) (match read_u32 c with Ok (_, c') => c' | _ => c end)
  end.

Fixpoint cursor_script (c : cursor) (ops : list cop) : list cval * N :=
  match ops with
  | [] => ([], pos c)
  | o :: ops' =>
      let '(v, c') := cstep o c in
      match v with
      | VPanic => ([VPanic], pos c)
      | _ => let '(vs, p) := cursor_script c' ops' in (v :: vs, p)
      end
  end.

Definition run (c : case) : obs :=
  match c with
  | CIdentities resp => obs_of OKeys (request_identities resp)
  | CSign resp => obs_of OBytes (sign resp)
  | CQueryExt resp => obs_of OBool (query_extension resp)
  | CPkRead buf st => obs_of (fun x => ORead (fst x) (pos (snd x))) (pk_read (reader buf st))
  | CSigRead buf st => obs_of (fun x => ORead (fst x) (pos (snd x))) (sig_read (reader buf st))
  | CSkRead buf st => obs_of (fun x => ORead (fst x) (pos (snd x))) (sk_read (reader buf st))
  | CCursor buf st ops => let '(vs, p) := cursor_script (reader buf st) ops in OCursor vs p
  | CPkWrite k => OBytes (pk_write k)
  | CSigWrite s => OBytes (sig_write s)
  | CSkWrite sk => OBytes (sk_write sk)
  | CString s => OBytes (ssh_string s)
  end.

Definition err_eqb (a b : err) : bool :=
  match a, b with
  | EIndex, EIndex | EProtocol, EProtocol | EFailure, EFailure
  | EUnknownAlg, EUnknownAlg | EInvalid, EInvalid | EMismatch, EMismatch | EOther, EOther => true
  | _, _ => false
  end.

Definition cval_eqb (a b : cval) : bool :=
  match a, b with
  | VNum x, VNum y => x =? y
  | VBytes x, VBytes y => bytes_eqb x y
  | VErr, VErr | VPanic, VPanic => true
  | _, _ => false
  end.

Definition obs_eqb (x y : obs) : bool :=
  match x, y with
  | OKeys a, OKeys b => list_eqb bytes_eqb a b
  | OBytes a, OBytes b => bytes_eqb a b
  | OBool a, OBool b => Bool.eqb a b
  | OErr a, OErr b => err_eqb a b
  | OPanic, OPanic => true
  | OHang, OHang => true
  | ORead a p, ORead b q => bytes_eqb a b && (p =? q)
  | OCursor a p, OCursor b q => list_eqb cval_eqb a b && (p =? q)
  | _, _ => false
  end.

Definition check_case (ce : case * obs) : bool := obs_eqb (run (fst ce)) (snd ce).
