(* Diff.v — executable model of the unified-diff text codec of radicle-cli
   (no proofs here).
   covers: radicle-cli/src/git/unified_diff.rs::
             <impl Encode for HunkHeader>::encode, <impl Decode for HunkHeader>::decode,
             HunkHeader::{old_line_range, new_line_range},
             <impl Encode for Modification>::encode, <impl Decode for Modification>::decode,
             line_content,
             <impl Encode for Hunk<Modification>>::encode, <impl Decode for Hunk<Modification>>::decode,
             <impl Encode for DiffContent>::encode, <impl Decode for DiffContent>::decode,
             <impl Encode for FileHeader>::encode, <impl Encode for FileDiff>::encode,
             <impl Encode for Diff>::encode, Decode::try_decode, Writer::{write, meta, magenta}
             (unstyled), and core::str::<impl FromStr for u32>::from_str as used by the decoder.
   sites:  `header.new_line_no + new_line`, `header.old_line_no + old_line` in
             Hunk::decode, `self.old_line_no + self.old_size`, `end + 1` in
             old_line_range / new_line_range (u32 `+`; panics when overflow checks
             are on, as in the harness build; wraps otherwise)               -> Panic 1
           `FileHeader::Copied { .. } => todo!()`                            -> Panic 3
           `DiffContent::Binary => todo!(..)`                                -> Panic 4
           `while old_line < .. || new_line < ..` in Hunk::decode, `while let
             Some(h) = Hunk::try_decode(r)?` in DiffContent::decode          -> OutOfFuel
             (every iteration consumes at least one byte: DiffProofs.v proves
              that the fuel [S (length input)] used here is never exhausted)

   The model is of the code *after* the commits
     fb84ac3 "fix: unified diff encoding dropped the trailing whitespace of every line"
       (Modification::encode and Hunk::encode used `trim_end()`; they now remove
        only the line terminator)
     0f4dc25 "fix: HunkHeader::decode kept the line terminator in the header text"
       (so that decode (encode h) <> h for every header).
   The encoder as found is kept as [encode_modif_orig] / [encode_hunk_orig] (with
   [trim_end], itself compared with Rust's `str::trim_end` on every run) and the
   header decoder as found as [decode_header_orig]; DiffProofs.v proves that they
   do not round-trip, with the witnesses that were replayed on the real code.

   Scope.  Strings are byte lists (list N, every value < 256 in the harness).
   The Rust code works on `String`/`str`: `read_line` fails on invalid UTF-8 and the
   encoder passes every line through `String::from_utf8_lossy`.  The model is of the
   behaviour on *valid UTF-8* (there `from_utf8_lossy` is the identity, and every
   pattern the decoder searches for is ASCII, so byte-wise search coincides with
   char-wise search); the harness only sends valid UTF-8 to the model and tallies
   the rest.  The whole-`Diff` decoder is libgit2 (`git2::Diff::from_buffer`) followed
   by radicle-surf's conversion; it is not modelled: see the Section in
   DiffProofs.v. *)
From HW Require Import lib.Base.
Local Open Scope N_scope.

Definition bytes := list N.

Inductive err :=
| EEof            (* Error::UnexpectedEof *)
| ESyntax         (* Error::Syntax(_) *)
| EParseInt.      (* Error::ParseInt(_) *)

Inductive res (A : Type) :=
| Ok (a : A)
| Err (e : err)
| Panic (site : N)
| OutOfFuel.
Arguments Ok {A} a.
Arguments Err {A} e.
Arguments Panic {A} site.
Arguments OutOfFuel {A}.

Definition bind {A B} (r : res A) (f : A -> res B) : res B :=
  match r with
  | Ok a => f a
  | Err e => Err e
  | Panic p => Panic p
  | OutOfFuel => OutOfFuel
  end.
Notation "x <- r ;; k" := (bind r (fun x => k)) (at level 61, r at next level, right associativity).

Definition U32_MAX : N := 4294967295.

(* ------------------------------------------------------------------ *)
(* numbers: `{}` / `{:o}` of a u32, `str::parse::<u32>()`             *)

Definition is_digit (c : N) : bool := (48 <=? c) && (c <=? 57).

(* least significant digit first *)
Fixpoint le_digits (base : N) (fuel : nat) (n : N) : bytes :=
  match fuel with
  | O => []
  | S f => (48 + n mod base) :: (if n / base =? 0 then [] else le_digits base f (n / base))
  end.

Definition print_base (base n : N) : bytes :=
  rev (le_digits base (S (N.to_nat (N.log2 n))) n).
Definition print_dec : N -> bytes := print_base 10.
Definition print_oct : N -> bytes := print_base 8.

Fixpoint parse_digits (v : N) (s : bytes) : option N :=
  match s with
  | [] => Some v
  | c :: s' => if is_digit c then parse_digits (v * 10 + (c - 48)) s' else None
  end.

(* unbounded decimal parser (non-empty digit string) *)
Definition parse_dec (s : bytes) : option N :=
  match s with [] => None | _ => parse_digits 0 s end.

(* u32::from_str: optional leading '+', at least one digit, digits only,
   value <= u32::MAX; every failure is a ParseIntError *)
Definition parse_u32 (s : bytes) : option N :=
  match s with
  | [] => None
  | c :: rest =>
      let ds := if c =? 43 then rest else s in
      match parse_dec ds with
      | Some v => if v <=? U32_MAX then Some v else None
      | None => None
      end
  end.

(* ------------------------------------------------------------------ *)
(* str helpers (ASCII patterns)                                        *)

(* BufRead::read_line: up to and including the first '\n' *)
Fixpoint read_line (s : bytes) : bytes * bytes :=
  match s with
  | [] => ([], [])
  | c :: s' => if c =? 10 then ([10], s')
               else let lr := read_line s' in (c :: fst lr, snd lr)
  end.

Fixpoint strip_prefix (p s : bytes) : option bytes :=
  match p, s with
  | [], _ => Some s
  | a :: p', b :: s' => if a =? b then strip_prefix p' s' else None
  | _ :: _, [] => None
  end.

Fixpoint split_once (p s : bytes) : option (bytes * bytes) :=
  match strip_prefix p s with
  | Some r => Some ([], r)
  | None =>
      match s with
      | [] => None
      | c :: s' => match split_once p s' with
                   | Some ab => Some (c :: fst ab, snd ab)
                   | None => None
                   end
      end
  end.

Fixpoint drop_nl (r : bytes) : bytes :=
  match r with
  | c :: r' => if c =? 10 then drop_nl r' else r
  | [] => []
  end.
(* str::trim_end_matches('\n') *)
Definition trim_end_nl (s : bytes) : bytes := rev (drop_nl (rev s)).
(* s.strip_suffix('\n').unwrap_or(s) *)
Definition strip_suffix_nl (s : bytes) : bytes :=
  match rev s with
  | c :: r => if c =? 10 then rev r else s
  | [] => s
  end.

(* str::trim_end(): Unicode White_Space, on UTF-8 bytes (reversed string).
   U+0009..U+000D, U+0020 | U+0085 = C2 85, U+00A0 = C2 A0 | U+1680 = E1 9A 80 |
   U+2000..U+200A = E2 80 80..8A, U+2028/9 = E2 80 A8/A9, U+202F = E2 80 AF,
   U+205F = E2 81 9F | U+3000 = E3 80 80 *)
Definition ascii_ws (c : N) : bool := ((9 <=? c) && (c <=? 13)) || (c =? 32).
Fixpoint drop_ws (r : bytes) : bytes :=
  match r with
  | c :: r1 =>
      if ascii_ws c then drop_ws r1 else
      match r1 with
      | c2 :: r2 =>
          if (c2 =? 194) && ((c =? 133) || (c =? 160)) then drop_ws r2 else
          match r2 with
          | c3 :: r3 =>
              if ((c3 =? 225) && (c2 =? 154) && (c =? 128))
                 || ((c3 =? 226) && (c2 =? 128) &&
                       (((128 <=? c) && (c <=? 138)) || (c =? 168) || (c =? 169) || (c =? 175)))
                 || ((c3 =? 226) && (c2 =? 129) && (c =? 159))
                 || ((c3 =? 227) && (c2 =? 128) && (c =? 128))
              then drop_ws r3 else r
          | [] => r
          end
      | [] => r
      end
  | [] => []
  end.
Definition trim_end (s : bytes) : bytes := rev (drop_ws (rev s)).

(* ------------------------------------------------------------------ *)
(* HunkHeader                                                          *)

Record hheader := mkHeader {
  old_no : N; old_sz : N; new_no : N; new_sz : N;
  htext : bytes
}.

Definition AT_AT_MINUS : bytes := [64; 64; 32; 45].   (* "@@ -" *)
Definition SP_PLUS : bytes := [32; 43].                (* " +"   *)
Definition SP_AT_AT : bytes := [32; 64; 64].           (* " @@"  *)
Definition COMMA : bytes := [44].

Definition encode_range (no sz : N) : bytes :=
  if sz =? 1 then print_dec no else print_dec no ++ COMMA ++ print_dec sz.

(* `if self.text.is_empty() { "" } else { format!(" {}", text) }` *)
Definition text_part (t : bytes) : bytes := match t with [] => [] | _ :: _ => 32 :: t end.

(* Encode for HunkHeader (one `w.meta(..)`, i.e. the text and '\n') *)
Definition encode_header (h : hheader) : bytes :=
  AT_AT_MINUS ++ encode_range (old_no h) (old_sz h) ++ SP_PLUS ++
  encode_range (new_no h) (new_sz h) ++ SP_AT_AT ++
  text_part (htext h) ++ [10].

Definition parse_range (s : bytes) : option (N * N) :=
  let ls := match split_once COMMA s with Some p => p | None => (s, [49]) end in
  match parse_u32 (fst ls) with
  | None => None
  | Some a => match parse_u32 (snd ls) with
              | None => None
              | Some b => Some (a, b)
              end
  end.

(* Decode for HunkHeader; returns the header and the unread input.
   [keep_nl] = true is the decoder as found (the line terminator stays in
   the text). *)
(* s.strip_prefix(' ').unwrap_or(s) *)
Definition strip_space (s : bytes) : bytes :=
  match s with
  | c :: s' => if c =? 32 then s' else s
  | [] => []
  end.

Definition decode_header_line (keep_nl : bool) (line rest : bytes) : res (hheader * bytes) :=
  match strip_prefix AT_AT_MINUS line with
  | None => Err ESyntax
  | Some s =>
      match split_once SP_PLUS s with
      | None => Err ESyntax
      | Some (old, s) =>
          match parse_range old with
          | None => Err EParseInt
          | Some (a, b) =>
              match split_once SP_AT_AT s with
              | None => Err ESyntax
              | Some (new, s) =>
                  match parse_range new with
                  | None => Err EParseInt
                  | Some (c, d) =>
                      let s := strip_space s in
                      let s := if keep_nl then s else strip_suffix_nl s in
                      Ok (mkHeader a b c d s, rest)
                  end
              end
          end
      end
  end.
Definition decode_header_gen (keep_nl : bool) (input : bytes) : res (hheader * bytes) :=
  let lr := read_line input in
  match fst lr with
  | [] => Err EEof
  | _ :: _ => decode_header_line keep_nl (fst lr) (snd lr)
  end.
Definition decode_header := decode_header_gen false.
Definition decode_header_orig := decode_header_gen true.

Definition add_u32 (site a b : N) : res N :=
  if a + b <=? U32_MAX then Ok (a + b) else Panic site.

(* HunkHeader::old_line_range / new_line_range: start .. start + size + 1 *)
Definition line_range (no sz : N) : res (N * N) :=
  e <- add_u32 1 no sz ;; e1 <- add_u32 1 e 1 ;; Ok (no, e1).

(* ------------------------------------------------------------------ *)
(* Modification                                                        *)

Inductive modif :=
| MAdd (line : bytes) (line_no : N)
| MDel (line : bytes) (line_no : N)
| MCtx (line : bytes) (line_no_old line_no_new : N).

Definition modif_line (m : modif) : bytes :=
  match m with MAdd l _ | MDel l _ | MCtx l _ _ => l end.
Definition modif_sign (m : modif) : N :=
  match m with MAdd _ _ => 43 | MDel _ _ => 45 | MCtx _ _ _ => 32 end.

(* Encode for Modification: sign, the line without its terminator, '\n' *)
Definition encode_modif (m : modif) : bytes :=
  modif_sign m :: strip_suffix_nl (modif_line m) ++ [10].
(* as found: `.trim_end()` *)
Definition encode_modif_orig (m : modif) : bytes :=
  modif_sign m :: trim_end (modif_line m) ++ [10].

(* Decode for Modification (line numbers are 0; Hunk::decode fills them in) *)
Definition decode_modif (input : bytes) : res (modif * bytes) :=
  let lr := read_line input in
  match fst lr with
  | [] => Err EEof
  | c :: l =>
      if c =? 43 then Ok (MAdd l 0, snd lr)
      else if c =? 45 then Ok (MDel l 0, snd lr)
      else if c =? 32 then Ok (MCtx l 0 0, snd lr)
      else Err ESyntax
  end.

(* ------------------------------------------------------------------ *)
(* Hunk<Modification>                                                  *)

Record hunk := mkHunk {
  hline : bytes;              (* Hunk::header, a raw `Line` *)
  hlines : list modif;
  hold : N * N;               (* Hunk::old, a Range<u32> *)
  hnew : N * N
}.

Definition encode_hunk (h : hunk) : bytes :=
  trim_end_nl (hline h) ++ [10] ++ flat_map encode_modif (hlines h).
Definition encode_hunk_orig (h : hunk) : bytes :=
  trim_end (hline h) ++ [10] ++ flat_map encode_modif_orig (hlines h).

(* the `while old_line < header.old_size || new_line < header.new_size` loop;
   [acc] is `lines` reversed *)
Fixpoint hunk_loop (fuel : nat) (h : hheader) (o n : N) (acc : list modif) (input : bytes)
  : res (list modif * bytes) :=
  if (o <? old_sz h) || (n <? new_sz h) then
    match fuel with
    | O => OutOfFuel
    | S f =>
        if old_sz h <? o then Err ESyntax
        else if new_sz h <? n then Err ESyntax
        else
          match decode_modif input with
          | Err EEof => Err ESyntax           (* try_decode -> None -> syntax error *)
          | Err e => Err e
          | Panic p => Panic p
          | OutOfFuel => OutOfFuel
          | Ok (MAdd l _, rest) =>
              k <- add_u32 1 (new_no h) n ;;
              hunk_loop f h o (n + 1) (MAdd l k :: acc) rest
          | Ok (MDel l _, rest) =>
              k <- add_u32 1 (old_no h) o ;;
              hunk_loop f h (o + 1) n (MDel l k :: acc) rest
          | Ok (MCtx l _ _, rest) =>
              ko <- add_u32 1 (old_no h) o ;;
              kn <- add_u32 1 (new_no h) n ;;
              hunk_loop f h (o + 1) (n + 1) (MCtx l ko kn :: acc) rest
          end
    end
  else Ok (rev acc, input).

Definition decode_hunk_gen (keep_nl : bool) (input : bytes) : res (hunk * bytes) :=
  hr <- decode_header_gen keep_nl input ;;
  let h := fst hr in
  lr <- hunk_loop (S (length (snd hr))) h 0 0 [] (snd hr) ;;
  ro <- line_range (old_no h) (old_sz h) ;;
  rn <- line_range (new_no h) (new_sz h) ;;
  Ok (mkHunk (encode_header h) (fst lr) ro rn, snd lr).
Definition decode_hunk := decode_hunk_gen false.
Definition decode_hunk_orig := decode_hunk_gen true.

(* ------------------------------------------------------------------ *)
(* DiffContent                                                         *)

Inductive content :=
| CEmpty
| CBinary
| CPlain (hunks : list hunk) (additions deletions : N).   (* eof is not encoded *)

Definition count_adds (l : list modif) : N :=
  N.of_nat (length (filter (fun m => match m with MAdd _ _ => true | _ => false end) l)).
Definition count_dels (l : list modif) : N :=
  N.of_nat (length (filter (fun m => match m with MDel _ _ => true | _ => false end) l)).

Fixpoint content_loop (fuel : nat) (acc : list hunk) (input : bytes) : res (list hunk) :=
  match fuel with
  | O => OutOfFuel
  | S f =>
      match decode_hunk input with
      | Err EEof => Ok (rev acc)                (* Hunk::try_decode -> None *)
      | Err e => Err e
      | Panic p => Panic p
      | OutOfFuel => OutOfFuel
      | Ok (h, rest) => content_loop f (h :: acc) rest
      end
  end.

Definition decode_content (input : bytes) : res content :=
  hs <- content_loop (S (length input)) [] input ;;
  match hs with
  | [] => Ok CEmpty
  | _ => Ok (CPlain hs (fold_right N.add 0 (map (fun h => count_adds (hlines h)) hs))
                       (fold_right N.add 0 (map (fun h => count_dels (hlines h)) hs)))
  end.

Definition encode_content (c : content) : res bytes :=
  match c with
  | CEmpty => Ok []
  | CBinary => Panic 4
  | CPlain hs _ _ => Ok (flat_map encode_hunk hs)
  end.

(* ------------------------------------------------------------------ *)
(* FileHeader / FileDiff / Diff (encoder only; the decoder is libgit2)  *)

(* paths are what `Path::display()` prints, oids what `term::format::oid`
   prints (7 hex digits), modes are u32 *)
Inductive fheader :=
| FAdded (path new_oid : bytes) (new_mode : N)
| FDeleted (path old_oid : bytes) (old_mode : N)
| FModified (path old_oid new_oid : bytes) (old_mode new_mode : N)
| FMoved (old_path new_path : bytes)
| FCopied.

Definition s_diff_git : bytes := [100;105;102;102;32;45;45;103;105;116;32].   (* "diff --git " *)
Definition s_a : bytes := [97;47].                                            (* "a/" *)
Definition s_b : bytes := [32;98;47].                                         (* " b/" *)
Definition s_index : bytes := [105;110;100;101;120;32].                       (* "index " *)
Definition s_dotdot : bytes := [46;46].
Definition s_old_mode : bytes := [111;108;100;32;109;111;100;101;32].         (* "old mode " *)
Definition s_new_mode : bytes := [110;101;119;32;109;111;100;101;32].         (* "new mode " *)
Definition s_new_file_mode : bytes :=
  [110;101;119;32;102;105;108;101;32;109;111;100;101;32].                     (* "new file mode " *)
Definition s_deleted_file_mode : bytes :=
  [100;101;108;101;116;101;100;32;102;105;108;101;32;109;111;100;101;32].     (* "deleted file mode " *)
Definition s_minus3 : bytes := [45;45;45;32].                                 (* "--- " *)
Definition s_plus3 : bytes := [43;43;43;32].                                  (* "+++ " *)
Definition s_dev_null : bytes := [47;100;101;118;47;110;117;108;108].         (* "/dev/null" *)
Definition s_zero_oid : bytes := [48;48;48;48;48;48;48].                      (* "0000000" *)
Definition s_similarity : bytes :=
  [115;105;109;105;108;97;114;105;116;121;32;105;110;100;101;120;32;49;48;48;37]. (* "similarity index 100%" *)
Definition s_rename_from : bytes := [114;101;110;97;109;101;32;102;114;111;109;32]. (* "rename from " *)
Definition s_rename_to : bytes := [114;101;110;97;109;101;32;116;111;32].           (* "rename to " *)

Definition ln (s : bytes) : bytes := s ++ [10].

Definition encode_fheader (f : fheader) : res bytes :=
  match f with
  | FModified p oo no om nm =>
      Ok (ln (s_diff_git ++ s_a ++ p ++ s_b ++ p) ++
          (if om =? nm
           then ln (s_index ++ oo ++ s_dotdot ++ no ++ [32] ++ print_oct om)
           else ln (s_old_mode ++ print_oct om) ++ ln (s_new_mode ++ print_oct nm) ++
                ln (s_index ++ oo ++ s_dotdot ++ no)) ++
          ln (s_minus3 ++ s_a ++ p) ++ ln (s_plus3 ++ [98;47] ++ p))
  | FAdded p no nm =>
      Ok (ln (s_diff_git ++ s_a ++ p ++ s_b ++ p) ++
          ln (s_new_file_mode ++ print_oct nm) ++
          ln (s_index ++ s_zero_oid ++ s_dotdot ++ no) ++
          ln (s_minus3 ++ s_dev_null) ++ ln (s_plus3 ++ [98;47] ++ p))
  | FCopied => Panic 3
  | FDeleted p oo om =>
      Ok (ln (s_diff_git ++ s_a ++ p ++ s_b ++ p) ++
          ln (s_deleted_file_mode ++ print_oct om) ++
          ln (s_index ++ oo ++ s_dotdot ++ s_zero_oid) ++
          ln (s_minus3 ++ s_a ++ p) ++ ln (s_plus3 ++ s_dev_null))
  | FMoved op np =>
      Ok (ln (s_diff_git ++ s_a ++ op ++ s_b ++ np) ++
          ln s_similarity ++ ln (s_rename_from ++ op) ++ ln (s_rename_to ++ np))
  end.

(* FileDiff: header, then content *)
Definition encode_file (fc : fheader * content) : res bytes :=
  h <- encode_fheader (fst fc) ;; c <- encode_content (snd fc) ;; Ok (h ++ c).

Fixpoint encode_diff (fs : list (fheader * content)) : res bytes :=
  match fs with
  | [] => Ok []
  | f :: fs' => a <- encode_file f ;; b <- encode_diff fs' ;; Ok (a ++ b)
  end.

(* ------------------------------------------------------------------ *)
(* correspondence interface                                            *)

Inductive case :=
| KParseU32 (s : bytes)
| KEncHeader (h : hheader)
| KDecHeader (input : bytes)
| KEncModif (m : modif)
| KDecModif (input : bytes)
| KEncHunk (h : hunk)
| KDecHunk (input : bytes)
| KDecContent (input : bytes)
| KEncFile (f : fheader) (c : content)
| KEncFHeader (f : fheader)
| KRanges (h : hheader)
| KTrimEnd (s : bytes).            (* str::trim_end, used by the encoder as found *)

Inductive obs :=
| OOptN (r : option N)
| OBytes (r : res bytes)
| OHeader (r : res (hheader * bytes))
| OModif (r : res (modif * bytes))
| OHunk (r : res (hunk * bytes))
| OContent (r : res content)
| ORanges (r : res ((N * N) * (N * N))).

Definition run (c : case) : obs :=
  match c with
  | KParseU32 s => OOptN (parse_u32 s)
  | KEncHeader h => OBytes (Ok (encode_header h))
  | KDecHeader i => OHeader (decode_header i)
  | KEncModif m => OBytes (Ok (encode_modif m))
  | KDecModif i => OModif (decode_modif i)
  | KEncHunk h => OBytes (Ok (encode_hunk h))
  | KDecHunk i => OHunk (decode_hunk i)
  | KDecContent i => OContent (decode_content i)
  | KEncFile f c => OBytes (encode_file (f, c))
  | KEncFHeader f => OBytes (encode_fheader f)
  | KRanges h => ORanges (a <- line_range (old_no h) (old_sz h) ;;
                          b <- line_range (new_no h) (new_sz h) ;; Ok (a, b))
  | KTrimEnd s => OBytes (Ok (trim_end s))
  end.

Definition bytes_eqb : bytes -> bytes -> bool := list_eqb N.eqb.
Definition err_eqb (a b : err) : bool :=
  match a, b with
  | EEof, EEof | ESyntax, ESyntax | EParseInt, EParseInt => true
  | _, _ => false
  end.
Definition res_eqb {A} (eqb : A -> A -> bool) (a b : res A) : bool :=
  match a, b with
  | Ok x, Ok y => eqb x y
  | Err x, Err y => err_eqb x y
  | Panic x, Panic y => N.eqb x y
  | OutOfFuel, OutOfFuel => true
  | _, _ => false
  end.
Definition header_eqb (a b : hheader) : bool :=
  N.eqb (old_no a) (old_no b) && N.eqb (old_sz a) (old_sz b) &&
  N.eqb (new_no a) (new_no b) && N.eqb (new_sz a) (new_sz b) && bytes_eqb (htext a) (htext b).
Definition modif_eqb (a b : modif) : bool :=
  match a, b with
  | MAdd l n, MAdd l' n' => bytes_eqb l l' && N.eqb n n'
  | MDel l n, MDel l' n' => bytes_eqb l l' && N.eqb n n'
  | MCtx l o n, MCtx l' o' n' => bytes_eqb l l' && N.eqb o o' && N.eqb n n'
  | _, _ => false
  end.
Definition range_eqb : N * N -> N * N -> bool := prod_eqb N.eqb N.eqb.
Definition hunk_eqb (a b : hunk) : bool :=
  bytes_eqb (hline a) (hline b) && list_eqb modif_eqb (hlines a) (hlines b) &&
  range_eqb (hold a) (hold b) && range_eqb (hnew a) (hnew b).
Definition content_eqb (a b : content) : bool :=
  match a, b with
  | CEmpty, CEmpty | CBinary, CBinary => true
  | CPlain h x y, CPlain h' x' y' => list_eqb hunk_eqb h h' && N.eqb x x' && N.eqb y y'
  | _, _ => false
  end.

Definition obs_eqb (x y : obs) : bool :=
  match x, y with
  | OOptN a, OOptN b => option_eqb N.eqb a b
  | OBytes a, OBytes b => res_eqb bytes_eqb a b
  | OHeader a, OHeader b => res_eqb (prod_eqb header_eqb bytes_eqb) a b
  | OModif a, OModif b => res_eqb (prod_eqb modif_eqb bytes_eqb) a b
  | OHunk a, OHunk b => res_eqb (prod_eqb hunk_eqb bytes_eqb) a b
  | OContent a, OContent b => res_eqb content_eqb a b
  | ORanges a, ORanges b => res_eqb (prod_eqb range_eqb range_eqb) a b
  | _, _ => false
  end.

Definition check_case (ce : case * obs) : bool := obs_eqb (run (fst ce)) (snd ce).
