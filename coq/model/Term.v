(* Term.v — executable model of terminal text truncation (no proofs here).
   covers: radicle-term/src/cell.rs::<impl Cell for str>::{width, truncate}
             (the delegating impls for String, Paint<String>, Paint<&str>, &T,
              Filled<T>, Label and Line call straight into these),
           radicle-term/src/element.rs::Line::{truncate, width},
           unicode-display-width-0.3.0/src/lib.rs::{width, get_grapheme_width}
   sites:  cell.rs  `&self[boundary..]` / `&self[..boundary]`  (byte slice: panics
                     off a char boundary or out of range)            -> Panic 1
           cell.rs  `self[..boundary + g.len()]`                      -> Panic 2
           element.rs `total - last_width` (usize underflow)          -> LPanic 10
           element.rs `width - (total - Cell::width(item))`           -> LPanic 11
           element.rs `while self.width() > width`  (loop)            -> LOutOfFuel

   The model is of the code *after* the commit
     "fix: truncate: never cut inside a whitespace char nor exceed the width"
   (cell.rs).  The code as found (`self[..boundary + 1]`) is kept below as
   [truncate_orig] so that its two defects stay on record as theorems.

   A string is the list of its Unicode scalar values (N).  Byte offsets are
   computed from the UTF-8 length of each scalar value, and slicing at a byte
   offset that is not a char boundary is an explicit Panic, exactly like
   `str` indexing.  The Unicode tables are Section variables:
     seg : extended grapheme cluster segmentation (`graphemes(true)`),
     dw  : `unicode_display_width::is_double_width`,
     ws  : `char::is_whitespace`.
   Note that the Rust code segments twice: `Cell::width(s)` sums
   `unicode::width(g)` over the graphemes g of s, and `unicode::width(g)` again
   segments g and sums `get_grapheme_width`.  The model keeps both levels. *)
From HW Require Import lib.Base.
Local Open Scope N_scope.

Definition str := list N.

Inductive res (A : Type) :=
| Ok (a : A)
| Panic (site : N).
Arguments Ok {A} a.
Arguments Panic {A} site.

Definition sumN (l : list N) : N := fold_right N.add 0 l.

(* char::len_utf8 *)
Definition utf8_len (c : N) : N :=
  if c <? 128 then 1 else if c <? 2048 then 2 else if c <? 65536 then 3 else 4.

(* str::len (bytes) *)
Fixpoint blen (s : str) : N :=
  match s with
  | [] => 0
  | c :: s' => utf8_len c + blen s'
  end.

(* (&s[..b], &s[b..]); None = the slice panics (b inside a char or b > len) *)
Fixpoint byte_split (s : str) (b : N) : option (str * str) :=
  if b =? 0 then Some ([], s)
  else match s with
       | [] => None
       | c :: s' =>
           if b <? utf8_len c then None
           else match byte_split s' (b - utf8_len c) with
                | Some (p, r) => Some (c :: p, r)
                | None => None
                end
       end.

Definition is_empty (s : str) : bool := match s with [] => true | _ => false end.

Section Unicode.
  Variable seg : str -> list str.
  Variable dw : N -> bool.
  Variable ws : N -> bool.

  (* unicode_display_width::get_grapheme_width: 2 if any scalar value is
     U+FE0F or double-wide, else 1 *)
  Definition gwidth (g : str) : N :=
    if existsb (fun c => (c =? 65039) || dw c) g then 2 else 1.

  (* unicode_display_width::width *)
  Definition uwidth (t : str) : N := sumN (map gwidth (seg t)).

  (* <str as Cell>::width *)
  Definition cwidth (s : str) : N := sumN (map uwidth (seg s)).

  (* str::trim *)
  Fixpoint trim_start (s : str) : str :=
    match s with
    | [] => []
    | c :: s' => if ws c then trim_start s' else s
    end.
  Definition trim_end (s : str) : str := rev (trim_start (rev s)).
  Definition trim (s : str) : str := trim_end (trim_start s).

  (* the `for g in self.graphemes(true)` loop of truncate:
     returns (boundary, cols) *)
  Fixpoint scan (gs : list str) (w d boundary cols : N) : N * N :=
    match gs with
    | [] => (boundary, cols)
    | g :: gs' =>
        let c := cwidth g in
        if w <? cols + c + d then (boundary, cols)
        else scan gs' w d (boundary + blen g) (cols + c)
    end.

  (* <str as Cell>::truncate (fixed code) *)
  Definition truncate (s : str) (w : N) (dl : str) : res str :=
    if w <? cwidth s then
      let d := cwidth dl in
      if w <? d then Ok []
      else
        let '(boundary, cols) := scan (seg s) w d 0 0 in
        match byte_split s boundary with
        | None => Panic 1
        | Some (pre, rest) =>
            if is_empty (trim rest) then
              match seg rest with
              | g :: _ =>
                  if cols + cwidth g <=? w then
                    match byte_split s (boundary + blen g) with
                    | Some (p, _) => Ok p
                    | None => Panic 2
                    end
                  else Ok pre
              | [] => Ok pre
              end
            else Ok (pre ++ dl)
        end
    else Ok s.

  (* the code as found: `self[..boundary + 1].to_owned()` *)
  Definition truncate_orig (s : str) (w : N) (dl : str) : res str :=
    if w <? cwidth s then
      let d := cwidth dl in
      if w <? d then Ok []
      else
        let '(boundary, cols) := scan (seg s) w d 0 0 in
        match byte_split s boundary with
        | None => Panic 1
        | Some (pre, rest) =>
            if is_empty (trim rest) then
              match byte_split s (boundary + 1) with
              | Some (p, _) => Ok p
              | None => Panic 2
              end
            else Ok (pre ++ dl)
        end
    else Ok s.

  (* ---- Line: `items: Vec<Label>`; a Label's cell behaviour is that of its
     content string.  The Vec is kept as a stack: head = last item. *)
  Inductive lres :=
  | LOk (st : list str)
  | LPanic (site : N)
  | LOutOfFuel.

  (* Line::width *)
  Definition line_width (st : list str) : N := sumN (map cwidth st).

  (* Line::truncate, generic in the item truncation (so that the code as found
     can be run through the same loop) *)
  Fixpoint line_truncate_with (tr : str -> N -> str -> res str)
           (fuel : nat) (st : list str) (w : N) (dl : str) : lres :=
    match fuel with
    | O => LOutOfFuel
    | S f =>
        if w <? line_width st then
          let total := line_width st in
          let lastw := match st with it :: _ => cwidth it | [] => 0 end in
          if total <? lastw then LPanic 10
          else if w <? total - lastw then line_truncate_with tr f (tl st) w dl
          else match st with
               | it :: st' =>
                   let wi := cwidth it in
                   if total <? wi then LPanic 10
                   else if w <? total - wi then LPanic 11
                   else match tr it (w - (total - wi)) dl with
                        | Ok it' => line_truncate_with tr f (it' :: st') w dl
                        | Panic p => LPanic p
                        end
               | [] => line_truncate_with tr f st w dl
               end
        else LOk st
    end.

  Definition line_truncate := line_truncate_with truncate.
  Definition line_truncate_orig := line_truncate_with truncate_orig.

  (* the fuel the theorems prove sufficient: one pop per item plus one cut *)
  Definition line_fuel (st : list str) : nat := S (length st).

  (* what is printed: the items in Vec order, concatenated *)
  Definition line_text (st : list str) : str := concat (rev st).

  (* ---- strings whose segmentation the functions above consult (used to
     check that a finite table handed over by the harness is complete;
     TermProofs.truncate_ext proves this list is sufficient) *)
  Definition cw_needs (x : str) : list str := x :: seg x.

  Definition trunc_needs (s : str) (w : N) (dl : str) : list str :=
    cw_needs s ++ cw_needs dl ++ flat_map cw_needs (seg s) ++
    (let '(boundary, _) := scan (seg s) w (cwidth dl) 0 0 in
     match byte_split s boundary with
     | Some (_, rest) => rest :: match seg rest with g :: _ => cw_needs g | [] => [] end
     | None => []
     end).

  Fixpoint line_needs (fuel : nat) (st : list str) (w : N) (dl : str) : list str :=
    flat_map cw_needs st ++
    match fuel with
    | O => []
    | S f =>
        if w <? line_width st then
          let total := line_width st in
          let lastw := match st with it :: _ => cwidth it | [] => 0 end in
          if w <? total - lastw then line_needs f (tl st) w dl
          else match st with
               | it :: st' =>
                   trunc_needs it (w - (total - cwidth it)) dl ++
                   match truncate it (w - (total - cwidth it)) dl with
                   | Ok it' => line_needs f (it' :: st') w dl
                   | Panic _ => []
                   end
               | [] => []
               end
        else []
    end.
End Unicode.

(* ------------------------------------------------------------------ *)
(* Correspondence interface.  The harness hands over the Unicode data it got
   from the same crates the code uses, restricted to the strings of the case:
   a segmentation table, the double-wide scalar values and the whitespace
   scalar values that occur. *)

Definition str_eqb : str -> str -> bool := list_eqb N.eqb.

Record tables := {
  t_seg : list (str * list str);
  t_wide : list N;
  t_ws : list N;
}.

Fixpoint assoc_str (x : str) (l : list (str * list str)) : option (list str) :=
  match l with
  | [] => None
  | (k, v) :: l' => if str_eqb x k then Some v else assoc_str x l'
  end.

Definition tseg (t : tables) (s : str) : list str :=
  match assoc_str s (t_seg t) with Some v => v | None => [] end.
Definition tdw (t : tables) (c : N) : bool := memN c (t_wide t).
Definition tws (t : tables) (c : N) : bool := memN c (t_ws t).
Definition in_table (t : tables) (s : str) : bool :=
  match assoc_str s (t_seg t) with Some _ => true | None => false end.

Inductive case :=
| CStr (t : tables) (s : str) (w : N) (dl : str)
| CLine (t : tables) (items : list str) (w : N) (dl : str).

(* what the implementation was observed to do; widths are the
   implementation's own Cell::width / Line::width of its output *)
Inductive obs :=
| OPanic
| OHang
| OStr (out : str) (width : N)
| OLine (items : list str) (width : N)
| OTableIncomplete.

Definition run (c : case) : obs :=
  match c with
  | CStr t s w dl =>
      let sg := tseg t in
      match truncate sg (tdw t) (tws t) s w dl with
      | Ok o =>
          if forallb (in_table t) (trunc_needs sg (tdw t) s w dl ++ cw_needs sg o)
          then OStr o (cwidth sg (tdw t) o) else OTableIncomplete
      | Panic _ => OPanic
      end
  | CLine t items w dl =>
      let sg := tseg t in
      let st := rev items in
      match line_truncate sg (tdw t) (tws t) (line_fuel st) st w dl with
      | LOk o =>
          if forallb (in_table t)
               (line_needs sg (tdw t) (tws t) (line_fuel st) st w dl ++ flat_map (cw_needs sg) o)
          then OLine (rev o) (line_width sg (tdw t) o) else OTableIncomplete
      | LPanic _ => OPanic
      | LOutOfFuel => OHang
      end
  end.

Definition obs_eqb (x y : obs) : bool :=
  match x, y with
  | OPanic, OPanic => true
  | OHang, OHang => true
  | OStr a w, OStr b v => str_eqb a b && N.eqb w v
  | OLine a w, OLine b v => list_eqb str_eqb a b && N.eqb w v
  | _, _ => false
  end.

Definition check_case (ce : case * obs) : bool := obs_eqb (run (fst ce)) (snd ce).
