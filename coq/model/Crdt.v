(* Crdt.v — executable model of crates/radicle-crdt (no proofs here).
   covers: radicle-crdt/src/lib.rs (Semilattice for bool, (), Option<T>),
           ord.rs (Max, Min), gmap.rs (GMap::insert/merge), gset.rs,
           lwwreg.rs (LWWReg::set/merge), lwwmap.rs, lwwset.rs, redactable.rs.
   Every instance is built compositionally exactly as the Rust impls are:
   LWWMap<K,V,C> = GMap<K, LWWReg<Option<V>, C>>, LWWSet<T,C> = LWWMap<T,(),C>.
   Keys and clocks are N (the Rust requires Ord; a total order is assumed). *)
From HW Require Import lib.Base lib.SMap.

(* A join-semilattice "type class" as a record; [wf] is the representation
   invariant (sortedness of the underlying BTreeMap image). *)
Record SL := {
  car : Type;
  join : car -> car -> car;
  wf : car -> Prop;
  ceqb : car -> car -> bool;
}.

(* impl Semilattice for bool *)
Definition bool_sl : SL :=
  {| car := bool; join := orb; wf := fun _ => True; ceqb := Bool.eqb |}.

(* impl Semilattice for () *)
Definition unit_sl : SL :=
  {| car := unit; join := fun _ _ => tt; wf := fun _ => True; ceqb := unit_eqb |}.

(* impl<T: Semilattice> Semilattice for Option<T> *)
Definition option_join (S : SL) (a b : option (car S)) : option (car S) :=
  match a, b with
  | None, Some y => Some y
  | Some x, Some y => Some (join S x y)
  | Some x, None => Some x
  | None, None => None
  end.
Definition option_wf (S : SL) (a : option (car S)) : Prop :=
  match a with Some x => wf S x | None => True end.
Definition option_sl (S : SL) : SL :=
  {| car := option (car S); join := option_join S; wf := option_wf S;
     ceqb := option_eqb (ceqb S) |}.

(* Max<T>: if other > self then self = other *)
Definition max_join (a b : N) : N := if N.ltb a b then b else a.
Definition max_sl : SL :=
  {| car := N; join := max_join; wf := fun _ => True; ceqb := N.eqb |}.

(* Min<T>: if other < self then self = other *)
Definition min_join (a b : N) : N := if N.ltb b a then b else a.
Definition min_sl : SL :=
  {| car := N; join := min_join; wf := fun _ => True; ceqb := N.eqb |}.

(* Redactable<T: PartialEq> *)
Inductive redactable := Present (x : N) | Redacted.
Definition red_join (a b : redactable) : redactable :=
  match a, b with
  | Redacted, _ => Redacted
  | Present _, Redacted => Redacted
  | Present x, Present y => if N.eqb x y then Present x else Redacted
  end.
Definition red_eqb (a b : redactable) : bool :=
  match a, b with
  | Present x, Present y => N.eqb x y
  | Redacted, Redacted => true
  | _, _ => false
  end.
Definition red_sl : SL :=
  {| car := redactable; join := red_join; wf := fun _ => True; ceqb := red_eqb |}.

(* GMap<K,V>::insert: occupied => merge, vacant => insert *)
Definition gmap_insert (S : SL) (k : N) (v : car S) (m : smap (car S)) : smap (car S) :=
  upsert (join S) k v m.
(* GMap::merge: for (k, v) in other { self.insert(k, v) }  (BTreeMap order) *)
Definition gmap_join (S : SL) (a b : smap (car S)) : smap (car S) :=
  fold_left (fun m kv => gmap_insert S (fst kv) (snd kv) m) b a.
Definition gmap_wf (S : SL) (m : smap (car S)) : Prop :=
  sorted m /\ Forall (fun kv => wf S (snd kv)) m.
Definition gmap_sl (S : SL) : SL :=
  {| car := smap (car S); join := gmap_join S; wf := gmap_wf S;
     ceqb := list_eqb (prod_eqb N.eqb (ceqb S)) |}.
Definition gmap_of_list (S : SL) (l : list (N * car S)) : smap (car S) :=
  fold_left (fun m kv => gmap_insert S (fst kv) (snd kv) m) l [].

(* GSet<K> = GMap<K, ()> *)
Definition gset_sl : SL := gmap_sl unit_sl.

(* LWWReg<T, C>: (clock, value).  set(): clock == self.clock => merge values;
   clock > self.clock => replace; otherwise keep. *)
Definition lwwreg_set (S : SL) (r : N * car S) (v : car S) (c : N) : N * car S :=
  if N.eqb c (fst r) then (fst r, join S (snd r) v)
  else if N.ltb (fst r) c then (c, v)
  else r.
Definition lwwreg_join (S : SL) (a b : N * car S) : N * car S :=
  lwwreg_set S a (snd b) (fst b).
Definition lwwreg_sl (S : SL) : SL :=
  {| car := N * car S; join := lwwreg_join S; wf := fun r => wf S (snd r);
     ceqb := prod_eqb N.eqb (ceqb S) |}.

(* LWWMap<K,V,C> = GMap<K, LWWReg<Option<V>, C>> *)
Definition lwwmap_sl (S : SL) : SL := gmap_sl (lwwreg_sl (option_sl S)).
Definition lwwmap_insert (S : SL) (k : N) (v : car S) (c : N) (m : car (lwwmap_sl S)) :=
  gmap_insert (lwwreg_sl (option_sl S)) k (c, Some v) m.
Definition lwwmap_remove (S : SL) (k : N) (c : N) (m : car (lwwmap_sl S)) :=
  gmap_insert (lwwreg_sl (option_sl S)) k (c, None) m.
Definition lwwmap_get (S : SL) (k : N) (m : car (lwwmap_sl S)) : option (car S) :=
  match lookup k m with Some r => snd r | None => None end.
Definition lwwmap_iter (S : SL) (m : car (lwwmap_sl S)) : list (N * car S) :=
  flat_map (fun kr => match snd (snd kr) with Some v => [(fst kr, v)] | None => [] end) m.

(* LWWSet<T,C> = LWWMap<T,(),C> *)
Definition lwwset_sl : SL := lwwmap_sl unit_sl.
Definition lwwset_insert (k c : N) (s : car lwwset_sl) := lwwmap_insert unit_sl k tt c s.
Definition lwwset_remove (k c : N) (s : car lwwset_sl) := lwwmap_remove unit_sl k c s.
Definition lwwset_contains (k : N) (s : car lwwset_sl) : bool :=
  match lwwmap_get unit_sl k s with Some _ => true | None => false end.
Definition lwwset_iter (s : car lwwset_sl) : list N := map fst (lwwmap_iter unit_sl s).

(* ------------------------------------------------------------------ *)
(* Correspondence interface: the harness builds values of the real crate
   from op lists and reports canonical dumps; [run] recomputes them. *)

Inductive mop := MIns (k v c : N) | MRem (k c : N).      (* LWWMap<u8,Max<u8>,u16> *)
Inductive sop := SIns (k c : N) | SRem (k c : N).        (* LWWSet<u8,u16> *)

Definition lwwmap_apply (m : car (lwwmap_sl max_sl)) (o : mop) :=
  match o with
  | MIns k v c => lwwmap_insert max_sl k v c m
  | MRem k c => lwwmap_remove max_sl k c m
  end.
Definition lwwset_apply (s : car lwwset_sl) (o : sop) :=
  match o with
  | SIns k c => lwwset_insert k c s
  | SRem k c => lwwset_remove k c s
  end.
Definition lwwmap_build (ops : list mop) := fold_left lwwmap_apply ops [].
Definition lwwset_build (ops : list sop) := fold_left lwwset_apply ops [].

Definition lwwreg_build (w0 : N * N) (ws : list (N * N)) : N * N :=
  (* LWWReg<Max<u8>,u16>::new(v0,c0) then set(v,c)...; pairs are (clock,value) *)
  fold_left (fun r w => lwwreg_set max_sl r (snd w) (fst w)) ws w0.

Inductive case :=
| CBool (a b : bool)
| COptMax (a b : option N)
| CMax (a b : N)
| CMin (a b : N)
| CRed (a b : redactable)
| CGMap (a b : list (N * N))            (* GMap<u8,Max<u8>> built by from_iter *)
| CGSet (a b : list N)
| CLwwReg (a : (N * N) * list (N * N)) (b : (N * N) * list (N * N))
| CLwwMap (a b post : list mop)          (* join(build a, build b), then apply post *)
| CLwwSet (a b post : list sop).

(* observation: the public reads of join(a,b) (the hidden tombstone clocks of
   LWWMap/LWWSet are exercised by applying further ops after the join) *)
Inductive obs :=
| OBool (r : bool)
| OOptMax (r : option N)
| ON (r : N)
| ORed (r : redactable)
| OGMap (r : list (N * N))
| OGSet (r : list N)
| OLwwReg (clock value : N)
| OLwwMap (iter_joined iter_after : list (N * N))
| OLwwSet (iter_joined iter_after : list N).

Definition run (c : case) : obs :=
  match c with
  | CBool a b => OBool (join bool_sl a b)
  | COptMax a b => OOptMax (join (option_sl max_sl) a b)
  | CMax a b => ON (join max_sl a b)
  | CMin a b => ON (join min_sl a b)
  | CRed a b => ORed (join red_sl a b)
  | CGMap a b => OGMap (join (gmap_sl max_sl) (gmap_of_list max_sl a) (gmap_of_list max_sl b))
  | CGSet a b =>
      OGSet (keys (join gset_sl (gmap_of_list unit_sl (map (fun k => (k, tt)) a))
                                (gmap_of_list unit_sl (map (fun k => (k, tt)) b))))
  | CLwwReg a b =>
      let r := join (lwwreg_sl max_sl) (lwwreg_build (fst a) (snd a)) (lwwreg_build (fst b) (snd b)) in
      OLwwReg (fst r) (snd r)
  | CLwwMap a b post =>
      let m := join (lwwmap_sl max_sl) (lwwmap_build a) (lwwmap_build b) in
      OLwwMap (lwwmap_iter max_sl m) (lwwmap_iter max_sl (fold_left lwwmap_apply post m))
  | CLwwSet a b post =>
      let s := join lwwset_sl (lwwset_build a) (lwwset_build b) in
      OLwwSet (lwwset_iter s) (lwwset_iter (fold_left lwwset_apply post s))
  end.

Definition obs_eqb (x y : obs) : bool :=
  match x, y with
  | OBool a, OBool b => Bool.eqb a b
  | OOptMax a, OOptMax b => option_eqb N.eqb a b
  | ON a, ON b => N.eqb a b
  | ORed a, ORed b => red_eqb a b
  | OGMap a, OGMap b => list_eqb (prod_eqb N.eqb N.eqb) a b
  | OGSet a, OGSet b => list_eqb N.eqb a b
  | OLwwReg c v, OLwwReg c' v' => N.eqb c c' && N.eqb v v'
  | OLwwMap d i, OLwwMap d' i' =>
      list_eqb (prod_eqb N.eqb N.eqb) d d' && list_eqb (prod_eqb N.eqb N.eqb) i i'
  | OLwwSet d i, OLwwSet d' i' => list_eqb N.eqb d d' && list_eqb N.eqb i i'
  | _, _ => false
  end.

Definition check_case (ce : case * obs) : bool := obs_eqb (run (fst ce)) (snd ce).
