(* CobThread.v — executable model of the discussion-thread core shared by issues
   and patches, plus the vocabulary common to the COB models (identity doc,
   authorization verdicts, outcomes).

   covers: crates/radicle/src/cob/thread.rs::comment, ::edit, ::redact, ::react,
           ::resolve, ::unresolve, Thread::comments, Thread::new, Comment::new,
           Comment::edit; crates/radicle/src/cob/common.rs::Authorization
   sites:  debug_assert!(!thread.timeline.contains(&id)) in comment/edit/redact/
           react/resolve/unresolve (debug builds only; model flag [dbg])

   Abstractions: actor ids, entry ids, bodies, reactions are [N]; a body of 0
   is the empty string (the only thing the code looks at); timestamps, embeds
   and code locations are dropped (no decision depends on them).

   Errors leave the partially modified state behind (the Rust functions take
   [&mut] and return early), so [Err] carries the state at the failure point. *)
From HW Require Import lib.Base lib.SMap.
Local Open Scope N_scope.

(* ---------- common vocabulary ---------- *)

Inductive err :=
| EMissing | EComment | EEdit | ENotAuthorized | ENotAllowed | EInvalidTitle
| EDoc | EInit | EEmptyReview | EGit.

Definition err_eqb (a b : err) : bool :=
  match a, b with
  | EMissing, EMissing | EComment, EComment | EEdit, EEdit
  | ENotAuthorized, ENotAuthorized | ENotAllowed, ENotAllowed
  | EInvalidTitle, EInvalidTitle | EDoc, EDoc | EInit, EInit
  | EEmptyReview, EEmptyReview | EGit, EGit => true
  | _, _ => false
  end.

Inductive outcome (S : Type) :=
| Ok (s : S)
| Err (e : err) (s : S)      (* returned Err; [s] = state left behind *)
| Panic (site : N).
Arguments Ok {S} s.
Arguments Err {S} e s.
Arguments Panic {S} site.

Definition bind {S} (r : outcome S) (f : S -> outcome S) : outcome S :=
  match r with Ok s => f s | Err e s => Err e s | Panic k => Panic k end.

(* lift an outcome on a component into the enclosing state *)
Definition omap {S T} (f : S -> T) (r : outcome S) : outcome T :=
  match r with Ok s => Ok (f s) | Err e s => Err e (f s) | Panic k => Panic k end.

(* the identity document an op refers to *)
Record doc := mkDoc { d_delegates : list N; d_threshold : N }.
Definition is_delegate (d : doc) (a : N) : bool := memN a (d_delegates d).

Inductive authz := Allow | Deny | Unknown.
Definition authz_of_bool (b : bool) : authz := if b then Allow else Deny.
Inductive ares := AOk (a : authz) | AErr (e : err) | APanic (site : N).

(* an operation: entry id, author, the identity doc the entry's [resource]
   resolves to (None: no resource / document cannot be loaded), actions *)
Record op (A : Type) := mkOp {
  op_id : N; op_actor : N; op_doc : option doc; op_actions : list A }.
Arguments mkOp {A}. Arguments op_id {A}. Arguments op_actor {A}.
Arguments op_doc {A}. Arguments op_actions {A}.

(* ---------- sets of pairs (BTreeSet<(ActorId, Reaction)>, merge tallies) ---------- *)

Definition pair_eqb (a b : N * N) : bool := (fst a =? fst b) && (snd a =? snd b).
Definition pair_ltb (a b : N * N) : bool :=
  (fst a <? fst b) || ((fst a =? fst b) && (snd a <? snd b)).

Fixpoint pset_add (p : N * N) (l : list (N * N)) : list (N * N) :=
  match l with
  | [] => [p]
  | q :: l' => if pair_eqb p q then l
               else if pair_ltb p q then p :: l
               else q :: pset_add p l'
  end.

Fixpoint pset_remove (p : N * N) (l : list (N * N)) : list (N * N) :=
  match l with
  | [] => []
  | q :: l' => if pair_eqb p q then l' else q :: pset_remove p l'
  end.

Definition sset_eqb (a b : sset) : bool := list_eqb N.eqb (keys a) (keys b).

(* ---------- comments and threads ---------- *)

Record comment := mkComment {
  c_author : N;
  c_edits : list (N * N);        (* (edit author, body), oldest first *)
  c_reacts : list (N * N);       (* sorted set of (actor, reaction) *)
  c_reply : option N;
  c_resolved : bool }.

Record thread := mkThread {
  t_comments : smap (option comment);   (* None = redacted *)
  t_timeline : list N }.

Definition new_comment (author body : N) (reply : option N) : comment :=
  mkComment author [(author, body)] [] reply false.

Definition thread_empty : thread := mkThread [] [].
Definition thread_new (id : N) (c : comment) : thread := mkThread [(id, Some c)] [id].

Definition t_push (id : N) (t : thread) : thread :=
  mkThread (t_comments t) (t_timeline t ++ [id]).
Definition t_set (cid : N) (v : option comment) (t : thread) : thread :=
  mkThread (insert cid v (t_comments t)) (t_timeline t).

(* Thread::comments(): timeline order, live comments only *)
Fixpoint live_along (cs : smap (option comment)) (tl : list N) : list (N * comment) :=
  match tl with
  | [] => []
  | id :: tl' =>
      match lookup id cs with
      | Some (Some c) => (id, c) :: live_along cs tl'
      | _ => live_along cs tl'
      end
  end.
Definition live_comments (t : thread) : list (N * comment) :=
  live_along (t_comments t) (t_timeline t).

(* Thread::comment(id) *)
Definition t_get (t : thread) (cid : N) : option comment :=
  match lookup cid (t_comments t) with Some (Some c) => Some c | _ => None end.

Section Thread.
Variable dbg : bool.   (* debug assertions compiled in *)

Definition dup_id (id : N) (t : thread) : bool := dbg && memN id (t_timeline t).

Definition t_comment (t : thread) (id author body : N) (reply : option N) : outcome thread :=
  if body =? 0 then Err EComment t else
  if match reply with Some r => negb (mem r (t_comments t)) | None => false end
  then Err EMissing t else
  if dup_id id t then Panic 1 else
  Ok (t_set id (Some (new_comment author body reply)) (t_push id t)).

Definition t_edit (t : thread) (id author cid body : N) : outcome thread :=
  if body =? 0 then Err EEdit t else
  if dup_id id t then Panic 2 else
  let t1 := t_push id t in
  match lookup cid (t_comments t) with
  | Some (Some c) =>
      Ok (t_set cid (Some (mkComment (c_author c) (c_edits c ++ [(author, body)])
                             (c_reacts c) (c_reply c) (c_resolved c))) t1)
  | Some None => Ok t1
  | None => Err EMissing t1
  end.

Definition t_redact (t : thread) (id cid : N) : outcome thread :=
  match lookup cid (t_comments t) with
  | Some _ => if dup_id id t then Panic 3 else Ok (t_set cid None (t_push id t))
  | None => Err EMissing t
  end.

Definition t_react (t : thread) (id author cid reaction : N) (active : bool) : outcome thread :=
  match lookup cid (t_comments t) with
  | None => Err EMissing t
  | Some None => Ok t
  | Some (Some c) =>
      if dup_id id t then Panic 4 else
      let rs := if active then pset_add (author, reaction) (c_reacts c)
                else pset_remove (author, reaction) (c_reacts c) in
      Ok (t_set cid (Some (mkComment (c_author c) (c_edits c) rs (c_reply c) (c_resolved c)))
            (t_push id t))
  end.

Definition t_resolve (t : thread) (id cid : N) (v : bool) : outcome thread :=
  match lookup cid (t_comments t) with
  | None => Err EMissing t
  | Some None => Ok t
  | Some (Some c) =>
      if dup_id id t then Panic 5 else
      Ok (t_set cid (Some (mkComment (c_author c) (c_edits c) (c_reacts c) (c_reply c) v))
            (t_push id t))
  end.

End Thread.

(* ---------- boolean equalities for the correspondence check ---------- *)

Definition comment_eqb (a b : comment) : bool :=
  (c_author a =? c_author b) && list_eqb pair_eqb (c_edits a) (c_edits b) &&
  list_eqb pair_eqb (c_reacts a) (c_reacts b) && option_eqb N.eqb (c_reply a) (c_reply b) &&
  Bool.eqb (c_resolved a) (c_resolved b).

Definition thread_eqb (a b : thread) : bool :=
  list_eqb (prod_eqb N.eqb (option_eqb comment_eqb)) (t_comments a) (t_comments b) &&
  list_eqb N.eqb (t_timeline a) (t_timeline b).
