(* CobOps.v — executable model of how one operation is applied to an issue
   (no proofs here), plugged into the generic ChangeGraph evaluation.
   covers: radicle/src/cob/issue.rs::Issue::{from_root, op, authorization, op_action, action},
           radicle/src/cob/issue.rs::<Issue as Evaluate>::{init, apply},
           radicle/src/cob/thread.rs::{comment, edit, redact, react}
   (Issue::op as it is after the fix "a rejected issue operation no longer
   leaves the effects of its earlier actions in the state": the actions are
   applied to a copy which replaces the state only if all of them succeed.
   [issue_apply_inplace] is the code as it was before: the same action
   functions applied to the state in place.)

   Abstractions.  Actors are numbers, actor 0 being the only delegate of the
   identity document every operation commits to.  Titles, bodies, labels and
   reactions are numbers; a title carries the flag "contains no newline", a
   body the flag "is not empty".  Embeds are not modelled.  A payload of [None]
   is an entry one of whose actions does not decode (`Op::try_from` fails before
   anything is applied).
   The thread functions contain `debug_assert!(!timeline.contains(&id))`: an
   operation with two actions that both push its id on the timeline panics in
   builds with debug assertions (the harness build).  The model records this in
   the flag [i_panicked]; an evaluation that sets it is observed as a panic. *)
From HW Require Import lib.Base lib.SMap model.Dag model.ChangeGraph.

Inductive iaction :=
| AAssign (l : list N)
| AEdit (title : N) (valid : bool)
| ALifecycle (s : N)
| ALabel (l : list N)
| AComment (body_ok : bool) (body : N) (reply_to : option N)
| ACommentEdit (id : N) (body_ok : bool) (body : N)
| ACommentRedact (id : N)
| ACommentReact (id : N) (reaction : N) (active : bool).

Definition ipayload := option (list iaction).

Record comment := mkComment {
  c_author : N; c_reply : option N; c_body : N; c_edits : N; c_reacts : list (N * N) }.

Record issue := mkIssue {
  i_assignees : list N; i_title : N; i_state : N; i_labels : list N;
  i_comments : smap (option comment);        (* BTreeMap<CommentId, Option<Comment>> *)
  i_timeline : list N;
  i_panicked : bool }.

(* result of one action: Ok, or Err — with the state the code leaves behind *)
Inductive ares := AOk (s : issue) | AErr (s : issue).

(* BTreeSet<(ActorId, Reaction)> kept sorted by (actor, reaction) *)
Definition pair_ltb (a b : N * N) : bool :=
  N.ltb (fst a) (fst b) || (N.eqb (fst a) (fst b) && N.ltb (snd a) (snd b)).
Definition pair_eqb (a b : N * N) : bool := N.eqb (fst a) (fst b) && N.eqb (snd a) (snd b).
Fixpoint pset_add (x : N * N) (l : list (N * N)) : list (N * N) :=
  match l with
  | [] => [x]
  | y :: l' => if pair_eqb x y then l else if pair_ltb x y then x :: l else y :: pset_add x l'
  end.
Definition pset_remove (x : N * N) (l : list (N * N)) : list (N * N) :=
  filter (fun y => negb (pair_eqb x y)) l.

(* `debug_assert!(!timeline.contains(&id)); timeline.push(id)` *)
Definition push_timeline (s : issue) (entry : N) : issue :=
  mkIssue (i_assignees s) (i_title s) (i_state s) (i_labels s) (i_comments s)
          (i_timeline s ++ [entry]) (i_panicked s || memN entry (i_timeline s)).
Definition set_comments (s : issue) (c : smap (option comment)) : issue :=
  mkIssue (i_assignees s) (i_title s) (i_state s) (i_labels s) c (i_timeline s) (i_panicked s).

(* thread::comment *)
Definition thread_comment (s : issue) (entry author : N) (body_ok : bool) (body : N) (reply : option N) : ares :=
  if negb body_ok then AErr s
  else if match reply with Some r => negb (mem r (i_comments s)) | None => false end then AErr s
  else let s1 := push_timeline s entry in
       AOk (set_comments s1 (insert entry (Some (mkComment author reply body 1 [])) (i_comments s1))).

(* thread::edit — the timeline is pushed before the comment is looked up *)
Definition thread_edit (s : issue) (entry author cid : N) (body_ok : bool) (body : N) : ares :=
  if negb body_ok then AErr s
  else let s1 := push_timeline s entry in
       match lookup cid (i_comments s1) with
       | Some (Some c) =>
           AOk (set_comments s1 (insert cid (Some (mkComment (c_author c) (c_reply c) body (c_edits c + 1) (c_reacts c)))
                                        (i_comments s1)))
       | Some None => AOk s1
       | None => AErr s1
       end.

(* thread::redact *)
Definition thread_redact (s : issue) (entry cid : N) : ares :=
  match lookup cid (i_comments s) with
  | Some _ => let s1 := push_timeline s entry in AOk (set_comments s1 (insert cid None (i_comments s1)))
  | None => AErr s
  end.

(* thread::react *)
Definition thread_react (s : issue) (entry author cid reaction : N) (active : bool) : ares :=
  match lookup cid (i_comments s) with
  | None => AErr s
  | Some None => AOk s
  | Some (Some c) =>
      let s1 := push_timeline s entry in
      let rs := if active then pset_add (author, reaction) (c_reacts c) else pset_remove (author, reaction) (c_reacts c) in
      AOk (set_comments s1 (insert cid (Some (mkComment (c_author c) (c_reply c) (c_body c) (c_edits c) rs)) (i_comments s1)))
  end.

(* thread.comments().next(): the first entry of the timeline that is a present comment *)
Fixpoint first_comment (cs : smap (option comment)) (tl : list N) : option (N * comment) :=
  match tl with
  | [] => None
  | k :: tl' => match lookup k cs with Some (Some c) => Some (k, c) | _ => first_comment cs tl' end
  end.
Definition issue_root (s : issue) : option (N * comment) := first_comment (i_comments s) (i_timeline s).

Inductive authz := Allow | Deny | Unknown | AuthErr.
Definition authz_of (b : bool) : authz := if b then Allow else Deny.

(* Issue::authorization; the delegate of the document is actor 0 *)
Definition authorization (s : issue) (a : iaction) (actor : N) : authz :=
  if N.eqb actor 0 then Allow
  else
    let author := match issue_root s with Some kc => c_author (snd kc) | None => 0%N end in
    match a with
    | AAssign l => authz_of (list_eqb N.eqb l (i_assignees s))
    | AEdit _ _ => authz_of (N.eqb actor author)
    | ALifecycle _ => authz_of (N.eqb actor author)
    | ALabel l => authz_of (list_eqb N.eqb l (i_labels s))
    | AComment _ _ _ => Allow
    | ACommentEdit id _ _ | ACommentRedact id =>
        match lookup id (i_comments s) with
        | Some (Some c) => authz_of (N.eqb actor (c_author c))
        | Some None => Unknown
        | None => AuthErr
        end
    | ACommentReact _ _ _ => Allow
    end.

(* Issue::action *)
Definition issue_action (s : issue) (a : iaction) (entry author : N) : ares :=
  match a with
  | AAssign l => AOk (mkIssue l (i_title s) (i_state s) (i_labels s) (i_comments s) (i_timeline s) (i_panicked s))
  | AEdit t valid =>
      if valid then AOk (mkIssue (i_assignees s) t (i_state s) (i_labels s) (i_comments s) (i_timeline s) (i_panicked s))
      else AErr s
  | ALifecycle st => AOk (mkIssue (i_assignees s) (i_title s) st (i_labels s) (i_comments s) (i_timeline s) (i_panicked s))
  | ALabel l => AOk (mkIssue (i_assignees s) (i_title s) (i_state s) l (i_comments s) (i_timeline s) (i_panicked s))
  | AComment ok body reply => thread_comment s entry author ok body reply
  | ACommentEdit cid ok body => thread_edit s entry author cid ok body
  | ACommentRedact cid =>
      if match issue_root s with Some kc => N.eqb cid (fst kc) | None => false end then AErr s
      else thread_redact s entry cid
  | ACommentReact cid r active => thread_react s entry author cid r active
  end.

(* Issue::op_action *)
Definition op_action (s : issue) (a : iaction) (entry author : N) : ares :=
  match authorization s a author with
  | Allow => issue_action s a entry author
  | Deny => AErr s
  | Unknown => AOk s
  | AuthErr => AErr s
  end.

(* `for action in op.actions { state.op_action(action, …)? }` *)
Fixpoint run_actions (s : issue) (acts : list iaction) (entry author : N) : ares :=
  match acts with
  | [] => AOk s
  | a :: rest => match op_action s a entry author with
                 | AOk s1 => if i_panicked s1 then AOk s1      (* the debug assertion fired: nothing else runs *)
                             else run_actions s1 rest entry author
                 | AErr s1 => AErr s1
                 end
  end.

(* <Issue as Evaluate>::apply after the fix: the actions run on a clone *)
Definition issue_apply (s : issue) (k : N) (e : entry ipayload) (_ : list (N * entry ipayload)) : bool * issue :=
  if i_panicked s then (true, s)
  else match e_payload e with
       | None => (false, s)
       | Some acts => match run_actions s acts k (e_author e) with
                      | AOk s1 => (true, s1)
                      | AErr s1 => if i_panicked s1 then (true, s1) else (false, s)
                      end
       end.

(* … and before: the state is the one the failing action left behind *)
Definition issue_apply_inplace (s : issue) (k : N) (e : entry ipayload) (_ : list (N * entry ipayload)) : bool * issue :=
  if i_panicked s then (true, s)
  else match e_payload e with
       | None => (false, s)
       | Some acts => match run_actions s acts k (e_author e) with
                      | AOk s1 => (true, s1)
                      | AErr s1 => (false, s1)
                      end
       end.

(* Issue::from_root *)
Fixpoint root_actions (s : issue) (acts : list iaction) (entry author : N) : option issue :=
  match acts with
  | [] => Some s
  | a :: rest =>
      match authorization s a author with
      | Allow => match issue_action s a entry author with
                 | AOk s1 => if i_panicked s1 then Some s1 else root_actions s1 rest entry author
                 | AErr s1 => if i_panicked s1 then Some s1 else None
                 end
      | Deny | AuthErr => None
      | Unknown => root_actions s rest entry author
      end
  end.
Definition issue_init (k : N) (e : entry ipayload) : option issue :=
  match e_payload e with
  | Some (AComment _ body None :: rest) =>
      root_actions (mkIssue [] 0 0 [] [(k, Some (mkComment (e_author e) None body 1 []))] [k] false)
                   rest k (e_author e)
  | _ => None
  end.

(* ------------------------------------------------------------------ *)
(* An object type whose `apply` looks at its concurrent entries, the way
   `Identity::op` does: an `UnexpectedState` error is ignored when there are
   concurrent operations and fatal when there are none.  Payload: true = the
   action is applicable, false = it finds the state unexpected.  The state is
   the timeline. *)
Definition sib_init (k : N) (_ : entry bool) : option (list N) := Some [k].
Definition sib_apply (s : list N) (k : N) (e : entry bool) (sibs : list (N * entry bool)) : bool * list N :=
  if e_payload e then (true, s ++ [k])
  else match sibs with
       | [] => (false, s)                  (* concurrent.is_empty(): fatal *)
       | _ :: _ => (true, s ++ [k])        (* ignored; the op still enters the timeline *)
       end.

(* ------------------------------------------------------------------ *)
(* Correspondence interface (C06): the harness writes issue histories as real
   COB commits and evaluates them with the real `cob::get::<Issue, _>`. *)

Definition raw_ientry := (N * (list N * N * N * bool * N * ipayload))%type.
Definition mk_istore (l : list raw_ientry) : cstore ipayload :=
  map (fun r => match r with
                | (k, (ps, ts, au, ok, mf, pl)) => (k, mkEntry ps ts au ok mf pl)
                end) l.

Inductive icase := CIssue (st : list raw_ientry) (tips : list N) (oid : N).

(* per comment: None = redacted, else (author, reply_to, latest body, number of edits, reactions) *)
Definition cdump := option (N * option N * N * N * list (N * N)).
Definition issue_dump := (list N * N * N * list N * list N * list (N * cdump))%type.
Definition dump_issue (s : issue) : issue_dump :=
  (i_assignees s, i_title s, i_state s, i_labels s, i_timeline s,
   map (fun kc => (fst kc, option_map (fun c => (c_author c, c_reply c, c_body c, c_edits c, c_reacts c)) (snd kc)))
       (i_comments s)).

Inductive iobs :=
| IFuel | INone | IMissingRoot | ISignature | IInit | IPanic
| IOk (d : issue_dump) (h : hist_dump).

Definition hist_of_i (g : dag (entry ipayload)) : hist_dump :=
  (map (fun kn => (fst kn, (sset_elems (ndeps (snd kn)), sset_elems (ndpts (snd kn))))) (graph g),
   graph_tips g).

Definition irun (c : icase) : iobs :=
  match c with
  | CIssue st tips oid =>
      match load (mk_istore st) tips with
      | LoadFuel => IFuel
      | LoadNone => INone
      | Loaded g =>
          match evaluate issue_init issue_apply oid g with
          | EvMissingRoot => IMissingRoot
          | EvSignature => ISignature
          | EvInit => IInit
          | EvFuel => IFuel
          | EvHistoryPanic => IPanic
          | EvOk _ s h _ => if i_panicked s then IPanic else IOk (dump_issue s) (hist_of_i h)
          end
      end
  end.

Definition optN_eqb := option_eqb N.eqb.
Definition cdump_eqb : cdump -> cdump -> bool :=
  option_eqb (prod_eqb (prod_eqb (prod_eqb (prod_eqb N.eqb optN_eqb) N.eqb) N.eqb)
                       (list_eqb (prod_eqb N.eqb N.eqb))).
Definition issue_dump_eqb : issue_dump -> issue_dump -> bool :=
  prod_eqb (prod_eqb (prod_eqb (prod_eqb (prod_eqb listN_eqb N.eqb) N.eqb) listN_eqb) listN_eqb)
           (list_eqb (prod_eqb N.eqb cdump_eqb)).

Definition iobs_eqb (x y : iobs) : bool :=
  match x, y with
  | INone, INone | IMissingRoot, IMissingRoot | ISignature, ISignature | IInit, IInit | IPanic, IPanic => true
  | IOk d1 h1, IOk d2 h2 => issue_dump_eqb d1 d2 && hist_eqb h1 h2
  | _, _ => false
  end.

Definition icheck_case (ce : icase * iobs) : bool := iobs_eqb (irun (fst ce)) (snd ce).
