(* WireVarint.v — executable model of the QUIC-style variable-length integers and
   of varint-prefixed payloads.
   covers: crates/radicle-node/src/wire/varint.rs::{VarInt::new, <VarInt as Decode>::decode,
           <VarInt as Encode>::encode, payload::encode, payload::decode (the code after
           "fix: wire: don't allocate a frame payload by its declared length ..."),
           payload::READ_AHEAD};
           crates/radicle-node/src/wire.rs::{Error::is_eof (as the constructor DEof),
           <u8/u16/u32/u64 as Encode>::encode (big endian)}
   sites: VarInt::decode `unreachable!{}` (DUnreachable), VarInt::encode
          `panic!("VarInt::encode: integer overflow")` (EncPanic); payload::decode
          allocation requests are an explicit output.
   Bytes are `N` (the harness only ever produces values < 256; lemmas that need it
   assume `bytes_ok`).  A reader (`R: io::Read`, in the code always a cursor over a
   slice) is the list of bytes not yet consumed; a successful decode returns the
   remaining input.  `usize` is assumed to be 64 bits (`*size as usize` is then
   the identity on values < 2^62).  No proofs in this file. *)
From HW Require Import lib.Base.
Local Open Scope N_scope.

Definition len {A} (l : list A) : N := N.of_nat (length l).
Definition takeN {A} (n : N) (l : list A) : list A := firstn (N.to_nat n) l.
Definition dropN {A} (n : N) (l : list A) : list A := skipn (N.to_nat n) l.
Definition bytes_ok (l : list N) : Prop := Forall (fun b => b < 256) l.
Definition bytes_okb (l : list N) : bool := forallb (fun b => b <? 256) l.

(* run-length helper used by the generated case files: [n] copies of [b] *)
Definition rpt (n b : N) : list N := repeat b (N.to_nat n).

(* wire::Error, reduced to what the frame layer can produce; errors of the inner
   gossip message codec are opaque ([EInner code]) *)
Inductive werr :=
| EInvalidVersion                 (* Error::InvalidProtocolVersion *)
| EWrongVersion (n : N)           (* Error::WrongProtocolVersion (unreachable, see WireFrame) *)
| EInvalidStreamKind (n : N)      (* Error::InvalidStreamKind *)
| EInvalidControl (n : N)         (* Error::InvalidControlMessage *)
| ETruncatedInner                 (* Error::Io(InvalidData): inner message ran past its complete payload *)
| EInner (code : N).              (* any non-EOF error of the inner message codec *)

(* result of decoding from a reader *)
Inductive dres (A : Type) :=
| DOk (a : A) (rest : list N)
| DEof                            (* Error::Io(UnexpectedEof): Error::is_eof() *)
| DErr (e : werr)
| DUnreachable                    (* panic site: `unreachable!{}` in VarInt::decode *)
| DFuel.                          (* model artefact: loop fuel exhausted (proved impossible) *)
Arguments DOk {A} a rest.
Arguments DEof {A}.
Arguments DErr {A} e.
Arguments DUnreachable {A}.
Arguments DFuel {A}.

(* big-endian value of a byte string (u16/u32/u64::from_be_bytes) *)
Definition be_from (acc : N) (bs : list N) : N := fold_left (fun a b => a * 256 + b) bs acc.
Definition be (bs : list N) : N := be_from 0 bs.

(* the [k] low-order bytes of [x], most significant first (write_uNN::<NetworkEndian>) *)
Fixpoint be_bytes (k : nat) (x : N) : list N :=
  match k with
  | O => []
  | S k' => (x / 256 ^ N.of_nat k') mod 256 :: be_bytes k' x
  end.

Definition VARINT_MAX : N := 2 ^ 62 - 1.

(* VarInt::new *)
Definition varint_new (x : N) : option N := if x <=? VARINT_MAX then Some x else None.

(* <VarInt as Decode>::decode *)
Definition varint_decode (inp : list N) : dres N :=
  match inp with
  | [] => DEof                                         (* r.read_u8()? *)
  | b0 :: r =>
      let tag := N.shiftr b0 6 in                      (* buf[0] >> 6 *)
      let b0' := N.land b0 63 in                       (* buf[0] &= 0b0011_1111 *)
      match tag with
      | 0 => DOk b0' r
      | 1 => match r with
             | b1 :: r' => DOk (be [b0'; b1]) r'
             | _ => DEof
             end
      | 2 => match r with
             | b1 :: b2 :: b3 :: r' => DOk (be [b0'; b1; b2; b3]) r'
             | _ => DEof
             end
      | 3 => match r with
             | b1 :: b2 :: b3 :: b4 :: b5 :: b6 :: b7 :: r' =>
                 DOk (be [b0'; b1; b2; b3; b4; b5; b6; b7]) r'
             | _ => DEof
             end
      | _ => DUnreachable
      end
  end.

(* <VarInt as Encode>::encode; [None] is the integer-overflow panic.
   `x as u16` / `x as u32` truncations and the `|` with the tag are kept as written. *)
Definition varint_encode (x : N) : option (list N) :=
  if x <? 2 ^ 6 then Some (be_bytes 1 (x mod 2 ^ 8))
  else if x <? 2 ^ 14 then Some (be_bytes 2 (N.lor (N.shiftl 1 14) (x mod 2 ^ 16)))
  else if x <? 2 ^ 30 then Some (be_bytes 4 (N.lor (N.shiftl 2 30) (x mod 2 ^ 32)))
  else if x <? 2 ^ 62 then Some (be_bytes 8 (N.lor (N.shiftl 3 62) x))
  else None.

(* number of bytes of the (minimal) encoding *)
Definition varint_len (x : N) : N :=
  if x <? 2 ^ 6 then 1 else if x <? 2 ^ 14 then 2 else if x <? 2 ^ 30 then 4 else 8.

(* payload::encode: Err(InvalidInput) for len >= 2^62 is [None] *)
Definition payload_encode (p : list N) : option (list N) :=
  match varint_new (len p) with
  | Some l => match varint_encode l with
              | Some hd => Some (hd ++ p)
              | None => None
              end
  | None => None
  end.

(* payload::READ_AHEAD *)
Definition READ_AHEAD : N := 4096.

(* the `while data.len() < size` loop of payload::decode.  [acc] is `data`, [inp]
   the reader; returns the result and the allocation requests made so far
   (`reserve_exact(n)` on a vector whose capacity equals its length `start`
   requests `start + n` bytes; `resize` then stays within capacity). *)
Fixpoint read_chunks (fuel : nat) (size : N) (acc inp : list N) (allocs : list N)
  : dres (list N) * list N :=
  match fuel with
  | O => (DFuel, allocs)
  | S fuel' =>
      if len acc <? size then
        let start := len acc in
        let n := N.min (size - start) READ_AHEAD in
        let allocs' := allocs ++ [start + n] in
        if n <=? len inp                                (* reader.read_exact(&mut data[start..]) *)
        then read_chunks fuel' size (acc ++ takeN n inp) (dropN n inp) allocs'
        else (DEof, allocs')
      else (DOk acc inp, allocs)
  end.

(* payload::decode: result and allocation requests *)
Definition payload_decode (inp : list N) : dres (list N) * list N :=
  match varint_decode inp with
  | DOk size r => read_chunks (S (length r)) size [] r []
  | DEof => (DEof, [])
  | DErr e => (DErr e, [])
  | DUnreachable => (DUnreachable, [])
  | DFuel => (DFuel, [])
  end.
