(* Worker.v — executable model of the fetch responder (C12).
   covers: crates/radicle-node/src/worker.rs::Worker::_process (FetchRequest::Responder arm),
           crates/radicle-node/src/worker.rs::Worker::is_authorized,
           crates/radicle-node/src/worker/upload_pack.rs::upload_pack (protocol version gate; the
             spawned `git upload-pack` is the Section variable [git_upload_pack]),
           crates/radicle/src/identity/doc.rs::Doc::{is_visible_to, is_delegate},
           crates/radicle/src/node/policy/config.rs::Config::seed_policy,
           crates/radicle/src/node/policy.rs::SeedingPolicy::is_block
   sites: none of its own (the header parser's sites are in Pktline.v and propagate)

   Node ids are abstract N; a repository id is the 20 bytes of its oid (list N).
   State = what the worker reads when it takes the decision: the default seeding
   policy it was configured with, the rows of the policy database, the storage.
   No proofs here. *)
From HW Require Import lib.Base.
From HW Require Export model.Pktline.
Local Open Scope N_scope.

(* ---------------------------------------------------------------- identity document *)

Inductive visibility :=
| Public
| Private (allow : list N).       (* BTreeSet<Did> *)

Record doc := {
  d_delegates : list N;
  d_visibility : visibility
}.

Definition is_delegate (d : doc) (n : N) : bool := memN n (d_delegates d).

(* Doc::is_visible_to *)
Definition is_visible_to (d : doc) (n : N) : bool :=
  match d_visibility d with
  | Public => true
  | Private allow => memN n allow || is_delegate d n
  end.

(* ---------------------------------------------------------------- state *)

Inductive policy := Allow | Block.   (* SeedingPolicy::{Allow { scope }, Block}; the scope is not read here *)

Inductive repo_entry :=
| RepoDoc (d : doc)      (* repository present, identity_doc() loads *)
| RepoBroken.            (* repository present, identity_doc() fails *)

Definition rid_eqb : list N -> list N -> bool := list_eqb N.eqb.

Fixpoint assoc {V} (k : list N) (l : list (list N * V)) : option V :=
  match l with
  | [] => None
  | (k', v) :: l' => if rid_eqb k k' then Some v else assoc k l'
  end.

Record state := {
  st_default : policy;                         (* worker::Config::policy *)
  st_policy_err : bool;                        (* the policy database cannot be read (dropped table, locked) *)
  st_explicit : list (list N * policy);        (* rows of the repository policy table *)
  st_repos : list (list N * repo_entry)        (* the storage *)
}.

(* policy::Config::seed_policy(rid)?.policy — None: PolicyStore error.  Since the
   fix "a failure to read a repository's seeding policy row is an error, not 'no
   policy'" this covers failures when the statement is prepared AND when the row
   is stepped (before, a step failure such as a locked database silently became
   "no row" and the default policy applied). *)
Definition seed_policy (st : state) (rid : list N) : option policy :=
  if st_policy_err st then None
  else Some (match assoc rid (st_explicit st) with
             | Some p => p
             | None => st_default st
             end).

(* ---------------------------------------------------------------- is_authorized *)

Inductive uerr :=          (* UploadError *)
| UIo (e : ioerr)
| UUnauthorized
| URepository
| UPolicyStore.

(* Worker::is_authorized: None = Ok(()) *)
Definition is_authorized (st : state) (remote : N) (rid : list N) : option uerr :=
  match seed_policy st rid with
  | None => Some UPolicyStore
  | Some Block => Some UUnauthorized          (* before the repository is opened *)
  | Some Allow =>
      match assoc rid (st_repos st) with
      | None => Some URepository              (* storage.repository(rid)? *)
      | Some RepoBroken => Some URepository   (* repo.identity_doc()? *)
      | Some (RepoDoc d) =>
          if is_visible_to d remote then None else Some UUnauthorized
      end
  end.

(* the decision named in the design: policy, loaded document, requester *)
Definition authorize (p : policy) (d : option doc) (remote : N) : bool :=
  match p, d with
  | Allow, Some d => is_visible_to d remote
  | _, _ => false
  end.

(* ---------------------------------------------------------------- upload_pack / _process *)

(* "version" *)
Definition VERSION : list N := [118; 101; 114; 115; 105; 111; 110].

(* header.extra.iter().find_map(..).unwrap_or(0): the first ("version", Some v) decides *)
Fixpoint protocol_version (extra : list (list N * option (list N))) : N :=
  match extra with
  | [] => 0
  | (k, Some v) :: rest =>
      if list_eqb N.eqb k VERSION
      then (if list_eqb N.eqb v [50] then 2 else if list_eqb N.eqb v [49] then 1 else 0)
      else protocol_version rest
  | (_, None) :: rest => protocol_version rest
  end.

(* FetchResult::Responder { rid, result } plus everything written to the stream *)
Inductive outcome :=
| Done (rid : option (list N)) (result : option uerr) (out : list N)   (* result None = Ok(()) *)
| ProcPanic (site : N).

Section Upload.
(* stdout of `git upload-pack` run in the directory of repository [rid], fed
   with the bytes the client sends after the header: the repository data *)
Variable git_upload_pack : list N -> list N -> list N.

(* upload_pack(header, recv, send): (result, bytes written to send) *)
Definition upload_pack (hdr : request) (rest : list N) : option uerr * list N :=
  if protocol_version (g_extra hdr) =? 2
  then (None, git_upload_pack (g_repo hdr) rest)
  else (Some (UIo EInvalidData), []).

(* Worker::_process, FetchRequest::Responder { remote, .. } *)
Definition process (st : state) (remote : N) (ext : option (list N)) (stream : list N) : outcome :=
  match git_request ext stream with
  | Panic s => ProcPanic s
  | Err e => Done None (Some (UIo e)) []
  | Ok (hdr, rest) =>
      match is_authorized st remote (g_repo hdr) with
      | Some e => Done (Some (g_repo hdr)) (Some e) []
      | None =>
          let '(result, out) := upload_pack hdr rest in
          Done (Some (g_repo hdr)) result out
      end
  end.
End Upload.

(* ---------------------------------------------------------------- correspondence interface *)

Inductive case :=
| CGitRequest (ext : option (list N)) (bytes : list N)
| CProcess (st : state) (remote : N) (ext : option (list N)) (bytes : list N).

Inductive rcode :=
| ROk | RInvalidInput | RUnexpectedEof | RInvalidData | RUnauthorized | RRepository | RPolicyStore
| RPanic | ROther.

Inductive obs :=
(* git_request: result code, then (repo, path, extra) when Ok *)
| OReq (c : rcode) (v : option (list N * list N * list (list N * option (list N))))
(* _process: requested rid, result code, whether any byte was written to the stream *)
| OProc (rid : option (list N)) (c : rcode) (data : bool).

Definition io_code (e : ioerr) : rcode :=
  match e with
  | EInvalidInput => RInvalidInput
  | EUnexpectedEof => RUnexpectedEof
  | EInvalidData => RInvalidData
  end.

Definition uerr_code (e : option uerr) : rcode :=
  match e with
  | None => ROk
  | Some (UIo e) => io_code e
  | Some UUnauthorized => RUnauthorized
  | Some URepository => RRepository
  | Some UPolicyStore => RPolicyStore
  end.

(* for running the model the repository data is one marker byte *)
Definition marker_pack (_ _ : list N) : list N := [1].

Definition run (c : case) : obs :=
  match c with
  | CGitRequest ext bytes =>
      match git_request ext bytes with
      | Ok (h, _) => OReq ROk (Some (g_repo h, g_path h, g_extra h))
      | Err e => OReq (io_code e) None
      | Panic _ => OReq RPanic None
      end
  | CProcess st remote ext bytes =>
      match process marker_pack st remote ext bytes with
      | Done rid r out => OProc rid (uerr_code r) (negb (match out with [] => true | _ => false end))
      | ProcPanic _ => OProc None RPanic false
      end
  end.

Definition rcode_eqb (a b : rcode) : bool :=
  match a, b with
  | ROk, ROk | RInvalidInput, RInvalidInput | RUnexpectedEof, RUnexpectedEof
  | RInvalidData, RInvalidData | RUnauthorized, RUnauthorized | RRepository, RRepository
  | RPolicyStore, RPolicyStore | RPanic, RPanic | ROther, ROther => true
  | _, _ => false
  end.

Definition text_eqb : list N -> list N -> bool := list_eqb N.eqb.
Definition extra_eqb : list (list N * option (list N)) -> list (list N * option (list N)) -> bool :=
  list_eqb (prod_eqb text_eqb (option_eqb text_eqb)).

(* When the upload is started the implementation's stream output depends on the
   real git process (it is killed when the client side ends): the data flag is
   compared only when the model says nothing may be written. *)
Definition obs_eqb (m o : obs) : bool :=
  match m, o with
  | OReq c1 v1, OReq c2 v2 =>
      rcode_eqb c1 c2 &&
      option_eqb (prod_eqb (prod_eqb text_eqb text_eqb) extra_eqb) v1 v2
  | OProc r1 c1 d1, OProc r2 c2 d2 =>
      option_eqb text_eqb r1 r2 && rcode_eqb c1 c2 && (d1 || negb d2)
  | _, _ => false
  end.

Definition check_case (ce : case * obs) : bool := obs_eqb (run (fst ce)) (snd ce).
