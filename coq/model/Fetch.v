(* Fetch.v — executable model of one run of the radicle fetch protocol on the
   fetching side (no proofs here).

   covers: radicle-fetch/src/lib.rs::pull, ::clone (the local key is added to
             the block list by `pull` only);
           radicle-fetch/src/state.rs::FetchState::run, ::run_special_refs,
             ::run_stage (bookkeeping of advertised tips, `update_all`),
             ::prune, Cached::load, Cached::validate_remote;
           radicle-fetch/src/stage.rs::CanonicalId, ::SpecialRefs, ::SigrefsAt,
             ::DataRefs (ls_refs / ref_filter / pre_validate / prepare_updates),
             special_refs_updates, ensure_refs, ensure_threshold;
           radicle-fetch/src/refs.rs::special_update (Policy::Abort for
             delegates, Policy::Reject otherwise);
           radicle-fetch/src/sigrefs.rs::RemoteRefs::load, ::validate,
             DelegateStatus;
           radicle-fetch/src/git/mem.rs::Refdb::update, ::references_of;
           radicle-fetch/src/git/repository.rs::update, ::direct, ::prune,
             ::ancestry;
           radicle/src/storage/refs.rs::SignedRefs::verify (as the two observed
             booleans so_sig_ok / so_root_ok of a signed-refs object),
             SignedRefsAt::load / load_at.
   The model is of the code AFTER these repairs (see the registry entry):
     - SigrefsAt: the announced oid is the object that is verified and loaded
       (it used to be the tip the serving node advertised, or the locally
       stored one), blocked remotes and repeated entries of `refs_at` are
       dropped (last entry wins);
     - a namespace for which no signed refs could be loaded is not updated;
     - a signed reference name that is not `Qualified` is skipped by DataRefs
       (it used to panic: `expect("we checked sigrefs well-formedness ...")`);
     - a server that does not advertise `refs/rad/id` is a layout error (it
       used to panic: `expect("ensure we got canonicdal 'rad/id' ref")`).
   sites: none left in the modelled functions (the two `expect`s above were the
   reachable ones; `unreachable!("BUG: unborn ref")` needs an unborn ref from
   ls-refs, which `lsrefs.unborn=ignore` excludes on the serving side).

   Abstraction.  Node ids, object ids and reference names are N.  Names:
   42 = refs/rad/sigrefs, 40 = refs/rad/id, 41 = refs/rad/root, 40..49 =
   refs/rad/*, >= 10 = `Qualified` names (refs/<category>/...), < 10 = names
   that are not qualified.  A namespace is a map name -> oid that *includes* the
   signed-refs reference (name 42); a store maps node ids to non-empty
   namespaces.  The universe U maps the oid of every signed-refs commit to its
   parsed content and the two verification verdicts.  `anc a b` = commit a is
   an ancestor of (or equal to) commit b (libgit2 graph_ahead_behind).
   Trusted/assumed, not modelled: the pack transfer (every stage either
   delivers all wanted objects or the fetch ends with an error before storage
   is touched; an announced oid nobody can serve is the error RErr 5), libgit2
   reference writes (no I/O fault in the middle of `repository::update`),
   the identity document (same document on both sides; delegates/threshold
   are inputs), `limit`s. *)
From HW Require Import lib.Base lib.SMap.
Local Open Scope N_scope.

Definition nid := N.
Definition oid := N.
Definition name := N.

Definition SIGREFS : name := 42.
Definition RAD_ID : name := 40.
Definition RAD_ROOT : name := 41.
Definition is_rad (n : name) : bool := (40 <=? n) && (n <? 50).
Definition is_qualified (n : name) : bool := 10 <=? n.

Definition namespace := smap oid.
Definition store := smap namespace.

Record sigobj := mkSigObj {
  so_content : smap oid;   (* the `refs` blob: name -> oid *)
  so_sig_ok : bool;        (* blob parses and the signature by the namespace key verifies *)
  so_root_ok : bool        (* refs/rad/root, if signed, names this repository *)
}.
Definition universe := smap sigobj.
Definition so_valid (o : sigobj) : bool := so_sig_ok o && so_root_ok o.

Record cfg := mkCfg {
  c_delegates : list nid;            (* delegates of the identity document *)
  c_threshold : N;                   (* its threshold (>= 1) *)
  c_local : nid;
  c_blocked : list nid;              (* configured block list *)
  c_followed : option (list nid);    (* None = Allowed::All *)
  c_clone : bool;
  c_refs_at : option (list (nid * oid));
  c_srv_canon : bool                 (* the server advertises refs/rad/id *)
}.

Inductive policy := Abort | Reject | Allow.
Inductive update :=
| Direct (n : name) (target : oid) (p : policy)
| Prune (n : name).

Inductive result :=
| RSuccess
| RFailed
| RErr (e : N)   (* 1 layout, 2 signed refs do not load/verify, 3 delegate diverged,
                    4 non-fast-forward abort while applying, 5 transport *)
| RPanic.        (* no reachable site left; kept for the correspondence interface *)

Definition isSome {A} (o : option A) : bool := match o with Some _ => true | None => false end.

(* deletion of a key (all its bindings; on sorted maps this is the library's removal) *)
Definition del {V} (k : N) (m : smap V) : smap V := filter (fun x => negb (fst x =? k)) m.

Definition ns_of (st : store) (r : nid) : namespace :=
  match lookup r st with Some ns => ns | None => [] end.

Definition put_ns (r : nid) (ns : namespace) (st : store) : store :=
  match ns with [] => del r st | _ => insert r ns st end.

Definition sigrefs_of (st : store) (r : nid) : option oid := lookup SIGREFS (ns_of st r).

(* ---------------------------------------------------------------- config *)

Definition eff_blocked (c : cfg) : list nid :=
  if c_clone c then c_blocked c else c_local c :: c_blocked c.
Definition is_blocked (c : cfg) (r : nid) : bool := memN r (eff_blocked c).
Definition eff_delegates (c : cfg) : list nid :=
  filter (fun d => negb (is_blocked c d)) (c_delegates c).
Definition is_delegate (c : cfg) (r : nid) : bool := memN r (eff_delegates c).
Definition eff_threshold (c : cfg) : N :=
  if memN (c_local c) (c_delegates c) then c_threshold c - 1 else c_threshold c.
Definition pol (c : cfg) (r : nid) : policy := if is_delegate c r then Abort else Reject.

Section WithOracles.
Variable anc : oid -> oid -> bool.
Variable U : universe.

(* ---------------------------------------------------------------- ancestry / applying *)

Inductive ancestry := Equal | Ahead | Behind | Diverged.
Definition ancestry_of (old new : oid) : ancestry :=
  if old =? new then Equal
  else if anc old new then Ahead
  else if anc new old then Behind
  else Diverged.

(* repository::direct / ::prune on one namespace; None = Update::NonFF *)
Definition apply_update (ns : namespace) (u : update) : option namespace :=
  match u with
  | Direct n t p =>
      match lookup n ns with
      | None => Some (insert n t ns)
      | Some prev =>
          match ancestry_of prev t, p with
          | Equal, _ => Some ns
          | Ahead, _ => Some (insert n t ns)
          | Behind, Allow | Diverged, Allow => Some (insert n t ns)
          | Behind, _ => Some ns
          | Diverged, Reject => Some ns
          | Diverged, Abort => None
          end
      end
  | Prune n => Some (del n ns)
  end.

Fixpoint apply_ns (ns : namespace) (us : list update) : namespace * bool :=
  match us with
  | [] => (ns, true)
  | u :: us' =>
      match apply_update ns u with
      | Some ns' => apply_ns ns' us'
      | None => (ns, false)
      end
  end.

(* repository::update over the tips of all remotes, in key order, one by one *)
Fixpoint apply_all (L : store) (tips : list (nid * list update)) : store * bool :=
  match tips with
  | [] => (L, true)
  | (r, us) :: rest =>
      let '(ns', ok) := apply_ns (ns_of L r) us in
      let L' := put_ns r ns' L in
      if ok then apply_all L' rest else (L', false)
  end.

(* ---------------------------------------------------------------- in-memory refdb / validation *)

Definition mem_update (m : namespace) (u : update) : namespace :=
  match u with
  | Direct n t _ => insert n t m
  | Prune n => del n m
  end.
Definition mem_of (us : list update) : namespace := fold_left mem_update us [].

(* Cached::validate_remote: no Unsigned / Mismatched / Missing / MissingRadSigRefs *)
Definition validate (us : list update) (content : smap oid) : bool :=
  let m := mem_of us in
  mem SIGREFS m
  && forallb (fun nv => (fst nv =? SIGREFS) ||
                match lookup (fst nv) content with Some v' => snd nv =? v' | None => false end) m
  && forallb (fun nv => negb (fst nv =? SIGREFS) && mem (fst nv) m) content.

(* ---------------------------------------------------------------- loading signed refs *)

Inductive loaded := Loaded (t : oid) (o : sigobj) | NotFound | LoadErr.

Definition load_at (t : oid) : loaded :=
  match lookup t U with
  | Some o => if so_valid o then Loaded t o else LoadErr
  | None => LoadErr
  end.

(* Cached::load: the tip recorded for the remote in this fetch, else local storage *)
Definition load (sigtips : smap oid) (L : store) (r : nid) : loaded :=
  match lookup r sigtips with
  | Some t => load_at t
  | None => match sigrefs_of L r with Some t => load_at t | None => NotFound end
  end.

Fixpoint load_all (sigtips : smap oid) (L : store) (rs : list nid)
  (acc : smap (oid * sigobj)) : option (smap (oid * sigobj)) :=
  match rs with
  | [] => Some acc
  | r :: rs' =>
      match load sigtips L r with
      | LoadErr => None
      | NotFound => load_all sigtips L rs' acc
      | Loaded t o => load_all sigtips L rs' (insert r (t, o) acc)
      end
  end.

(* ---------------------------------------------------------------- stages *)

Definition add_tips (r : nid) (us : list update) (tips : smap (list update)) : smap (list update) :=
  upsert (fun old new => old ++ new) r us tips.

Definition in_scope (c : cfg) (r : nid) : bool :=
  match c_followed c with
  | None => true
  | Some fs => memN r fs || memN r (eff_delegates c)
  end.

(* what the SpecialRefs ls-refs yields after ref_filter: per namespace the
   advertised rad/id and rad/sigrefs *)
Definition advertised (c : cfg) (S : store) : list (nid * (option oid * option oid)) :=
  filter (fun x => negb (is_blocked c (fst x)) && in_scope c (fst x)
                   && (isSome (fst (snd x)) || isSome (snd (snd x))))
         (map (fun rn => (fst rn, (lookup RAD_ID (snd rn), lookup SIGREFS (snd rn)))) S).

Definition count_refs (adv : list (nid * (option oid * option oid))) : N :=
  fold_left (fun k x => k + (if isSome (fst (snd x)) then 1 else 0)
                          + (if isSome (snd (snd x)) then 1 else 0)) adv 0.

Definition special_updates (c : cfg) (r : nid) (i s : option oid) : list update :=
  (match i with Some x => [Direct RAD_ID x (pol c r)] | None => [] end) ++
  (match s with Some x => [Direct SIGREFS x (pol c r)] | None => [] end).

Record staged := mkStaged {
  st_tips : smap (list update);
  st_signed : smap (oid * sigobj)
}.

(* stage SpecialRefs + RemoteRefs::load *)
Definition stage_special (c : cfg) (L S : store) : result + staged :=
  let adv := advertised c S in
  let thr := eff_threshold c in
  if negb (thr =? 0) && negb (match eff_delegates c with [] => true | _ => false end)
     && (count_refs adv <? thr)
  then inl (RErr 1)
  else
    let sigtips := fold_left (fun m x => match snd (snd x) with
                                         | Some t => insert (fst x) t m | None => m end) adv [] in
    let tips := fold_left (fun m x => add_tips (fst x)
                                        (special_updates c (fst x) (fst (snd x)) (snd (snd x))) m) adv [] in
    match load_all sigtips L (map fst adv ++ eff_delegates c) [] with
    | None => inl (RErr 2)
    | Some signed => inr (mkStaged tips signed)
    end.

(* stage SigrefsAt + RemoteRefs::load (repaired: see header) *)
Definition clean_refs_at (c : cfg) (ras : list (nid * oid)) : smap oid :=
  fold_left (fun m x => if is_blocked c (fst x) then m else insert (fst x) (snd x) m) ras [].

Definition stage_sigrefs_at (c : cfg) (L : store) (ras0 : list (nid * oid)) : result + staged :=
  let ras := clean_refs_at c ras0 in
  if negb (forallb (fun x => mem (snd x) U) ras) then inl (RErr 5)
  else
    let tips := fold_left (fun m x => add_tips (fst x) [Direct SIGREFS (snd x) (pol c (fst x))] m) ras [] in
    match load_all ras L (map fst ras) [] with
    | None => inl (RErr 2)
    | Some signed => inr (mkStaged tips signed)
    end.

(* stage DataRefs: prepare_updates for one loaded remote *)
Definition data_updates (L : store) (r : nid) (o : sigobj) : list update :=
  map (fun nv => Direct (fst nv) (snd nv) Allow)
      (filter (fun nv => is_qualified (fst nv)) (so_content o))
  ++ map (fun nv => Prune (fst nv))
         (filter (fun nv => negb (is_rad (fst nv)) && negb (mem (fst nv) (so_content o)))
                 (ns_of L r)).

Definition stage_data (L : store) (s : staged) : staged :=
  mkStaged (fold_left (fun m x => add_tips (fst x) (data_updates L (fst x) (snd (snd x))) m)
                      (st_signed s) (st_tips s))
           (st_signed s).

(* repaired: namespaces without loadable signed refs are not updated *)
Definition drop_unsigned (s : staged) : staged :=
  mkStaged (filter (fun x => mem (fst x) (st_signed s)) (st_tips s)) (st_signed s).

(* ---------------------------------------------------------------- validation loop *)

Definition valid0 (c : cfg) (L : store) : sset :=
  sset_of_list (filter (fun r => is_delegate c r && isSome (sigrefs_of L r)) (keys L)).

Definition updates_of (tips : smap (list update)) (r : nid) : list update :=
  match lookup r tips with Some us => us | None => [] end.

Definition loop_step (c : cfg) (L : store)
  (acc : result + (smap (list update) * sset)) (x : nid * (oid * sigobj))
  : result + (smap (list update) * sset) :=
  match acc with
  | inl e => inl e
  | inr (tips, valid) =>
      let r := fst x in
      let t := fst (snd x) in
      let o := snd (snd x) in
      if is_blocked c r then inr (tips, valid)
      else
        let check :=
          if validate (updates_of tips r) (so_content o)
          then inr (tips, if is_delegate c r then sset_add r valid else valid)
          else inr (del r tips, if is_delegate c r then del r valid else valid) in
        match sigrefs_of L r with
        | None => check
        | Some at_ =>
            match load_at at_ with
            | Loaded _ _ =>
                match ancestry_of at_ t with
                | Behind => inr (del r tips, valid)
                | Diverged => if is_delegate c r then inl (RErr 3) else inr (del r tips, valid)
                | _ => check
                end
            | _ => inl (RErr 2)
            end
        end
  end.

(* ---------------------------------------------------------------- the whole fetch *)

Definition plan (c : cfg) (L S : store) : result + (smap (list update) * sset) :=
  if negb (c_srv_canon c) then inl (RErr 1)
  else
    let staged :=
      match c_refs_at c with
      | Some ras => stage_sigrefs_at c L ras
      | None => stage_special c L S
      end in
    match staged with
    | inl e => inl e
    | inr s =>
        let s := drop_unsigned (stage_data L s) in
        fold_left (loop_step c L) (st_signed s) (inr (st_tips s, valid0 c L))
    end.

Definition run (c : cfg) (L S : store) : result * store :=
  match plan c L S with
  | inl e => (e, L)
  | inr (tips, valid) =>
      if eff_threshold c <=? N.of_nat (length valid) then
        let '(L', ok) := apply_all L tips in
        (if ok then RSuccess else RErr 4, L')
      else (RFailed, L)
  end.

End WithOracles.

(* ---------------------------------------------------------------- correspondence interface *)

Record case := mkCase {
  k_cfg : cfg;
  k_universe : list (oid * sigobj);
  k_anc : list (oid * oid);     (* all pairs (a, b), a <> b, a ancestor of b *)
  k_local : store;
  k_server : store
}.

Record obs := mkObs { o_result : result; o_store : store }.

Definition anc_of (pairs : list (oid * oid)) (a b : oid) : bool :=
  (a =? b) || existsb (fun p => (fst p =? a) && (snd p =? b)) pairs.

Definition run_case (k : case) : obs :=
  let '(r, L') := run (anc_of (k_anc k)) (k_universe k) (k_cfg k) (k_local k) (k_server k) in
  mkObs r L'.

Definition result_eqb (a b : result) : bool :=
  match a, b with
  | RSuccess, RSuccess | RFailed, RFailed | RPanic, RPanic => true
  | RErr x, RErr y => x =? y
  | _, _ => false
  end.

Definition store_eqb (a b : store) : bool :=
  list_eqb (prod_eqb N.eqb (list_eqb (prod_eqb N.eqb N.eqb))) a b.

Definition obs_eqb (x y : obs) : bool :=
  result_eqb (o_result x) (o_result y) && store_eqb (o_store x) (o_store y).

Definition check_case (ce : case * obs) : bool := obs_eqb (run_case (fst ce)) (snd ce).
