(* Limiter.v — executable model of the peer rate limiter (token bucket).
   covers: crates/radicle-node/src/service/limiter.rs::RateLimiter::{new, limit},
           TokenBucket::{new, refill, take};
           crates/radicle/src/node/address.rs::{is_routable, ipv4_is_routable, ipv6_is_routable}
           (with core::net::Ipv4Addr::{is_private, is_loopback, is_link_local,
            is_broadcast, is_documentation});
           localtime::LocalTime::duration_since, LocalDuration::as_secs
   sites:  LocalTime::duration_since `expect("supplied time is later than self")`
           -> outcome [ClockPanic].

   Numbers.  Time is milliseconds ([N], LocalTime is a u128 of millis).  The
   refill rate is an exact rational [num/den] ([den] positive) and the token
   count is kept *scaled by den* in [Z], so every operation of the Rust code
   (`tokens + secs * rate`, `min capacity`, `>= 1.0`, `-= 1.0`) is exact integer
   arithmetic here.  The Rust code uses f64; for dyadic rates of small
   magnitude f64 is exact and the model agrees with the code decision by
   decision (checked on every run), for other rates f64 rounding is outside
   the model (see registry.d/C17.json).  Negative rates are representable
   ([num < 0]); the theorems that need [0 <= num] say so.

   No proofs in this file. *)
From HW Require Import lib.Base.
Local Open Scope Z_scope.

(* ---------- hosts (cyphernet HostName) ---------- *)

(* Ip(V4) carries the address as a 32-bit number, Ip(V6) as a 128-bit number;
   Dns names and onion addresses are abstracted to numbers (they are only
   compared for equality: HashMap key). *)
Inductive host :=
| HIp4 (ip : N)
| HIp6 (ip : N)
| HDns (name : N)
| HTor (key : N).

Definition host_eqb (a b : host) : bool :=
  match a, b with
  | HIp4 x, HIp4 y => N.eqb x y
  | HIp6 x, HIp6 y => N.eqb x y
  | HDns x, HDns y => N.eqb x y
  | HTor x, HTor y => N.eqb x y
  | _, _ => false
  end.

(* octets of an IPv4 address, most significant first *)
Definition oct0 (ip : N) : N := ((ip / 16777216) mod 256)%N.
Definition oct1 (ip : N) : N := ((ip / 65536) mod 256)%N.
Definition oct2 (ip : N) : N := ((ip / 256) mod 256)%N.
Definition oct3 (ip : N) : N := (ip mod 256)%N.

(* core::net::Ipv4Addr predicates *)
Definition ipv4_is_private (ip : N) : bool :=
  N.eqb (oct0 ip) 10
  || (N.eqb (oct0 ip) 172 && N.leb 16 (oct1 ip) && N.leb (oct1 ip) 31)
  || (N.eqb (oct0 ip) 192 && N.eqb (oct1 ip) 168).
Definition ipv4_is_loopback (ip : N) : bool := N.eqb (oct0 ip) 127.
Definition ipv4_is_link_local (ip : N) : bool := N.eqb (oct0 ip) 169 && N.eqb (oct1 ip) 254.
Definition ipv4_is_broadcast (ip : N) : bool := N.eqb ip 4294967295.
Definition ipv4_is_documentation (ip : N) : bool :=
  (N.eqb (oct0 ip) 192 && N.eqb (oct1 ip) 0 && N.eqb (oct2 ip) 2)
  || (N.eqb (oct0 ip) 198 && N.eqb (oct1 ip) 51 && N.eqb (oct2 ip) 100)
  || (N.eqb (oct0 ip) 203 && N.eqb (oct1 ip) 0 && N.eqb (oct2 ip) 113).

(* address::ipv4_is_routable: 192.0.0.9 and 192.0.0.10 first, then the
   conjunction of negations, last conjunct `octets()[0] != 0` *)
Definition ipv4_is_routable (ip : N) : bool :=
  if N.eqb ip 3221225481 || N.eqb ip 3221225482 then true
  else negb (ipv4_is_private ip)
       && negb (ipv4_is_loopback ip)
       && negb (ipv4_is_link_local ip)
       && negb (ipv4_is_broadcast ip)
       && negb (ipv4_is_documentation ip)
       && negb (N.eqb (oct0 ip) 0).

(* `if let HostName::Ip(ip) = addr { if !is_routable(&ip) { return false } }`;
   ipv6_is_routable is constantly true; other host kinds are not tested *)
Definition host_unroutable (h : host) : bool :=
  match h with
  | HIp4 ip => negb (ipv4_is_routable ip)
  | HIp6 _ => false
  | HDns _ => false
  | HTor _ => false
  end.

(* ---------- token bucket ---------- *)

(* AsTokens: capacity (usize) and rate (f64, here num/den) *)
Record tokens := { t_cap : N; t_num : Z; t_den : positive }.

Record bucket := {
  b_num : Z;            (* rate = b_num / b_den tokens per second *)
  b_den : positive;
  b_cap : N;            (* capacity, whole tokens *)
  b_tokens : Z;         (* tokens remaining, scaled by b_den *)
  b_refilled : N        (* refilled_at, ms *)
}.

Definition cap_scaled (b : bucket) : Z := Z.of_N (b_cap b) * Zpos (b_den b).

(* TokenBucket::new *)
Definition bucket_new (t : tokens) (now : N) : bucket :=
  {| b_num := t_num t; b_den := t_den t; b_cap := t_cap t;
     b_tokens := Z.of_N (t_cap t) * Zpos (t_den t); b_refilled := now |}.

(* LocalDuration::as_secs: `(self.0 / 1000) as u64` — truncating cast of a u128 *)
Definition as_secs (elapsed_ms : N) : N := ((elapsed_ms / 1000) mod 18446744073709551616)%N.

(* TokenBucket::refill; [None] = `duration_since` panicked (now earlier than
   refilled_at), nothing was written *)
Definition bucket_refill (b : bucket) (now : N) : option bucket :=
  if N.ltb now (b_refilled b) then None
  else
    let secs := as_secs (now - b_refilled b)%N in
    Some {| b_num := b_num b; b_den := b_den b; b_cap := b_cap b;
            b_tokens := Z.min (b_tokens b + Z.of_N secs * b_num b) (cap_scaled b);
            b_refilled := now |}.

(* TokenBucket::take: refill, then `tokens >= 1.0` *)
Definition bucket_take (b : bucket) (now : N) : option (bucket * bool) :=
  match bucket_refill b now with
  | None => None
  | Some b1 =>
      if Z.leb (Zpos (b_den b1)) (b_tokens b1)
      then Some ({| b_num := b_num b1; b_den := b_den b1; b_cap := b_cap b1;
                    b_tokens := b_tokens b1 - Zpos (b_den b1);
                    b_refilled := b_refilled b1 |}, true)
      else Some (b1, false)
  end.

(* ---------- the limiter ---------- *)

(* HashMap<HostName, TokenBucket>: association list, first binding wins; the
   iteration order is never observed by the code *)
Definition buckets := list (host * bucket).

Fixpoint bk_lookup (h : host) (m : buckets) : option bucket :=
  match m with
  | [] => None
  | (h', b) :: m' => if host_eqb h h' then Some b else bk_lookup h m'
  end.

Fixpoint bk_set (h : host) (b : bucket) (m : buckets) : buckets :=
  match m with
  | [] => [(h, b)]
  | (h', b') :: m' => if host_eqb h h' then (h, b) :: m' else (h', b') :: bk_set h b m'
  end.

Record limiter := { l_bypass : list N; l_buckets : buckets }.

(* RateLimiter::new *)
Definition limiter_new (bypass : list N) : limiter := {| l_bypass := bypass; l_buckets := [] |}.

Record req := { r_host : host; r_nid : option N; r_tok : tokens; r_now : N }.

Inductive outcome :=
| Bypassed      (* returned false: nid on the bypass list; no bucket touched *)
| Unroutable    (* returned false: non-routable IP; no bucket touched *)
| Passed        (* returned false: a token was taken *)
| Limited       (* returned true *)
| ClockPanic.   (* duration_since panicked *)

Definition req_bypassed (l : limiter) (r : req) : bool :=
  match r_nid r with
  | Some n => memN n (l_bypass l)
  | None => false
  end.

(* RateLimiter::limit.  `entry(addr).or_insert_with(new)` happens before
   `take`, so a bucket created by this call exists even if `take` panicked
   (it cannot: a fresh bucket has refilled_at = now). *)
Definition limit (l : limiter) (r : req) : limiter * outcome :=
  if req_bypassed l r then (l, Bypassed)
  else if host_unroutable (r_host r) then (l, Unroutable)
  else
    let b0 := match bk_lookup (r_host r) (l_buckets l) with
              | Some b => b
              | None => bucket_new (r_tok r) (r_now r)
              end in
    match bucket_take b0 (r_now r) with
    | None =>
        ({| l_bypass := l_bypass l; l_buckets := bk_set (r_host r) b0 (l_buckets l) |}, ClockPanic)
    | Some (b1, ok) =>
        ({| l_bypass := l_bypass l; l_buckets := bk_set (r_host r) b1 (l_buckets l) |},
         if ok then Passed else Limited)
    end.

(* a whole timeline; a panic is caught by the caller (catch_unwind) and the
   limiter keeps being used, which is the strongest setting for the theorems *)
Fixpoint run_limiter (l : limiter) (rs : list req) : limiter * list outcome :=
  match rs with
  | [] => (l, [])
  | r :: rs' =>
      let (l1, o) := limit l r in
      let (l2, os) := run_limiter l1 rs' in
      (l2, o :: os)
  end.

(* number of requests of host [h] that took a token *)
Definition is_passed (o : outcome) : bool := match o with Passed => true | _ => false end.

Fixpoint passed_for (h : host) (rs : list req) (os : list outcome) : Z :=
  match rs, os with
  | r :: rs', o :: os' =>
      (if host_eqb (r_host r) h && is_passed o then 1 else 0) + passed_for h rs' os'
  | _, _ => 0
  end.

(* ---------- correspondence interface ---------- *)

(* What the harness observes per call: the returned bool / panic, and (through
   the Serialize impl of TokenBucket) the bucket of the request's host after
   the call: tokens * den (exact for the dyadic stream) and refilled_at. *)
Inductive case :=
| CLimit (bypass : list N) (reqs : list req)
    (* exact stream: every f64 operation is exact *)
| CLimitApprox (bypass : list N) (reqs : list req) (eps_num : Z) (eps_den : positive)
    (* decimal rates: decisions are compared up to the first call at which the
       exact token count is within eps of the threshold 1.0 *)
| CRoutable (ips : list N).
    (* address::is_routable on IPv4 addresses *)

Inductive obs :=
| OLimit (steps : list (N * option (Z * N))) (nbuckets : N)
    (* per call: 0 = false, 1 = true, 2 = panic; bucket (tokens*den, refilled_at) *)
| ODecisions (steps : list N)
| ORoutable (rs : list bool).

Definition outcome_code (o : outcome) : N :=
  match o with
  | Bypassed | Unroutable | Passed => 0
  | Limited => 1
  | ClockPanic => 2
  end%N.

Fixpoint run_steps (l : limiter) (rs : list req) : limiter * list (N * option (Z * N)) :=
  match rs with
  | [] => (l, [])
  | r :: rs' =>
      let (l1, o) := limit l r in
      let view := match bk_lookup (r_host r) (l_buckets l1) with
                  | Some b => Some (b_tokens b, b_refilled b)
                  | None => None
                  end in
      let (l2, vs) := run_steps l1 rs' in
      (l2, (outcome_code o, view) :: vs)
  end.

(* tokens (after refill, before take) within eps of the threshold? *)
Definition near_threshold (l : limiter) (r : req) (eps_num : Z) (eps_den : positive) : bool :=
  if req_bypassed l r || host_unroutable (r_host r) then false
  else
    let b0 := match bk_lookup (r_host r) (l_buckets l) with
              | Some b => b
              | None => bucket_new (r_tok r) (r_now r)
              end in
    match bucket_refill b0 (r_now r) with
    | None => false
    | Some b1 =>
        (* | tokens/den - 1 | <= eps_num/eps_den *)
        Z.leb (Z.abs (b_tokens b1 - Zpos (b_den b1)) * Zpos eps_den) (eps_num * Zpos (b_den b1))
    end.

(* decisions up to (excluding) the first near-threshold call *)
Fixpoint run_approx (l : limiter) (rs : list req) (en : Z) (ed : positive) : list N :=
  match rs with
  | [] => []
  | r :: rs' =>
      if near_threshold l r en ed then []
      else let (l1, o) := limit l r in outcome_code o :: run_approx l1 rs' en ed
  end.

Definition run (c : case) : obs :=
  match c with
  | CLimit bypass reqs =>
      let (l, vs) := run_steps (limiter_new bypass) reqs in
      OLimit vs (N.of_nat (length (l_buckets l)))
  | CLimitApprox bypass reqs en ed => ODecisions (run_approx (limiter_new bypass) reqs en ed)
  | CRoutable ips => ORoutable (map ipv4_is_routable ips)
  end.

Definition view_eqb (a b : N * option (Z * N)) : bool :=
  prod_eqb N.eqb (option_eqb (prod_eqb Z.eqb N.eqb)) a b.

(* the implementation's decision list must start with the model's *)
Fixpoint prefix_eqb (m i : list N) : bool :=
  match m, i with
  | [], _ => true
  | x :: m', y :: i' => N.eqb x y && prefix_eqb m' i'
  | _ :: _, [] => false
  end.

Definition obs_eqb (model impl : obs) : bool :=
  match model, impl with
  | OLimit a n, OLimit b n' => list_eqb view_eqb a b && N.eqb n n'
  | ODecisions a, ODecisions b => prefix_eqb a b
  | ORoutable a, ORoutable b => list_eqb Bool.eqb a b
  | _, _ => false
  end.

Definition check_case (ce : case * obs) : bool := obs_eqb (run (fst ce)) (snd ce).
