(* CobCache.v — C09: the persistent COB cache (SQLite, JSON1) against direct
   evaluation of patches / issues from the repository.

   covers: radicle/src/cob/patch/cache.rs::{Cache::remove, Cache::write_all,
             StoreWriter as Update<Patch>::update, StoreWriter as Remove<Patch>::{remove, remove_all},
             query::{get, find_by_revision, list, list_by_status, counts}},
           radicle/src/cob/issue/cache.rs::{Cache::remove, Cache::write_all, Update/Remove for StoreWriter,
             query::{get, list, list_by_status, counts}},
           radicle/src/cob/cache/migrations/1.sql (tables patches/issues: id primary key, repo, json text),
           radicle/src/cob/patch.rs::{Patches::{get, counts, find_by_revision}, Patch::revision,
             PatchMut::transaction (cache.update after the store commit)},
           radicle/src/cob/issue.rs::{Issues::{get, counts}},
           radicle-node/src/worker/fetch.rs::{cache_cobs, update_or_remove}
   sites: sqlite Row::read::<&str> on a NULL column (counts: `state` column; pre-fix
          find_by_revision: `revision` column) — modelled as RPanic.

   The cache is a table of (id, JSON text) rows in rowid order; the JSON is a small
   tree model of what serde emits for a patch / an issue, restricted to what the SQL
   statements can observe: `$.state.status` (+ `$.state.reason`), `$.state`, and every
   object key below `$.revisions` (revision ids; comment ids of the revision discussion;
   reviewer keys; comment ids of each review).  Everything else is an opaque atom
   ("payload"): the harness checks that no payload below `$.revisions` has an
   oid-like object key, so a payload can never match a query by id.
   No proofs in this file. *)
From HW Require Import lib.Base lib.SMap.
Local Open Scope N_scope.

(* ------------------------------------------------------------------ JSON *)

Inductive fname := Fstate | Fstatus | Freason | Fextra | Frevisions | Fdiscussion
                 | Fcomments | Freviews | Fthread | Fpay.
Inductive sname := Sdraft | Sopen | Sarchived | Smerged | Sclosed | Ssolved | Sother.
Inductive key := KName (f : fname) | KOid (n : N) | KActor (n : N).
Inductive json := JNull | JAtom (n : N) | JStr (s : sname) | JObj (l : list (key * json)).

Definition fname_eqb (a b : fname) : bool :=
  match a, b with
  | Fstate, Fstate | Fstatus, Fstatus | Freason, Freason | Fextra, Fextra
  | Frevisions, Frevisions | Fdiscussion, Fdiscussion | Fcomments, Fcomments
  | Freviews, Freviews | Fthread, Fthread | Fpay, Fpay => true
  | _, _ => false
  end.
Definition sname_eqb (a b : sname) : bool :=
  match a, b with
  | Sdraft, Sdraft | Sopen, Sopen | Sarchived, Sarchived | Smerged, Smerged
  | Sclosed, Sclosed | Ssolved, Ssolved | Sother, Sother => true
  | _, _ => false
  end.
Definition key_eqb (a b : key) : bool :=
  match a, b with
  | KName f, KName g => fname_eqb f g
  | KOid n, KOid m => N.eqb n m
  | KActor n, KActor m => N.eqb n m
  | _, _ => false
  end.

Fixpoint assoc (k : key) (l : list (key * json)) : option json :=
  match l with
  | [] => None
  | (k', v) :: l' => if key_eqb k k' then Some v else assoc k l'
  end.

(* member access; None = no such member (SQL NULL) *)
Definition field (f : fname) (j : json) : option json :=
  match j with JObj l => assoc (KName f) l | _ => None end.

(* JSON path '$.a.b…' *)
Fixpoint path_get (p : list fname) (j : json) : option json :=
  match p with
  | [] => Some j
  | f :: p' => match field f j with Some x => path_get p' x | None => None end
  end.

(* `j ->> path = ?` for a string parameter *)
Definition path_is (p : list fname) (s : sname) (j : json) : bool :=
  match path_get p j with Some (JStr s') => sname_eqb s s' | _ => false end.

Definition is_object (j : json) : bool := match j with JObj _ => true | _ => false end.

(* json_each(j, path): the direct members of the container at `path` *)
Definition json_each (p : list fname) (j : json) : list (key * json) :=
  match path_get p j with Some (JObj l) => l | _ => [] end.

(* json_tree(j, path): the element at `path` and all its descendants, pre-order,
   each with the key it has in its parent (used by the pre-fix find_by_revision) *)
Fixpoint tree_rows (k : key) (j : json) : list (key * json) :=
  (k, j) :: match j with
            | JObj l => (fix go (l : list (key * json)) : list (key * json) :=
                           match l with
                           | [] => []
                           | (k', v) :: l' => tree_rows k' v ++ go l'
                           end) l
            | _ => []
            end.
Definition json_tree (p : list fname) (j : json) : list (key * json) :=
  match path_get p j with
  | Some x => tree_rows (KName (last p Fpay)) x
  | None => []
  end.

(* ------------------------------------------------------------------ objects *)

(* comment id -> None (redacted, serialised as null) | Some payload *)
Definition thread := list (N * option N).
Record review := mkReview { rv_thread : thread; rv_pay : N }.
(* r_reviews: reviewer key -> review *)
Record revision := mkRev { r_disc : thread; r_reviews : list (N * review); r_pay : N }.
Inductive pstate := PDraft | POpen (extra : N) | PArchived | PMerged (extra : N).
(* p_revs: revision id -> None (redacted, serialised as null) | Some revision *)
Record patch := mkPatch { p_state : pstate; p_revs : list (N * option revision); p_pay : N }.
Inductive istate := IOpen | IClosed (solved : bool).
Record issue := mkIssue { i_state : istate; i_thread : thread; i_pay : N }.

Inductive pstatus := StDraft | StOpen | StArchived | StMerged.
Definition status_of (s : pstate) : pstatus :=
  match s with PDraft => StDraft | POpen _ => StOpen | PArchived => StArchived | PMerged _ => StMerged end.
(* Display for Status / the serde tag of State *)
Definition status_name (s : pstatus) : sname :=
  match s with StDraft => Sdraft | StOpen => Sopen | StArchived => Sarchived | StMerged => Smerged end.
Definition pstatus_eqb (a b : pstatus) : bool :=
  match a, b with
  | StDraft, StDraft | StOpen, StOpen | StArchived, StArchived | StMerged, StMerged => true
  | _, _ => false
  end.
Definition istate_eqb (a b : istate) : bool :=
  match a, b with
  | IOpen, IOpen => true
  | IClosed x, IClosed y => Bool.eqb x y
  | _, _ => false
  end.
(* Display for issue::State: "open" | "closed" *)
Definition istate_name (s : istate) : sname := match s with IOpen => Sopen | IClosed _ => Sclosed end.
Definition reason_name (solved : bool) : sname := if solved then Ssolved else Sother.

(* ------------------------------------------------------------------ serde: to_string *)

Definition ser_comment (c : option N) : json := match c with None => JNull | Some a => JAtom a end.
Definition ser_thread (t : thread) : json :=
  JObj [(KName Fcomments, JObj (map (fun co => (KOid (fst co), ser_comment (snd co))) t))].
Definition ser_review (r : review) : json :=
  JObj [(KName Fpay, JAtom (rv_pay r)); (KName Fcomments, ser_thread (rv_thread r))].
Definition ser_revision (r : revision) : json :=
  JObj [(KName Fpay, JAtom (r_pay r));
        (KName Fdiscussion, ser_thread (r_disc r));
        (KName Freviews, JObj (map (fun ar => (KActor (fst ar), ser_review (snd ar))) (r_reviews r)))].
Definition ser_orev (o : option revision) : json :=
  match o with None => JNull | Some r => ser_revision r end.
Definition ser_pstate (s : pstate) : json :=
  JObj ((KName Fstatus, JStr (status_name (status_of s))) ::
        match s with
        | POpen e | PMerged e => [(KName Fextra, JAtom e)]
        | _ => []
        end).
Definition ser_patch (p : patch) : json :=
  JObj [(KName Fpay, JAtom (p_pay p));
        (KName Fstate, ser_pstate (p_state p));
        (KName Frevisions, JObj (map (fun ro => (KOid (fst ro), ser_orev (snd ro))) (p_revs p)))].
Definition ser_istate (s : istate) : json :=
  JObj ((KName Fstatus, JStr (istate_name s)) ::
        match s with IClosed b => [(KName Freason, JStr (reason_name b))] | IOpen => [] end).
Definition ser_issue (i : issue) : json :=
  JObj [(KName Fpay, JAtom (i_pay i));
        (KName Fstate, ser_istate (i_state i));
        (KName Fthread, ser_thread (i_thread i))].

(* ------------------------------------------------------------------ serde: from_str *)

Definition bind {A B} (o : option A) (f : A -> option B) : option B :=
  match o with Some a => f a | None => None end.
Fixpoint mapM {A B} (f : A -> option B) (l : list A) : option (list B) :=
  match l with
  | [] => Some []
  | x :: l' => bind (f x) (fun y => bind (mapM f l') (fun ys => Some (y :: ys)))
  end.

Definition parse_atom (j : json) : option N := match j with JAtom a => Some a | _ => None end.
Definition parse_comment (j : json) : option (option N) :=
  match j with JNull => Some None | JAtom a => Some (Some a) | _ => None end.
Definition parse_members {A} (j : json) (f : key -> json -> option A) : option (list A) :=
  match j with JObj l => mapM (fun kv => f (fst kv) (snd kv)) l | _ => None end.
Definition parse_thread (j : json) : option thread :=
  bind (field Fcomments j) (fun c =>
    parse_members c (fun k v =>
      match k with KOid c => bind (parse_comment v) (fun o => Some (c, o)) | _ => None end)).
Definition parse_review (j : json) : option review :=
  bind (bind (field Fpay j) parse_atom) (fun pay =>
  bind (bind (field Fcomments j) parse_thread) (fun t => Some (mkReview t pay))).
Definition parse_revision (j : json) : option revision :=
  bind (bind (field Fpay j) parse_atom) (fun pay =>
  bind (bind (field Fdiscussion j) parse_thread) (fun d =>
  bind (field Freviews j) (fun rs =>
  bind (parse_members rs (fun k v =>
          match k with KActor a => bind (parse_review v) (fun r => Some (a, r)) | _ => None end))
       (fun rl => Some (mkRev d rl pay))))).
Definition parse_orev (j : json) : option (option revision) :=
  match j with JNull => Some None | _ => bind (parse_revision j) (fun r => Some (Some r)) end.
Definition parse_pstate (j : json) : option pstate :=
  match field Fstatus j with
  | Some (JStr Sdraft) => Some PDraft
  | Some (JStr Sarchived) => Some PArchived
  | Some (JStr Sopen) => bind (bind (field Fextra j) parse_atom) (fun e => Some (POpen e))
  | Some (JStr Smerged) => bind (bind (field Fextra j) parse_atom) (fun e => Some (PMerged e))
  | _ => None
  end.
Definition parse_patch (j : json) : option patch :=
  bind (bind (field Fpay j) parse_atom) (fun pay =>
  bind (bind (field Fstate j) parse_pstate) (fun st =>
  bind (field Frevisions j) (fun rs =>
  bind (parse_members rs (fun k v =>
          match k with KOid r => bind (parse_orev v) (fun o => Some (r, o)) | _ => None end))
       (fun rl => Some (mkPatch st rl pay))))).
Definition parse_istate (j : json) : option istate :=
  match field Fstatus j with
  | Some (JStr Sopen) => Some IOpen
  | Some (JStr Sclosed) =>
      match field Freason j with
      | Some (JStr Ssolved) => Some (IClosed true)
      | Some (JStr Sother) => Some (IClosed false)
      | _ => None
      end
  | _ => None
  end.
Definition parse_issue (j : json) : option issue :=
  bind (bind (field Fpay j) parse_atom) (fun pay =>
  bind (bind (field Fstate j) parse_istate) (fun st =>
  bind (bind (field Fthread j) parse_thread) (fun t => Some (mkIssue st t pay)))).

(* ------------------------------------------------------------------ the table *)

(* rows (id, json) of one repository in rowid order *)
Definition table := list (N * json).

Fixpoint find_row (id : N) (t : table) : option json :=
  match t with
  | [] => None
  | (i, j) :: t' => if N.eqb id i then Some j else find_row id t'
  end.
(* INSERT INTO t (id, repo, x) VALUES (..) ON CONFLICT DO UPDATE SET x = ..:
   an existing row keeps its rowid, a new row is appended *)
Fixpoint upsert_row (id : N) (j : json) (t : table) : table :=
  match t with
  | [] => [(id, j)]
  | (i, x) :: t' => if N.eqb id i then (id, j) :: t' else (i, x) :: upsert_row id j t'
  end.
(* DELETE FROM t WHERE id = ?1 *)
Definition delete_row (id : N) (t : table) : table :=
  filter (fun r => negb (N.eqb id (fst r))) t.

(* ORDER BY id (ids are unique: primary key): insertion sort on the id *)
Fixpoint insert_pair {A} (r : N * A) (l : list (N * A)) : list (N * A) :=
  match l with
  | [] => [r]
  | x :: l' => if N.ltb (fst r) (fst x) then r :: l else x :: insert_pair r l'
  end.
Definition sort_pairs {A} (l : list (N * A)) : list (N * A) := fold_right insert_pair [] l.
Definition order_by_id (t : table) : table := sort_pairs t.

Inductive res (A : Type) := ROk (a : A) | RErr | RPanic.
Arguments ROk {A} a.
Arguments RErr {A}.
Arguments RPanic {A}.

Section Generic.
Context {T : Type} (parse : json -> option T).

(* query::get: SELECT x FROM t WHERE id = ?1 AND repo = ?2, first row, from_str *)
Definition c_get (t : table) (id : N) : res (option T) :=
  match find_row id t with
  | None => ROk None
  | Some j => match parse j with Some o => ROk (Some o) | None => RErr end
  end.

(* the row iterator collected: every row parses, or the first error *)
Fixpoint c_rows (rows : table) : res (list (N * T)) :=
  match rows with
  | [] => ROk []
  | (id, j) :: rows' =>
      match parse j with
      | None => RErr
      | Some o => match c_rows rows' with ROk l => ROk ((id, o) :: l) | RErr => RErr | RPanic => RPanic end
      end
  end.
End Generic.

(* ------------------------------------------------------------------ patch queries *)

(* query::list: SELECT id, patch FROM patches WHERE repo = ?1 ORDER BY id *)
Definition cp_list (t : table) : res (list (N * patch)) := c_rows parse_patch (order_by_id t).
(* query::list_by_status: … AND patch->>'$.state.status' = ?2 ORDER BY id *)
Definition cp_list_by (t : table) (s : pstatus) : res (list (N * patch)) :=
  c_rows parse_patch (order_by_id (filter (fun r => path_is [Fstate; Fstatus] (status_name s) (snd r)) t)).

(* GROUP BY key: patch->'$.state.status' (NULL | a JSON string | some other JSON value) *)
Inductive gkey := GNull | GStr (s : sname) | GOther.
Definition gkey_of (j : json) : gkey :=
  match path_get [Fstate; Fstatus] j with
  | None => GNull
  | Some (JStr s) => GStr s
  | Some _ => GOther
  end.
Definition gkey_eqb (a b : gkey) : bool :=
  match a, b with
  | GNull, GNull => true
  | GStr s, GStr s' => sname_eqb s s'
  | GOther, GOther => true
  | _, _ => false
  end.
Fixpoint nodup_keys (l : list gkey) : list gkey :=
  match l with
  | [] => []
  | k :: l' => k :: filter (fun k' => negb (gkey_eqb k k')) (nodup_keys l')
  end.
(* one output row per distinct key: (a row of the group, COUNT( * ) ) *)
Definition groups (t : table) : list (json * N) :=
  map (fun k =>
         let g := filter (fun r => gkey_eqb k (gkey_of (snd r))) t in
         (match g with r :: _ => snd r | [] => JNull end, N.of_nat (length g)))
      (nodup_keys (map (fun r => gkey_of (snd r)) t)).

Definition pcounts := pstatus -> N.
Definition pc_zero : pcounts := fun _ => 0.
Definition pc_add (k : pstatus) (n : N) (c : pcounts) : pcounts :=
  fun s => if pstatus_eqb s k then c s + n else c s.
(* (open, draft, archived, merged) *)
Definition pc_tuple (c : pcounts) : N * N * N * N := (c StOpen, c StDraft, c StArchived, c StMerged).

(* query::counts: SELECT patch->'$.state' AS state, COUNT( * ) … GROUP BY patch->'$.state.status';
   try_fold: read `state` as &str (panics on NULL), from_str::<State>, add the count *)
Fixpoint cp_counts_fold (gs : list (json * N)) (c : pcounts) : res pcounts :=
  match gs with
  | [] => ROk c
  | (rep, n) :: gs' =>
      match path_get [Fstate] rep with
      | None => RPanic
      | Some st =>
          match parse_pstate st with
          | None => RErr
          | Some s => cp_counts_fold gs' (pc_add (status_of s) n c)
          end
      end
  end.
Definition cp_counts (t : table) : res pcounts := cp_counts_fold (groups t) pc_zero.

(* query::find_by_revision (as fixed): FROM patches, json_each(patch, '$.revisions') AS revisions
   WHERE revisions.key = ?2 AND revisions.type = 'object'; first row; from_str patch, from_str revision *)
Definition find_rows (t : table) (rev : N) : list (N * json * json) :=
  flat_map (fun r =>
              map (fun kv => (fst r, snd r, snd kv))
                  (filter (fun kv => key_eqb (fst kv) (KOid rev) && is_object (snd kv))
                          (json_each [Frevisions] (snd r)))) t.
Definition cp_find (t : table) (rev : N) : res (option (N * patch * revision)) :=
  match find_rows t rev with
  | [] => ROk None
  | (pid, j, v) :: _ =>
      match parse_patch j with
      | None => RErr
      | Some p => match parse_revision v with
                  | None => RErr
                  | Some r => ROk (Some (pid, p, r))
                  end
      end
  end.

(* the statement before the fix: json_tree(patch, '$.revisions'), `key = ?2` at any depth,
   no type filter; `row.read::<&str>("revision")` panics when the value is NULL (JSON null) *)
Definition find_rows_tree (t : table) (rev : N) : list (N * json * json) :=
  flat_map (fun r =>
              map (fun kv => (fst r, snd r, snd kv))
                  (filter (fun kv => key_eqb (fst kv) (KOid rev)) (json_tree [Frevisions] (snd r)))) t.
Definition cp_find_tree (t : table) (rev : N) : res (option (N * patch * revision)) :=
  match find_rows_tree t rev with
  | [] => ROk None
  | (pid, j, v) :: _ =>
      match parse_patch j with
      | None => RErr
      | Some p => match v with
                  | JNull => RPanic
                  | _ => match parse_revision v with
                         | None => RErr
                         | Some r => ROk (Some (pid, p, r))
                         end
                  end
      end
  end.

(* ------------------------------------------------------------------ issue queries *)

(* query::list: SELECT id, issue FROM issues WHERE repo = ?1   (no ORDER BY: rowid order) *)
Definition ci_list (t : table) : res (list (N * issue)) := c_rows parse_issue t.
(* query::list_by_status (as fixed): … AND issue->>'$.state.status' = ?2
   AND (?3 IS NULL OR issue->>'$.state.reason' = ?3) ORDER BY id; ?3 = the close reason *)
Definition istate_row (s : istate) (j : json) : bool :=
  path_is [Fstate; Fstatus] (istate_name s) j &&
  match s with
  | IOpen => true
  | IClosed b => path_is [Fstate; Freason] (reason_name b) j
  end.
Definition ci_list_by (t : table) (s : istate) : res (list (N * issue)) :=
  c_rows parse_issue (order_by_id (filter (fun r => istate_row s (snd r)) t)).
(* before the fix: the reason was not looked at *)
Definition ci_list_by_old (t : table) (s : istate) : res (list (N * issue)) :=
  c_rows parse_issue (order_by_id (filter (fun r => path_is [Fstate; Fstatus] (istate_name s) (snd r)) t)).

(* (open, closed) *)
Fixpoint ci_counts_fold (gs : list (json * N)) (c : N * N) : res (N * N) :=
  match gs with
  | [] => ROk c
  | (rep, n) :: gs' =>
      match path_get [Fstate] rep with
      | None => RPanic
      | Some st =>
          match parse_istate st with
          | None => RErr
          | Some IOpen => ci_counts_fold gs' (fst c + n, snd c)
          | Some (IClosed _) => ci_counts_fold gs' (fst c, snd c + n)
          end
      end
  end.
Definition ci_counts (t : table) : res (N * N) := ci_counts_fold (groups t) (0, 0).

(* ------------------------------------------------------------------ direct evaluation (spec) *)

(* the repository, evaluated: object id -> object (sorted by id) *)
Definition revision_of (p : patch) (rev : N) : option revision :=
  match lookup rev (p_revs p) with Some (Some r) => Some r | _ => None end.

Fixpoint find_map {A B} (f : A -> option B) (l : list A) : option B :=
  match l with
  | [] => None
  | x :: l' => match f x with Some y => Some y | None => find_map f l' end
  end.

(* Patches::find_by_revision *)
Definition dp_find (s : smap patch) (rev : N) : option (N * patch * revision) :=
  match lookup rev s with
  | Some p => match revision_of p rev with Some r => Some (rev, p, r) | None => None end
  | None => find_map (fun ip => match revision_of (snd ip) rev with
                                | Some r => Some (fst ip, snd ip, r)
                                | None => None
                                end) s
  end.
Definition dp_list_by (s : smap patch) (st : pstatus) : list (N * patch) :=
  filter (fun ip => pstatus_eqb (status_of (p_state (snd ip))) st) s.
Definition dp_counts (s : smap patch) : pcounts :=
  fun st => N.of_nat (length (dp_list_by s st)).
Definition di_list_by (s : smap issue) (st : istate) : list (N * issue) :=
  filter (fun ii => istate_eqb (i_state (snd ii)) st) s.
Definition di_counts (s : smap issue) : N * N :=
  (N.of_nat (length (filter (fun ii => match i_state (snd ii) with IOpen => true | _ => false end) s)),
   N.of_nat (length (filter (fun ii => match i_state (snd ii) with IClosed _ => true | _ => false end) s))).

(* ------------------------------------------------------------------ write paths *)

Section KV.
Context {T : Type} (ser : T -> json).

(* the evaluated repository and the cache table *)
Record kv := mkKV { kv_store : smap T; kv_table : table }.
Definition kv_empty : kv := mkKV [] [].

(* create / any transaction through PatchMut / IssueMut: the store commits, then
   cache.update(id, evaluated object) *)
Definition kv_put (id : N) (o : T) (s : kv) : kv :=
  mkKV (insert id o (kv_store s)) (upsert_row id (ser o) (kv_table s)).

(* what evaluation yields for `id` after refs changed: Some object | None (gone) *)
Definition set_store (id : N) (after : option T) (st : smap T) : smap T :=
  match after with Some o => insert id o st | None => remove id st end.

(* update_or_remove (fetch.rs) and, as fixed, Cache::remove: re-evaluate, then update the
   row if the object still exists, delete it otherwise *)
Definition sync_row (st : smap T) (id : N) (t : table) : table :=
  match lookup id st with
  | Some o => upsert_row id (ser o) t
  | None => delete_row id t
  end.

(* Cache::remove: the signer's ref is deleted (`after` = what evaluation yields then) *)
Definition kv_remove (id : N) (after : option T) (s : kv) : kv :=
  let st := set_store id after (kv_store s) in
  mkKV st (sync_row st id (kv_table s)).
(* Cache::remove before the fix: the row was deleted unconditionally *)
Definition kv_remove_old (id : N) (after : option T) (s : kv) : kv :=
  mkKV (set_store id after (kv_store s)) (delete_row id (kv_table s)).

(* a fetch changed the refs of these objects; cache_cobs then visits each changed ref *)
Definition kv_fetch (l : list (N * option T)) (s : kv) : kv :=
  let st := fold_left (fun st c => set_store (fst c) (snd c) st) l (kv_store s) in
  mkKV st (fold_left (fun t c => sync_row st (fst c) t) l (kv_table s)).

(* Cache::write_all: remove_all(rid), then update every object of the store *)
Definition kv_write_all (s : kv) : kv :=
  mkKV (kv_store s) (fold_left (fun t io => upsert_row (fst io) (ser (snd io)) t) (kv_store s) []).
End KV.

Record state := mkState { st_p : kv (T := patch); st_i : kv (T := issue) }.
Definition state0 : state := mkState kv_empty kv_empty.

Inductive step :=
| PutP (id : N) (p : patch)
| PutI (id : N) (i : issue)
| RemoveP (id : N) (after : option patch)
| RemoveI (id : N) (after : option issue)
| Fetch (lp : list (N * option patch)) (li : list (N * option issue))
| WriteAllP
| WriteAllI.

Definition apply_step (s : state) (x : step) : state :=
  match x with
  | PutP id p => mkState (kv_put ser_patch id p (st_p s)) (st_i s)
  | PutI id i => mkState (st_p s) (kv_put ser_issue id i (st_i s))
  | RemoveP id a => mkState (kv_remove ser_patch id a (st_p s)) (st_i s)
  | RemoveI id a => mkState (st_p s) (kv_remove ser_issue id a (st_i s))
  | Fetch lp li => mkState (kv_fetch ser_patch lp (st_p s)) (kv_fetch ser_issue li (st_i s))
  | WriteAllP => mkState (kv_write_all ser_patch (st_p s)) (st_i s)
  | WriteAllI => mkState (st_p s) (kv_write_all ser_issue (st_i s))
  end.
Definition run_steps (l : list step) : state := fold_left apply_step l state0.

(* the same history on the code before the Cache::remove fix *)
Definition apply_step_old (s : state) (x : step) : state :=
  match x with
  | RemoveP id a => mkState (kv_remove_old id a (st_p s)) (st_i s)
  | RemoveI id a => mkState (st_p s) (kv_remove_old id a (st_i s))
  | _ => apply_step s x
  end.

(* ------------------------------------------------------------------ correspondence interface *)

Inductive kind := KP | KI.
Inductive obj := OP (p : patch) | OI (i : issue).

Definition thread_eqb : thread -> thread -> bool :=
  list_eqb (prod_eqb N.eqb (option_eqb N.eqb)).
Definition review_eqb (a b : review) : bool :=
  thread_eqb (rv_thread a) (rv_thread b) && N.eqb (rv_pay a) (rv_pay b).
Definition revision_eqb (a b : revision) : bool :=
  thread_eqb (r_disc a) (r_disc b) &&
  list_eqb (prod_eqb N.eqb review_eqb) (r_reviews a) (r_reviews b) &&
  N.eqb (r_pay a) (r_pay b).
Definition pstate_eqb (a b : pstate) : bool :=
  match a, b with
  | PDraft, PDraft | PArchived, PArchived => true
  | POpen x, POpen y | PMerged x, PMerged y => N.eqb x y
  | _, _ => false
  end.
Definition patch_eqb (a b : patch) : bool :=
  pstate_eqb (p_state a) (p_state b) &&
  list_eqb (prod_eqb N.eqb (option_eqb revision_eqb)) (p_revs a) (p_revs b) &&
  N.eqb (p_pay a) (p_pay b).
Definition issue_eqb (a b : issue) : bool :=
  istate_eqb (i_state a) (i_state b) && thread_eqb (i_thread a) (i_thread b) && N.eqb (i_pay a) (i_pay b).
Definition obj_eqb (a b : obj) : bool :=
  match a, b with
  | OP p, OP q => patch_eqb p q
  | OI i, OI j => issue_eqb i j
  | _, _ => false
  end.

(* steps of a case name objects by their index in the case's object table *)
Inductive istep :=
| IPut (k : kind) (id oi : N)
| IRemove (k : kind) (id : N) (after : option N)
| IFetch (l : list (kind * N * option N))
| IWriteAll (k : kind).

Inductive query :=
| QGet (k : kind) (id : N)
| QList (k : kind)
| QPListBy (s : pstatus)
| QIListBy (s : istate)
| QPCounts
| QICounts
| QPFind (rev : N).

(* observed cached answers; objects by index in the object table *)
Inductive qobs :=
| OGet (r : res (option N))
| OList (r : res (list (N * N)))
| OPCounts (r : res (N * N * N * N))
| OICounts (r : res (N * N))
| OFind (r : res (option (N * N * bool)))   (* patch id, patch, revision = patch.revisions[rev] *)
| OBad.

Record case := mkCase { c_objs : list obj; c_steps : list (istep * list query) }.
(* per step: the answers; at the end: the directly evaluated patches and issues *)
Record obs := mkObs { o_steps : list (list qobs); o_fin_p : list (N * N); o_fin_i : list (N * N) }.

Definition nth_obj (objs : list obj) (i : N) : option obj := nth_opt (N.to_nat i) objs.
Definition no_index : N := 999999.
Fixpoint index_from (i : N) (o : obj) (objs : list obj) : N :=
  match objs with
  | [] => no_index
  | x :: l => if obj_eqb o x then i else index_from (N.succ i) o l
  end.
Definition index_of (objs : list obj) (o : obj) : N := index_from 0 o objs.

Definition opt_patch (objs : list obj) (a : option N) : option (option patch) :=
  match a with
  | None => Some None
  | Some i => match nth_obj objs i with Some (OP p) => Some (Some p) | _ => None end
  end.
Definition opt_issue (objs : list obj) (a : option N) : option (option issue) :=
  match a with
  | None => Some None
  | Some i => match nth_obj objs i with Some (OI p) => Some (Some p) | _ => None end
  end.

Fixpoint split_changes (objs : list obj) (l : list (kind * N * option N))
  : option (list (N * option patch) * list (N * option issue)) :=
  match l with
  | [] => Some ([], [])
  | (KP, id, a) :: l' =>
      bind (opt_patch objs a) (fun a' =>
      bind (split_changes objs l') (fun r => Some ((id, a') :: fst r, snd r)))
  | (KI, id, a) :: l' =>
      bind (opt_issue objs a) (fun a' =>
      bind (split_changes objs l') (fun r => Some (fst r, (id, a') :: snd r)))
  end.

Definition resolve (objs : list obj) (x : istep) : option step :=
  match x with
  | IPut KP id oi => match nth_obj objs oi with Some (OP p) => Some (PutP id p) | _ => None end
  | IPut KI id oi => match nth_obj objs oi with Some (OI i) => Some (PutI id i) | _ => None end
  | IRemove KP id a => bind (opt_patch objs a) (fun a' => Some (RemoveP id a'))
  | IRemove KI id a => bind (opt_issue objs a) (fun a' => Some (RemoveI id a'))
  | IFetch l => bind (split_changes objs l) (fun r => Some (Fetch (fst r) (snd r)))
  | IWriteAll KP => Some WriteAllP
  | IWriteAll KI => Some WriteAllI
  end.

Definition res_map {A B} (f : A -> B) (r : res A) : res B :=
  match r with ROk a => ROk (f a) | RErr => RErr | RPanic => RPanic end.

(* the issue list has no ORDER BY: the harness observes it sorted by id (sort_pairs) *)

Definition answer (objs : list obj) (s : state) (q : query) : qobs :=
  let ip := fun (p : patch) => index_of objs (OP p) in
  let ii := fun (i : issue) => index_of objs (OI i) in
  match q with
  | QGet KP id => OGet (res_map (option_map ip) (c_get parse_patch (kv_table (st_p s)) id))
  | QGet KI id => OGet (res_map (option_map ii) (c_get parse_issue (kv_table (st_i s)) id))
  | QList KP => OList (res_map (map (fun x => (fst x, ip (snd x)))) (cp_list (kv_table (st_p s))))
  | QList KI => OList (res_map (fun l => sort_pairs (map (fun x => (fst x, ii (snd x))) l))
                               (ci_list (kv_table (st_i s))))
  | QPListBy st => OList (res_map (map (fun x => (fst x, ip (snd x)))) (cp_list_by (kv_table (st_p s)) st))
  | QIListBy st => OList (res_map (map (fun x => (fst x, ii (snd x)))) (ci_list_by (kv_table (st_i s)) st))
  | QPCounts => OPCounts (res_map pc_tuple (cp_counts (kv_table (st_p s))))
  | QICounts => OICounts (ci_counts (kv_table (st_i s)))
  | QPFind rev =>
      OFind (res_map (option_map (fun x : N * patch * revision =>
                        let '(pid, p, r) := x in
                        (pid, ip p,
                         option_eqb (option_eqb revision_eqb) (lookup rev (p_revs p)) (Some (Some r)))))
                     (cp_find (kv_table (st_p s)) rev))
  end.

Fixpoint run_case (objs : list obj) (s : state) (l : list (istep * list query)) : list (list qobs) * state :=
  match l with
  | [] => ([], s)
  | (x, qs) :: l' =>
      match resolve objs x with
      | None => ([[OBad]], s)
      | Some st =>
          let s' := apply_step s st in
          let r := run_case objs s' l' in
          (map (answer objs s') qs :: fst r, snd r)
      end
  end.

Definition run (c : case) : obs :=
  let r := run_case (c_objs c) state0 (c_steps c) in
  mkObs (fst r)
        (map (fun x => (fst x, index_of (c_objs c) (OP (snd x)))) (kv_store (st_p (snd r))))
        (map (fun x => (fst x, index_of (c_objs c) (OI (snd x)))) (kv_store (st_i (snd r)))).

Definition res_eqb {A} (e : A -> A -> bool) (a b : res A) : bool :=
  match a, b with
  | ROk x, ROk y => e x y
  | RErr, RErr => true
  | RPanic, RPanic => true
  | _, _ => false
  end.
Definition pairs_eqb : list (N * N) -> list (N * N) -> bool := list_eqb (prod_eqb N.eqb N.eqb).
Definition qobs_eqb (a b : qobs) : bool :=
  match a, b with
  | OGet x, OGet y => res_eqb (option_eqb N.eqb) x y
  | OList x, OList y => res_eqb pairs_eqb x y
  | OPCounts x, OPCounts y =>
      res_eqb (prod_eqb (prod_eqb (prod_eqb N.eqb N.eqb) N.eqb) N.eqb) x y
  | OICounts x, OICounts y => res_eqb (prod_eqb N.eqb N.eqb) x y
  | OFind x, OFind y =>
      res_eqb (option_eqb (prod_eqb (prod_eqb N.eqb N.eqb) Bool.eqb)) x y
  | _, _ => false
  end.
Definition obs_eqb (a b : obs) : bool :=
  list_eqb (list_eqb qobs_eqb) (o_steps a) (o_steps b) &&
  pairs_eqb (o_fin_p a) (o_fin_p b) && pairs_eqb (o_fin_i a) (o_fin_i b).

Definition check_case (ce : case * obs) : bool := obs_eqb (run (fst ce)) (snd ce).
