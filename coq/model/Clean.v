(* Clean.v — executable model of storage cleanup (no proofs here).
   covers: radicle/src/storage/git.rs::Storage::clean (WriteStorage impl),
           radicle/src/storage/git.rs::Repository::{clean, remove, remote_ids},
           radicle/src/storage/refs.rs::SignedRefsAt::load (Ok(None) only when the local
             rad/sigrefs ref is missing; an unloadable / badly signed one is an error),
           radicle/src/storage.rs::ReadRepository::delegates (identity document lookup).
   sites:  none (no panics on these paths; every failure is an Err before any deletion,
           except single-ref deletion failures inside Repository::clean which are logged
           and skipped — not modelled, see registry assumptions).

   A repository is the list of its namespaces `refs/namespaces/<name>/...`.  A
   namespace is a *remote* (enumerated by `remote_ids`, glob
   `refs/namespaces/*/rad/sigrefs`) exactly when it has a `rad/sigrefs` ref,
   whatever that ref points to. *)
From HW Require Import lib.Base.
Local Open Scope N_scope.

(* state of `refs/namespaces/<id>/refs/rad/sigrefs` *)
Inductive sig :=
| SNone      (* no such ref *)
| SValid     (* points to signed refs that load and verify *)
| SBad.      (* the ref exists but the signed refs do not load / verify *)

Record ns := {
  ns_id : N;           (* the namespace name, as a number *)
  ns_key : bool;       (* is the name a well-formed public key (a RemoteId)? *)
  ns_sig : sig;
  ns_refs : list N     (* its other refs *)
}.

Definition is_remote (n : ns) : bool :=
  match ns_sig n with SNone => false | _ => true end.

Inductive cerr :=
| ENoRepo        (* Storage::repository(rid) failed: no such repository *)
| ESigrefs       (* SignedRefsAt::load(local) returned an error *)
| EDoc           (* Repository::delegates(): identity document not found *)
| ERemoteId      (* remote_ids().collect(): a remote's namespace is not a public key *)
| EOther.        (* never produced by the model *)

Inductive outcome :=
| OCleaned (after : list ns) (deleted : list N)   (* Repository::clean: Ok(deleted) *)
| ORemoved (remotes : list N)                     (* whole repository removed: Ok(remotes) *)
| OErr (e : cerr).                                (* nothing was deleted *)

(* Repository::clean: the namespaces that are deleted — remotes with a well-formed key
   (others are logged and skipped) that are neither `local` nor a delegate *)
Definition doomed (local : N) (delegates : list N) (n : ns) : bool :=
  is_remote n && ns_key n && negb (N.eqb local (ns_id n) || memN (ns_id n) delegates).

Definition repo_clean (local : N) (delegates : list N) (r : list ns) : list ns * list N :=
  (filter (fun n => negb (doomed local delegates n)) r,
   map ns_id (filter (doomed local delegates) r)).

(* the local node's rad/sigrefs: the namespace named `local` (always a valid key) *)
Definition local_sig (local : N) (r : list ns) : sig :=
  match find (fun n => N.eqb (ns_id n) local && ns_key n) r with
  | Some n => ns_sig n
  | None => SNone
  end.

(* Storage::clean on an existing repository.
   [doc_ok]: the canonical `refs/rad/id` exists, so Repository::delegates() finds the identity
   document without looking at the remotes.  [doc_ok = false]: that ref is missing and no
   remote namespace carries an identity branch either; the fallback
   (`canonical_identity_head`: `for remote in self.remote_ids()? { let remote = remote?; .. }`)
   then walks over every remote and fails on a malformed remote name before it can report
   the missing document. *)
Definition storage_clean (local : N) (doc_ok : bool) (delegates : list N) (r : list ns) : outcome :=
  match local_sig local r with
  | SBad => OErr ESigrefs
  | SValid =>
      if doc_ok then let (after, deleted) := repo_clean local delegates r in OCleaned after deleted
      else if forallb ns_key (filter is_remote r) then OErr EDoc else OErr ERemoteId
  | SNone =>
      (* let remotes = repo.remote_ids()?.collect::<Result<_, _>>()?; repo.remove()?; *)
      if forallb ns_key (filter is_remote r) then ORemoved (map ns_id (filter is_remote r))
      else OErr ERemoteId
  end.

(* ------------------------------------------------------------------ correspondence *)

(* Repository::clean(local) called directly (any `local`, whether or not it has signed refs) *)
Definition repository_clean (local : N) (doc_ok : bool) (delegates : list N) (r : list ns) : outcome :=
  if doc_ok then let (after, deleted) := repo_clean local delegates r in OCleaned after deleted
  else if forallb ns_key (filter is_remote r) then OErr EDoc else OErr ERemoteId.

Inductive case :=
| CClean (local : N) (doc_ok : bool) (delegates : list N) (r : list ns)
| CRepoClean (local : N) (doc_ok : bool) (delegates : list N) (r : list ns)
| CMissing.                                  (* Storage::clean of a repository that does not exist *)

(* observation: Ok(deleted) with the surviving namespaces (sorted by the harness), or
   Ok(remotes) with the repository directory gone, or Err *)
Definition obs := outcome.

Definition run (c : case) : obs :=
  match c with
  | CClean local doc_ok delegates r => storage_clean local doc_ok delegates r
  | CRepoClean local doc_ok delegates r => repository_clean local doc_ok delegates r
  | CMissing => OErr ENoRepo
  end.

Definition sig_eqb (a b : sig) : bool :=
  match a, b with SNone, SNone | SValid, SValid | SBad, SBad => true | _, _ => false end.
Definition cerr_eqb (a b : cerr) : bool :=
  match a, b with
  | ENoRepo, ENoRepo | ESigrefs, ESigrefs | EDoc, EDoc | ERemoteId, ERemoteId | EOther, EOther => true
  | _, _ => false
  end.
Definition ns_eqb (a b : ns) : bool :=
  N.eqb (ns_id a) (ns_id b) && Bool.eqb (ns_key a) (ns_key b) && sig_eqb (ns_sig a) (ns_sig b) &&
  list_eqb N.eqb (ns_refs a) (ns_refs b).

(* the harness reports `deleted` / `remotes` sorted; the model's lists are in
   namespace order, which the harness also generates sorted by id *)
Definition obs_eqb (x y : obs) : bool :=
  match x, y with
  | OCleaned a d, OCleaned a' d' => list_eqb ns_eqb a a' && list_eqb N.eqb d d'
  | ORemoved r, ORemoved r' => list_eqb N.eqb r r'
  | OErr e, OErr e' => cerr_eqb e e'
  | _, _ => false
  end.

Definition check_case (ce : case * obs) : bool := obs_eqb (run (fst ce)) (snd ce).
