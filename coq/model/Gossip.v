(* Gossip.v — executable model of the gossip part of radicle-node's Service
   (no proofs here).
   covers: radicle-node/src/service.rs::{handle_message (Announcement, Subscribe arms),
           handle_announcement, relay, relay_announcements, announce_refs, announce_own_refs,
           refs_announcement_for, announce_inventory, add_inventory, refresh_and_announce_inventory,
           sync_routing, seed_discovered, timestamp, connected (inbound), disconnected
           (non-persistent peer), initial, tick, wake (gossip + announce tasks)},
           service/io.rs::Outbox::{announce, relay, broadcast, write},
           service/gossip/store.rs::{announced, set_relay, relays, filtered},
           radicle/src/node/routing.rs::{add_inventory, remove_inventory, get_inventory}.
   Not modelled (outside the projection the properties talk about): fetch
   scheduling (model/FetchSched.v), pings, connection maintenance, pruning of
   old gossip (scenarios stay below gossip_max_age), rate limiting (harness
   configures it off), database errors.
   Node ids and repo ids are N (the harness maps real ids to small integers;
   0 is never a repo id).  Ghost fields (r_recv, o_path, delivered) are not
   observable in the implementation and are not compared. *)
From HW Require Import lib.Base lib.SMap.
Local Open Scope N_scope.

(* protocol constants (ms); compared with the compiled crate on every run *)
Definition MAX_TIME_DELTA : N := 3600000.
Definition GOSSIP_INTERVAL : N := 6000.
Definition ANNOUNCE_INTERVAL : N := 3600000.

Inductive kind := KNode | KInv | KRefs.
Definition kind_eqb (a b : kind) : bool :=
  match a, b with KNode, KNode | KInv, KInv | KRefs, KRefs => true | _, _ => false end.
Definition kind_code (k : kind) : N := match k with KInv => 0 | KNode => 1 | KRefs => 2 end.

Record ann := mkAnn {
  a_node : N;            (* announcer *)
  a_kind : kind;
  a_rid : N;             (* repository for KRefs, 0 otherwise *)
  a_ts : N;              (* timestamp, ms *)
  a_sig : bool;          (* does the signature verify for a_node over the encoding *)
  a_inv : list N;        (* KInv: announced inventory *)
  a_nonempty : bool;     (* KRefs: refs list is non-empty *)
  a_seed : bool;         (* KNode: SEED feature bit *)
}.

Definition same_key (a b : ann) : bool :=
  N.eqb (a_node a) (a_node b) && kind_eqb (a_kind a) (a_kind b) && N.eqb (a_rid a) (a_rid b).

Inductive relay_status := RDont | RRelay | RRelayedAt (t : N).

Record row := mkRow {
  r_id : N;
  r_ann : ann;
  r_relay : relay_status;
  r_recv : N;            (* ghost: local clock when this content was stored *)
}.

(* identity document, as far as visibility goes *)
Record doc := mkDoc { d_public : bool; d_allowed : list N (* delegates and allow list *) }.
Definition visible (d : doc) (p : N) : bool := d_public d || memN p (d_allowed d).

Inductive subscription := SubAll | SubSet (rids : list N).
Definition sub_matches (s : subscription) (rid : N) : bool :=
  match s with SubAll => true | SubSet l => memN rid l end.
Definition sub_insert (s : subscription) (rids : list N) : subscription :=
  match s with SubAll => SubAll | SubSet l => SubSet (l ++ rids) end.

Record session := mkSess { s_sub : option subscription }.

(* static scenario configuration *)
Record config := mkCfg {
  c_me : N;
  c_relay : bool;                 (* Config::is_relay() *)
  c_storage : smap doc;           (* local repositories *)
  c_seeded : list N;              (* repositories with an Allow seeding policy *)
  c_own_refs : list N;            (* local repositories where we have our own sigrefs *)
}.

Record state := mkState {
  clock : N;
  last_ts : N;                    (* Service::last_timestamp *)
  node_ts : N;                    (* timestamp of the cached node announcement *)
  inv_ts : N;                     (* cached inventory announcement *)
  inv_rids : list N;
  last_inventory : N;             (* timestamp of last inventory announced *)
  last_gossip : N;
  last_announce : N;
  sessions : smap session;
  gossip : list row;              (* ascending r_id *)
  relayed_by : smap (list N);
  known : list N;                 (* nodes in the address book *)
  routing : list (N * N * N);     (* (rid, node, timestamp) *)
  delivered : list (N * ann * bool);  (* ghost: (peer, announcement, did this delivery store it) *)
}.

Inductive path := POwn | PRelay | PReplay | PInitial.
Inductive out :=
| OWrite (to : N) (a : ann) (p : path)
| ODisconnect (to : N)
| ODraw (ts : N).                 (* ghost: a fresh announcement timestamp was drawn *)

Inductive outcome := Ok (s : state) (o : list out) | Panic (site : N).

(* ---------------- gossip store ---------------- *)

Definition next_id (g : list row) : N := N.succ (fold_left N.max (map r_id g) 0).

Fixpoint find_row (a : ann) (g : list row) : option row :=
  match g with
  | [] => None
  | r :: g' => if same_key (r_ann r) a then Some r else find_row a g'
  end.

Fixpoint update_row (id : N) (f : row -> row) (g : list row) : list row :=
  match g with
  | [] => []
  | r :: g' => if N.eqb (r_id r) id then f r :: g' else r :: update_row id f g'
  end.

Inductive announced_result := APanic | ANotNewer | AStored (id : N) (g : list row).

(* gossip::Store::announced — `assert_ne!(timestamp, 0)`; upsert WHERE timestamp < new *)
Definition announced (g : list row) (a : ann) (now : N) : announced_result :=
  if N.eqb (a_ts a) 0 then APanic
  else match find_row a g with
       | Some r =>
           if N.ltb (a_ts (r_ann r)) (a_ts a)
           then AStored (r_id r) (update_row (r_id r) (fun r => mkRow (r_id r) a (r_relay r) now) g)
           else ANotNewer
       | None => let id := next_id g in AStored id (g ++ [mkRow id a RDont now])
       end.

(* ---------------- routing table ---------------- *)

Definition route_eqb (rid nid : N) (e : N * N * N) : bool :=
  N.eqb (fst (fst e)) rid && N.eqb (snd (fst e)) nid.

Fixpoint route_find (rid nid : N) (rt : list (N * N * N)) : option N :=
  match rt with
  | [] => None
  | e :: rt' => if route_eqb rid nid e then Some (snd e) else route_find rid nid rt'
  end.

(* returns (table, changed) — changed = SeedAdded or TimeUpdated *)
Definition route_add (rid nid ts : N) (rt : list (N * N * N)) : list (N * N * N) * bool :=
  match route_find rid nid rt with
  | None => (rt ++ [(rid, nid, ts)], true)
  | Some old =>
      if N.ltb old ts
      then (map (fun e => if route_eqb rid nid e then (rid, nid, ts) else e) rt, true)
      else (rt, false)
  end.

Definition route_remove (rid nid : N) (rt : list (N * N * N)) : list (N * N * N) :=
  filter (fun e => negb (route_eqb rid nid e)) rt.

Definition route_inventory (nid : N) (rt : list (N * N * N)) : list N :=
  map (fun e => fst (fst e)) (filter (fun e => N.eqb (snd (fst e)) nid) rt).

(* Service::sync_routing: (table, anything added/updated/removed) *)
Definition sync_routing (inv : list N) (from ts : N) (rt : list (N * N * N))
  : list (N * N * N) * bool :=
  let '(rt1, ch1) := fold_left (fun acc rid =>
        let '(t, c) := route_add rid from ts (fst acc) in (t, c || snd acc)) (dedupN inv) (rt, false) in
  let stale := filter (fun rid => negb (memN rid inv)) (route_inventory from rt1) in
  (fold_left (fun t rid => route_remove rid from t) stale rt1,
   ch1 || negb (match stale with [] => true | _ => false end)).

(* ---------------- helpers ---------------- *)

Definition sat_sub (a b : N) : N := a - b.    (* N subtraction saturates at 0 *)

Definition connected_peers (s : state) : list N := keys (sessions s).

Definition peer_sub (s : state) (p : N) : option subscription :=
  match lookup p (sessions s) with Some ss => s_sub ss | None => None end.

Definition relayers (s : state) (id : N) : list N :=
  match lookup id (relayed_by s) with Some l => l | None => [] end.

(* Service::relay + Outbox::relay *)
Definition relay_targets (c : config) (s : state) (id : N) (a : ann) : list N :=
  filter (fun p =>
    negb (memN p (relayers s id)) && negb (N.eqb p (a_node a)) &&
    match a_kind a with
    | KRefs =>
        match lookup (a_rid a) (c_storage c) with
        | Some d => visible d p
        | None => false
        end &&
        match peer_sub s p with
        | Some sub => sub_matches sub (a_rid a)
        | None => false
        end
    | _ => true
    end) (connected_peers s).

Definition relay_out (c : config) (s : state) (id : N) (a : ann) : list out :=
  map (fun p => OWrite p a PRelay) (relay_targets c s id a).

(* Service::timestamp *)
Definition draw (s : state) : state * N :=
  let t := if N.ltb (last_ts s) (clock s) then clock s else N.succ (last_ts s) in
  (mkState (clock s) t (node_ts s) (inv_ts s) (inv_rids s) (last_inventory s) (last_gossip s)
           (last_announce s) (sessions s) (gossip s) (relayed_by s) (known s) (routing s)
           (delivered s), t).

Definition set_gossip (s : state) (g : list row) : state :=
  mkState (clock s) (last_ts s) (node_ts s) (inv_ts s) (inv_rids s) (last_inventory s)
          (last_gossip s) (last_announce s) (sessions s) g (relayed_by s) (known s) (routing s)
          (delivered s).
Definition set_routing (s : state) (rt : list (N * N * N)) : state :=
  mkState (clock s) (last_ts s) (node_ts s) (inv_ts s) (inv_rids s) (last_inventory s)
          (last_gossip s) (last_announce s) (sessions s) (gossip s) (relayed_by s) (known s) rt
          (delivered s).
Definition set_sessions (s : state) (ss : smap session) : state :=
  mkState (clock s) (last_ts s) (node_ts s) (inv_ts s) (inv_rids s) (last_inventory s)
          (last_gossip s) (last_announce s) ss (gossip s) (relayed_by s) (known s) (routing s)
          (delivered s).
Definition set_relayed_by (s : state) (rb : smap (list N)) : state :=
  mkState (clock s) (last_ts s) (node_ts s) (inv_ts s) (inv_rids s) (last_inventory s)
          (last_gossip s) (last_announce s) (sessions s) (gossip s) rb (known s) (routing s)
          (delivered s).
Definition set_known (s : state) (k : list N) : state :=
  mkState (clock s) (last_ts s) (node_ts s) (inv_ts s) (inv_rids s) (last_inventory s)
          (last_gossip s) (last_announce s) (sessions s) (gossip s) (relayed_by s) k (routing s)
          (delivered s).
Definition set_delivered (s : state) (d : list (N * ann * bool)) : state :=
  mkState (clock s) (last_ts s) (node_ts s) (inv_ts s) (inv_rids s) (last_inventory s)
          (last_gossip s) (last_announce s) (sessions s) (gossip s) (relayed_by s) (known s)
          (routing s) d.
Definition set_inventory (s : state) (ts : N) (rids : list N) : state :=
  mkState (clock s) (last_ts s) (node_ts s) ts rids (last_inventory s)
          (last_gossip s) (last_announce s) (sessions s) (gossip s) (relayed_by s) (known s)
          (routing s) (delivered s).
Definition set_times (s : state) (clk li lg la : N) : state :=
  mkState clk (last_ts s) (node_ts s) (inv_ts s) (inv_rids s) li lg la
          (sessions s) (gossip s) (relayed_by s) (known s) (routing s) (delivered s).

Definition own_node_ann (c : config) (s : state) : ann :=
  mkAnn (c_me c) KNode 0 (node_ts s) true [] false true.
Definition own_inv_ann (c : config) (s : state) : ann :=
  mkAnn (c_me c) KInv 0 (inv_ts s) true (inv_rids s) false false.
Definition own_refs_ann (c : config) (rid ts : N) : ann :=
  mkAnn (c_me c) KRefs rid ts true [] true false.

(* ---------------- receiving an announcement ---------------- *)

Inductive handled :=
| HPanic (site : N)
| HDisconnect                       (* session error: peer is disconnected *)
| HDone (s : state) (stored : bool) (relay : option N).

(* Service::handle_announcement *)
Definition handle_announcement (c : config) (s : state) (relayer : N) (a : ann) : handled :=
  if negb (a_sig a) then HDisconnect
  else if N.eqb (a_node a) (c_me c) then HDone s false None
  else if N.ltb MAX_TIME_DELTA (sat_sub (a_ts a) (clock s)) then HDisconnect
  else if N.eqb (a_ts a) 0 then HDisconnect
  else if (match a_kind a with KNode => false | _ => true end) && negb (memN (a_node a) (known s))
  then HDone s false None
  else
    match announced (gossip s) a (clock s) with
    | APanic => HPanic 1
    | ANotNewer => HDone s false None
    | AStored id g =>
        let s1 := set_gossip s g in
        let s2 := set_relayed_by s1 (insert id (relayers s1 id ++ [relayer]) (relayed_by s1)) in
        let fresh := match a_kind a with KNode => true | _ => false end
                     || N.leb (sat_sub (clock s) (a_ts a)) MAX_TIME_DELTA in
        let relay := if fresh then Some id else None in
        match a_kind a with
        | KInv =>
            let '(rt, changed) := sync_routing (a_inv a) (a_node a) (a_ts a) (routing s2) in
            let s3 := set_routing s2 rt in
            if negb changed then HDone s3 true None
            else
              (* connected to the announcer: widen its subscription filter *)
              let s4 := match lookup (a_node a) (sessions s3) with
                        | Some ss =>
                            match s_sub ss with
                            | Some sub => set_sessions s3 (insert (a_node a)
                                            (mkSess (Some (sub_insert sub (a_inv a)))) (sessions s3))
                            | None => s3
                            end
                        | None => s3
                        end in
              HDone s4 true relay
        | KRefs =>
            if negb (a_nonempty a) then HDone s2 true None
            else
              let s3 := set_routing s2 (fst (route_add (a_rid a) (a_node a) (a_ts a) (routing s2))) in
              if negb (memN (a_rid a) (c_seeded c)) then HDone s3 true None
              else HDone s3 true relay
        | KNode =>
            if negb (a_seed a) then HDone s2 true relay
            else HDone (set_known s2 (if memN (a_node a) (known s2) then known s2
                                      else known s2 ++ [a_node a])) true relay
        end
    end.

(* ---------------- events ---------------- *)

Inductive event :=
| EConnect (p : N)                              (* inbound connection established *)
| EDisconnect (p : N)
| ERecvAnn (p : N) (a : ann)
| ERecvSub (p : N) (sub : subscription) (since until : N)
| EElapse (dt : N)                              (* clock advances, then wake() *)
| ECmdAnnounceRefs (rid : N)
| ECmdAddInventory (rid : N)
| ETick (now : N)                               (* Service::tick: a clock reading, possibly in the past *)
| ERestart                                      (* Service::initialize again, at the current clock *)
| ESetDoc (rid : N) (d : doc).                  (* the identity document of a local repository changes
                                                   (e.g. public -> private); affects the configuration
                                                   of the following events, see [next_cfg] *)

(* Outbox::announce for our own announcements *)
Definition announce_own (c : config) (s : state) (a : ann) (peers : list N) : outcome :=
  match announced (gossip s) a (clock s) with
  | APanic => Panic 2
  | ar =>
      let s1 := match ar with AStored _ g => set_gossip s g | _ => s end in
      Ok s1 (map (fun p => OWrite p a POwn)
               (filter (fun p =>
                  match a_kind a with
                  | KRefs => match peer_sub s p with
                             | Some sub => sub_matches sub (a_rid a)
                             | None => false
                             end
                  | _ => true
                  end) peers))
  end.

(* Service::announce_inventory *)
Definition announce_inventory (c : config) (s : state) : outcome :=
  if N.eqb (last_inventory s) (inv_ts s) then Ok s []
  else match announce_own c s (own_inv_ann c s) (connected_peers s) with
       | Ok s1 o => Ok (set_times s1 (clock s1) (inv_ts s1) (last_gossip s1) (last_announce s1)) o
       | Panic n => Panic n
       end.

Definition in_range (since until ts : N) : bool := N.leb since ts && N.ltb ts until.

(* type order of `ORDER BY timestamp, node, type` is irrelevant here: the
   per-step observation is compared as a sorted list *)
Definition replay_out (c : config) (s : state) (p : N) (sub : subscription) (since until : N)
  : list out :=
  flat_map (fun r =>
    let a := r_ann r in
    if in_range since until (a_ts a)
       && (match a_kind a with KRefs => sub_matches sub (a_rid a) | _ => true end)
       && negb (N.eqb (a_node a) p)
       && (c_relay c || N.eqb (a_node a) (c_me c))
       && (match a_kind a with
           | KRefs => match lookup (a_rid a) (c_storage c) with
                      | Some d => visible d p
                      | None => true
                      end
           | _ => true
           end)
    then [OWrite p a PReplay] else []) (gossip s).

Definition wake (c : config) (s : state) : outcome :=
  (* gossip task *)
  let '(s1, o1) :=
    if N.leb GOSSIP_INTERVAL (sat_sub (clock s) (last_gossip s)) then
      let pending := filter (fun r => match r_relay r with RRelay => true | _ => false end) (gossip s) in
      let g := map (fun r => match r_relay r with
                             | RRelay => mkRow (r_id r) (r_ann r) (RRelayedAt (clock s)) (r_recv r)
                             | _ => r end) (gossip s) in
      let s' := set_gossip s g in
      (set_times s' (clock s') (last_inventory s') (clock s') (last_announce s'),
       flat_map (fun r => if N.eqb (a_node (r_ann r)) (c_me c) then []
                          else relay_out c s' (r_id r) (r_ann r)) pending)
    else (s, []) in
  (* announce task *)
  if N.leb ANNOUNCE_INTERVAL (sat_sub (clock s1) (last_announce s1)) then
    match announce_inventory c s1 with
    | Ok s2 o2 => Ok (set_times s2 (clock s2) (last_inventory s2) (last_gossip s2) (clock s2)) (o1 ++ o2)
    | Panic n => Panic n
    end
  else Ok s1 o1.

(* seeded local repositories by visibility (storage.repositories() filtered by is_seeding) *)
Definition local_repos (c : config) (public_ones : bool) : list N :=
  map fst (filter (fun kd => memN (fst kd) (c_seeded c) && Bool.eqb (d_public (snd kd)) public_ones)
             (c_storage c)).

Definition step (c : config) (s : state) (e : event) : outcome :=
  match e with
  | EConnect p =>
      let sub := match lookup p (sessions s) with Some ss => s_sub ss | None => None end in
      Ok (set_sessions s (insert p (mkSess sub) (sessions s)))
         [OWrite p (own_node_ann c s) PInitial; OWrite p (own_inv_ann c s) PInitial]
  | EDisconnect p => Ok (set_sessions s (remove p (sessions s))) []
  | ERecvAnn p a =>
      match lookup p (sessions s) with
      | None => Ok s []
      | Some _ =>
          match handle_announcement c s p a with
          | HPanic n => Panic n
          | HDisconnect => Ok (set_delivered s (delivered s ++ [(p, a, false)])) [ODisconnect p]
          | HDone s1 stored None =>
              Ok (set_delivered s1 (delivered s1 ++ [(p, a, stored)])) []
          | HDone s1 stored (Some id) =>
              let s2 := set_delivered s1 (delivered s1 ++ [(p, a, stored)]) in
              if c_relay c then
                match a_kind a with
                | KInv => Ok (set_gossip s2 (update_row id (fun r =>
                                 mkRow (r_id r) (r_ann r) RRelay (r_recv r)) (gossip s2))) []
                | _ => Ok s2 (relay_out c s2 id a)
                end
              else Ok s2 []
          end
      end
  | ERecvSub p sub since until =>
      match lookup p (sessions s) with
      | None => Ok s []
      | Some _ =>
          Ok (set_sessions s (insert p (mkSess (Some sub)) (sessions s)))
             (replay_out c s p sub since until)
      end
  | EElapse dt =>
      wake c (set_times s (clock s + dt) (last_inventory s) (last_gossip s) (last_announce s))
  | ECmdAnnounceRefs rid =>
      match lookup rid (c_storage c) with
      | None => Ok s []
      | Some d =>
          let '(s1, ts) := draw s in
          if negb (memN rid (c_own_refs c)) then Ok s1 [ODraw ts]
          else
            match announce_own c s1 (own_refs_ann c rid ts)
                    (filter (fun p => visible d p) (connected_peers s1)) with
            | Ok s2 o => Ok s2 (ODraw ts :: o)
            | Panic n => Panic n
            end
      end
  | ECmdAddInventory rid =>
      let '(s1, ts) := draw s in
      match lookup rid (c_storage c) with
      | None => Ok s1 [ODraw ts]
      | Some _ =>
          let s2 := set_routing s1 (fst (route_add rid (c_me c) ts (routing s1))) in
          let s3 := set_inventory s2 ts (route_inventory (c_me c) (routing s2)) in
          match announce_inventory c s3 with
          | Ok s4 o => Ok s4 (ODraw ts :: o)
          | Panic n => Panic n
          end
      end
  | ETick now =>
      (* `if now >= self.clock { self.clock = now }` — earlier readings are ignored *)
      Ok (set_times s (if N.leb (clock s) now then now else clock s)
                    (last_inventory s) (last_gossip s) (last_announce s)) []
  | ERestart =>
      (* Service::initialize: seeded local repositories are split into public (inventory) and
         private; the public ones are (re-)recorded in the routing table, a fresh inventory
         announcement is cached, then the private ones are removed from our routing entries *)
      let pub := local_repos c true in
      let priv := local_repos c false in
      let rt1 := fold_left (fun t rid => fst (route_add rid (c_me c) (clock s) t)) pub (routing s) in
      let '(s1, ts) := draw (set_routing s rt1) in
      let s2 := set_inventory s1 ts pub in
      Ok (set_routing s2 (fold_left (fun t rid => route_remove rid (c_me c) t) priv (routing s2)))
         [ODraw ts]
  | ESetDoc _ _ => Ok s []
  end.

(* the configuration in force after an event: only ESetDoc changes it *)
Definition next_cfg (c : config) (e : event) : config :=
  match e with
  | ESetDoc rid d =>
      match lookup rid (c_storage c) with
      | Some _ => mkCfg (c_me c) (c_relay c) (insert rid d (c_storage c)) (c_seeded c) (c_own_refs c)
      | None => c
      end
  | _ => c
  end.

(* run a trace, collecting the outputs of every step *)
Fixpoint run (c : config) (s : state) (es : list event) : option (state * list (list out)) :=
  match es with
  | [] => Some (s, [])
  | e :: es' =>
      match step c s e with
      | Panic _ => None
      | Ok s1 o =>
          match run (next_cfg c e) s1 es' with
          | Some (s2, os) => Some (s2, o :: os)
          | None => None
          end
      end
  end.

(* ------------------------------------------------------------------ *)
(* Correspondence interface *)

(* state right after Service::initialize at time [now] with node announcement
   timestamp [nts] and initial public inventory [inv] *)
Definition init_state (c : config) (now nts : N) (inv : list N) (known0 : list N) : state :=
  let its := if N.ltb nts now then now else N.succ nts in
  mkState now its nts its inv 0 0 0 [] [] [] known0
          (map (fun rid => (rid, c_me c, now)) inv) [].

(* projection of one step's outputs: announcement writes as
   (to, announcer, kind code, rid, ts), sorted; disconnects sorted *)
Definition proj_write (o : out) : list (N * (N * (N * (N * N)))) :=
  match o with
  | OWrite p a _ => [(p, (a_node a, (kind_code (a_kind a), (a_rid a, a_ts a))))]
  | _ => []
  end.
Definition proj_disc (o : out) : list N := match o with ODisconnect p => [p] | _ => [] end.

Definition w5_leb (x y : N * (N * (N * (N * N)))) : bool :=
  let '(a1, (b1, (c1, (d1, e1)))) := x in
  let '(a2, (b2, (c2, (d2, e2)))) := y in
  if N.ltb a1 a2 then true else if N.ltb a2 a1 then false else
  if N.ltb b1 b2 then true else if N.ltb b2 b1 then false else
  if N.ltb c1 c2 then true else if N.ltb c2 c1 then false else
  if N.ltb d1 d2 then true else if N.ltb d2 d1 then false else N.leb e1 e2.

Fixpoint insert_sorted {A} (leb : A -> A -> bool) (x : A) (l : list A) : list A :=
  match l with
  | [] => [x]
  | y :: l' => if leb x y then x :: l else y :: insert_sorted leb x l'
  end.
Definition sort_by {A} (leb : A -> A -> bool) (l : list A) : list A :=
  fold_right (insert_sorted leb) [] l.

(* own inventory announcements of a step: (recipient, sorted inventory) *)
Definition proj_inv (me : N) (o : out) : list (N * list N) :=
  match o with
  | OWrite p a _ =>
      if N.eqb (a_node a) me && kind_eqb (a_kind a) KInv then [(p, sort_by N.leb (a_inv a))] else []
  | _ => []
  end.
Fixpoint listN_leb (a b : list N) : bool :=
  match a, b with
  | [], _ => true
  | _ :: _, [] => false
  | x :: a', y :: b' => if N.ltb x y then true else if N.ltb y x then false else listN_leb a' b'
  end.
Definition inv_leb (x y : N * list N) : bool :=
  if N.ltb (fst x) (fst y) then true else if N.ltb (fst y) (fst x) then false
  else listN_leb (snd x) (snd y).

Definition step_obs := (list (N * (N * (N * (N * N)))) * list N * list (N * list N))%type.
(* typed constructors: cases files elaborate much faster without pair inference *)
Definition w5 (a b c d e : N) : N * (N * (N * (N * N))) := (a, (b, (c, (d, e)))).
Definition mkInv (p : N) (l : list N) : N * list N := (p, l).
Definition mkStep (w : list (N * (N * (N * (N * N))))) (d : list N) (i : list (N * list N))
  : step_obs := (w, d, i).
Definition obs_of (me : N) (o : list out) : step_obs :=
  (sort_by w5_leb (flat_map proj_write o), sort_by N.leb (flat_map proj_disc o),
   sort_by inv_leb (flat_map (proj_inv me) o)).

(* final gossip table: (node, kind code, rid, ts, relay class: 0 dont, 1 relay, 2 relayed) *)
Definition row_obs (r : row) : N * (N * (N * (N * N))) :=
  (a_node (r_ann r), (kind_code (a_kind (r_ann r)), (a_rid (r_ann r), (a_ts (r_ann r),
    match r_relay r with RDont => 0 | RRelay => 1 | RRelayedAt _ => 2 end)))).

Inductive gcase :=
| GTrace (c : config) (now nts : N) (inv known0 : list N) (es : list event)
| GConsts.
Inductive gobs :=
| GPanicked
| GRun (steps : list step_obs) (table : list (N * (N * (N * (N * N)))))
| GConstsAre (max_time_delta gossip_interval announce_interval : N).

Definition g_run (cs : gcase) : gobs :=
  match cs with
  | GTrace c now nts inv known0 es =>
      match run c (init_state c now nts inv known0) es with
      | None => GPanicked
      | Some (s, os) => GRun (map (obs_of (c_me c)) os) (sort_by w5_leb (map row_obs (gossip s)))
      end
  | GConsts => GConstsAre MAX_TIME_DELTA GOSSIP_INTERVAL ANNOUNCE_INTERVAL
  end.

Definition w5_eqb := prod_eqb N.eqb (prod_eqb N.eqb (prod_eqb N.eqb (prod_eqb N.eqb N.eqb))).
Definition step_obs_eqb : step_obs -> step_obs -> bool :=
  prod_eqb (prod_eqb (list_eqb w5_eqb) (list_eqb N.eqb)) (list_eqb (prod_eqb N.eqb (list_eqb N.eqb))).
Definition gobs_eqb (x y : gobs) : bool :=
  match x, y with
  | GPanicked, GPanicked => true
  | GRun s t, GRun s' t' =>
      list_eqb step_obs_eqb s s' && list_eqb w5_eqb t t'
  | GConstsAre a b c, GConstsAre a' b' c' => N.eqb a a' && N.eqb b b' && N.eqb c c'
  | _, _ => false
  end.
Definition g_check_case (ce : gcase * gobs) : bool := gobs_eqb (g_run (fst ce)) (snd ce).
