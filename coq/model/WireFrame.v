(* WireFrame.v — executable model of the framing protocol.
   covers: crates/radicle-node/src/wire/frame.rs::{PROTOCOL_VERSION_STRING,
           <Version as Decode>::decode, <Version as Encode>::encode, StreamId::kind,
           <StreamId as Decode/Encode>, StreamKind::try_from, <Control as Decode>::decode,
           <Control as Encode>::encode, <Frame<M> as Decode>::decode (the code after
           "fix: wire: a gossip message running past its complete frame payload is an
           error ..."), <Frame<M> as Encode>::encode}
   sites: none of its own (VarInt::decode's `unreachable!` and VarInt::encode's overflow
          panic are inherited from WireVarint; `wire::serialize(msg)` unwraps the inner
          message's encode error: the inner encoder is total here, see [inner_encode]).
   The gossip message type `M` is abstract: [inner_decode] is what `M::decode` does
   on a cursor over the complete payload (value, end-of-file, or another error; bytes
   after the message are dropped by Frame::decode, so nothing else is observable),
   [inner_encode] is `wire::serialize(msg)`.
   The `version` field of `Frame` carries no information (decode only accepts
   PROTOCOL_VERSION_STRING, encode always writes it, the field is private) and is
   omitted.  No proofs in this file. *)
From HW Require Import lib.Base model.WireVarint.
Local Open Scope N_scope.

(* b"rad" ++ [PROTOCOL_VERSION] *)
Definition PROTOCOL_VERSION : N := 1.
Definition VERSION_BYTES : list N := [114; 97; 100; PROTOCOL_VERSION].

Inductive control :=
| COpen (stream : N)
| CClose (stream : N)
| CEof (stream : N).

Inductive fdata (M : Type) :=
| FControl (c : control)
| FGossip (m : M)
| FGit (d : list N).
Arguments FControl {M} c.
Arguments FGossip {M} m.
Arguments FGit {M} d.

Record frame (M : Type) := Frame { f_stream : N; f_data : fdata M }.
Arguments Frame {M} f_stream f_data.
Arguments f_stream {M} f.
Arguments f_data {M} f.

(* what the inner message decoder reports on the complete payload *)
Inductive ires (M : Type) :=
| IOk (m : M)
| IEof                     (* an error with is_eof() *)
| IErr (code : N).         (* any other error *)
Arguments IOk {M} m.
Arguments IEof {M}.
Arguments IErr {M} code.

(* <Version as Decode>::decode followed by the `version.number() != PROTOCOL_VERSION`
   test of Frame::decode *)
Definition version_decode (inp : list N) : dres unit :=
  match inp with
  | v0 :: v1 :: v2 :: v3 :: r =>                            (* read_exact(&mut version[..]) *)
      if list_eqb N.eqb [v0; v1; v2; v3] VERSION_BYTES
      then (if v3 =? PROTOCOL_VERSION then DOk tt r else DErr (EWrongVersion v3))
      else DErr EInvalidVersion
  | _ => DEof
  end.

(* StreamId::kind: ((id >> 1) & 0b11) as u8 *)
Definition stream_kind (id : N) : N := N.land (N.shiftr id 1) 3.

(* <Control as Decode>::decode *)
Definition control_decode (inp : list N) : dres control :=
  match inp with
  | [] => DEof                                              (* u8::decode *)
  | cmd :: r =>
      match cmd with
      | 0 => match varint_decode r with
             | DOk s r' => DOk (COpen s) r'
             | DEof => DEof | DErr e => DErr e | DUnreachable => DUnreachable | DFuel => DFuel
             end
      | 1 => match varint_decode r with
             | DOk s r' => DOk (CClose s) r'
             | DEof => DEof | DErr e => DErr e | DUnreachable => DUnreachable | DFuel => DFuel
             end
      | 2 => match varint_decode r with
             | DOk s r' => DOk (CEof s) r'
             | DEof => DEof | DErr e => DErr e | DUnreachable => DUnreachable | DFuel => DFuel
             end
      | other => DErr (EInvalidControl other)
      end
  end.

Definition control_encode (c : control) : option (list N) :=
  match c with
  | COpen s => option_map (fun b => 0 :: b) (varint_encode s)
  | CClose s => option_map (fun b => 1 :: b) (varint_encode s)
  | CEof s => option_map (fun b => 2 :: b) (varint_encode s)
  end.

Section Frame.
  Context {M : Type}.
  Variable inner_decode : list N -> ires M.
  Variable inner_encode : M -> list N.

  (* <Frame<M> as Decode>::decode: result and the allocation requests of the
     frame layer (the payload buffer) *)
  Definition frame_decode (inp : list N) : dres (frame M) * list N :=
    match version_decode inp with
    | DOk _ r1 =>
        match varint_decode r1 with                          (* StreamId::decode *)
        | DOk sid r2 =>
            match stream_kind sid with
            | 0 =>                                           (* StreamKind::Control *)
                match control_decode r2 with
                | DOk c r3 => (DOk (Frame sid (FControl c)) r3, [])
                | DEof => (DEof, []) | DErr e => (DErr e, [])
                | DUnreachable => (DUnreachable, []) | DFuel => (DFuel, [])
                end
            | 1 =>                                           (* StreamKind::Gossip *)
                match payload_decode r2 with
                | (DOk data r3, al) =>
                    match inner_decode data with
                    | IOk m => (DOk (Frame sid (FGossip m)) r3, al)
                    | IEof => (DErr ETruncatedInner, al)
                    | IErr c => (DErr (EInner c), al)
                    end
                | (DEof, al) => (DEof, al) | (DErr e, al) => (DErr e, al)
                | (DUnreachable, al) => (DUnreachable, al) | (DFuel, al) => (DFuel, al)
                end
            | 2 =>                                           (* StreamKind::Git *)
                match payload_decode r2 with
                | (DOk data r3, al) => (DOk (Frame sid (FGit data)) r3, al)
                | (DEof, al) => (DEof, al) | (DErr e, al) => (DErr e, al)
                | (DUnreachable, al) => (DUnreachable, al) | (DFuel, al) => (DFuel, al)
                end
            | n => (DErr (EInvalidStreamKind n), [])
            end
        | DEof => (DEof, []) | DErr e => (DErr e, [])
        | DUnreachable => (DUnreachable, []) | DFuel => (DFuel, [])
        end
    | DEof => (DEof, []) | DErr e => (DErr e, [])
    | DUnreachable => (DUnreachable, []) | DFuel => (DFuel, [])
    end.

  (* <Frame<M> as Encode>::encode; [None] is a panic/encode error (a stream id
     >= 2^62 cannot be constructed through the API; a payload of >= 2^62 bytes
     cannot exist) *)
  Definition frame_encode (f : frame M) : option (list N) :=
    match varint_encode (f_stream f) with
    | Some sid =>
        match
          match f_data f with
          | FControl c => control_encode c
          | FGit d => payload_encode d
          | FGossip m => payload_encode (inner_encode m)
          end
        with
        | Some body => Some (VERSION_BYTES ++ sid ++ body)
        | None => None
        end
    | None => None
    end.

  (* all-or-nothing encoding of a sequence of frames *)
  Fixpoint frames_encode (fs : list (frame M)) : option (list (list N)) :=
    match fs with
    | [] => Some []
    | f :: fs' =>
        match frame_encode f, frames_encode fs' with
        | Some b, Some bs => Some (b :: bs)
        | _, _ => None
        end
    end.
End Frame.
