(* Quorum.v — executable model of the canonical-head computation.
   covers: crates/radicle/src/git/canonical.rs::Canonical::quorum,
           Canonical::modify_vote (= map insert), Canonical::reference (tips map
           construction: one binding per delegate, iteration in Did order)

   Commits (Oid) and delegates (Did) are N; the numbering preserves the byte
   order of the Rust keys, because the Rust code iterates `BTreeMap<Did,Oid>`
   (delegate order) and `BTreeMap<Oid,BTreeSet<Did>>` (`pop_first`, `keys`:
   oid order).  The git history is a Section parameter [merge_base]
   (`git2::Repository::merge_base`; [None] = git2 error, e.g. no common
   ancestor).  No proofs in this file. *)
From HW Require Import lib.Base lib.SMap.
Local Open Scope N_scope.

(* Result<Oid, QuorumError> *)
Inductive qres :=
| QOk (h : N)
| QDiverging (base longest head : N)   (* QuorumError::Diverging{base,longest,head} *)
| QNoCandidates                        (* QuorumError::NoCandidates *)
| QGit.                                (* QuorumError::Git (merge_base failed) *)

(* BTreeMap<Did, Oid> *)
Definition tipmap := smap N.
(* BTreeMap<Oid, BTreeSet<Did>> *)
Definition cands := smap sset.

Section Quorum.
Variable merge_base : N -> N -> option N.

(* candidates.entry(c).or_default().insert(d) *)
Definition vote (c d : N) (m : cands) : cands :=
  upsert (fun old _ => sset_add d old) c (sset_add d []) m.

(* inner loop: `for (other_did, other) in self.tips.iter().skip(i + 1)` *)
Fixpoint inner (did head : N) (others : list (N * N)) (m : cands) : option cands :=
  match others with
  | [] => Some m
  | (odid, other) :: rest =>
      if N.eqb head other then inner did head rest m
      else match merge_base head other with
           | None => None                                   (* `?` *)
           | Some base =>
               inner did head rest
                 (if N.eqb base other then vote base did m
                  else if N.eqb base head then vote base odid m
                  else m)
           end
  end.

(* outer loop: `for (i, (did, head)) in self.tips.iter().enumerate()` *)
Fixpoint outer (tips : list (N * N)) (m : cands) : option cands :=
  match tips with
  | [] => Some m
  | (did, head) :: rest =>
      match inner did head rest (vote head did m) with
      | None => None
      | Some m' => outer rest m'
      end
  end.

(* candidates.retain(|_, voters| voters.len() >= self.threshold) *)
Definition retain (thr : N) (m : cands) : cands :=
  filter (fun kv => N.leb thr (N.of_nat (length (snd kv)))) m.

(* `for head in candidates.keys()` after `pop_first` *)
Fixpoint longest_fold (longest : N) (heads : list N) : qres :=
  match heads with
  | [] => QOk longest
  | head :: rest =>
      match merge_base head longest with
      | None => QGit
      | Some base =>
          if N.eqb base longest then longest_fold head rest
          else if N.eqb base head || N.eqb head longest then longest_fold longest rest
          else QDiverging base longest head
      end
  end.

Definition quorum (tips : tipmap) (thr : N) : qres :=
  match outer tips [] with
  | None => QGit
  | Some m =>
      match keys (retain thr m) with
      | [] => QNoCandidates
      | first :: rest => longest_fold first rest
      end
  end.

End Quorum.

(* tips map built like `Canonical::reference` / `modify_vote`: successive
   `BTreeMap::insert`s, a later binding for the same delegate replaces the
   earlier one *)
Definition tips_of_list (l : list (N * N)) : tipmap :=
  fold_left (fun m kv => insert (fst kv) (snd kv) m) l [].

(* ---------- a finite git history given as data ----------
   [ancp]: all pairs (a,b) with a a strict ancestor of b
           (`graph_descendant_of(b,a)`);
   [mbt] : (a,b,c) for every ordered pair a<>b on which
           `merge_base(a,b)` succeeded with result c. *)
Definition pair_eqb (p q : N * N) : bool := N.eqb (fst p) (fst q) && N.eqb (snd p) (snd q).

Definition tab_anc (ancp : list (N * N)) (a b : N) : bool :=
  N.eqb a b || existsb (pair_eqb (a, b)) ancp.

Fixpoint mb_find (mbt : list (N * N * N)) (a b : N) : option N :=
  match mbt with
  | [] => None
  | (a', b', c) :: t => if N.eqb a a' && N.eqb b b' then Some c else mb_find t a b
  end.

Definition tab_mb (mbt : list (N * N * N)) (a b : N) : option N :=
  if N.eqb a b then Some a else mb_find mbt a b.

(* the tables satisfy the hypotheses under which the theorems are stated
   (reflexivity holds by construction of [tab_anc]) *)
Definition hist_okb (ancp : list (N * N)) (mbt : list (N * N * N)) : bool :=
  (* transitive *)
  forallb (fun p => forallb (fun q =>
      negb (N.eqb (snd p) (fst q)) || tab_anc ancp (fst p) (snd q)) ancp) ancp &&
  (* antisymmetric / strict *)
  forallb (fun p => negb (N.eqb (fst p) (snd p)) &&
                    negb (existsb (pair_eqb (snd p, fst p)) ancp)) ancp &&
  (* an ancestor is the merge base, in both argument orders *)
  forallb (fun p =>
      option_eqb N.eqb (mb_find mbt (fst p) (snd p)) (Some (fst p)) &&
      option_eqb N.eqb (mb_find mbt (snd p) (fst p)) (Some (fst p))) ancp &&
  (* a merge base is a common ancestor *)
  forallb (fun t => match t with (a, b, c) => tab_anc ancp c a && tab_anc ancp c b end) mbt.

(* ---------- correspondence interface ---------- *)
Inductive case :=
| QCase (ancp : list (N * N)) (mbt : list (N * N * N))
        (assign : list (N * N))   (* (delegate, tip) insertions, in order *)
        (thr : N).

(* (tables satisfy the git-history hypotheses, result of quorum) *)
Definition obs := (bool * qres)%type.

Definition run (c : case) : obs :=
  match c with
  | QCase ancp mbt assign thr =>
      (hist_okb ancp mbt, quorum (tab_mb mbt) (tips_of_list assign) thr)
  end.

Definition qres_eqb (a b : qres) : bool :=
  match a, b with
  | QOk x, QOk y => N.eqb x y
  | QDiverging b1 l1 h1, QDiverging b2 l2 h2 => N.eqb b1 b2 && N.eqb l1 l2 && N.eqb h1 h2
  | QNoCandidates, QNoCandidates => true
  | QGit, QGit => true
  | _, _ => false
  end.

Definition obs_eqb (a b : obs) : bool :=
  Bool.eqb (fst a) (fst b) && qres_eqb (snd a) (snd b).

Definition check_case (ce : case * obs) : bool := obs_eqb (run (fst ce)) (snd ce).
