(* CanonJson.v — executable model of canonical JSON encoding (no proofs here).
   covers: radicle/src/canonical/formatter.rs::CanonicalFormatter
             (writer, write_f32/write_f64/write_number_str, write_string_fragment,
              write_char_escape, begin_object/end_object, begin_object_key/
              end_object_key/end_object_value; everything else is the wrapped
              serde_json CompactFormatter),
           serde_json::ser::{format_escaped_str_contents, ESCAPE,
              Formatter::write_char_escape, Serializer::serialize_{i64,u64,f64,str,
              seq,map}} as driven by `impl Serialize for serde_json::Value`,
           users: radicle/src/cob/store.rs::encoding::encode,
                  radicle/src/identity/doc.rs::Doc::encode.
   sites: no panic site (every failure is an io::Error -> [None]).

   Facts of the code that the model reproduces:
   * a string is cut into fragments at every character that serde_json escapes
     (U+0000..U+001F, double quote, backslash); each NON-EMPTY fragment is NFC-normalised on
     its own ([write_string_fragment]) and UTF-8 encoded; the escapes are the
     two-character ones for BS TAB LF FF CR, double quote, backslash, and \u00xx (lower-case hex)
     for the other C0 controls.  U+007F and the C1 controls are NOT escaped;
   * an object buffers (encoded key INCLUDING its quotes and escapes, encoded
     value) in a BTreeMap<Vec<u8>,Vec<u8>>: members come out sorted by the
     bytes of the *encoded* key, and a second member whose encoded key is the
     same (possible only after normalisation) overwrites the first;
   * integers print in decimal (itoa); every float is an error.
   Unicode NFC is the Section variable [nfc]; what the proofs need from it is
   stated as hypotheses in proofs/CanonJsonProofs.v and tested by the harness
   on every string it generates. *)
From HW Require Import lib.Base.
Local Open Scope N_scope.

(* ------------------------------------------------------------------ values *)

(* serde_json::Value (feature preserve_order: an object is an insertion-ordered
   list of members).  Int covers Number::PosInt(u64) / NegInt(i64); Float is
   any Number::Float (always finite inside a Value). Strings are lists of
   Unicode scalar values. *)
Inductive value :=
| Null
| Bool (b : bool)
| Int (z : Z)
| Float
| Str (s : list N)
| Arr (l : list value)
| Obj (m : list (list N * value)).

(* ------------------------------------------------------------------ bytes *)

Fixpoint lex_cmp (a b : list N) : comparison :=
  match a, b with
  | [], [] => Eq
  | [], _ :: _ => Lt
  | _ :: _, [] => Gt
  | x :: a', y :: b' =>
      match N.compare x y with
      | Eq => lex_cmp a' b'
      | c => c
      end
  end.

(* BTreeMap<Vec<u8>, _>::insert *)
Fixpoint binsert {A} (k : list N) (x : A) (m : list (list N * A)) : list (list N * A) :=
  match m with
  | [] => [(k, x)]
  | (k', x') :: m' =>
      match lex_cmp k k' with
      | Lt => (k, x) :: m
      | Eq => (k', x) :: m'
      | Gt => (k', x') :: binsert k x m'
      end
  end.

(* char::encode_utf8 *)
Definition utf8 (c : N) : list N :=
  if c <? 128 then [c]
  else if c <? 2048 then [192 + c / 64; 128 + c mod 64]
  else if c <? 65536 then [224 + c / 4096; 128 + (c / 64) mod 64; 128 + c mod 64]
  else [240 + c / 262144; 128 + (c / 4096) mod 64; 128 + (c / 64) mod 64; 128 + c mod 64].

Definition utf8s (s : list N) : list N := flat_map utf8 s.

(* serde_json ESCAPE table, on code points (only ASCII bytes are escaped and
   UTF-8 continuation/lead bytes are >= 0x80, so cutting at bytes = cutting at
   code points) *)
Definition is_esc (c : N) : bool := (c <? 32) || (c =? 34) || (c =? 92).

Definition hex_digit (d : N) : N := if d <? 10 then 48 + d else 87 + d.

(* CompactFormatter::write_char_escape *)
Definition escape (c : N) : list N :=
  if c =? 34 then [92; 34]
  else if c =? 92 then [92; 92]
  else if c =? 8 then [92; 98]
  else if c =? 9 then [92; 116]
  else if c =? 10 then [92; 110]
  else if c =? 12 then [92; 102]
  else if c =? 13 then [92; 114]
  else [92; 117; 48; 48; hex_digit (c / 16); hex_digit (c mod 16)].

(* itoa *)
Fixpoint dec_f (fuel : nat) (n : N) : list N :=
  match fuel with
  | O => []
  | S f => if n <? 10 then [48 + n] else dec_f f (n / 10) ++ [48 + n mod 10]
  end.
Definition dec (n : N) : list N := dec_f (S (N.to_nat (N.log2 n))) n.

Definition enc_int (z : Z) : list N :=
  match z with
  | Zneg p => 45 :: dec (Npos p)
  | _ => dec (Z.to_N z)
  end.

Fixpoint join_comma (l : list (list N)) : list N :=
  match l with
  | [] => []
  | [x] => x
  | x :: l' => x ++ 44 :: join_comma l'
  end.

Definition emit_array (l : list (list N)) : list N := 91 :: join_comma l ++ [93].
Definition emit_member (kb : list N * list N) : list N := fst kb ++ 58 :: snd kb.
Definition emit_object (m : list (list N * list N)) : list N :=
  123 :: join_comma (map emit_member m) ++ [125].

(* ------------------------------------------------------------------ encoder *)

Section WithNfc.
Variable nfc : list N -> list N.

(* write_string_fragment is only called on non-empty fragments; [acc] is the
   current fragment, reversed *)
Definition flush_frag (acc : list N) : list N :=
  match acc with
  | [] => []
  | _ => utf8s (nfc (rev acc))
  end.

Fixpoint enc_body (acc : list N) (s : list N) : list N :=
  match s with
  | [] => flush_frag acc
  | c :: s' =>
      if is_esc c then flush_frag acc ++ escape c ++ enc_body [] s'
      else enc_body (c :: acc) s'
  end.

Definition enc_str (s : list N) : list N := 34 :: enc_body [] s ++ [34].

(* the string a JSON parser reads back from [enc_str s] *)
Definition flush_norm (acc : list N) : list N :=
  match acc with
  | [] => []
  | _ => nfc (rev acc)
  end.

Fixpoint norm_body (acc : list N) (s : list N) : list N :=
  match s with
  | [] => flush_norm acc
  | c :: s' =>
      if is_esc c then flush_norm acc ++ c :: norm_body [] s'
      else norm_body (c :: acc) s'
  end.

Definition norm_str (s : list N) : list N := norm_body [] s.

Fixpoint encode (v : value) : option (list N) :=
  match v with
  | Null => Some [110; 117; 108; 108]
  | Bool true => Some [116; 114; 117; 101]
  | Bool false => Some [102; 97; 108; 115; 101]
  | Int z => Some (enc_int z)
  | Float => None
  | Str s => Some (enc_str s)
  | Arr l =>
      match (fix go (l : list value) : option (list (list N)) :=
               match l with
               | [] => Some []
               | x :: l' =>
                   match encode x with
                   | Some b => match go l' with Some bs => Some (b :: bs) | None => None end
                   | None => None
                   end
               end) l with
      | Some bs => Some (emit_array bs)
      | None => None
      end
  | Obj m =>
      match (fix go (m : list (list N * value)) (acc : list (list N * list N))
               : option (list (list N * list N)) :=
               match m with
               | [] => Some acc
               | (k, x) :: m' =>
                   match encode x with
                   | Some b => go m' (binsert (enc_str k) b acc)
                   | None => None
                   end
               end) m [] with
      | Some kbs => Some (emit_object kbs)
      | None => None
      end
  end.

(* the value a JSON parser reads back from [encode v] (normal form) *)
Fixpoint norm (v : value) : value :=
  match v with
  | Str s => Str (norm_str s)
  | Arr l => Arr (map norm l)
  | Obj m =>
      Obj (map snd
        ((fix go (m : list (list N * value)) (acc : list (list N * (list N * value))) :=
            match m with
            | [] => acc
            | (k, x) :: m' => go m' (binsert (enc_str k) (norm_str k, norm x) acc)
            end) m []))
  | _ => v
  end.

Fixpoint has_float (v : value) : bool :=
  match v with
  | Float => true
  | Arr l => existsb has_float l
  | Obj m => existsb (fun kx => has_float (snd kx)) m
  | _ => false
  end.

End WithNfc.

(* ------------------------------------------------------------------ parser *)
(* A parser for exactly the grammar the encoder emits (no whitespace, decimal
   integers in the i64/u64 range, the escapes above, well-formed UTF-8).  It
   is a restriction of serde_json's parser: whatever it accepts serde_json
   accepts with the same result (checked by the harness); anything else is
   [None]. *)

Definition is_digit (b : N) : bool := (48 <=? b) && (b <=? 57).

Fixpoint take_digits (bs : list N) (acc : N) : N * list N :=
  match bs with
  | b :: r => if is_digit b then take_digits r (10 * acc + (b - 48)) else (acc, bs)
  | [] => (acc, [])
  end.

(* JSON number without fraction/exponent and without leading zeros *)
Definition parse_nat (bs : list N) : option (N * list N) :=
  match bs with
  | b :: r =>
      if b =? 48 then
        match r with
        | b1 :: _ => if is_digit b1 then None else Some (0, r)
        | [] => Some (0, r)
        end
      else if is_digit b then Some (take_digits bs 0) else None
  | [] => None
  end.

Definition follows_number (r : list N) : bool :=
  match r with
  | b :: _ => negb ((b =? 46) || (b =? 101) || (b =? 69))
  | [] => true
  end.

Definition u64_max : N := 18446744073709551615.
Definition i64_min_abs : N := 9223372036854775808.

Definition parse_int (bs : list N) : option (Z * list N) :=
  match bs with
  | b :: r =>
      if b =? 45 then
        match parse_nat r with
        | Some (n, r') =>
            if (1 <=? n) && (n <=? i64_min_abs) && follows_number r'
            then Some (Z.opp (Z.of_N n), r') else None
        | None => None
        end
      else
        match parse_nat bs with
        | Some (n, r') =>
            if (n <=? u64_max) && follows_number r' then Some (Z.of_N n, r') else None
        | None => None
        end
  | [] => None
  end.

Definition unhex (b : N) : option N :=
  if is_digit b then Some (b - 48)
  else if (97 <=? b) && (b <=? 102) then Some (b - 87)
  else None.

Definition is_cont (b : N) : bool := (128 <=? b) && (b <=? 191).

Definition unescape (e : N) : option N :=
  if e =? 34 then Some 34
  else if e =? 92 then Some 92
  else if e =? 98 then Some 8
  else if e =? 116 then Some 9
  else if e =? 110 then Some 10
  else if e =? 102 then Some 12
  else if e =? 114 then Some 13
  else None.

Definition scons (c : N) (r : option (list N * list N)) : option (list N * list N) :=
  match r with Some (s, r') => Some (c :: s, r') | None => None end.

(* body of a string, after the opening quote, up to and including the closing
   quote; returns the code points *)
Fixpoint parse_str_body (bs : list N) : option (list N * list N) :=
  match bs with
  | [] => None
  | b0 :: r =>
      if b0 =? 34 then Some ([], r)
      else if b0 =? 92 then
        match r with
        | [] => None
        | e :: r1 =>
            if e =? 117 then
              match r1 with
              | z1 :: z2 :: h :: l :: r' =>
                  match unhex h, unhex l with
                  | Some x, Some y =>
                      if (z1 =? 48) && (z2 =? 48) && (16 * x + y <? 32)
                      then scons (16 * x + y) (parse_str_body r') else None
                  | _, _ => None
                  end
              | _ => None
              end
            else
              match unescape e with
              | Some c => scons c (parse_str_body r1)
              | None => None
              end
        end
      else if b0 <? 32 then None
      else if b0 <? 128 then scons b0 (parse_str_body r)
      else if b0 <? 194 then None
      else if b0 <? 224 then
        match r with
        | b1 :: r' =>
            if is_cont b1 then scons ((b0 - 192) * 64 + (b1 - 128)) (parse_str_body r') else None
        | _ => None
        end
      else if b0 <? 240 then
        match r with
        | b1 :: b2 :: r' =>
            let c := (b0 - 224) * 4096 + (b1 - 128) * 64 + (b2 - 128) in
            if is_cont b1 && is_cont b2 && (2048 <=? c) && negb ((55296 <=? c) && (c <=? 57343))
            then scons c (parse_str_body r') else None
        | _ => None
        end
      else if b0 <? 245 then
        match r with
        | b1 :: b2 :: b3 :: r' =>
            let c := (b0 - 240) * 262144 + (b1 - 128) * 4096 + (b2 - 128) * 64 + (b3 - 128) in
            if is_cont b1 && is_cont b2 && is_cont b3 && (65536 <=? c) && (c <=? 1114111)
            then scons c (parse_str_body r') else None
        | _ => None
        end
      else None
  end.

(* serde_json::Map (IndexMap, feature preserve_order)::insert: a repeated key
   replaces the value and keeps the position of the first occurrence *)
Fixpoint imap_insert (k : list N) (v : value) (m : list (list N * value)) : list (list N * value) :=
  match m with
  | [] => [(k, v)]
  | (k', v') :: m' =>
      if list_eqb N.eqb k k' then (k', v) :: m' else (k', v') :: imap_insert k v m'
  end.
Definition imap_of_list (l : list (list N * value)) : list (list N * value) :=
  fold_left (fun acc kv => imap_insert (fst kv) (snd kv) acc) l [].

(* strip a fixed prefix *)
Fixpoint strip (p bs : list N) : option (list N) :=
  match p with
  | [] => Some bs
  | x :: p' =>
      match bs with
      | b :: r => if b =? x then strip p' r else None
      | [] => None
      end
  end.

Fixpoint parse_value (fuel : nat) (bs : list N) : option (value * list N) :=
  match fuel with
  | O => None
  | S f =>
      match bs with
      | [] => None
      | b :: r =>
          if b =? 110 then
            match strip [117; 108; 108] r with Some r' => Some (Null, r') | None => None end
          else if b =? 116 then
            match strip [114; 117; 101] r with Some r' => Some (Bool true, r') | None => None end
          else if b =? 102 then
            match strip [97; 108; 115; 101] r with Some r' => Some (Bool false, r') | None => None end
          else if b =? 34 then
            match parse_str_body r with
            | Some (s, r') => Some (Str s, r')
            | None => None
            end
          else if b =? 91 then
            match r with
            | [] => None
            | b1 :: r1 =>
                if b1 =? 93 then Some (Arr [], r1)
                else match parse_elems f r with
                     | Some (l, r') => Some (Arr l, r')
                     | None => None
                     end
            end
          else if b =? 123 then
            match r with
            | [] => None
            | b1 :: r1 =>
                if b1 =? 125 then Some (Obj [], r1)
                else match parse_members f r with
                     | Some (m, r') => Some (Obj (imap_of_list m), r')
                     | None => None
                     end
            end
          else
            match parse_int bs with
            | Some (z, r') => Some (Int z, r')
            | None => None
            end
      end
  end
with parse_elems (fuel : nat) (bs : list N) : option (list value * list N) :=
  match fuel with
  | O => None
  | S f =>
      match parse_value f bs with
      | Some (v, b :: r) =>
          if b =? 44 then
            match parse_elems f r with
            | Some (l, r') => Some (v :: l, r')
            | None => None
            end
          else if b =? 93 then Some ([v], r)
          else None
      | _ => None
      end
  end
with parse_members (fuel : nat) (bs : list N) : option (list (list N * value) * list N) :=
  match fuel with
  | O => None
  | S f =>
      match bs with
      | [] => None
      | q :: r0 =>
          if q =? 34 then
            match parse_str_body r0 with
            | Some (k, c :: r1) =>
                if c =? 58 then
                  match parse_value f r1 with
                  | Some (v, b :: r) =>
                      if b =? 44 then
                        match parse_members f r with
                        | Some (m, r') => Some ((k, v) :: m, r')
                        | None => None
                        end
                      else if b =? 125 then Some ([(k, v)], r)
                      else None
                  | _ => None
                  end
                else None
            | _ => None
            end
          else None
      end
  end.

(* whole input; the fuel is proved sufficient in CanonJsonProofs.v *)
Definition parse (bs : list N) : option value :=
  match parse_value (S (length bs)) bs with
  | Some (v, []) => Some v
  | _ => None
  end.

(* ------------------------------------------------------------------ scanners
   used to state no-insignificant-whitespace and keys-sorted directly on
   the emitted bytes *)

(* true iff no space/tab/LF/CR occurs outside a string literal *)
Fixpoint no_ws_outside (in_str : bool) (bs : list N) : bool :=
  match bs with
  | [] => negb in_str
  | b :: r =>
      if in_str then
        if b =? 92 then match r with _ :: r' => no_ws_outside true r' | [] => false end
        else if b =? 34 then no_ws_outside false r
        else no_ws_outside true r
      else
        if (b =? 32) || (b =? 9) || (b =? 10) || (b =? 13) then false
        else if b =? 34 then no_ws_outside true r
        else no_ws_outside false r
  end.

Fixpoint strictly_sorted (ks : list (list N)) : bool :=
  match ks with
  | [] => true
  | k :: ks' =>
      match ks' with
      | [] => true
      | k' :: _ => match lex_cmp k k' with Lt => strictly_sorted ks' | _ => false end
      end
  end.

(* every object inside [v] lists its members in strictly increasing order of
   [key_bytes k] *)
Fixpoint objs_sorted (key_bytes : list N -> list N) (v : value) : bool :=
  match v with
  | Arr l => forallb (objs_sorted key_bytes) l
  | Obj m =>
      strictly_sorted (map (fun kx => key_bytes (fst kx)) m) &&
      forallb (fun kx => objs_sorted key_bytes (snd kx)) m
  | _ => true
  end.

(* ------------------------------------------------------------------ equality *)

Fixpoint value_eqb (a b : value) : bool :=
  match a, b with
  | Null, Null => true
  | Bool x, Bool y => Bool.eqb x y
  | Int x, Int y => Z.eqb x y
  | Float, Float => true
  | Str x, Str y => list_eqb N.eqb x y
  | Arr x, Arr y =>
      (fix go (x y : list value) : bool :=
         match x, y with
         | [], [] => true
         | a :: x', b :: y' => value_eqb a b && go x' y'
         | _, _ => false
         end) x y
  | Obj x, Obj y =>
      (fix go (x y : list (list N * value)) : bool :=
         match x, y with
         | [], [] => true
         | (ka, a) :: x', (kb, b) :: y' => list_eqb N.eqb ka kb && value_eqb a b && go x' y'
         | _, _ => false
         end) x y
  | _, _ => false
  end.

(* ------------------------------------------------------------------ correspondence
   The harness ships, with every case, the NFC images computed by the real
   unicode-normalization crate for all fragments that can arise (those of the
   input strings and of their images), as a table; fragments not in the table
   are their own image. *)

Fixpoint table_nfc (t : list (list N * list N)) (s : list N) : list N :=
  match t with
  | [] => s
  | (a, b) :: t' => if list_eqb N.eqb a s then b else table_nfc t' s
  end.

Inductive case :=
| CEnc (t : list (list N * list N)) (v : value)
    (* serialize v with CanonicalFormatter *)
| CDec (canonical : bool) (bs : list N).
    (* serde_json::from_slice::<Value>(bs); canonical = bs was produced by the
       real encoder, so the model parser must accept it *)

Inductive obs :=
| OEnc (r : option (list N))
| ODec (r : option value).

Definition run (c : case) : obs :=
  match c with
  | CEnc t v => OEnc (encode (table_nfc t) v)
  | CDec _ bs => ODec (parse bs)
  end.

Definition check_case (ce : case * obs) : bool :=
  match fst ce, snd ce with
  | CEnc t v, OEnc r => option_eqb (list_eqb N.eqb) (encode (table_nfc t) v) r
  | CDec canonical bs, ODec r =>
      match parse bs with
      | Some w => option_eqb value_eqb (Some w) r
      | None => negb canonical
      end
  | _, _ => false
  end.

Definition obs_eqb (x y : obs) : bool :=
  match x, y with
  | OEnc a, OEnc b => option_eqb (list_eqb N.eqb) a b
  | ODec a, ODec b => option_eqb value_eqb a b
  | _, _ => false
  end.
