(* Sync.v — executable model of the sans-IO sync state machines.
   covers: crates/radicle/src/node/sync.rs::ReplicationFactor::{range, must_reach, lower_bound, upper_bound, min};
           crates/radicle/src/node/sync/announce.rs::Announcer::{new, synced_with, timed_out, can_continue,
             to_sync, progress, finished, is_target_reached, success_counts}, AnnouncerConfig::{public, private}, Target::new;
           crates/radicle/src/node/sync.rs::PrivateNetwork::{private_repo, restrict} (as the resulting allowed set);
           crates/radicle/src/node/sync/fetch.rs::Fetcher::{new, next_node, next_fetch, fetch_failed, fetch_complete,
             finish, ready_to_fetch, progress, finished, is_target_reached, include_node, missing_seeds,
             success_counts}, FetcherConfig::{public, private, with_candidates}, Target::new, FetcherResult::target_error;
           crates/radicle/src/node.rs::FetchResults::{push, get, success, failed}
   sites:  none (no panicking construct in the covered functions; counters are usize additions bounded by
           collection lengths).

   Node ids are numbers (the harness maps NodeIds to small integers preserving their order, so BTreeSet
   iteration order = numeric order).  BTreeSets are duplicate-free lists kept sorted; the BTreeMap of synced
   nodes is modelled by its key set (the SyncStatus values are not part of the property).  Addresses handed
   to ready_to_fetch are dropped.  FetchResult is abstracted to success / failure.

   The Fetcher is modelled AS FIXED in /repo (fetch_complete / fetch_failed ignore a node that is the local
   node or already has a result); [fetch_complete_unguarded] / [fetch_failed_unguarded] are the previous
   behaviour, kept for the refutation witnesses.

   No proofs in this file. *)
From HW Require Import lib.Base.
Local Open Scope N_scope.

(* ---------- sets of node ids ---------- *)

Fixpoint ins_sorted (k : N) (s : list N) : list N :=
  match s with
  | [] => [k]
  | x :: s' => if N.ltb k x then k :: s else x :: ins_sorted k s'
  end.
Definition set_add (k : N) (s : list N) : list N := if memN k s then s else ins_sorted k s.
Definition set_remove (k : N) (s : list N) : list N := filter (fun x => negb (N.eqb x k)) s.
Definition set_of_list (l : list N) : list N := fold_left (fun s k => set_add k s) l [].
Definition set_union (a b : list N) : list N := fold_left (fun s k => set_add k s) b a.
Definition set_diff (a b : list N) : list N := filter (fun x => negb (memN x b)) a.
Definition count_in (a b : list N) : N := N.of_nat (length (filter (fun x => memN x b) a)).
Definition len (l : list N) : N := N.of_nat (length l).
Definition is_nil {A} (l : list A) : bool := match l with [] => true | _ => false end.

(* ---------- ReplicationFactor ---------- *)

Inductive rfactor := MustReach (n : N) | Range (lo hi : N).

(* ReplicationFactor::range: `lower >= upper` gives MustReach(lower) *)
Definition rf_range (lo hi : N) : rfactor := if N.leb hi lo then MustReach lo else Range lo hi.
Definition rf_lower (r : rfactor) : N := match r with MustReach n => n | Range lo _ => lo end.
Definition rf_upper (r : rfactor) : option N := match r with MustReach _ => None | Range _ hi => Some hi end.
(* ReplicationFactor::min *)
Definition rf_min (r : rfactor) (new : N) : rfactor :=
  match r with
  | MustReach n => MustReach (N.min n new)
  | Range lo hi => rf_range lo (N.min hi new)
  end.
(* the count at which `is_target_reached` fires: lower bound of MustReach, upper bound of a Range *)
Definition rf_bound (r : rfactor) : N := match r with MustReach n => n | Range _ hi => hi end.

(* ---------- Announcer ---------- *)

Record acfg := {
  ac_local : N; ac_repl : rfactor; ac_pref : list N; ac_synced : list N; ac_unsynced : list N }.

Record announcer := {
  a_local : N; a_pref : list N; a_repl : rfactor;
  a_synced : list N;      (* keys of the `synced` map *)
  a_to_sync : list N }.

Inductive aerr := ENoSeeds | EAlreadySynced (preferred synced : N) | ETarget.

(* SuccessfulOutcome: is_max = MaxReplicationFactor *)
Record aoutcome := { ao_max : bool; ao_preferred : N; ao_synced : N }.

Definition a_counts (a : announcer) : N * N := (count_in (a_synced a) (a_pref a), len (a_synced a)).

Definition a_target_reached (a : announcer) : option aoutcome :=
  let (preferred, synced) := a_counts a in
  let reached_preferred := is_nil (a_pref a) || N.leb (len (a_pref a)) preferred in
  match rf_upper (a_repl a) with
  | None => if reached_preferred && N.leb (rf_lower (a_repl a)) synced
            then Some {| ao_max := false; ao_preferred := preferred; ao_synced := synced |} else None
  | Some max => if reached_preferred && N.leb max synced
            then Some {| ao_max := true; ao_preferred := preferred; ao_synced := synced |} else None
  end.

(* AnnouncerConfig::public takes BTreeSets: the lists are normalised first *)
Definition announcer_new (c : acfg) : aerr + announcer :=
  let local := ac_local c in
  let pref := set_remove local (set_of_list (ac_pref c)) in
  let synced := set_remove local (set_of_list (ac_synced c)) in
  let unsynced := set_remove local (set_of_list (ac_unsynced c)) in
  if is_nil synced && is_nil unsynced then inl ENoSeeds
  else if is_nil unsynced then inl (EAlreadySynced (count_in synced pref) (len synced))
  else
    let unsynced := set_union unsynced (set_diff pref synced) in
    let replicas := rf_min (ac_repl c) (len unsynced) in
    if N.eqb (rf_lower replicas) 0 && is_nil pref then inl ETarget
    else
      let a := {| a_local := local; a_pref := pref; a_repl := replicas;
                  a_synced := synced; a_to_sync := unsynced |} in
      match a_target_reached a with
      | None => inr a
      | Some o => inl (EAlreadySynced (ao_preferred o) (ao_synced o))
      end.

(* AnnouncerConfig::private: preferred = unsynced = the network's allowed set *)
Definition acfg_private (local : N) (repl : rfactor) (allowed : list N) : acfg :=
  {| ac_local := local; ac_repl := repl; ac_pref := allowed; ac_synced := []; ac_unsynced := allowed |}.

Record aprogress := { ap_preferred : N; ap_synced : N; ap_unsynced : N }.

(* `unsynced = to_sync.len().saturating_sub(synced)` *)
Definition a_progress (a : announcer) : aprogress :=
  let (preferred, synced) := a_counts a in
  {| ap_preferred := preferred; ap_synced := synced; ap_unsynced := len (a_to_sync a) - synced |}.

Inductive aflow :=
| AContinue (p : aprogress)
| ABreak (o : aoutcome) (synced : list N).

Definition a_finished (a : announcer) : aflow :=
  match a_target_reached a with
  | None => AContinue (a_progress a)
  | Some o => ABreak o (a_synced a)
  end.

Definition synced_with (a : announcer) (node : N) : announcer * aflow :=
  if N.eqb node (a_local a) then (a, AContinue (a_progress a))
  else
    let a' := {| a_local := a_local a; a_pref := a_pref a; a_repl := a_repl a;
                 a_synced := set_add node (a_synced a); a_to_sync := set_remove node (a_to_sync a) |} in
    (a', a_finished a').

Inductive aresult :=
| ASuccess (o : aoutcome) (synced : list N)
| ATimedOut (synced timed_out : list N)
| ANoNodes (synced : list N).

Definition timed_out (a : announcer) : aresult :=
  match a_target_reached a with
  | None => ATimedOut (a_synced a) (a_to_sync a)
  | Some o => ASuccess o (a_synced a)
  end.

(* can_continue: [Some r] = Break *)
Definition can_continue (a : announcer) : option aresult :=
  if is_nil (a_to_sync a) then Some (ANoNodes (a_synced a)) else None.

Definition to_sync (a : announcer) : list N := filter (fun n => negb (N.eqb n (a_local a))) (a_to_sync a).

(* ---------- Fetcher ---------- *)

Record fcfg := { fc_seeds : list N; fc_repl : rfactor; fc_extra : list N; fc_local : N }.

Record fetcher := {
  f_local : N; f_seeds : list N; f_repl : rfactor;
  f_ready : list N;                (* fetch_from (addresses dropped) *)
  f_cands : list N;                (* candidates, a VecDeque: order and duplicates matter *)
  f_results : list (N * bool) }.   (* FetchResults, a Vec in push order; true = Success *)

Inductive ferr := ENoCandidates | EFTarget.

(* FetcherConfig::public(seeds, ..).with_candidates(extra) *)
Definition fetcher_candidates (c : fcfg) : list N :=
  let keep := fun n => negb (N.eqb n (fc_local c)) in
  filter keep (set_of_list (fc_seeds c)) ++ filter keep (fc_extra c).

(* FetcherConfig::private: seeds = the allowed set, candidates = allowed minus local *)
Definition fcfg_private (allowed : list N) (repl : rfactor) (local : N) : fcfg :=
  {| fc_seeds := allowed; fc_repl := repl; fc_extra := []; fc_local := local |}.

Definition fetcher_new (c : fcfg) : ferr + fetcher :=
  let cands := fetcher_candidates c in
  if is_nil cands then inl ENoCandidates
  else
    let seeds := set_of_list (fc_seeds c) in
    let replicas := rf_min (fc_repl c) (len cands) in
    if N.eqb (rf_lower replicas) 0 && is_nil seeds then inl EFTarget
    else inr {| f_local := fc_local c; f_seeds := seeds; f_repl := replicas;
                f_ready := []; f_cands := cands; f_results := [] |}.

(* FetchResults::get: first entry of the node *)
Fixpoint results_get (n : N) (rs : list (N * bool)) : option bool :=
  match rs with
  | [] => None
  | (k, ok) :: rs' => if N.eqb k n then Some ok else results_get n rs'
  end.

Definition include_node (f : fetcher) (n : N) : bool :=
  match results_get n (f_results f) with None => true | Some _ => false end
  && negb (N.eqb (f_local f) n).

Fixpoint pop_candidate (incl : N -> bool) (cs : list N) : list N * option N :=
  match cs with
  | [] => ([], None)
  | c :: cs' => if incl c then (cs', Some c) else pop_candidate incl cs'
  end.

Definition with_cands (f : fetcher) cs := {| f_local := f_local f; f_seeds := f_seeds f; f_repl := f_repl f;
  f_ready := f_ready f; f_cands := cs; f_results := f_results f |}.
Definition with_ready (f : fetcher) rd := {| f_local := f_local f; f_seeds := f_seeds f; f_repl := f_repl f;
  f_ready := rd; f_cands := f_cands f; f_results := f_results f |}.
Definition with_results (f : fetcher) rs := {| f_local := f_local f; f_seeds := f_seeds f; f_repl := f_repl f;
  f_ready := f_ready f; f_cands := f_cands f; f_results := rs |}.

Definition next_node (f : fetcher) : fetcher * option N :=
  let (cs, r) := pop_candidate (include_node f) (f_cands f) in (with_cands f cs, r).

(* pops ONE ready node; if it is excluded the answer is None even when more are queued *)
Definition next_fetch (f : fetcher) : fetcher * option N :=
  match f_ready f with
  | [] => (f, None)
  | n :: rd => (with_ready f rd, if include_node (with_ready f rd) n then Some n else None)
  end.

Definition ready_to_fetch (f : fetcher) (n : N) : fetcher := with_ready f (f_ready f ++ [n]).

(* success_counts: (preferred, succeeded) over ALL successful entries *)
Definition f_counts (f : fetcher) : N * N :=
  let succ := map fst (filter snd (f_results f)) in
  (count_in succ (f_seeds f), len succ).

Inductive foutcome :=
| PreferredNodes (preferred : N)
| MinReplicas (succeeded : N)
| MaxReplicas (succeeded min max : N).

Definition f_target_reached (f : fetcher) : option foutcome :=
  let (preferred, succeeded) := f_counts f in
  if negb (is_nil (f_seeds f)) && N.leb (len (f_seeds f)) preferred
  then Some (PreferredNodes (len (f_seeds f)))
  else
    let min := rf_lower (f_repl f) in
    match rf_upper (f_repl f) with
    | None => if N.leb min succeeded then Some (MinReplicas succeeded) else None
    | Some max => if N.leb max succeeded then Some (MaxReplicas succeeded min max) else None
    end.

Record fprogress := { fp_candidate : N; fp_succeeded : N; fp_failed : N; fp_preferred : N }.

Definition f_progress (f : fetcher) : fprogress :=
  let (preferred, succeeded) := f_counts f in
  {| fp_candidate := len (f_cands f); fp_succeeded := succeeded;
     fp_failed := N.of_nat (length (filter (fun r => negb (snd r)) (f_results f)));
     fp_preferred := preferred |}.

Inductive fflow :=
| FContinue (p : fprogress)
| FBreak (o : foutcome) (p : fprogress) (results : list (N * bool)).

Definition f_finished (f : fetcher) : fflow :=
  match f_target_reached f with
  | None => FContinue (f_progress f)
  | Some o => FBreak o (f_progress f) (f_results f)
  end.

(* before the fix: a result is recorded for any node id *)
Definition fetch_failed_unguarded (f : fetcher) (n : N) : fetcher :=
  with_results f (f_results f ++ [(n, false)]).
Definition fetch_complete_unguarded (f : fetcher) (n : N) (ok : bool) : fetcher * fflow :=
  let f' := with_results f (f_results f ++ [(n, ok)]) in (f', f_finished f').

(* as fixed: `if !self.include_node(&node) { return }` *)
Definition fetch_failed (f : fetcher) (n : N) : fetcher :=
  if include_node f n then fetch_failed_unguarded f n else f.
Definition fetch_complete (f : fetcher) (n : N) (ok : bool) : fetcher * fflow :=
  if include_node f n then fetch_complete_unguarded f n ok else (f, f_finished f).

(* missing_seeds: seeds whose (first) result is absent or a failure *)
Definition missing_seeds (f : fetcher) : list N :=
  filter (fun n => match results_get n (f_results f) with Some true => false | _ => true end) (f_seeds f).

Inductive fresult :=
| FTargetReached (o : foutcome) (p : fprogress) (results : list (N * bool))
| FTargetError (p : fprogress) (required : N) (missed : list N) (results : list (N * bool)).

Definition finish (f : fetcher) : fresult :=
  match f_target_reached f with
  | None => FTargetError (f_progress f) (rf_lower (f_repl f) - fp_succeeded (f_progress f))
                         (missing_seeds f) (f_results f)
  | Some o => FTargetReached o (f_progress f) (f_results f)
  end.

(* ---------- correspondence interface ---------- *)

Inductive aop := ASynced (n : N) | AToSync | AProgress | ACanContinue | ATimeOut.
Inductive fop := FNextNode | FReady (n : N) | FNextFetch | FFailed (n : N) | FComplete (n : N) (ok : bool)
               | FProgress | FFinish.

Inductive case :=
| CAnnounce (c : acfg) (ops : list aop)
| CFetch (c : fcfg) (ops : list fop).

(* one observation per executed operation; [can_continue] = Break and the
   consuming calls [timed_out] / [finish] end the run *)
Inductive aobs :=
| OAFlow (fl : aflow) | OASet (s : list N) | OAProgress (p : aprogress)
| OAContinue | OAResult (r : aresult).
Inductive fobs :=
| OFNode (n : option N) | OFUnit | OFFlow (fl : fflow) | OFProgress (p : fprogress) | OFResult (r : fresult).

Inductive obs :=
| OAnnounceErr (e : aerr)
| OAnnounce (target_pref : list N) (target_repl : rfactor) (steps : list aobs)
| OFetchErr (e : ferr)
| OFetch (target_seeds : list N) (target_repl : rfactor) (steps : list fobs).

Fixpoint arun (a : announcer) (ops : list aop) : list aobs :=
  match ops with
  | [] => []
  | ASynced n :: ops' => let (a', fl) := synced_with a n in OAFlow fl :: arun a' ops'
  | AToSync :: ops' => OASet (to_sync a) :: arun a ops'
  | AProgress :: ops' => OAProgress (a_progress a) :: arun a ops'
  | ACanContinue :: ops' =>
      match can_continue a with
      | Some r => [OAResult r]
      | None => OAContinue :: arun a ops'
      end
  | ATimeOut :: _ => [OAResult (timed_out a)]
  end.

Fixpoint frun (f : fetcher) (ops : list fop) : list fobs :=
  match ops with
  | [] => []
  | FNextNode :: ops' => let (f', r) := next_node f in OFNode r :: frun f' ops'
  | FReady n :: ops' => OFUnit :: frun (ready_to_fetch f n) ops'
  | FNextFetch :: ops' => let (f', r) := next_fetch f in OFNode r :: frun f' ops'
  | FFailed n :: ops' => OFUnit :: frun (fetch_failed f n) ops'
  | FComplete n ok :: ops' => let (f', fl) := fetch_complete f n ok in OFFlow fl :: frun f' ops'
  | FProgress :: ops' => OFProgress (f_progress f) :: frun f ops'
  | FFinish :: _ => [OFResult (finish f)]
  end.

Definition run (c : case) : obs :=
  match c with
  | CAnnounce cfg ops =>
      match announcer_new cfg with
      | inl e => OAnnounceErr e
      | inr a => OAnnounce (a_pref a) (a_repl a) (arun a ops)
      end
  | CFetch cfg ops =>
      match fetcher_new cfg with
      | inl e => OFetchErr e
      | inr f => OFetch (f_seeds f) (f_repl f) (frun f ops)
      end
  end.

(* ---- boolean equality of observations ---- *)
Definition ln_eqb := list_eqb N.eqb.
Definition rf_eqb (a b : rfactor) : bool :=
  match a, b with
  | MustReach x, MustReach y => N.eqb x y
  | Range a1 a2, Range b1 b2 => N.eqb a1 b1 && N.eqb a2 b2
  | _, _ => false
  end.
Definition aoutcome_eqb (a b : aoutcome) : bool :=
  Bool.eqb (ao_max a) (ao_max b) && N.eqb (ao_preferred a) (ao_preferred b) && N.eqb (ao_synced a) (ao_synced b).
Definition aprogress_eqb (a b : aprogress) : bool :=
  N.eqb (ap_preferred a) (ap_preferred b) && N.eqb (ap_synced a) (ap_synced b) && N.eqb (ap_unsynced a) (ap_unsynced b).
Definition aflow_eqb (a b : aflow) : bool :=
  match a, b with
  | AContinue p, AContinue q => aprogress_eqb p q
  | ABreak o s, ABreak o' s' => aoutcome_eqb o o' && ln_eqb s s'
  | _, _ => false
  end.
Definition aresult_eqb (a b : aresult) : bool :=
  match a, b with
  | ASuccess o s, ASuccess o' s' => aoutcome_eqb o o' && ln_eqb s s'
  | ATimedOut s t, ATimedOut s' t' => ln_eqb s s' && ln_eqb t t'
  | ANoNodes s, ANoNodes s' => ln_eqb s s'
  | _, _ => false
  end.
Definition aobs_eqb (a b : aobs) : bool :=
  match a, b with
  | OAFlow x, OAFlow y => aflow_eqb x y
  | OASet x, OASet y => ln_eqb x y
  | OAProgress x, OAProgress y => aprogress_eqb x y
  | OAContinue, OAContinue => true
  | OAResult x, OAResult y => aresult_eqb x y
  | _, _ => false
  end.
Definition aerr_eqb (a b : aerr) : bool :=
  match a, b with
  | ENoSeeds, ENoSeeds => true
  | EAlreadySynced p s, EAlreadySynced p' s' => N.eqb p p' && N.eqb s s'
  | ETarget, ETarget => true
  | _, _ => false
  end.
Definition foutcome_eqb (a b : foutcome) : bool :=
  match a, b with
  | PreferredNodes x, PreferredNodes y => N.eqb x y
  | MinReplicas x, MinReplicas y => N.eqb x y
  | MaxReplicas a1 a2 a3, MaxReplicas b1 b2 b3 => N.eqb a1 b1 && N.eqb a2 b2 && N.eqb a3 b3
  | _, _ => false
  end.
Definition fprogress_eqb (a b : fprogress) : bool :=
  N.eqb (fp_candidate a) (fp_candidate b) && N.eqb (fp_succeeded a) (fp_succeeded b)
  && N.eqb (fp_failed a) (fp_failed b) && N.eqb (fp_preferred a) (fp_preferred b).
Definition results_eqb := list_eqb (prod_eqb N.eqb Bool.eqb).
Definition fflow_eqb (a b : fflow) : bool :=
  match a, b with
  | FContinue p, FContinue q => fprogress_eqb p q
  | FBreak o p r, FBreak o' p' r' => foutcome_eqb o o' && fprogress_eqb p p' && results_eqb r r'
  | _, _ => false
  end.
Definition fresult_eqb (a b : fresult) : bool :=
  match a, b with
  | FTargetReached o p r, FTargetReached o' p' r' => foutcome_eqb o o' && fprogress_eqb p p' && results_eqb r r'
  | FTargetError p q m r, FTargetError p' q' m' r' =>
      fprogress_eqb p p' && N.eqb q q' && ln_eqb m m' && results_eqb r r'
  | _, _ => false
  end.
Definition fobs_eqb (a b : fobs) : bool :=
  match a, b with
  | OFNode x, OFNode y => option_eqb N.eqb x y
  | OFUnit, OFUnit => true
  | OFFlow x, OFFlow y => fflow_eqb x y
  | OFProgress x, OFProgress y => fprogress_eqb x y
  | OFResult x, OFResult y => fresult_eqb x y
  | _, _ => false
  end.
Definition ferr_eqb (a b : ferr) : bool :=
  match a, b with ENoCandidates, ENoCandidates => true | EFTarget, EFTarget => true | _, _ => false end.

Definition obs_eqb (a b : obs) : bool :=
  match a, b with
  | OAnnounceErr x, OAnnounceErr y => aerr_eqb x y
  | OAnnounce p r s, OAnnounce p' r' s' => ln_eqb p p' && rf_eqb r r' && list_eqb aobs_eqb s s'
  | OFetchErr x, OFetchErr y => ferr_eqb x y
  | OFetch p r s, OFetch p' r' s' => ln_eqb p p' && rf_eqb r r' && list_eqb fobs_eqb s s'
  | _, _ => false
  end.

Definition check_case (ce : case * obs) : bool := obs_eqb (run (fst ce)) (snd ce).
