(* CobPatch.v — executable model of patch evaluation, and the correspondence
   interface shared by the C07 and C08 checks.

   covers: crates/radicle/src/cob/patch.rs::Patch::authorization, ::op_action,
           ::action (every arm except RevisionReact), <Patch as Cob>::from_root,
           ::op, <Patch as Evaluate>::init, ::apply, Patch::root, Patch::new,
           lookup::{revision, revision_mut, review, review_mut}, Revision::new,
           Review::new, State, Lifecycle
   sites:  Patch::root `expect`; debug_assert!(!self.timeline.contains(&op.id)) in op;
           debug_assert!(!self.revisions.contains_key(&entry)) in the Revision arm;
           debug_assert_eq!(r.id, review) in lookup::review(_mut) and the ReviewRedact
           arm; thread debug assertions (CobThread.v)

   Abstractions: ids/actors/commits/labels/text are [N]; base/oid/resolves of a
   revision, embeds, code locations, timestamps and revision reactions are
   dropped (no authorization or merge decision reads them). MergeTarget has the
   single value Delegates. The identity document always carries a project
   payload (identity.project() succeeds). The git side of the Merge arm —
   reference_oid(author, default branch) and is_ancestor_of(commit, head) — is
   the oracle [orc actor commit]. *)
From HW Require Export lib.Base lib.SMap model.CobThread model.CobIssue.
Local Open Scope N_scope.

Inductive pstate :=
| PDraft
| POpen (conflicts : list (N * N))
| PArchived
| PMerged (revision commit : N).

Inductive lifecycle := LOpen | LDraft | LArchived.

(* what the repository answers in the Merge arm *)
Inductive bres :=
| BrNoHead     (* reference_oid fails: the merge is skipped *)
| BrOk         (* commit = head, or is_ancestor_of = Ok(true) *)
| BrNo         (* is_ancestor_of = Ok(false): skipped *)
| BrErr.       (* is_ancestor_of = Err: the op fails *)

Record review := mkReview {
  rv_id : N; rv_author : N;
  rv_summary : option N; rv_verdict : option N; rv_labels : list N;
  rv_comments : thread }.

Record revision := mkRevision {
  r_author : N;
  r_descr : list (N * N);          (* description edits (author, text) *)
  r_discussion : thread;
  r_reviews : smap review }.        (* keyed by reviewer *)

Record patch := mkPatch {
  p_title : N;
  p_author : N;
  p_state : pstate;
  p_labels : sset;
  p_merges : smap (N * N);                 (* actor -> (revision, commit) *)
  p_revisions : smap (option revision);    (* None = redacted *)
  p_assignees : sset;
  p_timeline : list N;
  p_reviews : smap (option (N * N)) }.     (* review id -> (revision, reviewer) *)

Inductive paction :=
| PEdit (title : N)
| PLabel (labels : list N)
| PLifecycle (st : lifecycle)
| PAssign (assignees : list N)
| PMerge (revision commit : N)
| PReview (revision : N) (summary verdict : option N) (labels : list N)
| PReviewEdit (review : N) (summary verdict : option N) (labels : list N)
| PReviewRedact (review : N)
| PReviewComment (review body : N) (reply : option N)
| PReviewCommentEdit (review comment body : N)
| PReviewCommentRedact (review comment : N)
| PReviewCommentReact (review comment reaction : N) (active : bool)
| PReviewCommentResolve (review comment : N)
| PReviewCommentUnresolve (review comment : N)
| PRevision (descr : N)
| PRevisionEdit (revision descr : N)
| PRevisionRedact (revision : N)
| PRevisionComment (revision body : N) (reply : option N)
| PRevisionCommentEdit (revision comment body : N)
| PRevisionCommentRedact (revision comment : N)
| PRevisionCommentReact (revision comment reaction : N) (active : bool).

Definition pop := op paction.

(* ---------- field updates ---------- *)

Definition p_set_title (p : patch) (t : N) : patch :=
  mkPatch t (p_author p) (p_state p) (p_labels p) (p_merges p) (p_revisions p)
          (p_assignees p) (p_timeline p) (p_reviews p).
Definition p_set_state (p : patch) (s : pstate) : patch :=
  mkPatch (p_title p) (p_author p) s (p_labels p) (p_merges p) (p_revisions p)
          (p_assignees p) (p_timeline p) (p_reviews p).
Definition p_set_labels (p : patch) (l : sset) : patch :=
  mkPatch (p_title p) (p_author p) (p_state p) l (p_merges p) (p_revisions p)
          (p_assignees p) (p_timeline p) (p_reviews p).
Definition p_set_assignees (p : patch) (l : sset) : patch :=
  mkPatch (p_title p) (p_author p) (p_state p) (p_labels p) (p_merges p) (p_revisions p)
          l (p_timeline p) (p_reviews p).
Definition p_set_merges (p : patch) (m : smap (N * N)) (s : pstate) : patch :=
  mkPatch (p_title p) (p_author p) s (p_labels p) m (p_revisions p)
          (p_assignees p) (p_timeline p) (p_reviews p).
Definition p_set_revisions (p : patch) (r : smap (option revision)) : patch :=
  mkPatch (p_title p) (p_author p) (p_state p) (p_labels p) (p_merges p) r
          (p_assignees p) (p_timeline p) (p_reviews p).
Definition p_set_rev (p : patch) (rid : N) (r : option revision) : patch :=
  p_set_revisions p (insert rid r (p_revisions p)).
Definition p_set_index (p : patch) (ix : smap (option (N * N))) : patch :=
  mkPatch (p_title p) (p_author p) (p_state p) (p_labels p) (p_merges p) (p_revisions p)
          (p_assignees p) (p_timeline p) ix.
Definition p_push_timeline (p : patch) (id : N) : patch :=
  mkPatch (p_title p) (p_author p) (p_state p) (p_labels p) (p_merges p) (p_revisions p)
          (p_assignees p) (p_timeline p ++ [id]) (p_reviews p).

Definition r_set_descr (r : revision) (d : list (N * N)) : revision :=
  mkRevision (r_author r) d (r_discussion r) (r_reviews r).
Definition r_set_discussion (r : revision) (t : thread) : revision :=
  mkRevision (r_author r) (r_descr r) t (r_reviews r).
Definition r_set_reviews (r : revision) (m : smap review) : revision :=
  mkRevision (r_author r) (r_descr r) (r_discussion r) m.
Definition rv_set_comments (v : review) (t : thread) : review :=
  mkReview (rv_id v) (rv_author v) (rv_summary v) (rv_verdict v) (rv_labels v) t.

Definition new_revision (author descr : N) : revision :=
  mkRevision author [(author, descr)] thread_empty [].

(* ---------- lookups ---------- *)

Inductive revlook := RFound (r : revision) | RRedacted | RMissing.
Definition lookup_revision (p : patch) (rid : N) : revlook :=
  match lookup rid (p_revisions p) with
  | Some (Some r) => RFound r
  | Some None => RRedacted
  | None => RMissing
  end.

Inductive rvlook :=
| RvFound (rid : N) (rev : revision) (reviewer : N) (rv : review)
| RvRedacted
| RvErr (e : err)
| RvPanic (site : N).

(* Patch::root(): first live revision by the patch author along the timeline *)
Fixpoint first_rev_by (revs : smap (option revision)) (author : N) (tl : list N) : option N :=
  match tl with
  | [] => None
  | id :: tl' =>
      match lookup id revs with
      | Some (Some r) => if r_author r =? author then Some id else first_rev_by revs author tl'
      | _ => first_rev_by revs author tl'
      end
  end.
Definition p_root (p : patch) : option N := first_rev_by (p_revisions p) (p_author p) (p_timeline p).

(* ---------- merge tally ---------- *)

Definition count_pair (x : N * N) (m : smap (N * N)) : N :=
  N.of_nat (length (filter (pair_eqb x) (map snd m))).

(* (revision, commit) pairs recorded by at least [thr] actors; sorted, distinct *)
Definition winners (thr : N) (m : smap (N * N)) : list (N * N) :=
  fold_right pset_add [] (filter (fun x => thr <=? count_pair x m) (map snd m)).

Definition merged_revision (rid : N) (m : smap (N * N)) : bool :=
  existsb (fun kv => fst (snd kv) =? rid) m.

Definition lifecycle_valid (s : pstate) : bool :=
  match s with PDraft | PArchived | POpen [] => true | _ => false end.

Section Patch.
Variable dbg : bool.
Variable atomic : bool.
Variable orc : N -> N -> bres.     (* actor -> commit -> answer of the repository *)

(* lookup::review / lookup::review_mut *)
Definition lookup_review (p : patch) (rvid : N) : rvlook :=
  match lookup rvid (p_reviews p) with
  | Some (Some (rid, reviewer)) =>
      match lookup rid (p_revisions p) with
      | Some (Some rev) =>
          match lookup reviewer (r_reviews rev) with
          | Some rv => if dbg && negb (rv_id rv =? rvid) then RvPanic 14
                       else RvFound rid rev reviewer rv
          | None => RvErr EMissing
          end
      | Some None => RvRedacted
      | None => RvErr EMissing
      end
  | Some None => RvRedacted
  | None => RvErr EMissing
  end.

(* Patch::authorization *)
Definition p_authz (p : patch) (a : paction) (actor : N) (d : doc) : ares :=
  if is_delegate d actor then AOk Allow else
  let author := p_author p in
  match a with
  | PEdit _ => AOk (authz_of_bool (actor =? author))
  | PLifecycle _ => AOk (authz_of_bool (actor =? author))
  | PLabel l => AOk (if sset_eqb (sset_of_list l) (p_labels p) then Allow else Deny)
  | PAssign _ => AOk Deny
  | PMerge _ _ => AOk Deny
  | PReview _ _ _ _ => AOk Allow
  | PReviewRedact rvid | PReviewEdit rvid _ _ _ =>
      match lookup_review p rvid with
      | RvFound _ _ _ rv => AOk (authz_of_bool (actor =? rv_author rv))
      | RvRedacted => AOk Unknown
      | RvErr e => AErr e
      | RvPanic k => APanic k
      end
  | PReviewComment _ _ _ => AOk Allow
  | PReviewCommentEdit rvid cid _ | PReviewCommentRedact rvid cid =>
      match lookup_review p rvid with
      | RvFound _ _ _ rv =>
          match t_get (rv_comments rv) cid with
          | Some c => AOk (authz_of_bool (actor =? c_author c))
          | None => AOk Unknown
          end
      | RvRedacted => AOk Unknown
      | RvErr e => AErr e
      | RvPanic k => APanic k
      end
  | PReviewCommentReact _ _ _ _ => AOk Allow
  | PReviewCommentResolve rvid cid | PReviewCommentUnresolve rvid cid =>
      match lookup_review p rvid with
      | RvFound _ rev _ rv =>
          match t_get (rv_comments rv) cid with
          | Some c => AOk (authz_of_bool ((actor =? c_author c) || (actor =? rv_author rv)
                                          || (actor =? r_author rev)))
          | None => AOk Unknown
          end
      | RvRedacted => AOk Unknown
      | RvErr e => AErr e
      | RvPanic k => APanic k
      end
  | PRevision _ => AOk Allow
  | PRevisionEdit rid _ | PRevisionRedact rid =>
      match lookup_revision p rid with
      | RFound r => AOk (authz_of_bool (actor =? r_author r))
      | RRedacted => AOk Unknown
      | RMissing => AErr EMissing
      end
  | PRevisionComment _ _ _ => AOk Allow
  | PRevisionCommentEdit rid cid _ | PRevisionCommentRedact rid cid =>
      match lookup_revision p rid with
      | RFound r =>
          match t_get (r_discussion r) cid with
          | Some c => AOk (authz_of_bool (actor =? c_author c))
          | None => AOk Unknown
          end
      | RRedacted => AOk Unknown
      | RMissing => AErr EMissing
      end
  | PRevisionCommentReact _ _ _ _ => AOk Allow
  end.

(* run a thread operation on the discussion of a revision *)
Definition on_discussion (p : patch) (rid : N) (f : thread -> outcome thread) : outcome patch :=
  match lookup_revision p rid with
  | RFound r => omap (fun t => p_set_rev p rid (Some (r_set_discussion r t))) (f (r_discussion r))
  | RRedacted => Ok p
  | RMissing => Err EMissing p
  end.

(* run a thread operation on the comments of a review *)
Definition on_review_comments (p : patch) (rvid : N) (f : thread -> outcome thread) : outcome patch :=
  match lookup_review p rvid with
  | RvFound rid rev reviewer rv =>
      omap (fun t => p_set_rev p rid
                       (Some (r_set_reviews rev (insert reviewer (rv_set_comments rv t) (r_reviews rev)))))
           (f (rv_comments rv))
  | RvRedacted => Ok p
  | RvErr e => Err e p
  | RvPanic k => Panic k
  end.

(* Patch::action *)
Definition p_action (p : patch) (a : paction) (entry actor : N) (d : doc) : outcome patch :=
  match a with
  | PEdit t => Ok (p_set_title p t)
  | PLifecycle st =>
      if lifecycle_valid (p_state p) then
        Ok (p_set_state p (match st with LOpen => POpen [] | LDraft => PDraft | LArchived => PArchived end))
      else Ok p
  | PLabel l => Ok (p_set_labels p (sset_of_list l))
  | PAssign l => Ok (p_set_assignees p (sset_of_list l))
  | PRevisionEdit rid descr =>
      match lookup rid (p_revisions p) with
      | Some (Some r) => Ok (p_set_rev p rid (Some (r_set_descr r (r_descr r ++ [(actor, descr)]))))
      | Some None => Ok p
      | None => Err EMissing p
      end
  | PRevision descr =>
      if dbg && mem entry (p_revisions p) then Panic 11
      else Ok (p_set_rev p entry (Some (new_revision actor descr)))
  | PRevisionRedact rid =>
      match p_root p with
      | None => Panic 12
      | Some root =>
          if rid =? root then Err ENotAllowed p else
          match lookup rid (p_revisions p) with
          | Some _ => if merged_revision rid (p_merges p) then Ok p else Ok (p_set_rev p rid None)
          | None => Err EMissing p
          end
      end
  | PReview rid summary verdict labels =>
      match lookup rid (p_revisions p) with
      | None => Ok p
      | Some None => Ok p
      | Some (Some r) =>
          match lookup actor (r_reviews r) with
          | Some _ => Ok p
          | None =>
              let rv := mkReview entry actor summary verdict labels thread_empty in
              Ok (p_set_index (p_set_rev p rid (Some (r_set_reviews r (insert actor rv (r_reviews r)))))
                              (insert entry (Some (rid, actor)) (p_reviews p)))
          end
      end
  | PReviewEdit rvid summary verdict labels =>
      match summary, verdict with
      | None, None => Err EEmptyReview p
      | _, _ =>
          match lookup_review p rvid with
          | RvFound rid rev reviewer rv =>
              let rv' := mkReview (rv_id rv) (rv_author rv) summary verdict labels (rv_comments rv) in
              Ok (p_set_rev p rid (Some (r_set_reviews rev (insert reviewer rv' (r_reviews rev)))))
          | RvRedacted => Ok p
          | RvErr e => Err e p
          | RvPanic k => Panic k
          end
      end
  | PReviewCommentReact rvid cid reaction active =>
      on_review_comments p rvid (fun t => t_react dbg t entry actor cid reaction active)
  | PReviewCommentRedact rvid cid =>
      on_review_comments p rvid (fun t => t_redact dbg t entry cid)
  | PReviewCommentEdit rvid cid body =>
      on_review_comments p rvid (fun t => t_edit dbg t entry actor cid body)
  | PReviewCommentResolve rvid cid =>
      on_review_comments p rvid (fun t => t_resolve dbg t entry cid true)
  | PReviewCommentUnresolve rvid cid =>
      on_review_comments p rvid (fun t => t_resolve dbg t entry cid false)
  | PReviewComment rvid body reply =>
      on_review_comments p rvid (fun t => t_comment dbg t entry actor body reply)
  | PReviewRedact rvid =>
      match lookup rvid (p_reviews p) with
      | None => Err EMissing p
      | Some None => Ok p
      | Some (Some (rid, reviewer)) =>
          match lookup rid (p_revisions p) with
          | None => Err EMissing p
          | Some None => Ok p
          | Some (Some rev) =>
              match lookup reviewer (r_reviews rev) with
              | Some rv =>
                  if dbg && negb (rv_id rv =? rvid) then Panic 13 else
                  Ok (p_set_index (p_set_rev p rid (Some (r_set_reviews rev (remove reviewer (r_reviews rev)))))
                                  (insert rvid None (p_reviews p)))
              | None => Ok (p_set_index p (insert rvid None (p_reviews p)))
              end
          end
      end
  | PMerge rid commit =>
      match lookup_revision p rid with
      | RMissing => Err EMissing p
      | RRedacted => Ok p
      | RFound _ =>
          match orc actor commit with
          | BrNoHead => Ok p
          | BrNo => Ok p
          | BrErr => Err EGit p
          | BrOk =>
              let m := insert actor (rid, commit) (p_merges p) in
              match winners (d_threshold d) m with
              | [] => Ok (p_set_merges p m (p_state p))
              | [(r, c)] => Ok (p_set_merges p m (PMerged r c))
              | w => Ok (p_set_merges p m (POpen w))
              end
          end
      end
  | PRevisionComment rid body reply =>
      on_discussion p rid (fun t => t_comment dbg t entry actor body reply)
  | PRevisionCommentEdit rid cid body =>
      on_discussion p rid (fun t => t_edit dbg t entry actor cid body)
  | PRevisionCommentRedact rid cid =>
      on_discussion p rid (fun t => t_redact dbg t entry cid)
  | PRevisionCommentReact rid cid reaction active =>
      on_discussion p rid (fun t => t_react dbg t entry actor cid reaction active)
  end.

(* Patch::op_action *)
Definition p_op_action (p : patch) (a : paction) (entry actor : N) (d : doc) : outcome patch :=
  match p_authz p a actor d with
  | AOk Allow => p_action p a entry actor d
  | AOk Deny => Err ENotAuthorized p
  | AOk Unknown => Ok p
  | AErr e => Err e p
  | APanic k => Panic k
  end.

Fixpoint p_actions (p : patch) (acts : list paction) (entry actor : N) (d : doc) : outcome patch :=
  match acts with
  | [] => Ok p
  | a :: rest =>
      match p_op_action p a entry actor d with
      | Ok p' => p_actions p' rest entry actor d
      | r => r
      end
  end.

(* <Patch as Cob>::op: the op id goes on the timeline before the identity
   document is loaded *)
Definition p_apply_raw (p : patch) (o : pop) : outcome patch :=
  if dbg && memN (op_id o) (p_timeline p) then Panic 10 else
  let p1 := p_push_timeline p (op_id o) in
  match op_doc o with
  | None => Err EDoc p1
  | Some d => p_actions p1 (op_actions o) (op_id o) (op_actor o) d
  end.

Definition p_apply (p : patch) (o : pop) : outcome patch :=
  match p_apply_raw p o with
  | Err e p' => Err e (if atomic then p else p')
  | r => r
  end.

Definition patch_blank : patch := mkPatch 0 0 (POpen []) [] [] [] [] [] [].

(* <Patch as Cob>::from_root *)
Definition p_init (o : pop) : outcome patch :=
  match op_doc o with
  | None => Err EDoc patch_blank
  | Some d =>
      match op_actions o with
      | PRevision descr :: PEdit title :: rest =>
          let id := op_id o in
          let p0 := mkPatch title (op_actor o) (POpen []) [] []
                            [(id, Some (new_revision (op_actor o) descr))] [] [id] [] in
          p_actions p0 rest id (op_actor o) d
      | _ => Err EInit patch_blank
      end
  end.

Definition p_step (p : patch) (o : pop) : option patch :=
  match p_apply p o with Ok p' => Some p' | Err _ p' => Some p' | Panic _ => None end.

Fixpoint p_run (p : patch) (ops : list pop) : option patch :=
  match ops with
  | [] => Some p
  | o :: rest => match p_step p o with Some p' => p_run p' rest | None => None end
  end.

End Patch.

(* ---------- correspondence interface (C07 and C08) ---------- *)

Definition pstate_eqb (a b : pstate) : bool :=
  match a, b with
  | PDraft, PDraft | PArchived, PArchived => true
  | POpen x, POpen y => list_eqb pair_eqb x y
  | PMerged r c, PMerged r' c' => (r =? r') && (c =? c')
  | _, _ => false
  end.

Definition review_eqb (a b : review) : bool :=
  (rv_id a =? rv_id b) && (rv_author a =? rv_author b) &&
  option_eqb N.eqb (rv_summary a) (rv_summary b) && option_eqb N.eqb (rv_verdict a) (rv_verdict b) &&
  list_eqb N.eqb (rv_labels a) (rv_labels b) && thread_eqb (rv_comments a) (rv_comments b).

Definition revision_eqb (a b : revision) : bool :=
  (r_author a =? r_author b) && list_eqb pair_eqb (r_descr a) (r_descr b) &&
  thread_eqb (r_discussion a) (r_discussion b) &&
  list_eqb (prod_eqb N.eqb review_eqb) (r_reviews a) (r_reviews b).

Definition patch_eqb (a b : patch) : bool :=
  (p_title a =? p_title b) && (p_author a =? p_author b) && pstate_eqb (p_state a) (p_state b) &&
  sset_eqb (p_labels a) (p_labels b) &&
  list_eqb (prod_eqb N.eqb pair_eqb) (p_merges a) (p_merges b) &&
  list_eqb (prod_eqb N.eqb (option_eqb revision_eqb)) (p_revisions a) (p_revisions b) &&
  sset_eqb (p_assignees a) (p_assignees b) && list_eqb N.eqb (p_timeline a) (p_timeline b) &&
  list_eqb (prod_eqb N.eqb (option_eqb pair_eqb)) (p_reviews a) (p_reviews b).

Record pguard := mkPGuard {
  pg_title : N; pg_state : pstate; pg_labels : list N; pg_assignees : list N;
  pg_merges : list (N * (N * N)) }.
Definition pguard_of (p : patch) : pguard :=
  mkPGuard (p_title p) (p_state p) (keys (p_labels p)) (keys (p_assignees p)) (p_merges p).
Definition pguard_eqb (a b : pguard) : bool :=
  (pg_title a =? pg_title b) && pstate_eqb (pg_state a) (pg_state b) &&
  list_eqb N.eqb (pg_labels a) (pg_labels b) && list_eqb N.eqb (pg_assignees a) (pg_assignees b) &&
  list_eqb (prod_eqb N.eqb pair_eqb) (pg_merges a) (pg_merges b).

Inductive pstep_obs := PSOk (g : pguard) | PSErr (e : err) (g : pguard) | PSPanic.
Definition pstep_obs_eqb (a b : pstep_obs) : bool :=
  match a, b with
  | PSOk g, PSOk h => pguard_eqb g h
  | PSErr e g, PSErr f h => err_eqb e f && pguard_eqb g h
  | PSPanic, PSPanic => true
  | _, _ => false
  end.

(* the repository's answers, as a table measured by the harness on the real
   git repository of the case: ((actor, commit), answer); default BrNoHead *)
Definition orc_of_table (tbl : list ((N * N) * bres)) (actor commit : N) : bres :=
  match find (fun e => pair_eqb (fst e) (actor, commit)) tbl with
  | Some e => snd e
  | None => BrNoHead
  end.

Record pcase := mkPCase {
  pc_dbg : bool; pc_atomic : bool; pc_orc : list ((N * N) * bres);
  pc_root : pop; pc_ops : list pop }.

Inductive pobs :=
| PObsInitErr (e : err)
| PObsInitPanic
| PObsRun (g0 : pguard) (steps : list pstep_obs) (final : option patch).

Fixpoint p_trace (dbg atomic : bool) (orc : N -> N -> bres) (p : patch) (ops : list pop)
  : list pstep_obs * option patch :=
  match ops with
  | [] => ([], Some p)
  | o :: rest =>
      match p_apply dbg atomic orc p o with
      | Ok p' => let r := p_trace dbg atomic orc p' rest in (PSOk (pguard_of p') :: fst r, snd r)
      | Err e p' => let r := p_trace dbg atomic orc p' rest in (PSErr e (pguard_of p') :: fst r, snd r)
      | Panic _ => ([PSPanic], None)
      end
  end.

Definition prun (c : pcase) : pobs :=
  let orc := orc_of_table (pc_orc c) in
  match p_init (pc_dbg c) orc (pc_root c) with
  | Err e _ => PObsInitErr e
  | Panic _ => PObsInitPanic
  | Ok p => let r := p_trace (pc_dbg c) (pc_atomic c) orc p (pc_ops c) in
            PObsRun (pguard_of p) (fst r) (snd r)
  end.

Definition pobs_eqb (a b : pobs) : bool :=
  match a, b with
  | PObsInitErr e, PObsInitErr f => err_eqb e f
  | PObsInitPanic, PObsInitPanic => true
  | PObsRun g s f, PObsRun g' s' f' =>
      pguard_eqb g g' && list_eqb pstep_obs_eqb s s' && option_eqb patch_eqb f f'
  | _, _ => false
  end.

Inductive case := CIssue (c : icase) | CPatch (c : pcase).
Inductive obs := OIssue (o : iobs) | OPatch (o : pobs).
Definition run (c : case) : obs :=
  match c with CIssue c => OIssue (irun c) | CPatch c => OPatch (prun c) end.
Definition obs_eqb (a b : obs) : bool :=
  match a, b with
  | OIssue x, OIssue y => iobs_eqb x y
  | OPatch x, OPatch y => pobs_eqb x y
  | _, _ => false
  end.
Definition check_case (ce : case * obs) : bool := obs_eqb (run (fst ce)) (snd ce).
