(* Pktline.v — executable model of the git request header parser of the fetch
   responder (C12; git-header part of C13).
   covers: crates/radicle-node/src/worker/upload_pack.rs::pktline::git_request,
           crates/radicle-node/src/worker/upload_pack.rs::pktline::Reader::read_request_pktline,
           crates/radicle-node/src/worker/upload_pack.rs::pktline::Reader::read_pktline,
           crates/radicle-node/src/worker/upload_pack.rs::pktline::GitRequest::parse,
           (std, re-implemented) str::from_utf8, usize::from_str_radix(_, 16), u16::from_str,
           str::{strip_prefix, split_terminator, split_once}
           (shared model) RepoId::from_str = TextIds.rid_from_urn (C21)
   sites: read_pktline   buf[..HEADER_LEN]            (SITE_HDR_ORDER / SITE_HDR_RANGE)
          read_pktline   buf[HEADER_LEN..length]      (SITE_BODY_ORDER / SITE_BODY_RANGE)
          read_request_pktline pktline[4..length]     (SITE_REQ_ORDER / SITE_REQ_RANGE)
          read_request_pktline pktline[..length]      (SITE_COPY_ORDER / SITE_COPY_RANGE)
          RepoId::from_str (propagated from the TextIds model: SITE_RID)

   The code modelled is the code AFTER the fix "git request pkt-line with a
   declared length below 4 or above the buffer size is invalid input": the
   guard [HEADER_LEN <= length <= buf.len()] in read_pktline.  [guard = false]
   gives the code as it was before (kept to state the refutation witness).

   A stream is the list of bytes the remote peer sends (bytes are N < 256);
   read_exact on a stream that ends early is io::ErrorKind::UnexpectedEof.
   Text (str) is a list of Unicode scalar values, as in TextIds.v.
   No proofs here. *)
From HW Require Import lib.Base.
From HW Require model.TextIds.
Local Open Scope N_scope.

(* ---------------------------------------------------------------- results *)

Inductive ioerr :=
| EInvalidInput     (* io::ErrorKind::InvalidInput *)
| EUnexpectedEof    (* io::ErrorKind::UnexpectedEof (read_exact on a short stream) *)
| EInvalidData.     (* io::ErrorKind::InvalidData (upload_pack: protocol version <> 2; Worker.v) *)

Inductive res (A : Type) :=
| Ok (a : A)
| Err (e : ioerr)
| Panic (site : N).
Arguments Ok {A} a.
Arguments Err {A} e.
Arguments Panic {A} site.

Definition bind {A B} (r : res A) (f : A -> res B) : res B :=
  match r with Ok a => f a | Err e => Err e | Panic s => Panic s end.

Definition SITE_HDR_ORDER := 1.
Definition SITE_HDR_RANGE := 2.
Definition SITE_BODY_ORDER := 3.
Definition SITE_BODY_RANGE := 4.
Definition SITE_REQ_ORDER := 5.
Definition SITE_REQ_RANGE := 6.
Definition SITE_COPY_ORDER := 7.
Definition SITE_COPY_RANGE := 8.
Definition SITE_RID := 9.

(* &buf[a..b] on a slice of length len: "slice index starts at a but ends at b"
   is checked first, then "range end index b out of range" *)
Definition check_slice (a b len site_order site_range : N) : res unit :=
  if b <? a then Panic site_order
  else if len <? b then Panic site_range
  else Ok tt.

Definition lenN {A} (l : list A) : N := N.of_nat (length l).

(* Read::read_exact(n bytes) on the remaining stream *)
Definition read_exact (n : N) (s : list N) : res (list N * list N) :=
  if n <=? lenN s then Ok (firstn (N.to_nat n) s, skipn (N.to_nat n) s)
  else Err EUnexpectedEof.

(* ---------------------------------------------------------------- str::from_utf8 *)

Definition is_cont (b : N) : bool := (128 <=? b) && (b <=? 191).
Definition in_range (lo hi b : N) : bool := (lo <=? b) && (b <=? hi).

Definition cons_opt (c : N) (r : option (list N)) : option (list N) :=
  match r with Some l => Some (c :: l) | None => None end.

(* Well-formed UTF-8 exactly as core::str::validations::run_utf8_validation
   (Unicode Table 3-7): no overlong forms, no surrogates, nothing above U+10FFFF. *)
Fixpoint utf8_decode (bs : list N) : option (list N) :=
  match bs with
  | [] => Some []
  | b0 :: t0 =>
    if b0 <? 128 then cons_opt b0 (utf8_decode t0)
    else if in_range 194 223 b0 then
      match t0 with
      | b1 :: t1 =>
        if is_cont b1 then cons_opt ((b0 - 192) * 64 + (b1 - 128)) (utf8_decode t1) else None
      | _ => None
      end
    else if in_range 224 239 b0 then
      match t0 with
      | b1 :: b2 :: t2 =>
        let ok1 := if b0 =? 224 then in_range 160 191 b1
                   else if b0 =? 237 then in_range 128 159 b1
                   else is_cont b1 in
        if ok1 && is_cont b2
        then cons_opt ((b0 - 224) * 4096 + (b1 - 128) * 64 + (b2 - 128)) (utf8_decode t2)
        else None
      | _ => None
      end
    else if in_range 240 244 b0 then
      match t0 with
      | b1 :: b2 :: b3 :: t3 =>
        let ok1 := if b0 =? 240 then in_range 144 191 b1
                   else if b0 =? 244 then in_range 128 143 b1
                   else is_cont b1 in
        if ok1 && is_cont b2 && is_cont b3
        then cons_opt ((b0 - 240) * 262144 + (b1 - 128) * 4096 + (b2 - 128) * 64 + (b3 - 128))
                      (utf8_decode t3)
        else None
      | _ => None
      end
    else None
  end.

(* ---------------------------------------------------------------- integer parsing *)

Definition hex_digit (c : N) : option N :=
  if in_range 48 57 c then Some (c - 48)
  else if in_range 97 102 c then Some (c - 87)
  else if in_range 65 70 c then Some (c - 55)
  else None.

Definition dec_digit (c : N) : option N :=
  if in_range 48 57 c then Some (c - 48) else None.

Fixpoint digits_val (dig : N -> option N) (radix acc : N) (s : list N) : option N :=
  match s with
  | [] => Some acc
  | c :: s' => match dig c with
               | Some d => digits_val dig radix (acc * radix + d) s'
               | None => None
               end
  end.

(* <unsigned>::from_str_radix without the overflow check: empty text, a lone
   sign, or any non-digit is an error; one leading '+' is accepted, '-' is not *)
Definition from_str_radix (dig : N -> option N) (radix : N) (s : list N) : option N :=
  match s with
  | [] => None
  | [c] => if (c =? 43) || (c =? 45) then None else digits_val dig radix 0 s
  | c :: t => if c =? 43 then digits_val dig radix 0 t else digits_val dig radix 0 s
  end.

(* u16::from_str: the accumulated value only grows, so "overflows at some step"
   is "final value > u16::MAX" *)
Definition parse_u16 (s : list N) : option N :=
  match from_str_radix dec_digit 10 s with
  | Some v => if v <=? 65535 then Some v else None
  | None => None
  end.

(* ---------------------------------------------------------------- str helpers *)

Fixpoint strip_prefix (p s : list N) : option (list N) :=
  match p, s with
  | [], _ => Some s
  | a :: p', b :: s' => if a =? b then strip_prefix p' s' else None
  | _ :: _, [] => None
  end.

(* str::split(sep): always at least one piece *)
Fixpoint split_on (sep : N) (s : list N) : list (list N) :=
  match s with
  | [] => [[]]
  | c :: s' =>
      if c =? sep then [] :: split_on sep s'
      else match split_on sep s' with
           | seg :: segs => (c :: seg) :: segs
           | [] => [[c]]
           end
  end.

(* str::split_terminator(sep): split, minus the last piece when it is empty *)
Definition split_terminator (sep : N) (s : list N) : list (list N) :=
  let parts := split_on sep s in
  match rev parts with
  | [] :: r => rev r
  | _ => parts
  end.

Fixpoint split_once (sep : N) (s : list N) : option (list N * list N) :=
  match s with
  | [] => None
  | c :: s' =>
      if c =? sep then Some ([], s')
      else match split_once sep s' with
           | Some (a, b) => Some (c :: a, b)
           | None => None
           end
  end.

(* ---------------------------------------------------------------- GitRequest::parse *)

Definition HEADER_LEN := 4.
Definition BUF_LEN := 1024.          (* let mut pktline = [0u8; 1024] *)

(* "git-upload-pack " *)
Definition GIT_UPLOAD_PACK : list N :=
  [103; 105; 116; 45; 117; 112; 108; 111; 97; 100; 45; 112; 97; 99; 107; 32].
(* "host=" *)
Definition HOST_EQ : list N := [104; 111; 115; 116; 61].
Definition SLASH := 47.
Definition COLON := 58.
Definition EQUALS := 61.

Record request := {   (* GitRequest *)
  g_repo : list N;                          (* RepoId: the 20 bytes of the oid *)
  g_path : list N;                          (* text, with the leading '/' *)
  g_host : option (list N * option N);
  g_extra : list (list N * option (list N))
}.

(* outer None: the header is rejected *)
Definition parse_host (part : option (list N)) : option (option (list N * option N)) :=
  match part with
  | None => Some None
  | Some [] => Some None
  | Some h =>
      match strip_prefix HOST_EQ h with
      | None => None
      | Some h' =>
          match split_once COLON h' with
          | None => Some (Some (h', None))
          | Some (name, port) =>
              match parse_u16 port with
              | Some p => Some (Some (name, Some p))
              | None => None
              end
          end
      end
  end.

Fixpoint skip_empty (l : list (list N)) : list (list N) :=
  match l with
  | [] :: t => skip_empty t
  | _ => l
  end.

Definition key_value (part : list N) : list N * option (list N) :=
  match split_once EQUALS part with
  | None => (part, None)
  | Some (k, v) => (k, Some v)
  end.

(* [ext]: for a repository id written in one of multibase's data-encoding
   bases, what that decoder returned (observed, passed as data; see TextIds.v).
   Ok None is Rust's None ("not a valid request"). *)
Definition parse (ext : option (list N)) (input : list N) : res (option request) :=
  match utf8_decode input with
  | None => Ok None
  | Some s =>
    match strip_prefix GIT_UPLOAD_PACK s with
    | None => Ok None
    | Some rest =>
      match split_terminator 0 rest with
      | [] => Ok None
      | path :: parts =>
        match path with
        | c :: ridtxt =>
          if c =? SLASH then
            match TextIds.rid_from_urn ext ridtxt with
            | TextIds.Panic _ => Panic SITE_RID
            | TextIds.Err _ => Ok None
            | TextIds.Ok oid =>
              let hostpart := match parts with [] => None | h :: _ => Some h end in
              match parse_host hostpart with
              | None => Ok None
              | Some host =>
                  Ok (Some {| g_repo := oid; g_path := path; g_host := host;
                              g_extra := map key_value (skip_empty (tl parts)) |})
              end
            end
          else Ok None
        | [] => Ok None
        end
      end
    end
  end.

(* ---------------------------------------------------------------- the reader *)

(* the 4 length bytes: str::from_utf8 then usize::from_str_radix(_, 16) *)
Definition parse_length (hdr : list N) : option N :=
  match utf8_decode hdr with
  | None => None
  | Some s => from_str_radix hex_digit 16 s
  end.

(* Reader::read_pktline(buf) with buf.len() = buf_len.
   Result: (length, buf[HEADER_LEN..length] as filled by read_exact, rest of the stream). *)
Definition read_pktline (guard : bool) (buf_len : N) (stream : list N)
  : res (N * list N * list N) :=
  bind (check_slice 0 HEADER_LEN buf_len SITE_HDR_ORDER SITE_HDR_RANGE) (fun _ =>
  bind (read_exact HEADER_LEN stream) (fun '(hdr, s1) =>
  match parse_length hdr with
  | None => Err EInvalidInput
  | Some length =>
      if guard && ((length <? HEADER_LEN) || (buf_len <? length)) then Err EInvalidInput
      else
        bind (check_slice HEADER_LEN length buf_len SITE_BODY_ORDER SITE_BODY_RANGE) (fun _ =>
        bind (read_exact (length - HEADER_LEN) s1) (fun '(body, s2) =>
        Ok (length, body, s2)))
  end)).

(* Reader::read_request_pktline *)
Definition read_request_pktline (guard : bool) (buf_len : N) (ext : option (list N))
  (stream : list N) : res (request * list N) :=
  bind (read_pktline guard buf_len stream) (fun '(length, body, rest) =>
  bind (check_slice 4 length buf_len SITE_REQ_ORDER SITE_REQ_RANGE) (fun _ =>
  bind (parse ext body) (fun cmd =>
  match cmd with
  | None => Err EInvalidInput
  | Some cmd =>
      bind (check_slice 0 length buf_len SITE_COPY_ORDER SITE_COPY_RANGE) (fun _ =>
      Ok (cmd, rest))
  end))).

Definition git_request_gen := read_request_pktline.

(* pktline::git_request(reader): the parsed header and what is left in the reader *)
Definition git_request (ext : option (list N)) (stream : list N) : res (request * list N) :=
  git_request_gen true BUF_LEN ext stream.

(* the code before the fix *)
Definition git_request_unfixed (ext : option (list N)) (stream : list N) :=
  git_request_gen false BUF_LEN ext stream.
