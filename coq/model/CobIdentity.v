(* CobIdentity.v — executable model of the identity COB (xyz.radicle.id).
   covers: crates/radicle/src/cob/identity.rs::Identity::{new, from_root, op, action, adopt,
             current, current_mut, revision}, Revision::{new, accept, reject, is_active, is_accepted,
             rejected}, lookup::{revision, revision_mut}, Evaluate::{init, apply};
           crates/radicle/src/identity/doc.rs::Doc::{is_delegate, verify_signature, is_majority, majority}
   sites: Identity::current expect (PCurrent), Identity::current_mut expect (PCurrentMut),
          assert_eq!(revision.parent, Some(current.id)) x3 (PAssertParent),
          debug_assert!(!timeline.contains(&id)) (PDebugTimeline, debug builds only),
          usize subtraction delegates.len() - majority() in Revision::reject (PSubOverflow;
          unreachable for real documents, whose delegate list is NonEmpty),
          NonEmpty::first on the root delegates (PNoFounder; same remark).
   The model follows the code arm by arm and in the code's order: [action] mutates the
   state in place and may fail AFTER having written (heads before the signature check,
   verdicts before the duplicate check); [apply_op] runs the actions on a copy and commits
   the copy only when the operation succeeds (Identity::op).
   Actors (public keys), entry/revision ids, blob ids, signatures and texts are numbers.
   External behaviour is a Section variable: [sig_ok key blob sig] (Ed25519 verification of
   [sig] by [key] over the blob's object id) and [blob_store] (what `repo.blob` +
   `Doc::from_blob` return for a blob id).  No proofs in this file. *)
From HW Require Import lib.Base lib.SMap.
Local Open Scope N_scope.

(* ------------------------------------------------------------------ documents *)

Record doc := mkDoc { d_delegates : list N; d_threshold : N; d_body : N }.

Definition doc_eqb (a b : doc) : bool :=
  list_eqb N.eqb (d_delegates a) (d_delegates b) && N.eqb (d_threshold a) (d_threshold b)
  && N.eqb (d_body a) (d_body b).

Definition is_delegate (d : doc) (k : N) : bool := memN k (d_delegates d).
Definition ndelegates (d : doc) : N := N.of_nat (length (d_delegates d)).
(* Doc::majority: delegates.len() / 2 + 1 *)
Definition majority (d : doc) : N := ndelegates d / 2 + 1.
Definition is_majority (d : doc) (votes : N) : bool := majority d <=? votes.

(* ------------------------------------------------------------------ state *)

Inductive verdict := VAccept (sig : N) | VReject.
Inductive rstate := Active | Accepted | Rejected | Stale.

Record revision := mkRev {
  r_id : N; r_blob : N; r_text : N; r_state : rstate; r_author : N; r_doc : doc;
  r_parent : option N; r_verdicts : smap verdict }.

Record identity := mkId {
  i_current : N; i_root : N; i_heads : smap N;
  i_revisions : smap (option revision); i_timeline : list N }.

Definition rstate_eqb (a b : rstate) : bool :=
  match a, b with
  | Active, Active | Accepted, Accepted | Rejected, Rejected | Stale, Stale => true
  | _, _ => false
  end.
Definition is_active (r : revision) : bool := rstate_eqb (r_state r) Active.
Definition is_accepted (r : revision) : bool := rstate_eqb (r_state r) Accepted.

Definition set_state (s : rstate) (r : revision) : revision :=
  mkRev (r_id r) (r_blob r) (r_text r) s (r_author r) (r_doc r) (r_parent r) (r_verdicts r).
Definition set_text (t : N) (r : revision) : revision :=
  mkRev (r_id r) (r_blob r) t (r_state r) (r_author r) (r_doc r) (r_parent r) (r_verdicts r).
Definition set_verdicts (v : smap verdict) (r : revision) : revision :=
  mkRev (r_id r) (r_blob r) (r_text r) (r_state r) (r_author r) (r_doc r) (r_parent r) v.

Definition set_current (c : N) (s : identity) : identity :=
  mkId c (i_root s) (i_heads s) (i_revisions s) (i_timeline s).
Definition set_heads (h : smap N) (s : identity) : identity :=
  mkId (i_current s) (i_root s) h (i_revisions s) (i_timeline s).
Definition set_revisions (r : smap (option revision)) (s : identity) : identity :=
  mkId (i_current s) (i_root s) (i_heads s) r (i_timeline s).
Definition push_timeline (e : N) (s : identity) : identity :=
  mkId (i_current s) (i_root s) (i_heads s) (i_revisions s) (i_timeline s ++ [e]).

(* Identity::revision: redacted and missing both give None *)
Definition get_rev (s : identity) (id : N) : option revision :=
  match lookup id (i_revisions s) with Some (Some r) => Some r | _ => None end.

(* ------------------------------------------------------------------ results *)

Inductive error :=
| EMissing | EInit | EInvalidSignature | ENotAuthorized | EMissingParent | EDuplicateVerdict
| EUnexpectedState | ERedacted | EDocUnchanged | EGit | EDoc | EOp.

Inductive panic_site :=
| PCurrent | PCurrentMut | PAssertParent | PDebugTimeline | PSubOverflow | PNoFounder.

Inductive outcome := OOk | OErr (e : error) | OPanic (p : panic_site).

Inductive action :=
| ARevision (text blob : N) (parent : option N) (sig : N)
| AEdit (rev text : N)
| AAccept (rev sig : N)
| AReject (rev : N)
| ARedact (rev : N).

Inductive blob_res := BDoc (d : doc) | BInvalid | BMissing.

Definition optN_eqb := option_eqb N.eqb.

Section WithOracles.
Variable sig_ok : N -> N -> N -> bool.        (* key, blob, signature *)
Variable blob_store : N -> blob_res.

(* Doc::verify_signature *)
Definition verify_signature (d : doc) (key sig blob : N) : bool :=
  is_delegate d key && sig_ok key blob sig.

(* Identity::adopt.  `self.is_majority` goes through Deref to the CURRENT revision's
   document (the one being replaced). *)
Definition stale_active (r : option revision) : option revision :=
  match r with
  | Some r => if is_active r then Some (set_state Stale r) else Some r
  | None => None
  end.

Definition adopt (s : identity) (id : N) : identity + panic_site :=
  if N.eqb (i_current s) id then inl s else
  let votes := N.of_nat (length (filter (fun kv => N.eqb (snd kv) id) (i_heads s))) in
  match get_rev s (i_current s) with
  | None => inr PCurrent
  | Some cur =>
      if is_majority (r_doc cur) votes then
        match get_rev s id with
        | None => inr PCurrentMut
        | Some r =>
            let revs := insert id (Some (set_state Accepted r)) (i_revisions s) in
            inl (set_revisions (map (fun kv => (fst kv, stale_active (snd kv))) revs) (set_current id s))
        end
      else inl s
  end.

Definition count_rejected (r : revision) : N :=
  N.of_nat (length (filter (fun kv => match snd kv with VReject => true | _ => false end) (r_verdicts r))).

(* Identity::action.  Returns the (possibly partially updated) state and the outcome. *)
Definition action_step (s : identity) (a : action) (entry author : N) : identity * outcome :=
  match get_rev s (i_current s) with
  | None => (s, OPanic PCurrent)
  | Some cur =>
    if negb (is_delegate (r_doc cur) author) then (s, OErr EUnexpectedState) else
    match a with
    | AAccept id sig =>
        match lookup id (i_revisions s) with
        | None => (s, OErr EMissing)
        | Some None => (s, OErr ERedacted)
        | Some (Some r) =>
          if negb (is_active r) then (s, OErr EUnexpectedState) else
          if negb (optN_eqb (r_parent r) (Some (r_id cur))) then (s, OPanic PAssertParent) else
          let s1 := set_heads (insert author id (i_heads s)) s in
          (* Revision::accept *)
          if negb (verify_signature (r_doc cur) author sig (r_blob r)) then (s1, OErr EInvalidSignature) else
          let r' := set_verdicts (insert author (VAccept sig) (r_verdicts r)) r in
          let s2 := set_revisions (insert id (Some r') (i_revisions s1)) s1 in
          if mem author (r_verdicts r) then (s2, OErr EDuplicateVerdict) else
          match adopt s2 id with
          | inl s3 => (s3, OOk)
          | inr p => (s2, OPanic p)
          end
        end
    | AReject id =>
        match lookup id (i_revisions s) with
        | None => (s, OErr EMissing)
        | Some None => (s, OErr ERedacted)
        | Some (Some r) =>
          if negb (is_active r) then (s, OErr EUnexpectedState) else
          if negb (optN_eqb (r_parent r) (Some (r_id cur))) then (s, OPanic PAssertParent) else
          (* Revision::reject *)
          let r1 := set_verdicts (insert author VReject (r_verdicts r)) r in
          let s1 := set_revisions (insert id (Some r1) (i_revisions s)) s in
          if mem author (r_verdicts r) then (s1, OErr EDuplicateVerdict) else
          if is_active r1 then
            if ndelegates (r_doc r1) <? majority (r_doc r1) then (s1, OPanic PSubOverflow) else
            if ndelegates (r_doc r1) - majority (r_doc r1) <? count_rejected r1
            then (set_revisions (insert id (Some (set_state Rejected r1)) (i_revisions s)) s, OOk)
            else (s1, OOk)
          else (s1, OOk)
        end
    | AEdit id text =>
        if N.eqb id (i_current s) then (s, OErr ENotAuthorized) else
        match lookup id (i_revisions s) with
        | None => (s, OErr EMissing)
        | Some None => (s, OErr ERedacted)
        | Some (Some r) =>
          if negb (is_active r) then (s, OErr EUnexpectedState) else
          if negb (N.eqb (r_author r) author) then (s, OErr ENotAuthorized) else
          if negb (optN_eqb (r_parent r) (Some (r_id cur))) then (s, OPanic PAssertParent) else
          (set_revisions (insert id (Some (set_text text r)) (i_revisions s)) s, OOk)
        end
    | ARedact id =>
        if N.eqb id (i_current s) then (s, OErr EUnexpectedState) else
        match lookup id (i_revisions s) with
        | None => (s, OErr EMissing)
        | Some None => (s, OOk)
        | Some (Some r) =>
          if is_accepted r then (s, OErr EUnexpectedState) else
          if negb (N.eqb (r_author r) author) then (s, OErr ENotAuthorized) else
          (set_revisions (insert id None (i_revisions s)) s, OOk)
        end
    | ARevision text blob parent sig =>
        (* an operation creates at most one revision (its id is the entry id) *)
        if mem entry (i_revisions s) then (s, OErr ENotAuthorized) else
        match blob_store blob with
        | BMissing => (s, OErr EGit)
        | BInvalid => (s, OErr EDoc)
        | BDoc d =>
          match parent with
          | None => (s, OErr EMissingParent)
          | Some p =>
            match lookup p (i_revisions s) with
            | None => (s, OErr EMissing)
            | Some None => (s, OErr ERedacted)
            | Some (Some pr) =>
              let same := N.eqb (r_id pr) (r_id cur) in
              if same && doc_eqb d (r_doc pr) then (s, OErr EDocUnchanged) else
              let state := if same then Active else Stale in
              if negb (verify_signature (r_doc pr) author sig blob) then (s, OErr EInvalidSignature) else
              let r := mkRev entry blob text state author d (Some (r_id pr)) [(author, VAccept sig)] in
              let s1 := set_revisions (insert entry (Some r) (i_revisions s))
                          (set_heads (insert author entry (i_heads s)) s) in
              if same then
                match adopt s1 entry with
                | inl s2 => (s2, OOk)
                | inr p => (s1, OPanic p)
                end
              else (s1, OOk)
            end
          end
        end
    end
  end.

(* the loop of Identity::op (on the copy) *)
(* which outcomes of an action end the operation (Some) and which are skipped (None) *)
Definition op_decide (conc : bool) (o : outcome) : option outcome :=
  match o with
  | OOk => None
  | OErr EUnexpectedState => if conc then None else Some (OErr EUnexpectedState)
  | OErr ERedacted => None
  | OErr e => Some (OErr e)
  | OPanic p => Some (OPanic p)
  end.

Fixpoint op_loop (dbg : bool) (s : identity) (id author : N) (conc : bool) (acts : list action)
  : identity * outcome :=
  match acts with
  | [] => (s, OOk)
  | a :: rest =>
      let '(s1, o) := action_step s a id author in
      match op_decide conc o with
      | Some out => (s1, out)
      | None =>
          if dbg && memN id (i_timeline s1) then (s1, OPanic PDebugTimeline)
          else op_loop dbg (push_timeline id s1) id author conc rest
      end
  end.

Record op := mkOp { o_id : N; o_author : N; o_conc : bool; o_actions : list action }.

(* Identity::op: the copy replaces the state only when every action went through *)
Definition apply_op (dbg : bool) (s : identity) (o : op) : identity * outcome :=
  let '(s', out) := op_loop dbg s (o_id o) (o_author o) (o_conc o) (o_actions o) in
  match out with
  | OOk => (s', OOk)
  | _ => (s, out)
  end.

(* ------------------------------------------------------------------ Identity::from_root *)

(* what `Doc::load_at(op.id, repo)` returned: blob id and document, or an error *)
Inductive load_res := LDoc (blob : N) (d : doc) | LFail.

Record init_spec := mkInit { n_op : op; n_load : load_res; n_repo_id : N }.

Definition from_root (n : init_spec) : identity + outcome :=
  let o := n_op n in
  match o_actions o with
  | ARevision text blob parent sig :: rest =>
      match parent with
      | Some _ => inr (OErr EInit)
      | None =>
        match rest with
        | _ :: _ => inr (OErr EInit)
        | [] =>
          match n_load n with
          | LFail => inr (OErr EDoc)
          | LDoc rblob rdoc =>
            if negb (N.eqb rblob blob) then inr (OErr EInit) else
            if negb (N.eqb rblob (n_repo_id n)) then inr (OErr EInit) else
            match d_delegates rdoc with
            | [] => inr (OPanic PNoFounder)
            | founder :: _ =>
              if negb (N.eqb founder (o_author o)) then inr (OErr EInit) else
              if negb (verify_signature rdoc founder sig rblob) then inr (OErr EInvalidSignature) else
              let r := mkRev (o_id o) rblob text Accepted (o_author o) rdoc None
                         [(o_author o, VAccept sig)] in
              inl (mkId (o_id o) (o_id o)
                     (fold_left (fun h k => insert k (o_id o) h) (d_delegates rdoc) [])
                     [(o_id o, Some r)] [o_id o])
            end
          end
        end
      end
  | _ => inr (OErr EInit)
  end.

(* ------------------------------------------------------------------ histories *)

(* ChangeGraph::evaluate feeds the entries one by one; an entry whose apply fails is pruned
   and the (unchanged) state is carried on.  A panic ends the run. *)
Fixpoint run_ops (dbg : bool) (s : identity) (ops : list op) : list (outcome * identity) :=
  match ops with
  | [] => []
  | o :: rest =>
      let '(s', out) := apply_op dbg s o in
      match out with
      | OPanic _ => [(out, s)]
      | _ => (out, s') :: run_ops dbg s' rest
      end
  end.

(* ------------------------------------------------------------------ executed actions
   The actions that take effect: for every operation that is accepted, each action the loop
   executed, as (state before, author, action, state after the action).  Actions of rejected
   operations ran on a copy that was thrown away and do not appear. *)
Definition astep := (identity * N * action * identity)%type.

Fixpoint loop_trace (dbg : bool) (s : identity) (id author : N) (conc : bool) (acts : list action)
  : list astep :=
  match acts with
  | [] => []
  | a :: rest =>
      let '(s1, o) := action_step s a id author in
      match op_decide conc o with
      | Some _ => []
      | None =>
          (s, author, a, s1) ::
          (if dbg && memN id (i_timeline s1) then []
           else loop_trace dbg (push_timeline id s1) id author conc rest)
      end
  end.

Definition op_trace (dbg : bool) (s : identity) (o : op) : list astep :=
  match snd (apply_op dbg s o) with
  | OOk => loop_trace dbg s (o_id o) (o_author o) (o_conc o) (o_actions o)
  | _ => []
  end.

Fixpoint run_trace (dbg : bool) (s : identity) (ops : list op) : list astep :=
  match ops with
  | [] => []
  | o :: rest =>
      let '(s', out) := apply_op dbg s o in
      match out with
      | OPanic _ => []
      | _ => op_trace dbg s o ++ run_trace dbg s' rest
      end
  end.

End WithOracles.

(* ------------------------------------------------------------------ correspondence *)

Definition verdict_eqb (a b : verdict) : bool :=
  match a, b with
  | VAccept x, VAccept y => N.eqb x y
  | VReject, VReject => true
  | _, _ => false
  end.

Definition revision_eqb (a b : revision) : bool :=
  N.eqb (r_id a) (r_id b) && N.eqb (r_blob a) (r_blob b) && N.eqb (r_text a) (r_text b)
  && rstate_eqb (r_state a) (r_state b) && N.eqb (r_author a) (r_author b)
  && doc_eqb (r_doc a) (r_doc b) && optN_eqb (r_parent a) (r_parent b)
  && list_eqb (prod_eqb N.eqb verdict_eqb) (r_verdicts a) (r_verdicts b).

Definition identity_eqb (a b : identity) : bool :=
  N.eqb (i_current a) (i_current b) && N.eqb (i_root a) (i_root b)
  && list_eqb (prod_eqb N.eqb N.eqb) (i_heads a) (i_heads b)
  && list_eqb (prod_eqb N.eqb (option_eqb revision_eqb)) (i_revisions a) (i_revisions b)
  && list_eqb N.eqb (i_timeline a) (i_timeline b).

Definition error_eqb (a b : error) : bool :=
  match a, b with
  | EMissing, EMissing | EInit, EInit | EInvalidSignature, EInvalidSignature
  | ENotAuthorized, ENotAuthorized | EMissingParent, EMissingParent
  | EDuplicateVerdict, EDuplicateVerdict | EUnexpectedState, EUnexpectedState
  | ERedacted, ERedacted | EDocUnchanged, EDocUnchanged | EGit, EGit | EDoc, EDoc | EOp, EOp => true
  | _, _ => false
  end.

Definition panic_eqb (a b : panic_site) : bool :=
  match a, b with
  | PCurrent, PCurrent | PCurrentMut, PCurrentMut | PAssertParent, PAssertParent
  | PDebugTimeline, PDebugTimeline | PSubOverflow, PSubOverflow | PNoFounder, PNoFounder => true
  | _, _ => false
  end.

Definition outcome_eqb (a b : outcome) : bool :=
  match a, b with
  | OOk, OOk => true
  | OErr x, OErr y => error_eqb x y
  | OPanic x, OPanic y => panic_eqb x y
  | _, _ => false
  end.

(* the executable instance of the oracles: the harness ships the triples
   (key, blob, signature) that really verify, and what each blob id resolves to *)
Definition sig_tbl (t : list (N * N * N)) (key blob sig : N) : bool :=
  existsb (fun x => match x with (k, b, s) => N.eqb k key && N.eqb b blob && N.eqb s sig end) t.
Definition blob_tbl (t : list (N * blob_res)) (b : N) : blob_res :=
  match lookup b t with Some r => r | None => BMissing end.

Inductive case :=
| CRun (dbg : bool) (sigs : list (N * N * N)) (blobs : list (N * blob_res))
       (init : init_spec) (ops : list op).

(* observation: outcome of init (+ the state if it succeeded), then per applied entry the
   outcome and the state after it (the state is not observed after a panic) *)
Inductive obs := Obs (init_out : outcome) (init_state : option identity)
                     (steps : list (outcome * option identity)).

Definition hide_after_panic (x : outcome * identity) : outcome * option identity :=
  match fst x with OPanic _ => (fst x, None) | _ => (fst x, Some (snd x)) end.

Definition run (c : case) : obs :=
  match c with
  | CRun dbg sigs blobs init ops =>
      match from_root (sig_tbl sigs) init with
      | inr out => Obs out None []
      | inl s0 => Obs OOk (Some s0)
                    (map hide_after_panic (run_ops (sig_tbl sigs) (blob_tbl blobs) dbg s0 ops))
      end
  end.

Definition step_eqb (a b : outcome * option identity) : bool :=
  outcome_eqb (fst a) (fst b) && option_eqb identity_eqb (snd a) (snd b).

Definition obs_eqb (x y : obs) : bool :=
  match x, y with
  | Obs o s l, Obs o' s' l' =>
      outcome_eqb o o' && option_eqb identity_eqb s s' && list_eqb step_eqb l l'
  end.

Definition check_case (ce : case * obs) : bool := obs_eqb (run (fst ce)) (snd ce).
