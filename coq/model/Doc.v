(* Doc.v — executable model of identity documents (no proofs here).
   covers: radicle/src/identity/doc.rs::{Version::new, Delegates::new,
             Threshold::new, RawDoc (serde-derived Deserialize: required
             payload/delegates/threshold, defaulted version/visibility, unknown
             fields ignored, duplicate fields rejected), RawDoc::from_json,
             RawDoc::verified, Doc (Deserialize via try_from RawDoc, Serialize
             with version <= 1 and public visibility skipped), Doc::from_blob,
             Doc::encode, Visibility (internally tagged)},
           radicle/src/storage/git.rs::Repository::init (the RepoId is the blob
             oid returned by Doc::encode).
   sites: none (all failures are DocError values).
   On top of model/CanonJson.v: a document is read from a JSON value and
   written as one; the payload is arbitrary JSON.
   DIDs are abstracted to N (order-preserving w.r.t. PublicKey's Ord); their
   textual form is the Section variable pair [did_parse]/[did_str], shipped per
   case as tables by the harness.  The git blob hash is the Section variable
   [blob_hash]. *)
From HW Require Import lib.Base model.CanonJson.
Local Open Scope N_scope.

Definition MAX_DELEGATES : N := 255.
Definition IDENTITY_VERSION : N := 1.

Inductive visibility :=
| Public
| Private (allow : list N).          (* BTreeSet<Did>: strictly increasing *)

Record doc := mkDoc {
  d_version : N;
  d_payload : list (list N * value);  (* BTreeMap<PayloadId, Payload>: sorted by the
                                         UTF-8 bytes of the key (String's Ord) *)
  d_delegates : list N;
  d_threshold : N;
  d_visibility : visibility;
}.

Record rawdoc := mkRaw {
  r_version : N;
  r_payload : list (list N * value);
  r_delegates : list N;
  r_threshold : N;
  r_visibility : visibility;
}.

Inductive docres :=
| DOk (d : doc)
| DErrJson          (* DocError::Json: malformed / wrong types / missing or duplicate
                       field / unsupported version / bad DID *)
| DErrDelegates     (* DocError::Delegates *)
| DErrThreshold     (* DocError::Threshold *)
| DSeqForm.         (* serde also accepts a struct written as a JSON array; that
                       form is not modelled (the harness covers it by the direct
                       oracle only) *)

(* ------------------------------------------------------------------ verification *)

(* Version::new *)
Definition version_new (n : N) : option N :=
  if n =? 0 then None else if IDENTITY_VERSION <? n then None else Some n.

(* Delegates::new: de-duplicate keeping first occurrences; more than 255
   distinct -> error; empty -> error *)
Fixpoint delegates_fold (l : list N) (acc : list N) : option (list N) :=
  match l with
  | [] => Some acc
  | d :: l' =>
      if memN d acc then delegates_fold l' acc
      else if MAX_DELEGATES <=? N.of_nat (length acc) then None
      else delegates_fold l' (acc ++ [d])
  end.

Definition delegates_new (l : list N) : option (list N) :=
  match delegates_fold l [] with
  | Some [] => None
  | r => r
  end.

(* Threshold::new *)
Definition threshold_new (t : N) (delegates : list N) : option N :=
  if MAX_DELEGATES <? t then None
  else if N.of_nat (length delegates) <? t then None
  else if t =? 0 then None
  else Some t.

(* RawDoc::verified *)
Definition verified (r : rawdoc) : docres :=
  match delegates_new (r_delegates r) with
  | None => DErrDelegates
  | Some ds =>
      match threshold_new (r_threshold r) ds with
      | None => DErrThreshold
      | Some t => DOk (mkDoc (r_version r) (r_payload r) ds t (r_visibility r))
      end
  end.

(* ------------------------------------------------------------------ from JSON *)

(* BTreeMap<String, _>::insert, keys compared as UTF-8 bytes *)
Fixpoint pinsert {A} (k : list N) (x : A) (m : list (list N * A)) : list (list N * A) :=
  match m with
  | [] => [(k, x)]
  | (k', x') :: m' =>
      match lex_cmp (utf8s k) (utf8s k') with
      | Lt => (k, x) :: m
      | Eq => (k', x) :: m'
      | Gt => (k', x') :: pinsert k x m'
      end
  end.

(* BTreeSet<Did>::insert *)
Fixpoint sinsert (d : N) (s : list N) : list N :=
  match s with
  | [] => [d]
  | d' :: s' =>
      match N.compare d d' with
      | Lt => d :: s
      | Eq => s
      | Gt => d' :: sinsert d s'
      end
  end.

Definition str_eqb (a b : list N) : bool := list_eqb N.eqb a b.

(* ASCII field names *)
Definition s_version : list N := [118; 101; 114; 115; 105; 111; 110].
Definition s_payload : list N := [112; 97; 121; 108; 111; 97; 100].
Definition s_delegates : list N := [100; 101; 108; 101; 103; 97; 116; 101; 115].
Definition s_threshold : list N := [116; 104; 114; 101; 115; 104; 111; 108; 100].
Definition s_visibility : list N := [118; 105; 115; 105; 98; 105; 108; 105; 116; 121].
Definition s_type : list N := [116; 121; 112; 101].
Definition s_public : list N := [112; 117; 98; 108; 105; 99].
Definition s_private : list N := [112; 114; 105; 118; 97; 116; 101].
Definition s_allow : list N := [97; 108; 108; 111; 119].

Section WithDid.
Variable did_parse : list N -> option N.     (* Did::decode *)

(* Vec<Did> / BTreeSet<Did> from a JSON value *)
Fixpoint dids_of (l : list value) : option (list N) :=
  match l with
  | [] => Some []
  | Str s :: l' =>
      match did_parse s, dids_of l' with
      | Some d, Some ds => Some (d :: ds)
      | _, _ => None
      end
  | _ :: _ => None
  end.

Inductive visres := VOk (v : visibility) | VErr | VSeq.

(* internally tagged enum, tag type, variants public / private; other
   fields ignored; a duplicate tag is rejected, a duplicate allow only by the
   private variant *)

Fixpoint count_key (k : list N) (m : list (list N * value)) : nat :=
  match m with
  | [] => O
  | (k', _) :: m' => if str_eqb k k' then S (count_key k m') else count_key k m'
  end.
Fixpoint first_key (k : list N) (m : list (list N * value)) : option value :=
  match m with
  | [] => None
  | (k', x) :: m' => if str_eqb k k' then Some x else first_key k m'
  end.

Definition vis_of (x : value) : visres :=
  match x with
  | Obj m =>
      match count_key s_type m, first_key s_type m with
      | 1%nat, Some (Str t) =>
          if str_eqb t s_public then VOk Public
          else if str_eqb t s_private then
            match count_key s_allow m, first_key s_allow m with
            | O, _ => VOk (Private [])
            | 1%nat, Some (Arr l) =>
                match dids_of l with
                | Some ds => VOk (Private (fold_left (fun s d => sinsert d s) ds []))
                | None => VErr
                end
            | _, _ => VErr
            end
          else VErr
      | _, _ => VErr
      end
  | Arr _ => VSeq
  | _ => VErr
  end.

Definition u32_max : N := 4294967295.

Definition payload_of (x : value) : option (list (list N * value)) :=
  match x with
  | Obj m => Some (fold_left (fun acc kv => pinsert (fst kv) (snd kv) acc) m [])
  | _ => None
  end.

Definition nat_of (x : value) (max : N) : option N :=
  match x with
  | Int z => if (0 <=? z)%Z && (Z.to_N z <=? max) then Some (Z.to_N z) else None
  | _ => None
  end.

(* serde-derived Deserialize for RawDoc from a JSON object (members in text
   order, duplicates possible) *)
Definition raw_of_json (j : value) : option rawdoc + bool (* inr true = seq form *) :=
  match j with
  | Obj m =>
      if (1 <? count_key s_version m)%nat || (1 <? count_key s_payload m)%nat ||
         (1 <? count_key s_delegates m)%nat || (1 <? count_key s_threshold m)%nat ||
         (1 <? count_key s_visibility m)%nat
      then inl None
      else
        let version :=
          match first_key s_version m with
          | None => Some 1
          | Some x => match nat_of x u32_max with Some n => version_new n | None => None end
          end in
        let payload := match first_key s_payload m with Some x => payload_of x | None => None end in
        let delegates :=
          match first_key s_delegates m with Some (Arr l) => dids_of l | _ => None end in
        let threshold :=
          match first_key s_threshold m with Some x => nat_of x u64_max | None => None end in
        let vis :=
          match first_key s_visibility m with None => VOk Public | Some x => vis_of x end in
        match vis with
        | VSeq => inr true
        | VErr => inl None
        | VOk vis =>
            match version, payload, delegates, threshold with
            | Some v, Some p, Some ds, Some t => inl (Some (mkRaw v p ds t vis))
            | _, _, _, _ => inl None
            end
        end
  | Arr _ => inr true
  | _ => inl None
  end.

(* RawDoc::from_json(bytes)?.verified()  (= Doc::from_blob), on the parsed text *)
Definition of_json (j : value) : docres :=
  match raw_of_json j with
  | inr _ => DSeqForm
  | inl None => DErrJson
  | inl (Some r) => verified r
  end.

End WithDid.

(* ------------------------------------------------------------------ to JSON *)

Section WithDidStr.
Variable did_str : N -> list N.               (* Did::encode *)

Definition vis_json (v : visibility) : list (list N * value) :=
  match v with
  | Public => []
  | Private [] => [(s_visibility, Obj [(s_type, Str s_private)])]
  | Private allow =>
      [(s_visibility, Obj [(s_type, Str s_private);
                           (s_allow, Arr (map (fun d => Str (did_str d)) allow))])]
  end.

(* impl Serialize for Doc (field order of the struct) *)
Definition to_json (d : doc) : value :=
  Obj ((if d_version d <=? 1 then [] else [(s_version, Int (Z.of_N (d_version d)))]) ++
       [(s_payload, Obj (d_payload d));
        (s_delegates, Arr (map (fun x => Str (did_str x)) (d_delegates d)));
        (s_threshold, Int (Z.of_N (d_threshold d)))] ++
       vis_json (d_visibility d)).

Variable nfc : list N -> list N.
Variable blob_hash : list N -> N.             (* git2::Oid::hash_object(Blob, _) *)

(* Doc::encode *)
Definition doc_encode (d : doc) : option (N * list N) :=
  match encode nfc (to_json d) with
  | Some bs => Some (blob_hash bs, bs)
  | None => None
  end.

(* Repository::init: the RepoId, and the blob stored in the new repository *)
Definition repo_init (d : doc) : option (N * list N) :=
  match doc_encode d with
  | Some (oid, bs) => Some (oid, bs)
  | None => None
  end.

End WithDidStr.

(* ------------------------------------------------------------------ equality (PartialEq) *)

(* serde_json::Value equality: objects are IndexMaps, compared as maps
   (same length, every binding of the left found in the right) *)
Fixpoint assoc (k : list N) (m : list (list N * value)) : option value :=
  match m with
  | [] => None
  | (k', x) :: m' => if str_eqb k k' then Some x else assoc k m'
  end.

Fixpoint veq (a b : value) : bool :=
  match a, b with
  | Null, Null => true
  | Bool x, Bool y => Bool.eqb x y
  | Int x, Int y => Z.eqb x y
  | Float, Float => false      (* floats carry no value in the model: never claimed equal *)
  | Str x, Str y => str_eqb x y
  | Arr x, Arr y =>
      (fix go (x y : list value) : bool :=
         match x, y with
         | [], [] => true
         | a :: x', b :: y' => veq a b && go x' y'
         | _, _ => false
         end) x y
  | Obj x, Obj y =>
      Nat.eqb (length x) (length y) &&
      (fix go (x : list (list N * value)) : bool :=
         match x with
         | [] => true
         | (k, a) :: x' =>
             match assoc k y with
             | Some b => veq a b
             | None => false
             end && go x'
         end) x
  | _, _ => false
  end.

Definition vis_eqb (a b : visibility) : bool :=
  match a, b with
  | Public, Public => true
  | Private x, Private y => list_eqb N.eqb x y
  | _, _ => false
  end.

Fixpoint payload_eqb (a b : list (list N * value)) : bool :=
  match a, b with
  | [], [] => true
  | (ka, va) :: a', (kb, vb) :: b' => str_eqb ka kb && veq va vb && payload_eqb a' b'
  | _, _ => false
  end.

(* Doc: PartialEq (derived) *)
Definition doc_eqb (a b : doc) : bool :=
  N.eqb (d_version a) (d_version b) && payload_eqb (d_payload a) (d_payload b) &&
  list_eqb N.eqb (d_delegates a) (d_delegates b) && N.eqb (d_threshold a) (d_threshold b) &&
  vis_eqb (d_visibility a) (d_visibility b).

(* exact (syntactic) comparison, for the correspondence check *)
Fixpoint payload_same (a b : list (list N * value)) : bool :=
  match a, b with
  | [], [] => true
  | (ka, va) :: a', (kb, vb) :: b' => str_eqb ka kb && value_eqb va vb && payload_same a' b'
  | _, _ => false
  end.
Definition doc_same (a b : doc) : bool :=
  N.eqb (d_version a) (d_version b) && payload_same (d_payload a) (d_payload b) &&
  list_eqb N.eqb (d_delegates a) (d_delegates b) && N.eqb (d_threshold a) (d_threshold b) &&
  vis_eqb (d_visibility a) (d_visibility b).

(* ------------------------------------------------------------------ correspondence *)

Fixpoint table_did_parse (t : list (list N * option N)) (s : list N) : option N :=
  match t with
  | [] => None
  | (a, r) :: t' => if str_eqb a s then r else table_did_parse t' s
  end.

Fixpoint table_did_str (t : list (N * list N)) (d : N) : list N :=
  match t with
  | [] => []
  | (a, s) :: t' => if a =? d then s else table_did_str t' d
  end.

Inductive dcase :=
| DFromJson (dids : list (list N * option N)) (j : value)
    (* RawDoc::from_json(text)?.verified(), Doc::from_blob, serde_json::from_slice::<Doc> *)
| DEncode (nfct : list (list N * list N)) (dids : list (N * list N)) (d : doc).
    (* Doc::encode *)

Inductive dobs :=
| DRes (r : docres)
| DEnc (r : option (list N)).

Definition drun (c : dcase) : dobs :=
  match c with
  | DFromJson dids j => DRes (of_json (table_did_parse dids) j)
  | DEncode nfct dids d =>
      DEnc (match doc_encode (table_did_str dids) (table_nfc nfct) (fun _ => 0) d with
            | Some (_, bs) => Some bs
            | None => None
            end)
  end.

Definition docres_eqb (a b : docres) : bool :=
  match a, b with
  | DOk x, DOk y => doc_same x y
  | DErrJson, DErrJson => true
  | DErrDelegates, DErrDelegates => true
  | DErrThreshold, DErrThreshold => true
  | DSeqForm, DSeqForm => true
  | _, _ => false
  end.

Definition dobs_eqb (x y : dobs) : bool :=
  match x, y with
  | DRes a, DRes b => docres_eqb a b
  | DEnc a, DEnc b => option_eqb (list_eqb N.eqb) a b
  | _, _ => false
  end.

Definition dcheck_case (ce : dcase * dobs) : bool := dobs_eqb (drun (fst ce)) (snd ce).
