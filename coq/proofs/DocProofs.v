(* DocProofs.v — proofs about model/Doc.v (identity documents). *)
From HW Require Import lib.Base model.CanonJson proofs.CanonJsonProofs model.Doc.
From Coq Require Import Sorted Setoid.
Local Open Scope N_scope.

Ltac Zify.zify_post_hook ::= Z.to_euclidean_division_equations.

(* ------------------------------------------------------------------ validity *)

(* what the property demands of an accepted document *)
Definition valid (d : doc) : Prop :=
  (1 <= length (d_delegates d) <= 255)%nat /\
  NoDup (d_delegates d) /\
  1 <= d_threshold d <= N.of_nat (length (d_delegates d)) /\
  d_version d = 1.

Lemma NoDup_snoc {A} (l : list A) x : NoDup l -> ~ In x l -> NoDup (l ++ [x]).
Proof.
  induction l as [|a l IH]; simpl; intros Hnd Hx; [repeat constructor; intros []|].
  inversion Hnd; subst. constructor.
  - intros Hin. apply in_app_or in Hin. destruct Hin as [Hin|[->|[]]]; [contradiction|apply Hx; left; reflexivity].
  - apply IH; [assumption|tauto].
Qed.

Lemma delegates_fold_inv l : forall acc ds,
  NoDup acc -> (length acc <= 255)%nat ->
  delegates_fold l acc = Some ds ->
  NoDup ds /\ (length acc <= length ds <= 255)%nat /\
  (forall x, In x ds <-> In x acc \/ In x l).
Proof.
  induction l as [|d l IH]; intros acc ds Hnd Hlen H; simpl in H.
  - inversion H; subst. repeat split; auto; try lia. intros [H1|[]]; exact H1.
  - destruct (memN d acc) eqn:Em.
    + destruct (IH acc ds Hnd Hlen H) as (H1 & H2 & H3). repeat split; auto; try lia.
      * intros Hx. apply H3 in Hx. destruct Hx; [left|right; right]; assumption.
      * intros [Hx|[->|Hx]]; apply H3; auto. left. apply memN_In. exact Em.
    + unfold MAX_DELEGATES in H. destruct (255 <=? N.of_nat (length acc)) eqn:E; [discriminate|].
      apply N.leb_gt in E.
      assert (Hnin : ~ In d acc) by (intros Hin; apply memN_In in Hin; congruence).
      destruct (IH (acc ++ [d]) ds) as (H1 & H2 & H3); auto.
      * apply NoDup_snoc; assumption.
      * rewrite app_length. simpl. lia.
      * rewrite app_length in H2. simpl in H2. repeat split; auto; try lia.
        -- intros Hx. apply H3 in Hx. destruct Hx as [Hx|Hx]; [|right; right; exact Hx].
           apply in_app_or in Hx. destruct Hx as [Hx|[->|[]]]; [left; exact Hx|right; left; reflexivity].
        -- intros [Hx|[->|Hx]]; apply H3; auto; left; apply in_or_app; auto. right. left. reflexivity.
Qed.

Lemma delegates_new_spec l ds : delegates_new l = Some ds ->
  NoDup ds /\ (1 <= length ds <= 255)%nat /\ (forall x, In x ds <-> In x l).
Proof.
  unfold delegates_new. destruct (delegates_fold l []) as [r|] eqn:E; [|discriminate].
  destruct (delegates_fold_inv l [] r (NoDup_nil _) ltac:(simpl; lia) E) as (H1 & H2 & H3).
  destruct r as [|x r]; [discriminate|]. intros H; inversion H; subst.
  repeat split; auto; try (simpl in *; lia).
  - intros Hx. apply H3 in Hx. destruct Hx as [[]|Hx]. exact Hx.
  - intros Hx. apply H3. right. exact Hx.
Qed.

Lemma threshold_new_spec t ds r : threshold_new t ds = Some r ->
  r = t /\ 1 <= t <= N.of_nat (length ds) /\ t <= 255.
Proof.
  unfold threshold_new, MAX_DELEGATES.
  destruct (255 <? t) eqn:E1; [discriminate|].
  destruct (N.of_nat (length ds) <? t) eqn:E2; [discriminate|].
  destruct (t =? 0) eqn:E3; [discriminate|].
  intros H; inversion H; subst. apply N.ltb_ge in E1, E2. apply N.eqb_neq in E3. lia.
Qed.

Lemma verified_valid r d : verified r = DOk d ->
  (1 <= length (d_delegates d) <= 255)%nat /\ NoDup (d_delegates d) /\
  1 <= d_threshold d <= N.of_nat (length (d_delegates d)) /\
  d_version d = r_version r /\ d_payload d = r_payload r /\ d_visibility d = r_visibility r /\
  (forall x, In x (d_delegates d) <-> In x (r_delegates r)).
Proof.
  unfold verified. destruct (delegates_new (r_delegates r)) as [ds|] eqn:E1; [|discriminate].
  destruct (threshold_new (r_threshold r) ds) as [t|] eqn:E2; [|discriminate].
  intros H; inversion H; subst; simpl.
  destruct (delegates_new_spec _ _ E1) as (H1 & H2 & H3).
  destruct (threshold_new_spec _ _ _ E2) as (-> & H4 & H5).
  repeat split; auto; try lia; apply H3.
Qed.

Lemma version_new_spec n v : version_new n = Some v -> v = 1.
Proof.
  unfold version_new, IDENTITY_VERSION. destruct (n =? 0) eqn:E1; [discriminate|].
  destruct (1 <? n) eqn:E2; [discriminate|]. intros H; inversion H; subst.
  apply N.eqb_neq in E1. apply N.ltb_ge in E2. lia.
Qed.

Lemma raw_of_json_version did_parse j r :
  raw_of_json did_parse j = inl (Some r) -> r_version r = 1.
Proof.
  unfold raw_of_json. destruct j as [| | | | |l|m]; try discriminate.
  destruct (_ || _); [discriminate|].
  set (ver := match first_key s_version m with
              | Some x => match nat_of x u32_max with Some n => version_new n | None => None end
              | None => Some 1 end).
  assert (Hver : forall w, ver = Some w -> w = 1).
  { unfold ver. destruct (first_key s_version m) as [x|]; [|intros w H; inversion H; reflexivity].
    destruct (nat_of x u32_max) as [n|]; [|discriminate]. intros w H. eapply version_new_spec; exact H. }
  destruct (match first_key s_visibility m with Some x => vis_of did_parse x | None => VOk Public end);
    try discriminate.
  destruct ver as [w|]; [|discriminate].
  destruct (match first_key s_payload m with Some x => payload_of x | None => None end); [|discriminate].
  destruct (match first_key s_delegates m with Some (Arr l) => dids_of did_parse l | _ => None end); [|discriminate].
  destruct (match first_key s_threshold m with Some x => nat_of x u64_max | None => None end); [|discriminate].
  intros H; inversion H; subst; simpl. apply Hver. reflexivity.
Qed.

Theorem accepted_docs_valid did_parse j d : of_json did_parse j = DOk d -> valid d.
Proof.
  unfold of_json. destruct (raw_of_json did_parse j) as [[r|]|] eqn:E; try discriminate.
  intros H. destruct (verified_valid r d H) as (H1 & H2 & H3 & H4 & _).
  repeat split; auto; try lia. rewrite H4. eapply raw_of_json_version; exact E.
Qed.

(* ------------------------------------------------------------------ repository id *)

Theorem rid_is_blob_hash did_str nfc blob_hash d rid bs :
  repo_init did_str nfc blob_hash d = Some (rid, bs) ->
  encode nfc (to_json did_str d) = Some bs /\ rid = blob_hash bs.
Proof.
  unfold repo_init, doc_encode. destruct (encode nfc (to_json did_str d)); [|discriminate].
  intros H; inversion H; subst. auto.
Qed.
