(* StoresProofs.v — invariants of coq/model/Stores.v over arbitrary operation
   sequences, and the refinement of the row-list tables to plain finite maps. *)
From HW Require Import lib.Base model.Stores.
From Coq Require Import Sorted Permutation.
Local Open Scope N_scope.

(* ------------------------------------------------------------------ tables as maps *)

Section TableFacts.
  Context {K V : Type}.
  Variable keqb : K -> K -> bool.
  Hypothesis keqb_spec : forall a b, keqb a b = true <-> a = b.

  Lemma keqb_refl k : keqb k k = true.
  Proof. apply keqb_spec. reflexivity. Qed.

  Lemma keqb_sym a b : keqb a b = keqb b a.
  Proof.
    destruct (keqb a b) eqn:E1, (keqb b a) eqn:E2; try reflexivity.
    - apply keqb_spec in E1. subst. rewrite keqb_refl in E2. discriminate.
    - apply keqb_spec in E2. subst. rewrite keqb_refl in E1. discriminate.
  Qed.

  Lemma tget_tset k (v : V) (t : table K V) k' :
    tget keqb k' (tset keqb k v t) = if keqb k' k then Some v else tget keqb k' t.
  Proof.
    induction t as [|[k0 v0] t IH]; simpl.
    - reflexivity.
    - destruct (keqb k k0) eqn:E; simpl.
      + apply keqb_spec in E. subst k0. destruct (keqb k' k); reflexivity.
      + rewrite IH. destruct (keqb k' k0) eqn:E0; [|reflexivity].
        apply keqb_spec in E0. subst k0. rewrite keqb_sym, E. reflexivity.
  Qed.

  Lemma tget_filter_key (p : K -> bool) (t : table K V) k :
    tget keqb k (filter (fun kv => p (fst kv)) t) = if p k then tget keqb k t else None.
  Proof.
    induction t as [|[k0 v0] t IH]; simpl.
    - destruct (p k); reflexivity.
    - destruct (p k0) eqn:Ep; simpl.
      + destruct (keqb k k0) eqn:E.
        * apply keqb_spec in E. subst. rewrite Ep. reflexivity.
        * exact IH.
      + rewrite IH. destruct (keqb k k0) eqn:E; [|reflexivity].
        apply keqb_spec in E. subst. rewrite Ep. reflexivity.
  Qed.

  Lemma tget_tdel k (t : table K V) k' :
    tget keqb k' (tdel keqb k t) = if keqb k' k then None else tget keqb k' t.
  Proof.
    unfold tdel. rewrite (tget_filter_key (fun x => negb (keqb k x))).
    rewrite (keqb_sym k k'). destruct (keqb k' k); reflexivity.
  Qed.

  Lemma tmem_tget k (t : table K V) : tmem keqb k t = true <-> tget keqb k t <> None.
  Proof. unfold tmem. destruct (tget keqb k t); split; congruence. Qed.

  Lemma tmem_false k (t : table K V) : tmem keqb k t = false <-> tget keqb k t = None.
  Proof. unfold tmem. destruct (tget keqb k t); split; congruence. Qed.

  Lemma tget_In k (v : V) (t : table K V) : tget keqb k t = Some v -> In (k, v) t.
  Proof.
    induction t as [|[k0 v0] t IH]; simpl; [discriminate|].
    destruct (keqb k k0) eqn:E.
    - apply keqb_spec in E. subst. intros H. inversion H. left. reflexivity.
    - intros H. right. apply IH. exact H.
  Qed.

  Lemma tget_in_keys k (t : table K V) : tget keqb k t <> None <-> In k (map fst t).
  Proof.
    induction t as [|[k0 v0] t IH]; simpl.
    - split; [congruence|tauto].
    - destruct (keqb k k0) eqn:E.
      + apply keqb_spec in E. subst. split; [intros _; left; reflexivity|congruence].
      + rewrite IH. split; [intros H; right; exact H|].
        intros [H|H]; [|exact H]. subst. rewrite keqb_refl in E. discriminate.
  Qed.

  (* representation invariant: a key occurs in at most one row (UNIQUE / PRIMARY KEY) *)
  Definition twf (t : table K V) : Prop := NoDup (map fst t).

  Lemma twf_nil : twf ([] : table K V).
  Proof. constructor. Qed.

  Lemma In_tget k (v : V) (t : table K V) : twf t -> In (k, v) t -> tget keqb k t = Some v.
  Proof.
    induction t as [|[k0 v0] t IH]; simpl; intros Hwf H; [tauto|].
    inversion Hwf as [|? ? Hnin Hwf']; subst.
    destruct H as [H|H].
    - inversion H; subst. rewrite keqb_refl. reflexivity.
    - destruct (keqb k k0) eqn:E.
      + apply keqb_spec in E. subst. exfalso. apply Hnin.
        apply in_map_iff. exists (k0, v). auto.
      + apply IH; assumption.
  Qed.

  Lemma keys_tset_mem k (v : V) (t : table K V) : tget keqb k t <> None -> map fst (tset keqb k v t) = map fst t.
  Proof.
    induction t as [|[k0 v0] t IH]; simpl; [congruence|].
    destruct (keqb k k0) eqn:E; simpl; [reflexivity|].
    intros H. rewrite IH by exact H. reflexivity.
  Qed.

  Lemma keys_tset_new k (v : V) (t : table K V) : tget keqb k t = None -> map fst (tset keqb k v t) = map fst t ++ [k].
  Proof.
    induction t as [|[k0 v0] t IH]; simpl; [reflexivity|].
    destruct (keqb k k0) eqn:E; simpl; [discriminate|].
    intros H. rewrite IH by exact H. reflexivity.
  Qed.

  Lemma twf_tset k (v : V) (t : table K V) : twf t -> twf (tset keqb k v t).
  Proof.
    unfold twf. intros H. destruct (tget keqb k t) eqn:E.
    - rewrite keys_tset_mem by congruence. exact H.
    - rewrite keys_tset_new by exact E.
      apply NoDup_rev in H. rewrite <- (rev_involutive (map fst t ++ [k])).
      apply NoDup_rev. rewrite rev_app_distr. simpl. constructor; [|exact H].
      rewrite <- in_rev. intros Hin. apply tget_in_keys in Hin. congruence.
  Qed.

  Lemma NoDup_map_filter (p : K * V -> bool) (t : table K V) : twf t -> twf (filter p t).
  Proof.
    unfold twf. induction t as [|kv t IH]; simpl; intros H; [exact H|].
    inversion H as [|? ? Hnin H']; subst.
    destruct (p kv); simpl; [|apply IH; exact H'].
    constructor; [|apply IH; exact H'].
    intros Hin. apply Hnin. apply in_map_iff in Hin. destruct Hin as [x [E Hx]].
    apply filter_In in Hx. apply in_map_iff. exists x. tauto.
  Qed.

  Lemma twf_tdel k (t : table K V) : twf t -> twf (tdel keqb k t).
  Proof. apply NoDup_map_filter. Qed.

  Lemma twf_map_vals (f : K * V -> V) (t : table K V) : twf t -> twf (map (fun kv => (fst kv, f kv)) t).
  Proof. unfold twf. rewrite map_map. simpl. exact (fun H => H). Qed.

  Lemma tget_map_vals (f : K * V -> V) (t : table K V) k :
    tget keqb k (map (fun kv => (fst kv, f kv)) t) =
    match tget keqb k t with Some v => Some (f (k, v)) | None => None end.
  Proof.
    induction t as [|[k0 v0] t IH]; simpl; [reflexivity|].
    destruct (keqb k k0) eqn:E; [|exact IH].
    apply keqb_spec in E. subst. reflexivity.
  Qed.
End TableFacts.

Lemma N_eqb_spec' : forall a b : N, N.eqb a b = true <-> a = b.
Proof. exact N.eqb_eq. Qed.

Lemma k2_eqb_spec : forall a b : k2, k2_eqb a b = true <-> a = b.
Proof.
  intros [a1 a2] [b1 b2]. unfold k2_eqb. simpl.
  rewrite andb_true_iff, !N.eqb_eq. split; [intros [-> ->]; reflexivity|].
  intros H. inversion H. auto.
Qed.

Lemma k3_eqb_spec : forall a b : k3, k3_eqb a b = true <-> a = b.
Proof.
  intros [[a1 a2] a3] [[b1 b2] b3]. unfold k3_eqb. simpl.
  rewrite !andb_true_iff, !N.eqb_eq. split; [intros [[-> ->] ->]; reflexivity|].
  intros H. inversion H. auto.
Qed.

Lemma k2_eqb_false (a b : k2) : k2_eqb a b = false <-> a <> b.
Proof.
  split.
  - intros H E. apply k2_eqb_spec in E. congruence.
  - intros H. destruct (k2_eqb a b) eqn:E; [|reflexivity]. apply k2_eqb_spec in E. contradiction.
Qed.

Lemma k3_eqb_false (a b : k3) : k3_eqb a b = false <-> a <> b.
Proof.
  split.
  - intros H E. apply k3_eqb_spec in E. congruence.
  - intros H. destruct (k3_eqb a b) eqn:E; [|reflexivity]. apply k3_eqb_spec in E. contradiction.
Qed.

(* ------------------------------------------------------------------ sequences *)

Lemma exec_nil s : exec s [] = s.
Proof. reflexivity. Qed.

Lemma exec_cons s o ops : exec s (o :: ops) = exec (fst (step s o)) ops.
Proof.
  unfold exec. simpl. destruct (step s o) as [s1 r]. simpl.
  destruct (run_ops s1 ops). reflexivity.
Qed.

Lemma exec_app s ops1 ops2 : exec s (ops1 ++ ops2) = exec (exec s ops1) ops2.
Proof.
  revert s. induction ops1 as [|o ops1 IH]; intros s; simpl.
  - reflexivity.
  - rewrite !exec_cons. apply IH.
Qed.

(* a step-preserved predicate holds after any sequence *)
Lemma exec_invariant (P : state -> Prop) :
  (forall s o, P s -> P (fst (step s o))) -> forall ops s, P s -> P (exec s ops).
Proof.
  intros Hstep ops. induction ops as [|o ops IH]; intros s H.
  - exact H.
  - rewrite exec_cons. apply IH. apply Hstep. exact H.
Qed.

(* ------------------------------------------------------------------ structure of tset *)

Section TableShape.
  Context {K V : Type}.
  Variable keqb : K -> K -> bool.
  Hypothesis keqb_spec : forall a b, keqb a b = true <-> a = b.

  Lemma tset_absent k (v : V) (t : table K V) :
    tget keqb k t = None -> tset keqb k v t = t ++ [(k, v)].
  Proof.
    induction t as [|[k0 v0] t IH]; simpl; [reflexivity|].
    destruct (keqb k k0); [discriminate|]. intros H. rewrite IH by exact H. reflexivity.
  Qed.

  Lemma tset_present k (v v0 : V) (t : table K V) :
    tget keqb k t = Some v0 ->
    exists t1 t2, t = t1 ++ (k, v0) :: t2 /\ tset keqb k v t = t1 ++ (k, v) :: t2.
  Proof.
    induction t as [|[k1 v1] t IH]; simpl; [discriminate|].
    destruct (keqb k k1) eqn:E.
    - apply keqb_spec in E. subst k1. intros H. inversion H; subst.
      exists [], t. split; reflexivity.
    - intros H. destruct (IH H) as [t1 [t2 [E1 E2]]].
      exists ((k1, v1) :: t1), t2. simpl. rewrite <- E1, <- E2. split; reflexivity.
  Qed.

  Lemma length_tset k (v : V) (t : table K V) :
    length (tset keqb k v t) = match tget keqb k t with Some _ => length t | None => S (length t) end.
  Proof.
    induction t as [|[k1 v1] t IH]; simpl; [reflexivity|].
    destruct (keqb k k1); simpl; [reflexivity|]. rewrite IH. destruct (tget keqb k t); reflexivity.
  Qed.
End TableShape.

(* ------------------------------------------------------------------ well-formed states *)

Definition gids (g : table k3 grow) : list N := map (fun kr => g_id (snd kr)) g.

Record wf (s : state) : Prop := {
  wf_nodes : twf (nodes s);
  wf_routing : twf (routing s);
  wf_sync : twf (sync s);
  wf_refs : twf (refs s);
  wf_following : twf (following s);
  wf_seeding : twf (seeding s);
  wf_gossip : twf (gossip s);
  wf_gids : NoDup (gids (gossip s))
}.

Lemma wf_empty : wf empty.
Proof. split; simpl; constructor. Qed.

Lemma fold_max_ge {A} (f : A -> N) l : forall a, a <= fold_left (fun m r => N.max m (f r)) l a.
Proof. induction l as [|x l IH]; simpl; intros a; [lia|]. specialize (IH (N.max a (f x))). lia. Qed.

Lemma fold_max_in {A} (f : A -> N) l : forall a x, In x l -> f x <= fold_left (fun m r => N.max m (f r)) l a.
Proof.
  induction l as [|y l IH]; simpl; intros a x H; [tauto|].
  destruct H as [->|H].
  - pose proof (fold_max_ge f l (N.max a (f x))). lia.
  - apply IH. exact H.
Qed.

Lemma g_next_id_fresh g : forall kr, In kr g -> g_id (snd kr) < g_next_id g.
Proof.
  intros kr H. unfold g_next_id.
  pose proof (fold_max_in (fun r : k3 * grow => g_id (snd r)) g 0 kr H) as Hle. simpl in Hle. lia.
Qed.

Lemma g_next_id_not_in g : ~ In (g_next_id g) (gids g).
Proof.
  unfold gids. intros H. apply in_map_iff in H. destruct H as [kr [E Hin]].
  pose proof (g_next_id_fresh g kr Hin). lia.
Qed.

Lemma keys_map_same {K V} (f : K * V -> K * V) (t : table K V) :
  (forall x, fst (f x) = fst x) -> map fst (map f t) = map fst t.
Proof. intros H. rewrite map_map. apply map_ext. exact H. Qed.

Lemma twf_fold_tdel (rids : list N) nid : forall rt : table k2 N,
  twf rt -> twf (fold_left (fun rt rid => tdel k2_eqb (rid, nid) rt) rids rt).
Proof.
  induction rids as [|r rids IH]; simpl; intros rt H; [exact H|].
  apply IH. apply twf_tdel. exact H.
Qed.

Lemma r_add_one_wf nds rt rid nid time rt' res :
  r_add_one nds rt rid nid time = Some (rt', res) -> twf rt -> twf rt'.
Proof.
  unfold r_add_one. intros H Hwf.
  destruct (N.ltb I64_MAX time); [discriminate|].
  destruct (tget k2_eqb (rid, nid) rt) as [t|].
  - destruct (N.ltb t time); inversion H; subst; [apply (twf_tset _ k2_eqb_spec); exact Hwf | exact Hwf].
  - destruct (tmem N.eqb nid nds); inversion H; subst. apply (twf_tset _ k2_eqb_spec); exact Hwf.
Qed.

Lemma r_add_loop_wf nds rids nid time : forall rt acc rt' res,
  r_add_loop nds rt rids nid time acc = inl (rt', res) -> twf rt -> twf rt'.
Proof.
  induction rids as [|rid rids IH]; simpl; intros rt acc rt' res H Hwf.
  - inversion H; subst. exact Hwf.
  - destruct (r_add_one nds rt rid nid time) as [[rt1 r1]|] eqn:E; [|discriminate].
    eapply IH; [exact H|]. eapply r_add_one_wf; eassumption.
Qed.

Lemma gids_map_relay (c : k3 * grow -> bool) (x : relay) g :
  gids (map (fun kr => if c kr then (fst kr, g_with_relay (snd kr) x) else kr) g) = gids g.
Proof.
  unfold gids. rewrite map_map. apply map_ext. intros kr. destruct (c kr); reflexivity.
Qed.

Lemma keys_map_relay (c : k3 * grow -> bool) (x : relay) (g : table k3 grow) :
  map fst (map (fun kr => if c kr then (fst kr, g_with_relay (snd kr) x) else kr) g) = map fst g.
Proof. apply keys_map_same. intros kr. destruct (c kr); reflexivity. Qed.

Lemma NoDup_filter {A} (p : A -> bool) l : NoDup l -> NoDup (filter p l).
Proof.
  induction l as [|x l IH]; simpl; intros H; [exact H|].
  inversion H; subst. destruct (p x); [constructor|]; auto.
  rewrite filter_In. tauto.
Qed.

Lemma gids_filter p g : NoDup (gids g) -> NoDup (gids (filter p g)).
Proof.
  unfold gids. induction g as [|kr g IH]; simpl; intros H; [exact H|].
  inversion H as [|? ? Hnin H']; subst.
  destruct (p kr); simpl; [|apply IH; exact H'].
  constructor; [|apply IH; exact H'].
  intros Hin. apply Hnin. apply in_map_iff in Hin. destruct Hin as [y [E Hy]].
  apply filter_In in Hy. apply in_map_iff. exists y. tauto.
Qed.

Ltac wf_split H := destruct H as [Hn Hr Hs Hf Hfo Hse Hg Hgi]; split; simpl; try assumption.

Theorem step_wf s o : wf s -> wf (fst (step s o)).
Proof.
  intros H. destruct o; simpl.
  - (* NInsert *) unfold n_insert. destruct (N.ltb I64_MAX ts); [exact H|].
    destruct (tget N.eqb nid (nodes s)) as [t|].
    + destruct (N.ltb t ts); [|exact H]. wf_split H. apply (twf_tset _ N.eqb_eq). exact Hn.
    + wf_split H. apply (twf_tset _ N.eqb_eq). exact Hn.
  - (* NRemove *) unfold n_remove. destruct (tmem N.eqb nid (nodes s)); [|exact H].
    wf_split H.
    + apply twf_tdel. exact Hn.
    + apply NoDup_map_filter. exact Hr.
    + apply NoDup_map_filter. exact Hs.
  - (* RAdd *) unfold r_add.
    destruct (r_add_loop (nodes s) (routing s) rids nid time []) as [[rt' res]|e] eqn:E; [|exact H].
    wf_split H. eapply r_add_loop_wf; eassumption.
  - (* RRemove *) wf_split H. apply twf_tdel. exact Hr.
  - (* RRemoveMany *) wf_split H. apply twf_fold_tdel. exact Hr.
  - (* RPrune *) unfold r_prune.
    destruct (N.ltb I64_MAX match limit with Some l => l | None => I64_MAX end); [exact H|].
    destruct (N.ltb I64_MAX oldest); [exact H|].
    wf_split H. apply NoDup_map_filter. exact Hr.
  - exact H.
  - exact H.
  - exact H.
  - (* SSynced *) unfold s_synced. destruct (N.ltb I64_MAX ts); [exact H|].
    destruct (tget k2_eqb (rid, nid) (sync s)) as [[h t]|].
    + destruct (N.ltb t ts && negb (N.eqb h head)); [|exact H].
      wf_split H. apply (twf_tset _ k2_eqb_spec). exact Hs.
    + destruct (tmem N.eqb nid (nodes s)); [|exact H].
      wf_split H. apply (twf_tset _ k2_eqb_spec). exact Hs.
  - (* FSet *) unfold f_set. destruct (N.leb U64_LIM ts); [exact H|].
    destruct (N.ltb I64_MAX ts); [exact H|].
    destruct (tget k3_eqb (repo, ns, rf) (refs s)) as [[o t]|].
    + destruct (N.ltb t ts && negb (N.eqb o oid)); [|exact H].
      wf_split H. apply (twf_tset _ k3_eqb_spec). exact Hf.
    + wf_split H. apply (twf_tset _ k3_eqb_spec). exact Hf.
  - exact H.
  - (* FDelete *) wf_split H. apply twf_tdel. exact Hf.
  - exact H.
  - (* PFollow *) unfold p_follow. destruct (tget N.eqb id (following s)) as [[a p]|].
    + destruct (negb (N.eqb a alias)); [|exact H]. wf_split H. apply (twf_tset _ N.eqb_eq). exact Hfo.
    + wf_split H. apply (twf_tset _ N.eqb_eq). exact Hfo.
  - (* PSetFollow *) unfold p_set_follow. destruct (tget N.eqb id (following s)) as [[a p0]|].
    + destruct (negb (policy_eqb p0 p)); [|exact H]. wf_split H. apply (twf_tset _ N.eqb_eq). exact Hfo.
    + wf_split H. apply (twf_tset _ N.eqb_eq). exact Hfo.
  - (* PSeed *) unfold p_seed. destruct (tget N.eqb id (seeding s)) as [[sc0 p]|].
    + destruct (negb (scope_eqb sc0 sc)); [|exact H]. wf_split H. apply (twf_tset _ N.eqb_eq). exact Hse.
    + wf_split H. apply (twf_tset _ N.eqb_eq). exact Hse.
  - (* PSetSeed *) unfold p_set_seed. destruct (tget N.eqb id (seeding s)) as [[sc p0]|].
    + destruct (negb (policy_eqb p0 p)); [|exact H]. wf_split H. apply (twf_tset _ N.eqb_eq). exact Hse.
    + wf_split H. apply (twf_tset _ N.eqb_eq). exact Hse.
  - (* PUnfollow *) wf_split H. apply twf_tdel. exact Hfo.
  - (* PUnseed *) wf_split H. apply twf_tdel. exact Hse.
  - (* PUnblockRid *) unfold p_unblock_rid. destruct (tget N.eqb id (seeding s)) as [[sc [|]]|]; try exact H.
    wf_split H. apply twf_tdel. exact Hse.
  - (* PUnblockNid *) unfold p_unblock_nid. destruct (tget N.eqb id (following s)) as [[a [|]]|]; try exact H.
    wf_split H. apply twf_tdel. exact Hfo.
  - exact H.
  - exact H.
  - (* GAnnounced *) unfold g_announced. destruct (N.eqb ts 0); [exact H|].
    destruct (N.ltb I64_MAX ts); [exact H|].
    destruct (tget k3_eqb (gkey nid k) (gossip s)) as [r|] eqn:E.
    + destruct (N.ltb (g_ts r) ts); [|exact H].
      wf_split H.
      * apply (twf_tset _ k3_eqb_spec). exact Hg.
      * destruct (tset_present k3_eqb k3_eqb_spec (gkey nid k)
                    {| g_id := g_id r; g_msg := msg; g_sig := sg; g_ts := ts; g_relay := g_relay r |}
                    r (gossip s) E) as [t1 [t2 [E1 E2]]].
        rewrite E2. rewrite E1 in Hgi. unfold gids in *. rewrite map_app in *. simpl in *. exact Hgi.
    + wf_split H.
      * apply (twf_tset _ k3_eqb_spec). exact Hg.
      * rewrite (tset_absent k3_eqb) by exact E. unfold gids. rewrite map_app. simpl.
        apply NoDup_rev in Hgi. rewrite <- (rev_involutive (_ ++ _)). apply NoDup_rev.
        rewrite rev_app_distr. simpl. constructor; [|exact Hgi].
        rewrite <- in_rev. apply g_next_id_not_in.
  - (* GSetRelay *) unfold g_set_relay. destruct (negb (relay_bindable x)); [exact H|].
    wf_split H.
    + unfold twf. rewrite (keys_map_relay (fun kr => N.eqb (g_id (snd kr)) id)). exact Hg.
    + rewrite (gids_map_relay (fun kr => N.eqb (g_id (snd kr)) id)). exact Hgi.
  - (* GRelays *) unfold g_relays. destruct (N.ltb I64_MAX now); [exact H|].
    wf_split H.
    + unfold twf. rewrite (keys_map_relay (fun kr => relay_eqb (g_relay (snd kr)) Relay)). exact Hg.
    + rewrite (gids_map_relay (fun kr => relay_eqb (g_relay (snd kr)) Relay)). exact Hgi.
  - (* GPrune *) unfold g_prune. destruct (N.ltb I64_MAX cutoff); [exact H|].
    wf_split H.
    + apply NoDup_map_filter. exact Hg.
    + apply gids_filter. exact Hgi.
  - exact H.
  - (* GFiltered *) unfold g_filtered.
    destruct (N.ltb I64_MAX from || N.ltb I64_MAX (if N.leb from to then to else from)); exact H.
Qed.

Theorem exec_wf ops : forall s, wf s -> wf (exec s ops).
Proof. apply (exec_invariant wf). intros s o. apply step_wf. Qed.

Corollary reachable_wf ops : wf (exec empty ops).
Proof. apply exec_wf. apply wf_empty. Qed.

(* ------------------------------------------------------------------ routing: timestamps only increase *)

Notation rget k s := (tget k2_eqb k (routing s)).

(* the relation every step maintains on a routing entry that survives it *)
Lemma r_add_one_mono nds rt rid nid time rt' res k t t' :
  r_add_one nds rt rid nid time = Some (rt', res) ->
  tget k2_eqb k rt = Some t -> tget k2_eqb k rt' = Some t' -> t <= t'.
Proof.
  unfold r_add_one. intros H H0 H1.
  destruct (N.ltb I64_MAX time); [discriminate|].
  destruct (tget k2_eqb (rid, nid) rt) as [t0|] eqn:E.
  - destruct (N.ltb_spec t0 time); inversion H; subst.
    + rewrite (tget_tset k2_eqb k2_eqb_spec) in H1.
      destruct (k2_eqb k (rid, nid)) eqn:Ek.
      * apply k2_eqb_spec in Ek. subst k. rewrite E in H0. inversion H0; inversion H1; subst. lia.
      * rewrite H0 in H1. inversion H1. lia.
    + rewrite H0 in H1. inversion H1. lia.
  - destruct (tmem N.eqb nid nds); inversion H; subst.
    rewrite (tget_tset k2_eqb k2_eqb_spec) in H1.
    destruct (k2_eqb k (rid, nid)) eqn:Ek.
    + apply k2_eqb_spec in Ek. subst k. congruence.
    + rewrite H0 in H1. inversion H1. lia.
Qed.

Lemma r_add_one_keeps nds rt rid nid time rt' res k t :
  r_add_one nds rt rid nid time = Some (rt', res) ->
  tget k2_eqb k rt = Some t -> exists t', tget k2_eqb k rt' = Some t'.
Proof.
  unfold r_add_one. intros H H0.
  destruct (N.ltb I64_MAX time); [discriminate|].
  destruct (tget k2_eqb (rid, nid) rt) as [t0|] eqn:E.
  - destruct (N.ltb t0 time); inversion H; subst; [|eauto].
    rewrite (tget_tset k2_eqb k2_eqb_spec). destruct (k2_eqb k (rid, nid)); eauto.
  - destruct (tmem N.eqb nid nds); inversion H; subst.
    rewrite (tget_tset k2_eqb k2_eqb_spec). destruct (k2_eqb k (rid, nid)); eauto.
Qed.

Lemma r_add_loop_mono nds rids nid time : forall rt acc rt' res k t t',
  r_add_loop nds rt rids nid time acc = inl (rt', res) ->
  tget k2_eqb k rt = Some t -> tget k2_eqb k rt' = Some t' -> t <= t'.
Proof.
  induction rids as [|rid rids IH]; simpl; intros rt acc rt' res k t t' H H0 H1.
  - inversion H; subst. rewrite H0 in H1. inversion H1. lia.
  - destruct (r_add_one nds rt rid nid time) as [[rt1 r1]|] eqn:E; [|discriminate].
    destruct (r_add_one_keeps _ _ _ _ _ _ _ _ _ E H0) as [t1 Ht1].
    pose proof (r_add_one_mono _ _ _ _ _ _ _ _ _ _ E H0 Ht1).
    pose proof (IH _ _ _ _ _ _ _ H Ht1 H1). lia.
Qed.

Lemma tget_fold_tdel_some (rids : list N) nid k t : forall rt : table k2 N,
  tget k2_eqb k (fold_left (fun rt rid => tdel k2_eqb (rid, nid) rt) rids rt) = Some t ->
  tget k2_eqb k rt = Some t.
Proof.
  induction rids as [|r rids IH]; simpl; intros rt H; [exact H|].
  apply IH in H. rewrite (tget_tdel k2_eqb k2_eqb_spec) in H.
  destruct (k2_eqb k (r, nid)); [discriminate|exact H].
Qed.

Lemma tget_filter_some {K V} (keqb : K -> K -> bool) (p : K * V -> bool) (t : table K V) k v :
  tget keqb k (filter p t) = Some v -> twf t ->
  (forall a b, keqb a b = true <-> a = b) -> tget keqb k t = Some v.
Proof.
  intros H Hwf Hspec. apply (In_tget keqb Hspec); [exact Hwf|].
  apply (tget_In keqb Hspec) in H. apply filter_In in H. tauto.
Qed.

(* routing-table effect of each operation, as a relation between the entry before and after *)
Theorem routing_step_monotone s o k t t' :
  wf s -> rget k s = Some t -> rget k (fst (step s o)) = Some t' -> t <= t'.
Proof.
  intros Hwf H0 H1. destruct o; simpl in H1;
    try (rewrite H0 in H1; inversion H1; lia).
  - (* NInsert *) unfold n_insert in H1. destruct (N.ltb I64_MAX ts); simpl in H1.
    + rewrite H0 in H1; inversion H1; lia.
    + destruct (tget N.eqb nid (nodes s)) as [t0|]; [destruct (N.ltb t0 ts)|]; simpl in H1;
        rewrite H0 in H1; inversion H1; lia.
  - (* NRemove *) unfold n_remove in H1. destruct (tmem N.eqb nid (nodes s)); simpl in H1.
    + apply tget_filter_some in H1; [|apply (wf_routing _ Hwf)|exact k2_eqb_spec].
      rewrite H0 in H1; inversion H1; lia.
    + rewrite H0 in H1; inversion H1; lia.
  - (* RAdd *) unfold r_add in H1.
    destruct (r_add_loop (nodes s) (routing s) rids nid time []) as [[rt' res]|e] eqn:E; simpl in H1.
    + eapply r_add_loop_mono; eassumption.
    + rewrite H0 in H1; inversion H1; lia.
  - (* RRemove *) rewrite (tget_tdel k2_eqb k2_eqb_spec) in H1.
    destruct (k2_eqb k (rid, nid)); [discriminate|]. rewrite H0 in H1; inversion H1; lia.
  - (* RRemoveMany *) apply tget_fold_tdel_some in H1. rewrite H0 in H1; inversion H1; lia.
  - (* RPrune *) unfold r_prune in H1.
    destruct (N.ltb I64_MAX match limit with Some l => l | None => I64_MAX end); simpl in H1;
      [rewrite H0 in H1; inversion H1; lia|].
    destruct (N.ltb I64_MAX oldest); simpl in H1; [rewrite H0 in H1; inversion H1; lia|].
    apply tget_filter_some in H1; [|apply (wf_routing _ Hwf)|exact k2_eqb_spec].
    rewrite H0 in H1; inversion H1; lia.
  - (* SSynced *) unfold s_synced in H1. destruct (N.ltb I64_MAX ts); simpl in H1;
      [rewrite H0 in H1; inversion H1; lia|].
    destruct (tget k2_eqb (rid, nid) (sync s)) as [[h t0]|].
    + destruct (N.ltb t0 ts && negb (N.eqb h head)); simpl in H1; rewrite H0 in H1; inversion H1; lia.
    + destruct (tmem N.eqb nid (nodes s)); simpl in H1; rewrite H0 in H1; inversion H1; lia.
  - (* FSet *) unfold f_set in H1. destruct (N.leb U64_LIM ts); simpl in H1;
      [rewrite H0 in H1; inversion H1; lia|].
    destruct (N.ltb I64_MAX ts); simpl in H1; [rewrite H0 in H1; inversion H1; lia|].
    destruct (tget k3_eqb (repo, ns, rf) (refs s)) as [[o t0]|].
    + destruct (N.ltb t0 ts && negb (N.eqb o oid)); simpl in H1; rewrite H0 in H1; inversion H1; lia.
    + simpl in H1; rewrite H0 in H1; inversion H1; lia.
  - unfold p_follow in H1. destruct (tget N.eqb id (following s)) as [[a p]|];
      [destruct (negb (N.eqb a alias))|]; simpl in H1; rewrite H0 in H1; inversion H1; lia.
  - unfold p_set_follow in H1. destruct (tget N.eqb id (following s)) as [[a p0]|];
      [destruct (negb (policy_eqb p0 p))|]; simpl in H1; rewrite H0 in H1; inversion H1; lia.
  - unfold p_seed in H1. destruct (tget N.eqb id (seeding s)) as [[a p0]|];
      [destruct (negb (scope_eqb a sc))|]; simpl in H1; rewrite H0 in H1; inversion H1; lia.
  - unfold p_set_seed in H1. destruct (tget N.eqb id (seeding s)) as [[a p0]|];
      [destruct (negb (policy_eqb p0 p))|]; simpl in H1; rewrite H0 in H1; inversion H1; lia.
  - unfold p_unblock_rid in H1. destruct (tget N.eqb id (seeding s)) as [[a [|]]|];
      simpl in H1; rewrite H0 in H1; inversion H1; lia.
  - unfold p_unblock_nid in H1. destruct (tget N.eqb id (following s)) as [[a [|]]|];
      simpl in H1; rewrite H0 in H1; inversion H1; lia.
  - unfold g_announced in H1. destruct (N.eqb ts 0); simpl in H1; [rewrite H0 in H1; inversion H1; lia|].
    destruct (N.ltb I64_MAX ts); simpl in H1; [rewrite H0 in H1; inversion H1; lia|].
    destruct (tget k3_eqb (gkey nid k0) (gossip s)) as [r|]; [destruct (N.ltb (g_ts r) ts)|];
      simpl in H1; rewrite H0 in H1; inversion H1; lia.
  - unfold g_set_relay in H1. destruct (negb (relay_bindable x)); simpl in H1;
      rewrite H0 in H1; inversion H1; lia.
  - unfold g_relays in H1. destruct (N.ltb I64_MAX now); simpl in H1; rewrite H0 in H1; inversion H1; lia.
  - unfold g_prune in H1. destruct (N.ltb I64_MAX cutoff); simpl in H1; rewrite H0 in H1; inversion H1; lia.
  - unfold g_filtered in H1.
    destruct (N.ltb I64_MAX from || N.ltb I64_MAX (if N.leb from to then to else from)); simpl in H1;
      rewrite H0 in H1; inversion H1; lia.
Qed.

(* the entry [k] exists after every step of the run *)
Fixpoint present_along (k : k2) (s : state) (ops : list op) : Prop :=
  match ops with
  | [] => True
  | o :: rest => rget k (fst (step s o)) <> None /\ present_along k (fst (step s o)) rest
  end.

Theorem routing_ts_monotone ops : forall s k t,
  wf s -> rget k s = Some t -> present_along k s ops ->
  exists t', rget k (exec s ops) = Some t' /\ t <= t'.
Proof.
  induction ops as [|o ops IH]; intros s k t Hwf H0 Hp.
  - exists t. split; [exact H0|lia].
  - destruct Hp as [Hne Hp]. rewrite exec_cons.
    destruct (rget k (fst (step s o))) as [t1|] eqn:E1; [|congruence].
    pose proof (routing_step_monotone s o k t t1 Hwf H0 E1) as Hle.
    destruct (IH (fst (step s o)) k t1 (step_wf s o Hwf) E1 Hp) as [t' [Ht' Hle']].
    exists t'. split; [exact Ht'|lia].
Qed.

(* ------------------------------------------------------------------ sorting, firstnN *)

Section Sorting.
  Context {A : Type}.
  Variable le : A -> A -> bool.
  Hypothesis le_total : forall a b, le a b = false -> le b a = true.
  Hypothesis le_trans : forall a b c, le a b = true -> le b c = true -> le a c = true.

  Lemma ins_by_perm x l : Permutation (ins_by le x l) (x :: l).
  Proof.
    induction l as [|y l IH]; simpl; [apply Permutation_refl|].
    destruct (le x y); [apply Permutation_refl|].
    eapply Permutation_trans; [apply perm_skip; exact IH|apply perm_swap].
  Qed.

  Lemma sort_by_perm l : Permutation (sort_by le l) l.
  Proof.
    induction l as [|x l IH]; simpl; [apply Permutation_refl|].
    eapply Permutation_trans; [apply ins_by_perm|apply perm_skip; exact IH].
  Qed.

  Lemma ins_by_sorted x l :
    StronglySorted (fun a b => le a b = true) l -> StronglySorted (fun a b => le a b = true) (ins_by le x l).
  Proof.
    induction l as [|y l IH]; simpl; intros H.
    - constructor; [constructor|constructor].
    - inversion H as [|? ? Hs Hall]; subst. destruct (le x y) eqn:E.
      + constructor; [exact H|]. constructor; [exact E|].
        eapply Forall_impl; [|exact Hall]. simpl. intros a Ha. eapply le_trans; eassumption.
      + constructor; [apply IH; exact Hs|].
        assert (Hp := ins_by_perm x l).
        apply (Permutation_Forall (Permutation_sym Hp)).
        constructor; [apply le_total; exact E|exact Hall].
  Qed.

  Lemma sort_by_sorted l : StronglySorted (fun a b => le a b = true) (sort_by le l).
  Proof.
    induction l as [|x l IH]; simpl; [constructor|]. apply ins_by_sorted. exact IH.
  Qed.

  Lemma sorted_app_le (l1 l2 : list A) x y :
    StronglySorted (fun a b => le a b = true) (l1 ++ l2) -> In x l1 -> In y l2 -> le x y = true.
  Proof.
    induction l1 as [|a l1 IH]; simpl; intros H Hx Hy; [tauto|].
    inversion H as [|? ? Hs Hall]; subst. destruct Hx as [->|Hx].
    - rewrite Forall_forall in Hall. apply Hall. apply in_or_app. right. exact Hy.
    - apply IH; assumption.
  Qed.
End Sorting.

Fixpoint skipnN {A} (n : N) (l : list A) : list A :=
  match l with
  | [] => []
  | x :: l' => if N.eqb n 0 then l else skipnN (N.pred n) l'
  end.

Lemma firstnN_skipnN {A} (l : list A) : forall n, firstnN n l ++ skipnN n l = l.
Proof.
  induction l as [|x l IH]; simpl; intros n; [reflexivity|].
  destruct (N.eqb n 0); simpl; [reflexivity|]. rewrite IH. reflexivity.
Qed.

Lemma firstnN_In {A} (l : list A) : forall n x, In x (firstnN n l) -> In x l.
Proof.
  intros n x H. rewrite <- (firstnN_skipnN l n). apply in_or_app. left. exact H.
Qed.

Lemma firstnN_length {A} (l : list A) : forall n, lenN (firstnN n l) <= n.
Proof.
  unfold lenN. induction l as [|x l IH]; simpl; intros n; [lia|].
  destruct (N.eqb_spec n 0); simpl; [lia|]. specialize (IH (N.pred n)). lia.
Qed.

Lemma firstnN_all {A} (l : list A) : forall n, lenN l <= n -> firstnN n l = l.
Proof.
  unfold lenN. induction l as [|x l IH]; simpl; intros n H; [reflexivity|].
  destruct (N.eqb_spec n 0); [lia|]. rewrite IH; [reflexivity|lia].
Qed.

Lemma filter_length_split {A} (p : A -> bool) l :
  length l = (length (filter p l) + length (filter (fun x => negb (p x)) l))%nat.
Proof.
  induction l as [|x l IH]; simpl; [reflexivity|].
  destruct (p x); simpl; lia.
Qed.

(* ------------------------------------------------------------------ routing: prune *)

Definition ts_le (a b : k2 * N) : bool := N.leb (snd a) (snd b).

Lemma ts_le_total a b : ts_le a b = false -> ts_le b a = true.
Proof. unfold ts_le. intros H. apply N.leb_gt in H. apply N.leb_le. lia. Qed.
Lemma ts_le_trans a b c : ts_le a b = true -> ts_le b c = true -> ts_le a c = true.
Proof. unfold ts_le. rewrite !N.leb_le. lia. Qed.

Definition prune_p (sel : list (k2 * N)) (ignore : N) (k : k2) : bool :=
  negb (negb (N.eqb (snd k) ignore) && tmem k2_eqb k sel).

Lemma r_prune_keep_p sel ignore r : r_prune_keep sel ignore r = prune_p sel ignore (fst r).
Proof. reflexivity. Qed.

Lemma filter_ext_keep sel ignore (rt : table k2 N) :
  filter (r_prune_keep sel ignore) rt = filter (fun kv => prune_p sel ignore (fst kv)) rt.
Proof. apply filter_ext. intros r. apply r_prune_keep_p. Qed.

Lemma sel_sub rt oldest lim x :
  In x (r_prune_selected rt oldest lim) -> In x rt /\ snd x < oldest.
Proof.
  unfold r_prune_selected. intros H. apply firstnN_In in H.
  apply (Permutation_in _ (sort_by_perm _ _)) in H. apply filter_In in H.
  destruct H as [H1 H2]. apply N.ltb_lt in H2. tauto.
Qed.

Lemma tmem_sel_in (sel : list (k2 * N)) k :
  tmem k2_eqb k sel = true -> exists t, In (k, t) sel.
Proof.
  unfold tmem. destruct (tget k2_eqb k sel) as [t|] eqn:E; [|discriminate].
  intros _. exists t. apply (tget_In k2_eqb k2_eqb_spec). exact E.
Qed.

Lemma in_sel_tmem (sel : list (k2 * N)) k t : In (k, t) sel -> tmem k2_eqb k sel = true.
Proof.
  intros H. apply (tmem_tget k2_eqb). apply (tget_in_keys k2_eqb k2_eqb_spec).
  apply in_map_iff. exists (k, t). auto.
Qed.

Section PruneSpec.
  Variables (s : state) (oldest : N) (limit : option N) (ignore : N).
  Let lim := match limit with Some l => l | None => I64_MAX end.
  Let sel := r_prune_selected (routing s) oldest lim.
  Let rt' := filter (r_prune_keep sel ignore) (routing s).
  Hypothesis Hwf : wf s.

  Lemma prune_get k : tget k2_eqb k rt' = if prune_p sel ignore k then rget k s else None.
  Proof.
    unfold rt'. rewrite filter_ext_keep. apply (tget_filter_key k2_eqb k2_eqb_spec).
  Qed.

  (* the local node's entries are never removed *)
  Lemma prune_spares_local rid t : rget (rid, ignore) s = Some t -> tget k2_eqb (rid, ignore) rt' = Some t.
  Proof.
    intros H. rewrite prune_get. unfold prune_p. simpl. rewrite N.eqb_refl. simpl. exact H.
  Qed.

  (* nothing is added or modified *)
  Lemma prune_survivors k t : tget k2_eqb k rt' = Some t -> rget k s = Some t.
  Proof. rewrite prune_get. destruct (prune_p sel ignore k); [tauto|discriminate]. Qed.

  Lemma prune_removed_selected k t :
    rget k s = Some t -> tget k2_eqb k rt' = None -> snd k <> ignore /\ In (k, t) sel.
  Proof.
    intros H0 H1. rewrite prune_get in H1. unfold prune_p in H1.
    destruct (N.eqb_spec (snd k) ignore) as [E|E]; simpl in H1; [congruence|].
    destruct (tmem k2_eqb k sel) eqn:Em; simpl in H1; [|congruence].
    split; [exact E|]. apply tmem_sel_in in Em. destruct Em as [t0 Hin].
    pose proof (sel_sub _ _ _ _ Hin) as [Hrt _].
    apply (In_tget k2_eqb k2_eqb_spec) in Hrt; [|apply (wf_routing _ Hwf)].
    rewrite H0 in Hrt. inversion Hrt; subst. exact Hin.
  Qed.

  (* only entries older than the cutoff, of other nodes, are removed *)
  Lemma prune_removed_old k t :
    rget k s = Some t -> tget k2_eqb k rt' = None -> t < oldest /\ snd k <> ignore.
  Proof.
    intros H0 H1. destruct (prune_removed_selected k t H0 H1) as [E Hin].
    pose proof (sel_sub _ _ _ _ Hin) as [_ Hlt]. simpl in Hlt. tauto.
  Qed.

  (* at most `limit` entries are removed, and the count returned is the number removed *)
  Lemma prune_count : lenN (routing s) - lenN rt' <= lim /\ lenN rt' <= lenN (routing s).
  Proof.
    pose proof (filter_length_split (r_prune_keep sel ignore) (routing s)) as Hsplit.
    fold rt' in Hsplit.
    set (R := filter (fun x => negb (r_prune_keep sel ignore x)) (routing s)) in *.
    assert (HR : (length R <= length sel)%nat).
    { rewrite <- (map_length fst R), <- (map_length fst sel).
      apply NoDup_incl_length.
      - apply (NoDup_map_filter (fun x => negb (r_prune_keep sel ignore x))). apply (wf_routing _ Hwf).
      - intros k Hk. apply in_map_iff in Hk. destruct Hk as [[k0 t0] [E Hin]]. simpl in E. subst k0.
        apply filter_In in Hin. destruct Hin as [_ Hn]. unfold r_prune_keep in Hn. simpl in Hn.
        rewrite negb_involutive in Hn. apply andb_true_iff in Hn. destruct Hn as [_ Hm].
        apply tmem_sel_in in Hm. destruct Hm as [t1 H1]. apply in_map_iff. exists (k, t1). auto. }
    pose proof (firstnN_length (sort_by (fun a b => N.leb (snd a) (snd b))
                   (filter (fun r => N.ltb (snd r) oldest) (routing s))) lim) as Hl.
    fold (r_prune_selected (routing s) oldest lim) in Hl. fold sel in Hl.
    unfold lenN in *. lia.
  Qed.

  (* oldest first: whatever is removed is no newer than any prunable entry that stays *)
  Lemma prune_oldest_first k t k' t' :
    rget k s = Some t -> tget k2_eqb k rt' = None ->
    tget k2_eqb k' rt' = Some t' -> snd k' <> ignore -> t' < oldest -> t <= t'.
  Proof.
    intros H0 H1 H2 Hni Hlt.
    destruct (prune_removed_selected k t H0 H1) as [_ Hin].
    pose proof (prune_survivors k' t' H2) as H2'.
    rewrite prune_get in H2. unfold prune_p in H2.
    destruct (N.eqb_spec (snd k') ignore) as [E|_]; [contradiction|]. simpl in H2.
    destruct (tmem k2_eqb k' sel) eqn:Em; simpl in H2; [discriminate|].
    set (sorted := sort_by (fun a b => N.leb (snd a) (snd b))
                     (filter (fun r => N.ltb (snd r) oldest) (routing s))).
    assert (Hs : In (k', t') sorted).
    { apply (Permutation_in _ (Permutation_sym (sort_by_perm _ _))). apply filter_In. split.
      - apply (tget_In k2_eqb k2_eqb_spec). exact H2'.
      - simpl. apply N.ltb_lt. exact Hlt. }
    rewrite <- (firstnN_skipnN sorted lim) in Hs. apply in_app_or in Hs.
    destruct Hs as [Hs|Hs].
    - apply in_sel_tmem in Hs. unfold sel, r_prune_selected in Em. unfold sorted in Hs.
      rewrite Hs in Em. discriminate.
    - assert (Hle : ts_le (k, t) (k', t') = true).
      { apply (sorted_app_le ts_le (firstnN lim sorted) (skipnN lim sorted)).
        - rewrite firstnN_skipnN. apply (sort_by_sorted ts_le ts_le_total ts_le_trans).
        - exact Hin.
        - exact Hs. }
      unfold ts_le in Hle. simpl in Hle. apply N.leb_le in Hle. exact Hle.
  Qed.

  (* when the limit is not smaller than the number of prunable entries, all of the
     other nodes' prunable entries go *)
  Lemma prune_complete k t :
    lenN (filter (fun r => N.ltb (snd r) oldest) (routing s)) <= lim ->
    rget k s = Some t -> t < oldest -> snd k <> ignore -> tget k2_eqb k rt' = None.
  Proof.
    intros Hlen H0 Hlt Hni. rewrite prune_get. unfold prune_p.
    destruct (N.eqb_spec (snd k) ignore) as [E|_]; [contradiction|]. simpl.
    assert (Hm : tmem k2_eqb k sel = true).
    { apply (in_sel_tmem _ _ t). unfold sel, r_prune_selected.
      rewrite firstnN_all.
      - apply (Permutation_in _ (Permutation_sym (sort_by_perm _ _))). apply filter_In. split.
        + apply (tget_In k2_eqb k2_eqb_spec). exact H0.
        + simpl. apply N.ltb_lt. exact Hlt.
      - unfold lenN in *. rewrite (Permutation_length (sort_by_perm _ _)). exact Hlen. }
    rewrite Hm. reflexivity.
  Qed.
End PruneSpec.

Theorem prune_spec s oldest limit ignore :
  wf s ->
  let lim := match limit with Some l => l | None => I64_MAX end in
  let sr := step s (RPrune oldest limit ignore) in
  match snd sr with
  | RErr e => fst sr = s /\ (I64_MAX < lim /\ e = EOverflow \/ lim <= I64_MAX /\ I64_MAX < oldest /\ e = EBind)
  | RNum n =>
      lim <= I64_MAX /\ oldest <= I64_MAX /\
      (forall rid t, rget (rid, ignore) s = Some t -> rget (rid, ignore) (fst sr) = Some t) /\
      (forall k t, rget k (fst sr) = Some t -> rget k s = Some t) /\
      (forall k t, rget k s = Some t -> rget k (fst sr) = None -> t < oldest /\ snd k <> ignore) /\
      n = lenN (routing s) - lenN (routing (fst sr)) /\ n <= lim /\
      lenN (routing (fst sr)) <= lenN (routing s) /\
      (forall k t k' t', rget k s = Some t -> rget k (fst sr) = None ->
          rget k' (fst sr) = Some t' -> snd k' <> ignore -> t' < oldest -> t <= t') /\
      (lenN (filter (fun r => N.ltb (snd r) oldest) (routing s)) <= lim ->
         forall k t, rget k s = Some t -> t < oldest -> snd k <> ignore -> rget k (fst sr) = None) /\
      nodes (fst sr) = nodes s /\ sync (fst sr) = sync s /\ refs (fst sr) = refs s /\
      following (fst sr) = following s /\ seeding (fst sr) = seeding s /\ gossip (fst sr) = gossip s
  | _ => False
  end.
Proof.
  intros Hwf lim sr. unfold sr. simpl. unfold r_prune. fold lim.
  destruct (N.ltb_spec I64_MAX lim) as [H1|H1]; simpl.
  - split; [reflexivity|]. left. split; [exact H1|reflexivity].
  - destruct (N.ltb_spec I64_MAX oldest) as [H2|H2]; simpl.
    + split; [reflexivity|]. right. repeat split; assumption.
    + split; [exact H1|]. split; [exact H2|].
      split; [apply prune_spares_local|].
      split; [apply prune_survivors|].
      split; [apply prune_removed_old; exact Hwf|].
      split; [reflexivity|].
      pose proof (prune_count s oldest limit ignore Hwf) as [Hc1 Hc2].
      split; [exact Hc1|]. split; [exact Hc2|].
      split; [apply prune_oldest_first; exact Hwf|].
      split; [intros Hlen k t; apply prune_complete; exact Hlen|].
      repeat split; reflexivity.
Qed.

(* ------------------------------------------------------------------ frames: which operation writes which table *)

Ltac unfold_step :=
  unfold n_insert, n_remove, r_add, r_remove, r_remove_many, r_prune, r_entry, r_len, r_count,
         s_synced, f_set, f_get, f_delete, f_count, p_follow, p_set_follow, p_seed, p_set_seed,
         p_unfollow, p_unseed, p_unblock_rid, p_unblock_nid, p_follow_policy, p_seed_policy,
         g_announced, g_set_relay, g_relays, g_prune, g_last, g_filtered.

Ltac break_match :=
  repeat match goal with
         | |- context [match ?x with _ => _ end] => destruct x
         end.

Ltac frame := intros s o; destruct o; try exact I; simpl; unfold_step; break_match; reflexivity.

Lemma frame_routing : forall s o,
  match o with
  | NRemove _ | RAdd _ _ _ | RRemove _ _ | RRemoveMany _ _ | RPrune _ _ _ => True
  | _ => routing (fst (step s o)) = routing s
  end.
Proof. frame. Qed.

Lemma frame_sync : forall s o,
  match o with
  | NRemove _ | SSynced _ _ _ _ => True
  | _ => sync (fst (step s o)) = sync s
  end.
Proof. frame. Qed.

Lemma frame_refs : forall s o,
  match o with
  | FSet _ _ _ _ _ | FDelete _ _ _ => True
  | _ => refs (fst (step s o)) = refs s
  end.
Proof. frame. Qed.

Lemma frame_following : forall s o,
  match o with
  | PFollow _ _ | PSetFollow _ _ | PUnfollow _ | PUnblockNid _ => True
  | _ => following (fst (step s o)) = following s
  end.
Proof. frame. Qed.

Lemma frame_seeding : forall s o,
  match o with
  | PSeed _ _ | PSetSeed _ _ | PUnseed _ | PUnblockRid _ => True
  | _ => seeding (fst (step s o)) = seeding s
  end.
Proof. frame. Qed.

Lemma frame_gossip : forall s o,
  match o with
  | GAnnounced _ _ _ _ _ | GSetRelay _ _ | GRelays _ | GPrune _ => True
  | _ => gossip (fst (step s o)) = gossip s
  end.
Proof. frame. Qed.

(* ------------------------------------------------------------------ sync status / cached refs *)

(* a (value, timestamp) row may only move to a strictly newer timestamp AND a different value *)
Definition newer_and_different (old new : N * N) : Prop :=
  new = old \/ (snd old < snd new /\ fst old <> fst new).

Theorem sync_step_rule s o k v v' :
  wf s -> tget k2_eqb k (sync s) = Some v -> tget k2_eqb k (sync (fst (step s o))) = Some v' ->
  newer_and_different v v'.
Proof.
  intros Hwf H0 H1. pose proof (frame_sync s o) as Hf.
  destruct o; try (rewrite Hf in H1; rewrite H0 in H1; inversion H1; left; reflexivity).
  - (* NRemove *) simpl in H1. unfold n_remove in H1. destruct (tmem N.eqb nid (nodes s)); simpl in H1.
    + apply tget_filter_some in H1; [|apply (wf_sync _ Hwf)|exact k2_eqb_spec].
      rewrite H0 in H1. inversion H1. left. reflexivity.
    + rewrite H0 in H1. inversion H1. left. reflexivity.
  - (* SSynced *) simpl in H1. unfold s_synced in H1.
    destruct (N.ltb I64_MAX ts); simpl in H1; [rewrite H0 in H1; inversion H1; left; reflexivity|].
    destruct (tget k2_eqb (rid, nid) (sync s)) as [[h t]|] eqn:E.
    + destruct (N.ltb_spec t ts) as [Hlt|Hge]; simpl in H1.
      * destruct (N.eqb_spec h head) as [Eh|Eh]; simpl in H1.
        -- rewrite H0 in H1. inversion H1. left. reflexivity.
        -- rewrite (tget_tset k2_eqb k2_eqb_spec) in H1.
           destruct (k2_eqb k (rid, nid)) eqn:Ek.
           ++ apply k2_eqb_spec in Ek. subst k. rewrite E in H0. inversion H0; inversion H1; subst.
              right. simpl. split; assumption.
           ++ rewrite H0 in H1. inversion H1. left. reflexivity.
      * rewrite H0 in H1. inversion H1. left. reflexivity.
    + destruct (tmem N.eqb nid (nodes s)); simpl in H1.
      * rewrite (tget_tset k2_eqb k2_eqb_spec) in H1.
        destruct (k2_eqb k (rid, nid)) eqn:Ek.
        -- apply k2_eqb_spec in Ek. subst k. congruence.
        -- rewrite H0 in H1. inversion H1. left. reflexivity.
      * rewrite H0 in H1. inversion H1. left. reflexivity.
Qed.

Theorem refs_step_rule s o k v v' :
  wf s -> tget k3_eqb k (refs s) = Some v -> tget k3_eqb k (refs (fst (step s o))) = Some v' ->
  newer_and_different v v'.
Proof.
  intros Hwf H0 H1. pose proof (frame_refs s o) as Hf.
  destruct o; try (rewrite Hf in H1; rewrite H0 in H1; inversion H1; left; reflexivity).
  - (* FSet *) simpl in H1. unfold f_set in H1.
    destruct (N.leb U64_LIM ts); simpl in H1; [rewrite H0 in H1; inversion H1; left; reflexivity|].
    destruct (N.ltb I64_MAX ts); simpl in H1; [rewrite H0 in H1; inversion H1; left; reflexivity|].
    destruct (tget k3_eqb (repo, ns, rf) (refs s)) as [[o t]|] eqn:E.
    + destruct (N.ltb_spec t ts) as [Hlt|Hge]; simpl in H1.
      * destruct (N.eqb_spec o oid) as [Eh|Eh]; simpl in H1.
        -- rewrite H0 in H1. inversion H1. left. reflexivity.
        -- rewrite (tget_tset k3_eqb k3_eqb_spec) in H1.
           destruct (k3_eqb k (repo, ns, rf)) eqn:Ek.
           ++ apply k3_eqb_spec in Ek. subst k. rewrite E in H0. inversion H0; inversion H1; subst.
              right. simpl. split; assumption.
           ++ rewrite H0 in H1. inversion H1. left. reflexivity.
      * rewrite H0 in H1. inversion H1. left. reflexivity.
    + simpl in H1. rewrite (tget_tset k3_eqb k3_eqb_spec) in H1.
      destruct (k3_eqb k (repo, ns, rf)) eqn:Ek.
      * apply k3_eqb_spec in Ek. subst k. congruence.
      * rewrite H0 in H1. inversion H1. left. reflexivity.
  - (* FDelete *) simpl in H1. rewrite (tget_tdel k3_eqb k3_eqb_spec) in H1.
    destruct (k3_eqb k (repo, ns, rf)); [discriminate|]. rewrite H0 in H1. inversion H1. left. reflexivity.
Qed.

(* along a run during which the row is never deleted, the timestamp never
   decreases, and the value differs from the original whenever the timestamp moved *)
Fixpoint sync_present_along (k : k2) (s : state) (ops : list op) : Prop :=
  match ops with
  | [] => True
  | o :: rest => tget k2_eqb k (sync (fst (step s o))) <> None /\ sync_present_along k (fst (step s o)) rest
  end.
Fixpoint refs_present_along (k : k3) (s : state) (ops : list op) : Prop :=
  match ops with
  | [] => True
  | o :: rest => tget k3_eqb k (refs (fst (step s o))) <> None /\ refs_present_along k (fst (step s o)) rest
  end.

Theorem sync_ts_monotone ops : forall s k v,
  wf s -> tget k2_eqb k (sync s) = Some v -> sync_present_along k s ops ->
  exists v', tget k2_eqb k (sync (exec s ops)) = Some v' /\ (v' = v \/ snd v < snd v').
Proof.
  induction ops as [|o ops IH]; intros s k v Hwf H0 Hp.
  - exists v. split; [exact H0|left; reflexivity].
  - destruct Hp as [Hne Hp]. rewrite exec_cons.
    destruct (tget k2_eqb k (sync (fst (step s o)))) as [v1|] eqn:E1; [|congruence].
    pose proof (sync_step_rule s o k v v1 Hwf H0 E1) as Hr.
    destruct (IH (fst (step s o)) k v1 (step_wf s o Hwf) E1 Hp) as [v' [Hv' Hle']].
    exists v'. split; [exact Hv'|].
    destruct Hr as [->|[Hlt _]]; [exact Hle'|].
    right. destruct Hle' as [->|Hlt']; [exact Hlt|lia].
Qed.

Theorem refs_ts_monotone ops : forall s k v,
  wf s -> tget k3_eqb k (refs s) = Some v -> refs_present_along k s ops ->
  exists v', tget k3_eqb k (refs (exec s ops)) = Some v' /\ (v' = v \/ snd v < snd v').
Proof.
  induction ops as [|o ops IH]; intros s k v Hwf H0 Hp.
  - exists v. split; [exact H0|left; reflexivity].
  - destruct Hp as [Hne Hp]. rewrite exec_cons.
    destruct (tget k3_eqb k (refs (fst (step s o)))) as [v1|] eqn:E1; [|congruence].
    pose proof (refs_step_rule s o k v v1 Hwf H0 E1) as Hr.
    destruct (IH (fst (step s o)) k v1 (step_wf s o Hwf) E1 Hp) as [v' [Hv' Hle']].
    exists v'. split; [exact Hv'|].
    destruct Hr as [->|[Hlt _]]; [exact Hle'|].
    right. destruct Hle' as [->|Hlt']; [exact Hlt|lia].
Qed.

(* exact effect and return value of the two upserts *)
Theorem synced_spec s rid nid head ts :
  let sr := step s (SSynced rid nid head ts) in
  let old := tget k2_eqb (rid, nid) (sync s) in
  match snd sr with
  | RErr e => fst sr = s /\ (I64_MAX < ts /\ e = EBind \/
                             ts <= I64_MAX /\ old = None /\ tmem N.eqb nid (nodes s) = false /\ e = EFk)
  | RBool true =>
      ts <= I64_MAX /\
      (old = None /\ tmem N.eqb nid (nodes s) = true \/ exists h t, old = Some (h, t) /\ t < ts /\ h <> head) /\
      (forall k, tget k2_eqb k (sync (fst sr)) =
                 if k2_eqb k (rid, nid) then Some (head, ts) else tget k2_eqb k (sync s))
  | RBool false =>
      fst sr = s /\ exists h t, old = Some (h, t) /\ (ts <= t \/ h = head)
  | _ => False
  end.
Proof.
  simpl. unfold s_synced.
  destruct (N.ltb_spec I64_MAX ts) as [Hb|Hb]; simpl.
  - split; [reflexivity|]. left. split; [exact Hb|reflexivity].
  - destruct (tget k2_eqb (rid, nid) (sync s)) as [[h t]|] eqn:E.
    + destruct (N.ltb_spec t ts) as [Hlt|Hge]; simpl.
      * destruct (N.eqb_spec h head) as [Eh|Eh]; simpl.
        -- split; [reflexivity|]. exists h, t. split; [reflexivity|]. right. exact Eh.
        -- split; [exact Hb|]. split; [right; exists h, t; auto|].
           intros k. apply (tget_tset k2_eqb k2_eqb_spec).
      * split; [reflexivity|]. exists h, t. split; [reflexivity|]. left. exact Hge.
    + destruct (tmem N.eqb nid (nodes s)) eqn:Em; simpl.
      * split; [exact Hb|]. split; [left; auto|]. intros k. apply (tget_tset k2_eqb k2_eqb_spec).
      * split; [reflexivity|]. right. auto.
Qed.

Theorem fset_spec s repo ns rf oid ts :
  let sr := step s (FSet repo ns rf oid ts) in
  let old := tget k3_eqb (repo, ns, rf) (refs s) in
  match snd sr with
  | RPanic p => fst sr = s /\ U64_LIM <= ts /\ p = PLocalTimeMillis
  | RErr e => fst sr = s /\ ts < U64_LIM /\ I64_MAX < ts /\ e = ETimestamp
  | RBool true =>
      ts <= I64_MAX /\
      (old = None \/ exists o t, old = Some (o, t) /\ t < ts /\ o <> oid) /\
      (forall k, tget k3_eqb k (refs (fst sr)) =
                 if k3_eqb k (repo, ns, rf) then Some (oid, ts) else tget k3_eqb k (refs s))
  | RBool false =>
      fst sr = s /\ exists o t, old = Some (o, t) /\ (ts <= t \/ o = oid)
  | _ => False
  end.
Proof.
  simpl. unfold f_set.
  destruct (N.leb_spec U64_LIM ts) as [Hp|Hp]; simpl.
  - split; [reflexivity|]. split; [exact Hp|reflexivity].
  - destruct (N.ltb_spec I64_MAX ts) as [Hb|Hb]; simpl.
    + repeat split; assumption.
    + destruct (tget k3_eqb (repo, ns, rf) (refs s)) as [[o t]|] eqn:E.
      * destruct (N.ltb_spec t ts) as [Hlt|Hge]; simpl.
        -- destruct (N.eqb_spec o oid) as [Eh|Eh]; simpl.
           ++ split; [reflexivity|]. exists o, t. split; [reflexivity|]. right. exact Eh.
           ++ split; [exact Hb|]. split; [right; exists o, t; auto|].
              intros k. apply (tget_tset k3_eqb k3_eqb_spec).
        -- split; [reflexivity|]. exists o, t. split; [reflexivity|]. left. exact Hge.
      * simpl. split; [exact Hb|]. split; [left; reflexivity|].
        intros k. apply (tget_tset k3_eqb k3_eqb_spec).
Qed.

(* ------------------------------------------------------------------ policies: last write per column *)

Definition alias_of (s : state) (id : N) : option N := option_map fst (tget N.eqb id (following s)).
Definition fpolicy_of (s : state) (id : N) : option policy := option_map snd (tget N.eqb id (following s)).
Definition scope_of (s : state) (id : N) : option scope := option_map fst (tget N.eqb id (seeding s)).
Definition spolicy_of (s : state) (id : N) : option policy := option_map snd (tget N.eqb id (seeding s)).

(* operations that write the given column of row [id], or delete the row *)
Definition writes_alias (id : N) (o : op) : bool :=
  match o with PFollow i _ | PUnfollow i | PUnblockNid i => N.eqb i id | _ => false end.
Definition writes_fpolicy (id : N) (o : op) : bool :=
  match o with PSetFollow i _ | PUnfollow i | PUnblockNid i => N.eqb i id | _ => false end.
Definition writes_scope (id : N) (o : op) : bool :=
  match o with PSeed i _ | PUnseed i | PUnblockRid i => N.eqb i id | _ => false end.
Definition writes_spolicy (id : N) (o : op) : bool :=
  match o with PSetSeed i _ | PUnseed i | PUnblockRid i => N.eqb i id | _ => false end.

Ltac tset_other := rewrite (tget_tset N.eqb N.eqb_eq).
Ltac tdel_other := rewrite (tget_tdel N.eqb N.eqb_eq).

Lemma alias_kept s o id a :
  writes_alias id o = false -> alias_of s id = Some a -> alias_of (fst (step s o)) id = Some a.
Proof.
  unfold alias_of. intros Hw H. pose proof (frame_following s o) as Hf.
  destruct o; try (rewrite Hf; exact H); simpl in Hw |- *.
  - rewrite N.eqb_sym in Hw. unfold p_follow.
    destruct (tget N.eqb id0 (following s)) as [[a0 p0]|]; [destruct (negb (N.eqb a0 alias))|]; simpl;
      try exact H; tset_other; rewrite Hw; exact H.
  - unfold p_set_follow.
    destruct (tget N.eqb id0 (following s)) as [[a0 p0]|] eqn:E; [destruct (negb (policy_eqb p0 p))|]; simpl;
      try exact H; tset_other; destruct (N.eqb_spec id id0) as [->|_]; try exact H.
    + rewrite E in H. simpl in H |- *. exact H.
    + rewrite E in H. discriminate.
  - rewrite N.eqb_sym in Hw. tdel_other. rewrite Hw. exact H.
  - rewrite N.eqb_sym in Hw. unfold p_unblock_nid.
    destruct (tget N.eqb id0 (following s)) as [[a0 [|]]|]; simpl; try exact H.
    tdel_other. rewrite Hw. exact H.
Qed.

Lemma fpolicy_kept s o id pv :
  writes_fpolicy id o = false -> fpolicy_of s id = Some pv -> fpolicy_of (fst (step s o)) id = Some pv.
Proof.
  unfold fpolicy_of. intros Hw H. pose proof (frame_following s o) as Hf.
  destruct o; try (rewrite Hf; exact H); simpl in Hw |- *.
  - unfold p_follow.
    destruct (tget N.eqb id0 (following s)) as [[a0 p0]|] eqn:E; [destruct (negb (N.eqb a0 alias))|]; simpl;
      try exact H; tset_other; destruct (N.eqb_spec id id0) as [->|_]; try exact H.
    + rewrite E in H. simpl in H |- *. exact H.
    + rewrite E in H. discriminate.
  - rewrite N.eqb_sym in Hw. unfold p_set_follow.
    destruct (tget N.eqb id0 (following s)) as [[a0 p0]|]; [destruct (negb (policy_eqb p0 p))|]; simpl;
      try exact H; tset_other; rewrite Hw; exact H.
  - rewrite N.eqb_sym in Hw. tdel_other. rewrite Hw. exact H.
  - rewrite N.eqb_sym in Hw. unfold p_unblock_nid.
    destruct (tget N.eqb id0 (following s)) as [[a0 [|]]|]; simpl; try exact H.
    tdel_other. rewrite Hw. exact H.
Qed.

Lemma scope_kept s o id sc :
  writes_scope id o = false -> scope_of s id = Some sc -> scope_of (fst (step s o)) id = Some sc.
Proof.
  unfold scope_of. intros Hw H. pose proof (frame_seeding s o) as Hf.
  destruct o; try (rewrite Hf; exact H); simpl in Hw |- *.
  - rewrite N.eqb_sym in Hw. unfold p_seed.
    destruct (tget N.eqb id0 (seeding s)) as [[a0 p0]|]; [destruct (negb (scope_eqb a0 sc0))|]; simpl;
      try exact H; tset_other; rewrite Hw; exact H.
  - unfold p_set_seed.
    destruct (tget N.eqb id0 (seeding s)) as [[a0 p0]|] eqn:E; [destruct (negb (policy_eqb p0 p))|]; simpl;
      try exact H; tset_other; destruct (N.eqb_spec id id0) as [->|_]; try exact H.
    + rewrite E in H. simpl in H |- *. exact H.
    + rewrite E in H. discriminate.
  - rewrite N.eqb_sym in Hw. tdel_other. rewrite Hw. exact H.
  - rewrite N.eqb_sym in Hw. unfold p_unblock_rid.
    destruct (tget N.eqb id0 (seeding s)) as [[a0 [|]]|]; simpl; try exact H.
    tdel_other. rewrite Hw. exact H.
Qed.

Lemma spolicy_kept s o id pv :
  writes_spolicy id o = false -> spolicy_of s id = Some pv -> spolicy_of (fst (step s o)) id = Some pv.
Proof.
  unfold spolicy_of. intros Hw H. pose proof (frame_seeding s o) as Hf.
  destruct o; try (rewrite Hf; exact H); simpl in Hw |- *.
  - unfold p_seed.
    destruct (tget N.eqb id0 (seeding s)) as [[a0 p0]|] eqn:E; [destruct (negb (scope_eqb a0 sc))|]; simpl;
      try exact H; tset_other; destruct (N.eqb_spec id id0) as [->|_]; try exact H.
    + rewrite E in H. simpl in H |- *. exact H.
    + rewrite E in H. discriminate.
  - rewrite N.eqb_sym in Hw. unfold p_set_seed.
    destruct (tget N.eqb id0 (seeding s)) as [[a0 p0]|]; [destruct (negb (policy_eqb p0 p))|]; simpl;
      try exact H; tset_other; rewrite Hw; exact H.
  - rewrite N.eqb_sym in Hw. tdel_other. rewrite Hw. exact H.
  - rewrite N.eqb_sym in Hw. unfold p_unblock_rid.
    destruct (tget N.eqb id0 (seeding s)) as [[a0 [|]]|]; simpl; try exact H.
    tdel_other. rewrite Hw. exact H.
Qed.

Lemma kept_along (P : state -> Prop) (w : op -> bool) :
  (forall s o, w o = false -> P s -> P (fst (step s o))) ->
  forall ops s, forallb (fun o => negb (w o)) ops = true -> P s -> P (exec s ops).
Proof.
  intros Hk ops. induction ops as [|o ops IH]; intros s Hall H; [exact H|].
  simpl in Hall. apply andb_true_iff in Hall. destruct Hall as [Ho Hall].
  rewrite exec_cons. apply IH; [exact Hall|]. apply Hk; [|exact H].
  destruct (w o); [discriminate|reflexivity].
Qed.

(* the write itself *)
Lemma follow_writes_alias s id a : alias_of (fst (step s (PFollow id a))) id = Some a.
Proof.
  unfold alias_of. simpl. unfold p_follow.
  destruct (tget N.eqb id (following s)) as [[a0 p0]|] eqn:E.
  - destruct (N.eqb_spec a0 a) as [->|Hne]; simpl.
    + rewrite E. reflexivity.
    + tset_other. rewrite N.eqb_refl. reflexivity.
  - simpl. tset_other. rewrite N.eqb_refl. reflexivity.
Qed.

Lemma policy_eqb_spec a b : policy_eqb a b = true <-> a = b.
Proof. destruct a, b; simpl; split; congruence. Qed.
Lemma scope_eqb_spec a b : scope_eqb a b = true <-> a = b.
Proof. destruct a, b; simpl; split; congruence. Qed.

Lemma set_follow_writes_policy s id p : fpolicy_of (fst (step s (PSetFollow id p))) id = Some p.
Proof.
  unfold fpolicy_of. simpl. unfold p_set_follow.
  destruct (tget N.eqb id (following s)) as [[a0 p0]|] eqn:E.
  - destruct (policy_eqb p0 p) eqn:Ep; simpl.
    + apply policy_eqb_spec in Ep. subst. rewrite E. reflexivity.
    + tset_other. rewrite N.eqb_refl. reflexivity.
  - simpl. tset_other. rewrite N.eqb_refl. reflexivity.
Qed.

Lemma seed_writes_scope s id sc : scope_of (fst (step s (PSeed id sc))) id = Some sc.
Proof.
  unfold scope_of. simpl. unfold p_seed.
  destruct (tget N.eqb id (seeding s)) as [[a0 p0]|] eqn:E.
  - destruct (scope_eqb a0 sc) eqn:Ep; simpl.
    + apply scope_eqb_spec in Ep. subst. rewrite E. reflexivity.
    + tset_other. rewrite N.eqb_refl. reflexivity.
  - simpl. tset_other. rewrite N.eqb_refl. reflexivity.
Qed.

Lemma set_seed_writes_policy s id p : spolicy_of (fst (step s (PSetSeed id p))) id = Some p.
Proof.
  unfold spolicy_of. simpl. unfold p_set_seed.
  destruct (tget N.eqb id (seeding s)) as [[a0 p0]|] eqn:E.
  - destruct (policy_eqb p0 p) eqn:Ep; simpl.
    + apply policy_eqb_spec in Ep. subst. rewrite E. reflexivity.
    + tset_other. rewrite N.eqb_refl. reflexivity.
  - simpl. tset_other. rewrite N.eqb_refl. reflexivity.
Qed.

(* last write wins, per column: whatever happened before ([s] is arbitrary) and
   whatever other operations follow, the column holds the value of the last write *)
Theorem policy_last_write_per_column :
  (forall s id a ops, forallb (fun o => negb (writes_alias id o)) ops = true ->
     alias_of (exec s (PFollow id a :: ops)) id = Some a) /\
  (forall s id p ops, forallb (fun o => negb (writes_fpolicy id o)) ops = true ->
     fpolicy_of (exec s (PSetFollow id p :: ops)) id = Some p) /\
  (forall s id sc ops, forallb (fun o => negb (writes_scope id o)) ops = true ->
     scope_of (exec s (PSeed id sc :: ops)) id = Some sc) /\
  (forall s id p ops, forallb (fun o => negb (writes_spolicy id o)) ops = true ->
     spolicy_of (exec s (PSetSeed id p :: ops)) id = Some p).
Proof.
  repeat split; intros; rewrite exec_cons.
  - apply (kept_along (fun s => alias_of s id = Some a) (writes_alias id)); [|assumption|apply follow_writes_alias].
    intros s0 o. apply alias_kept.
  - apply (kept_along (fun s => fpolicy_of s id = Some p) (writes_fpolicy id)); [|assumption|apply set_follow_writes_policy].
    intros s0 o. apply fpolicy_kept.
  - apply (kept_along (fun s => scope_of s id = Some sc) (writes_scope id)); [|assumption|apply seed_writes_scope].
    intros s0 o. apply scope_kept.
  - apply (kept_along (fun s => spolicy_of s id = Some p) (writes_spolicy id)); [|assumption|apply set_seed_writes_policy].
    intros s0 o. apply spolicy_kept.
Qed.

(* the column an upsert does NOT name keeps its value, or gets the schema default on a fresh row *)
Theorem policy_other_column :
  (forall s id a, fpolicy_of (fst (step s (PFollow id a))) id =
                  Some (match fpolicy_of s id with Some p => p | None => Allow end)) /\
  (forall s id p, alias_of (fst (step s (PSetFollow id p))) id =
                  Some (match alias_of s id with Some a => a | None => 0 end)) /\
  (forall s id sc, spolicy_of (fst (step s (PSeed id sc))) id =
                   Some (match spolicy_of s id with Some p => p | None => Allow end)) /\
  (forall s id p, scope_of (fst (step s (PSetSeed id p))) id =
                  Some (match scope_of s id with Some sc => sc | None => Followed end)).
Proof.
  unfold fpolicy_of, alias_of, spolicy_of, scope_of. repeat split; intros; simpl.
  - unfold p_follow. destruct (tget N.eqb id (following s)) as [[a0 p0]|] eqn:E; simpl.
    + destruct (negb (N.eqb a0 a)); simpl; [tset_other; rewrite N.eqb_refl|rewrite E]; reflexivity.
    + tset_other. rewrite N.eqb_refl. reflexivity.
  - unfold p_set_follow. destruct (tget N.eqb id (following s)) as [[a0 p0]|] eqn:E; simpl.
    + destruct (negb (policy_eqb p0 p)); simpl; [tset_other; rewrite N.eqb_refl|rewrite E]; reflexivity.
    + tset_other. rewrite N.eqb_refl. reflexivity.
  - unfold p_seed. destruct (tget N.eqb id (seeding s)) as [[a0 p0]|] eqn:E; simpl.
    + destruct (negb (scope_eqb a0 sc)); simpl; [tset_other; rewrite N.eqb_refl|rewrite E]; reflexivity.
    + tset_other. rewrite N.eqb_refl. reflexivity.
  - unfold p_set_seed. destruct (tget N.eqb id (seeding s)) as [[a0 p0]|] eqn:E; simpl.
    + destruct (negb (policy_eqb p0 p)); simpl; [tset_other; rewrite N.eqb_refl|rewrite E]; reflexivity.
    + tset_other. rewrite N.eqb_refl. reflexivity.
Qed.

(* deletions: the row is gone until the next upsert of that id *)
Definition creates_following (id : N) (o : op) : bool :=
  match o with PFollow i _ | PSetFollow i _ => N.eqb i id | _ => false end.
Definition creates_seeding (id : N) (o : op) : bool :=
  match o with PSeed i _ | PSetSeed i _ => N.eqb i id | _ => false end.

Lemma following_absent_kept s o id :
  creates_following id o = false -> tget N.eqb id (following s) = None ->
  tget N.eqb id (following (fst (step s o))) = None.
Proof.
  intros Hw H. pose proof (frame_following s o) as Hf.
  destruct o; try (rewrite Hf; exact H); simpl in Hw |- *.
  - rewrite N.eqb_sym in Hw. unfold p_follow.
    destruct (tget N.eqb id0 (following s)) as [[a0 p0]|]; [destruct (negb (N.eqb a0 alias))|]; simpl;
      try exact H; tset_other; rewrite Hw; exact H.
  - rewrite N.eqb_sym in Hw. unfold p_set_follow.
    destruct (tget N.eqb id0 (following s)) as [[a0 p0]|]; [destruct (negb (policy_eqb p0 p))|]; simpl;
      try exact H; tset_other; rewrite Hw; exact H.
  - tdel_other. destruct (N.eqb id id0); [reflexivity|exact H].
  - unfold p_unblock_nid. destruct (tget N.eqb id0 (following s)) as [[a0 [|]]|]; simpl; try exact H.
    tdel_other. destruct (N.eqb id id0); [reflexivity|exact H].
Qed.

Lemma seeding_absent_kept s o id :
  creates_seeding id o = false -> tget N.eqb id (seeding s) = None ->
  tget N.eqb id (seeding (fst (step s o))) = None.
Proof.
  intros Hw H. pose proof (frame_seeding s o) as Hf.
  destruct o; try (rewrite Hf; exact H); simpl in Hw |- *.
  - rewrite N.eqb_sym in Hw. unfold p_seed.
    destruct (tget N.eqb id0 (seeding s)) as [[a0 p0]|]; [destruct (negb (scope_eqb a0 sc))|]; simpl;
      try exact H; tset_other; rewrite Hw; exact H.
  - rewrite N.eqb_sym in Hw. unfold p_set_seed.
    destruct (tget N.eqb id0 (seeding s)) as [[a0 p0]|]; [destruct (negb (policy_eqb p0 p))|]; simpl;
      try exact H; tset_other; rewrite Hw; exact H.
  - tdel_other. destruct (N.eqb id id0); [reflexivity|exact H].
  - unfold p_unblock_rid. destruct (tget N.eqb id0 (seeding s)) as [[a0 [|]]|]; simpl; try exact H.
    tdel_other. destruct (N.eqb id id0); [reflexivity|exact H].
Qed.

Theorem policy_delete_wins :
  (forall s id ops, forallb (fun o => negb (creates_following id o)) ops = true ->
     tget N.eqb id (following (exec s (PUnfollow id :: ops))) = None) /\
  (forall s id ops, forallb (fun o => negb (creates_seeding id o)) ops = true ->
     tget N.eqb id (seeding (exec s (PUnseed id :: ops))) = None).
Proof.
  split; intros; rewrite exec_cons.
  - apply (kept_along (fun s => tget N.eqb id (following s) = None) (creates_following id)); [|assumption|].
    + intros s0 o. apply following_absent_kept.
    + simpl. tdel_other. rewrite N.eqb_refl. reflexivity.
  - apply (kept_along (fun s => tget N.eqb id (seeding s) = None) (creates_seeding id)); [|assumption|].
    + intros s0 o. apply seeding_absent_kept.
    + simpl. tdel_other. rewrite N.eqb_refl. reflexivity.
Qed.

(* ------------------------------------------------------------------ gossip announcements *)

Notation gget k s := (tget k3_eqb k (gossip s)).
Definition gcontent (r : grow) : N * N * N := (g_msg r, g_sig r, g_ts r).

Lemma map_relay_shape (c : k3 * grow -> bool) (x : relay) (g : table k3 grow) :
  map (fun kr => if c kr then (fst kr, g_with_relay (snd kr) x) else kr) g =
  map (fun kr => (fst kr, if c kr then g_with_relay (snd kr) x else snd kr)) g.
Proof. apply map_ext. intros [k r]. simpl. destruct (c (k, r)); reflexivity. Qed.

Lemma gget_map_relay (c : k3 * grow -> bool) (x : relay) (g : table k3 grow) k :
  tget k3_eqb k (map (fun kr => if c kr then (fst kr, g_with_relay (snd kr) x) else kr) g) =
  match tget k3_eqb k g with
  | Some r => Some (if c (k, r) then g_with_relay r x else r)
  | None => None
  end.
Proof.
  rewrite map_relay_shape.
  rewrite (tget_map_vals k3_eqb k3_eqb_spec (fun kr => if c kr then g_with_relay (snd kr) x else snd kr)).
  destruct (tget k3_eqb k g); reflexivity.
Qed.

(* a stored announcement keeps its rowid; its (message, signature, timestamp) change only
   through `announced` for the same (node, repo, type) key with a strictly newer timestamp,
   which leaves the relay status alone *)
Theorem gossip_step_rule s o k r r' :
  wf s -> gget k s = Some r -> gget k (fst (step s o)) = Some r' ->
  g_id r' = g_id r /\
  (gcontent r' = gcontent r \/
   (g_ts r < g_ts r' /\ g_relay r' = g_relay r /\
    exists nid kd, gkey nid kd = k /\ o = GAnnounced nid kd (g_msg r') (g_sig r') (g_ts r'))).
Proof.
  intros Hwf H0 H1. pose proof (frame_gossip s o) as Hf.
  destruct o; try (rewrite Hf in H1; rewrite H0 in H1; inversion H1; split; [|left]; reflexivity).
  - (* GAnnounced *) simpl in H1. unfold g_announced in H1.
    destruct (N.eqb ts 0); simpl in H1; [rewrite H0 in H1; inversion H1; split; [|left]; reflexivity|].
    destruct (N.ltb I64_MAX ts); simpl in H1; [rewrite H0 in H1; inversion H1; split; [|left]; reflexivity|].
    destruct (tget k3_eqb (gkey nid k0) (gossip s)) as [r0|] eqn:E.
    + destruct (N.ltb_spec (g_ts r0) ts) as [Hlt|Hge]; simpl in H1.
      * rewrite (tget_tset k3_eqb k3_eqb_spec) in H1.
        destruct (k3_eqb k (gkey nid k0)) eqn:Ek.
        -- apply k3_eqb_spec in Ek. subst k. rewrite E in H0. inversion H0; subst r0.
           inversion H1; subst r'. simpl. split; [reflexivity|]. right.
           split; [exact Hlt|]. split; [reflexivity|]. exists nid, k0. split; reflexivity.
        -- rewrite H0 in H1. inversion H1. split; [|left]; reflexivity.
      * rewrite H0 in H1. inversion H1. split; [|left]; reflexivity.
    + simpl in H1. rewrite (tget_tset k3_eqb k3_eqb_spec) in H1.
      destruct (k3_eqb k (gkey nid k0)) eqn:Ek.
      * apply k3_eqb_spec in Ek. subst k. congruence.
      * rewrite H0 in H1. inversion H1. split; [|left]; reflexivity.
  - (* GSetRelay *) simpl in H1. unfold g_set_relay in H1.
    destruct (negb (relay_bindable x)); simpl in H1; [rewrite H0 in H1; inversion H1; split; [|left]; reflexivity|].
    rewrite (gget_map_relay (fun kr => N.eqb (g_id (snd kr)) id)) in H1. rewrite H0 in H1.
    simpl in H1. destruct (N.eqb (g_id r) id); inversion H1; subst r'; split; try left; reflexivity.
  - (* GRelays *) simpl in H1. unfold g_relays in H1.
    destruct (N.ltb I64_MAX now); simpl in H1; [rewrite H0 in H1; inversion H1; split; [|left]; reflexivity|].
    rewrite (gget_map_relay (fun kr => relay_eqb (g_relay (snd kr)) Relay)) in H1. rewrite H0 in H1.
    simpl in H1. destruct (relay_eqb (g_relay r) Relay); inversion H1; subst r'; split; try left; reflexivity.
  - (* GPrune *) simpl in H1. unfold g_prune in H1.
    destruct (N.ltb I64_MAX cutoff); simpl in H1; [rewrite H0 in H1; inversion H1; split; [|left]; reflexivity|].
    apply tget_filter_some in H1; [|apply (wf_gossip _ Hwf)|exact k3_eqb_spec].
    rewrite H0 in H1. inversion H1. split; [|left]; reflexivity.
Qed.

(* same key = same node, same announcement type, same repository *)
Lemma gkey_inj nid kd nid' kd' :
  gkey nid kd = gkey nid' kd' <->
  nid = nid' /\ akind_type kd = akind_type kd' /\ akind_repo kd = akind_repo kd'.
Proof.
  unfold gkey. split.
  - intros H. inversion H. auto.
  - intros [-> [-> ->]]. reflexivity.
Qed.

Fixpoint gossip_present_along (k : k3) (s : state) (ops : list op) : Prop :=
  match ops with
  | [] => True
  | o :: rest => gget k (fst (step s o)) <> None /\ gossip_present_along k (fst (step s o)) rest
  end.

Theorem gossip_ts_monotone ops : forall s k r,
  wf s -> gget k s = Some r -> gossip_present_along k s ops ->
  exists r', gget k (exec s ops) = Some r' /\ g_id r' = g_id r /\
             (gcontent r' = gcontent r \/ g_ts r < g_ts r').
Proof.
  induction ops as [|o ops IH]; intros s k r Hwf H0 Hp.
  - exists r. split; [exact H0|]. split; [|left]; reflexivity.
  - destruct Hp as [Hne Hp]. rewrite exec_cons.
    destruct (gget k (fst (step s o))) as [r1|] eqn:E1; [|congruence].
    destruct (gossip_step_rule s o k r r1 Hwf H0 E1) as [Hid Hr].
    destruct (IH (fst (step s o)) k r1 (step_wf s o Hwf) E1 Hp) as [r' [Hr' [Hid' Hc']]].
    exists r'. split; [exact Hr'|]. split; [congruence|].
    destruct Hr as [Hc|[Hlt _]].
    + destruct Hc' as [Hc'|Hlt']; [left; congruence|].
      right. unfold gcontent in Hc. inversion Hc. lia.
    + right. destruct Hc' as [Hc'|Hlt']; [|lia].
      unfold gcontent in Hc'. inversion Hc'. lia.
Qed.

(* exact effect and return value of `announced` *)
Theorem announced_spec s nid kd msg sg ts :
  let sr := step s (GAnnounced nid kd msg sg ts) in
  let key := gkey nid kd in
  let old := gget key s in
  match snd sr with
  | RPanic p => fst sr = s /\ ts = 0 /\ p = PAnnouncedZero
  | RErr e => fst sr = s /\ ts <> 0 /\ I64_MAX < ts /\ e = EBind
  | ROptN None => fst sr = s /\ exists r, old = Some r /\ ts <= g_ts r
  | ROptN (Some id) =>
      0 < ts /\ ts <= I64_MAX /\
      (forall k, gget k (fst sr) =
         if k3_eqb k key
         then Some {| g_id := id; g_msg := msg; g_sig := sg; g_ts := ts;
                      g_relay := match old with Some r => g_relay r | None => DontRelay end |}
         else gget k s) /\
      match old with
      | Some r => id = g_id r /\ g_ts r < ts
      | None => forall k r, gget k s = Some r -> g_id r < id
      end
  | _ => False
  end.
Proof.
  simpl. unfold g_announced.
  destruct (N.eqb_spec ts 0) as [Hz|Hz]; simpl.
  - repeat split; assumption.
  - destruct (N.ltb_spec I64_MAX ts) as [Hb|Hb]; simpl.
    + repeat split; assumption.
    + destruct (tget k3_eqb (gkey nid kd) (gossip s)) as [r|] eqn:E.
      * destruct (N.ltb_spec (g_ts r) ts) as [Hlt|Hge]; simpl.
        -- split; [lia|]. split; [exact Hb|]. split; [|split; [reflexivity|exact Hlt]].
           intros k. apply (tget_tset k3_eqb k3_eqb_spec).
        -- split; [reflexivity|]. exists r. split; [reflexivity|exact Hge].
      * simpl. split; [lia|]. split; [exact Hb|]. split.
        -- intros k. apply (tget_tset k3_eqb k3_eqb_spec).
        -- intros k r Hk. apply (tget_In k3_eqb k3_eqb_spec) in Hk.
           apply (g_next_id_fresh (gossip s) (k, r) Hk).
Qed.

Theorem gossip_prune_spec s cutoff :
  wf s ->
  let sr := step s (GPrune cutoff) in
  match snd sr with
  | RErr e => fst sr = s /\ I64_MAX < cutoff /\ e = EBind
  | RNum n =>
      cutoff <= I64_MAX /\
      (forall k r, gget k (fst sr) = Some r <-> (gget k s = Some r /\ cutoff <= g_ts r)) /\
      n = lenN (gossip s) - lenN (gossip (fst sr))
  | _ => False
  end.
Proof.
  intros Hwf. simpl. unfold g_prune.
  destruct (N.ltb_spec I64_MAX cutoff) as [Hb|Hb]; simpl.
  - repeat split; assumption.
  - split; [exact Hb|]. split; [|reflexivity].
    intros k r. split.
    + intros H. pose proof H as H'. apply tget_filter_some in H'; [|apply (wf_gossip _ Hwf)|exact k3_eqb_spec].
      split; [exact H'|]. apply (tget_In k3_eqb k3_eqb_spec) in H. apply filter_In in H.
      destruct H as [_ H]. simpl in H. apply negb_true_iff in H. apply N.ltb_ge in H. exact H.
    + intros [H Hc]. apply (In_tget k3_eqb k3_eqb_spec).
      * apply NoDup_map_filter. apply (wf_gossip _ Hwf).
      * apply filter_In. split; [apply (tget_In k3_eqb k3_eqb_spec); exact H|].
        simpl. apply negb_true_iff. apply N.ltb_ge. exact Hc.
Qed.

(* rowids identify rows: two different keys never share a rowid *)
Theorem gossip_rowid_unique s k1 r1 k2' r2 :
  wf s -> gget k1 s = Some r1 -> gget k2' s = Some r2 -> g_id r1 = g_id r2 -> k1 = k2'.
Proof.
  intros Hwf H1 H2 Hid.
  apply (tget_In k3_eqb k3_eqb_spec) in H1. apply (tget_In k3_eqb k3_eqb_spec) in H2.
  pose proof (wf_gids _ Hwf) as Hnd. unfold gids in Hnd.
  assert (Hinj : forall (l : table k3 grow), NoDup (map (fun kr => g_id (snd kr)) l) ->
            forall a b, In a l -> In b l -> g_id (snd a) = g_id (snd b) -> a = b).
  { induction l as [|x l IH]; simpl; intros Hn a b Ha Hb E; [tauto|].
    inversion Hn as [|? ? Hnin Hn']; subst.
    destruct Ha as [->|Ha], Hb as [->|Hb]; try reflexivity.
    - exfalso. apply Hnin. rewrite E. apply in_map_iff. exists b. auto.
    - exfalso. apply Hnin. rewrite <- E. apply in_map_iff. exists a. auto.
    - apply IH; assumption. }
  pose proof (Hinj _ Hnd _ _ H1 H2 Hid) as E. inversion E. reflexivity.
Qed.

(* ------------------------------------------------------------------ failures change nothing *)

Theorem failure_leaves_state s o :
  (exists e, snd (step s o) = RErr e) \/ (exists p, snd (step s o) = RPanic p) -> fst (step s o) = s.
Proof.
  destruct o; simpl; unfold_step;
    repeat match goal with
           | |- context [match ?x with _ => _ end] => destruct x eqn:?
           end; simpl; intros [[? H]|[? H]]; try discriminate H; reflexivity.
Qed.
