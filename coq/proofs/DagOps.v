(* DagOps.v — what `Dag::node` and `Dag::dependency` do, relationally
   (membership, dependencies, dependents, tips, roots), and how the
   well-formedness components are established by the constructors. *)
From HW Require Import lib.Base lib.SMap model.Dag proofs.DagBase.
From Coq Require Import Sorted Relations.

Ltac eqb_cases :=
  repeat match goal with
         | |- context [N.eqb ?a ?b] => destruct (N.eqb_spec a b); subst
         | H : context [N.eqb ?a ?b] |- _ => destruct (N.eqb_spec a b); subst
         end.

Section Ops.
Context {V : Type}.
Implicit Types (g : dag V) (nd : node V).

Lemma repr_new : dag_repr (@dag_new V).
Proof. constructor; simpl; try apply sorted_nil. intros k nd H. discriminate. Qed.

Lemma shape_new : dag_shape (@dag_new V).
Proof.
  constructor; [apply repr_new| | |].
  - intros k d. split; [intros [nd [H _]]; discriminate | intros [H _]; exfalso; apply H; reflexivity].
  - intros k. split; [discriminate | intros [nd [H _]]; discriminate].
  - intros k. split; [discriminate | intros [nd [H _]]; discriminate].
Qed.

Lemma wf_new : dag_wf (@dag_new V).
Proof.
  constructor; [apply shape_new|]. exists (fun _ => 0%N). intros k d [nd [H _]]. discriminate.
Qed.

(* ---------------------------------------------------------------- node *)

Lemma node_lookup g k v k0 : dag_repr g ->
  lookup k0 (graph (dag_node g k v)) =
  if N.eqb k0 k then Some (mkNode v [] []) else lookup k0 (graph g).
Proof. intros Hr. simpl. apply lookup_insert. apply Hr. Qed.

Lemma node_repr g k v : dag_repr g -> dag_repr (dag_node g k v).
Proof.
  intros Hr. constructor; simpl.
  - apply sorted_insert, Hr.
  - apply sorted_sset_add, Hr.
  - apply sorted_sset_add, Hr.
  - intros k0 nd H. rewrite (lookup_insert _ _ _ _ (repr_graph g Hr)) in H.
    destruct (N.eqb k0 k).
    + inversion H; subst. simpl. split; apply sorted_nil.
    + eapply repr_nodes; eassumption.
Qed.

Lemma node_tips_ok g k v : dag_repr g -> tips_ok g -> tips_ok (dag_node g k v).
Proof.
  intros Hr Ht k0. rewrite node_lookup by exact Hr. simpl tips.
  rewrite sset_mem_add by apply Hr. destruct (N.eqb_spec k0 k).
  - simpl. split; [intros _; eexists; split; reflexivity | reflexivity].
  - simpl. apply Ht.
Qed.

Lemma node_roots_ok g k v : dag_repr g -> roots_ok g -> roots_ok (dag_node g k v).
Proof.
  intros Hr Ht k0. rewrite node_lookup by exact Hr. simpl roots.
  rewrite sset_mem_add by apply Hr. destruct (N.eqb_spec k0 k).
  - simpl. split; [intros _; eexists; split; reflexivity | reflexivity].
  - simpl. apply Ht.
Qed.

Lemma node_in_graph g k v k0 : dag_repr g ->
  in_graph (dag_node g k v) k0 <-> k0 = k \/ in_graph g k0.
Proof.
  intros Hr. unfold in_graph. rewrite node_lookup by exact Hr. destruct (N.eqb_spec k0 k).
  - split; [auto | congruence].
  - tauto.
Qed.

Lemma node_depends g k v x y : dag_repr g ->
  depends (dag_node g k v) x y <-> x <> k /\ depends g x y.
Proof.
  intros Hr. unfold depends. rewrite node_lookup by exact Hr. destruct (N.eqb_spec x k).
  - split; [intros [nd [H Hm]]; inversion H; subst; discriminate | tauto].
  - tauto.
Qed.

Lemma node_edge g k v x y : dag_repr g ->
  edge (dag_node g k v) x y <-> x <> k /\ edge g x y.
Proof.
  intros Hr. unfold edge. rewrite node_lookup by exact Hr. destruct (N.eqb_spec x k).
  - split; [intros [nd [H Hm]]; inversion H; subst; discriminate | tauto].
  - tauto.
Qed.

(** adding a node under a fresh key that nobody refers to keeps the shape *)
Lemma node_shape g k v : dag_shape g -> ~ in_graph g k -> (forall x, ~ depends g x k) ->
  dag_shape (dag_node g k v).
Proof.
  intros [Hr Hsym Ht Hro] Hk Hnd. constructor.
  - apply node_repr, Hr.
  - intros x y. rewrite node_edge, node_in_graph, node_depends by exact Hr. rewrite (Hsym x y).
    split.
    + intros [Hx [Hin Hd]]. split; [tauto|]. split; [|exact Hd].
      intros ->. apply Hk. destruct Hd as [nd [H _]]. unfold in_graph. congruence.
    + intros [Hx [Hy Hd]]. destruct Hx as [->|Hx]; [exfalso; eapply Hnd; exact Hd|].
      split; [|tauto]. intros ->. tauto.
  - apply node_tips_ok; assumption.
  - apply node_roots_ok; assumption.
Qed.

Lemma node_ranked r g k v : dag_repr g -> dag_ranked r g -> dag_ranked r (dag_node g k v).
Proof. intros Hr H x y He. apply node_edge in He; [|exact Hr]. apply H. tauto. Qed.

(* ---------------------------------------------------------------- dependency *)

Definition dep_upd (f t k : N) nd : node V :=
  mkNode (nvalue nd) (if N.eqb k f then sset_add t (ndeps nd) else ndeps nd)
                     (if N.eqb k t then sset_add f (ndpts nd) else ndpts nd).

Lemma dep_lookup g f t k : dag_repr g ->
  lookup k (graph (dag_dependency g f t)) = option_map (dep_upd f t k) (lookup k (graph g)).
Proof.
  intros Hr. pose proof (repr_graph g Hr) as Hs. unfold dag_dependency.
  destruct (lookup f (graph g)) as [nf|] eqn:Ef; cbn [graph].
  - rewrite (lookup_insert f _ (graph g) t Hs).
    assert (Hs1 : sorted (insert f (mkNode (nvalue nf) (sset_add t (ndeps nf)) (ndpts nf)) (graph g)))
      by (apply sorted_insert; exact Hs).
    destruct (N.eqb_spec t f) as [->|Htf].
    + cbn [graph]. rewrite lookup_insert by exact Hs1. rewrite lookup_insert by exact Hs.
      destruct (N.eqb_spec k f) as [->|Hkf].
      * rewrite Ef. unfold dep_upd. simpl. rewrite N.eqb_refl. reflexivity.
      * destruct (lookup k (graph g)) as [nk|]; [|reflexivity]. simpl. unfold dep_upd.
        destruct (N.eqb_spec k f); [contradiction|]. destruct nk; reflexivity.
    + destruct (lookup t (graph g)) as [nt|] eqn:Et; cbn [graph].
      * rewrite lookup_insert by exact Hs1. rewrite lookup_insert by exact Hs.
        destruct (N.eqb_spec k t) as [->|Hkt].
        -- rewrite Et. simpl. unfold dep_upd. rewrite N.eqb_refl.
           destruct (N.eqb_spec t f); [contradiction|]. reflexivity.
        -- destruct (N.eqb_spec k f) as [->|Hkf].
           ++ rewrite Ef. simpl. unfold dep_upd. rewrite N.eqb_refl.
              destruct (N.eqb_spec f t); [congruence|]. reflexivity.
           ++ destruct (lookup k (graph g)) as [nk|]; [|reflexivity]. simpl. unfold dep_upd.
              destruct (N.eqb_spec k f); [contradiction|]. destruct (N.eqb_spec k t); [contradiction|].
              destruct nk; reflexivity.
      * rewrite lookup_insert by exact Hs.
        destruct (N.eqb_spec k f) as [->|Hkf].
        -- rewrite Ef. simpl. unfold dep_upd. rewrite N.eqb_refl.
           destruct (N.eqb_spec f t); [congruence|]. reflexivity.
        -- destruct (lookup k (graph g)) as [nk|] eqn:Ek; [|reflexivity]. simpl. unfold dep_upd.
           destruct (N.eqb_spec k f); [contradiction|]. destruct (N.eqb_spec k t); [congruence|].
           destruct nk; reflexivity.
  - destruct (lookup t (graph g)) as [nt|] eqn:Et; cbn [graph].
    + rewrite lookup_insert by exact Hs.
      destruct (N.eqb_spec k t) as [->|Hkt].
      * rewrite Et. simpl. unfold dep_upd. rewrite N.eqb_refl.
        destruct (N.eqb_spec t f); [congruence|]. reflexivity.
      * destruct (lookup k (graph g)) as [nk|] eqn:Ek; [|reflexivity]. simpl. unfold dep_upd.
        destruct (N.eqb_spec k f); [congruence|]. destruct (N.eqb_spec k t); [contradiction|].
        destruct nk; reflexivity.
    + destruct (lookup k (graph g)) as [nk|] eqn:Ek; [|reflexivity]. simpl. unfold dep_upd.
      destruct (N.eqb_spec k f); [congruence|]. destruct (N.eqb_spec k t); [congruence|].
      destruct nk; reflexivity.
Qed.

Lemma dep_in_graph g f t k : dag_repr g -> in_graph (dag_dependency g f t) k <-> in_graph g k.
Proof.
  intros Hr. unfold in_graph. rewrite dep_lookup by exact Hr.
  destruct (lookup k (graph g)); simpl; split; congruence.
Qed.

Lemma dep_tips g f t : dag_repr g ->
  tips (dag_dependency g f t) = if mem t (graph g) then sset_remove t (tips g) else tips g.
Proof.
  intros Hr. pose proof (repr_graph g Hr) as Hs. unfold dag_dependency, mem.
  destruct (lookup f (graph g)) as [nf|] eqn:Ef; cbn [graph tips].
  - rewrite lookup_insert by exact Hs. destruct (N.eqb_spec t f) as [->|Htf].
    + rewrite Ef. reflexivity.
    + destruct (lookup t (graph g)); reflexivity.
  - destruct (lookup t (graph g)); reflexivity.
Qed.

Lemma dep_roots g f t : dag_repr g ->
  roots (dag_dependency g f t) = if mem f (graph g) then sset_remove f (roots g) else roots g.
Proof.
  intros Hr. pose proof (repr_graph g Hr) as Hs. unfold dag_dependency, mem.
  destruct (lookup f (graph g)) as [nf|] eqn:Ef; cbn [graph roots].
  - destruct (lookup t (insert f _ (graph g))); reflexivity.
  - destruct (lookup t (graph g)); reflexivity.
Qed.

Lemma dep_repr g f t : dag_repr g -> dag_repr (dag_dependency g f t).
Proof.
  intros Hr. constructor.
  - (* the graph stays sorted: both halves are inserts *)
    pose proof (repr_graph g Hr) as Hs. unfold dag_dependency.
    destruct (lookup f (graph g)) as [nf|]; cbn [graph].
    + destruct (lookup t (insert f _ (graph g))); cbn [graph];
        repeat apply sorted_insert; exact Hs.
    + destruct (lookup t (graph g)); cbn [graph]; repeat apply sorted_insert; exact Hs.
  - rewrite dep_tips by exact Hr. destruct (mem t (graph g)); [apply sorted_sset_remove|]; apply Hr.
  - rewrite dep_roots by exact Hr. destruct (mem f (graph g)); [apply sorted_sset_remove|]; apply Hr.
  - intros k nd H. rewrite dep_lookup in H by exact Hr.
    destruct (lookup k (graph g)) as [nk|] eqn:Ek; [|discriminate]. simpl in H. inversion H; subst nd.
    destruct (repr_nodes g Hr k nk Ek) as [H1 H2]. unfold dep_upd. simpl.
    split; [destruct (N.eqb k f) | destruct (N.eqb k t)]; try apply sorted_sset_add; assumption.
Qed.

Lemma dep_depends g f t x y : dag_repr g ->
  depends (dag_dependency g f t) x y <-> depends g x y \/ (x = f /\ y = t /\ in_graph g f).
Proof.
  intros Hr. unfold depends, in_graph. rewrite dep_lookup by exact Hr.
  destruct (lookup x (graph g)) as [nx|] eqn:Ex; simpl.
  - destruct (repr_nodes g Hr x nx Ex) as [H1 _]. split.
    + intros [nd [H Hm]]. inversion H; subst nd. clear H. unfold dep_upd in Hm. simpl in Hm.
      destruct (N.eqb_spec x f) as [->|Hxf].
      * rewrite sset_mem_add in Hm by exact H1. apply orb_true_iff in Hm. destruct Hm as [Hm|Hm].
        -- apply N.eqb_eq in Hm. right. repeat split; congruence.
        -- left. eauto.
      * left. eauto.
    + intros [[nd [H Hm]]|[-> [-> Hf]]].
      * inversion H; subst nd. eexists. split; [reflexivity|]. unfold dep_upd. simpl.
        destruct (N.eqb x f); [|exact Hm]. rewrite sset_mem_add by exact H1. rewrite Hm. apply orb_true_r.
      * eexists. split; [reflexivity|]. unfold dep_upd. simpl. rewrite N.eqb_refl.
        rewrite sset_mem_add by exact H1. rewrite N.eqb_refl. reflexivity.
  - split.
    + intros [nd [H _]]. discriminate.
    + intros [[nd [H _]]|[-> [_ Hf]]]; [discriminate | congruence].
Qed.

Lemma dep_edge g f t y x : dag_repr g ->
  edge (dag_dependency g f t) y x <-> edge g y x \/ (y = t /\ x = f /\ in_graph g t).
Proof.
  intros Hr. unfold edge, in_graph. rewrite dep_lookup by exact Hr.
  destruct (lookup y (graph g)) as [ny|] eqn:Ey; simpl.
  - destruct (repr_nodes g Hr y ny Ey) as [_ H2]. split.
    + intros [nd [H Hm]]. inversion H; subst nd. clear H. unfold dep_upd in Hm. simpl in Hm.
      destruct (N.eqb_spec y t) as [->|Hyt].
      * rewrite sset_mem_add in Hm by exact H2. apply orb_true_iff in Hm. destruct Hm as [Hm|Hm].
        -- apply N.eqb_eq in Hm. right. repeat split; congruence.
        -- left. eauto.
      * left. eauto.
    + intros [[nd [H Hm]]|[-> [-> Hf]]].
      * inversion H; subst nd. eexists. split; [reflexivity|]. unfold dep_upd. simpl.
        destruct (N.eqb y t); [|exact Hm]. rewrite sset_mem_add by exact H2. rewrite Hm. apply orb_true_r.
      * eexists. split; [reflexivity|]. unfold dep_upd. simpl. rewrite N.eqb_refl.
        rewrite sset_mem_add by exact H2. rewrite N.eqb_refl. reflexivity.
  - split.
    + intros [nd [H _]]. discriminate.
    + intros [[nd [H _]]|[-> [_ Hf]]]; [discriminate | congruence].
Qed.

Lemma dep_value g f t k : dag_repr g ->
  option_map nvalue (lookup k (graph (dag_dependency g f t))) = option_map nvalue (lookup k (graph g)).
Proof.
  intros Hr. rewrite dep_lookup by exact Hr. destruct (lookup k (graph g)); reflexivity.
Qed.

Lemma sset_add_nonempty k (s : sset) : sorted s -> sset_add k s <> [].
Proof.
  intros Hs H. apply sset_empty_mem with (k := k) in H.
  rewrite sset_mem_add in H by exact Hs. rewrite N.eqb_refl in H. discriminate.
Qed.

Lemma dep_tips_ok g f t : dag_repr g -> tips_ok g -> tips_ok (dag_dependency g f t).
Proof.
  intros Hr Ht k. rewrite dep_tips, dep_lookup by exact Hr. unfold mem.
  destruct (lookup t (graph g)) as [nt|] eqn:Et.
  - rewrite sset_mem_remove by apply Hr. destruct (N.eqb_spec k t) as [->|Hkt]; simpl.
    + rewrite Et. simpl. split; [discriminate|]. intros [nd [H Hd]]. inversion H; subst nd. clear H.
      unfold dep_upd in Hd. simpl in Hd. rewrite N.eqb_refl in Hd. exfalso.
      eapply sset_add_nonempty; [|exact Hd]. eapply repr_nodes; eassumption.
    + rewrite (Ht k). destruct (lookup k (graph g)) as [nk|]; simpl.
      * unfold dep_upd. destruct (N.eqb_spec k t); [contradiction|].
        split; intros [nd [H Hd]]; inversion H; subst nd; eexists; (split; [reflexivity | exact Hd]).
      * split; intros [nd [H _]]; discriminate.
  - rewrite (Ht k). destruct (lookup k (graph g)) as [nk|] eqn:Ek; simpl.
    + unfold dep_upd. destruct (N.eqb_spec k t); [congruence|].
      split; intros [nd [H Hd]]; inversion H; subst nd; eexists; (split; [reflexivity | exact Hd]).
    + split; intros [nd [H _]]; discriminate.
Qed.

Lemma dep_roots_ok g f t : dag_repr g -> roots_ok g -> roots_ok (dag_dependency g f t).
Proof.
  intros Hr Ht k. rewrite dep_roots, dep_lookup by exact Hr. unfold mem.
  destruct (lookup f (graph g)) as [nf|] eqn:Ef.
  - rewrite sset_mem_remove by apply Hr. destruct (N.eqb_spec k f) as [->|Hkf]; simpl.
    + rewrite Ef. simpl. split; [discriminate|]. intros [nd [H Hd]]. inversion H; subst nd. clear H.
      unfold dep_upd in Hd. simpl in Hd. rewrite N.eqb_refl in Hd. exfalso.
      eapply sset_add_nonempty; [|exact Hd]. eapply repr_nodes; eassumption.
    + rewrite (Ht k). destruct (lookup k (graph g)) as [nk|]; simpl.
      * unfold dep_upd. destruct (N.eqb_spec k f); [contradiction|].
        split; intros [nd [H Hd]]; inversion H; subst nd; eexists; (split; [reflexivity | exact Hd]).
      * split; intros [nd [H _]]; discriminate.
  - rewrite (Ht k). destruct (lookup k (graph g)) as [nk|] eqn:Ek; simpl.
    + unfold dep_upd. destruct (N.eqb_spec k f); [congruence|].
      split; intros [nd [H Hd]]; inversion H; subst nd; eexists; (split; [reflexivity | exact Hd]).
    + split; intros [nd [H _]]; discriminate.
Qed.

(** adding a dependency from an existing node keeps the shape (the target may
    be missing: a dangling dependency) *)
Lemma dep_shape g f t : dag_shape g -> in_graph g f -> dag_shape (dag_dependency g f t).
Proof.
  intros [Hr Hsym Ht Hro] Hf. constructor.
  - apply dep_repr, Hr.
  - intros y x. rewrite dep_edge, dep_in_graph, dep_depends by exact Hr. rewrite (Hsym y x).
    split.
    + intros [[Hy Hd]|[-> [-> Ht']]]; tauto.
    + intros [Hy [Hd|[-> [-> _]]]]; tauto.
  - apply dep_tips_ok; assumption.
  - apply dep_roots_ok; assumption.
Qed.

Lemma dep_ranked r g f t : dag_repr g -> dag_ranked r g -> (r t < r f)%N ->
  dag_ranked r (dag_dependency g f t).
Proof.
  intros Hr H Hlt y x He. apply dep_edge in He; [|exact Hr].
  destruct He as [He|[-> [-> _]]]; [apply H; exact He | exact Hlt].
Qed.

(** the API-level way to obtain well-formed graphs *)
Lemma node_wf g k v : dag_wf g -> ~ in_graph g k -> (forall x, ~ depends g x k) ->
  dag_wf (dag_node g k v).
Proof.
  intros [Hs [r Hr]] Hk Hd. constructor; [apply node_shape; assumption|].
  exists r. apply node_ranked; [apply Hs | exact Hr].
Qed.

Lemma dep_wf g f t r : dag_wf g -> dag_ranked r g -> in_graph g f -> (r t < r f)%N ->
  dag_wf (dag_dependency g f t).
Proof.
  intros [Hs _] Hr Hf Hlt. constructor; [apply dep_shape; assumption|].
  exists r. apply dep_ranked; [apply Hs | exact Hr | exact Hlt].
Qed.

(** a computable way to discharge the side condition of [node_wf] *)
Lemma forall_not_depends g k :
  Forall (fun kn => sset_mem k (ndeps (snd kn)) = false) (graph g) -> forall x, ~ depends g x k.
Proof.
  intros H x [nd [Hl Hm]]. apply lookup_In in Hl. rewrite Forall_forall in H.
  specialize (H _ Hl). simpl in H. congruence.
Qed.

(** shape and a given rank function together, stepwise *)
Definition dag_wfr (r : N -> N) g : Prop := dag_shape g /\ dag_ranked r g.

Lemma wfr_wf r g : dag_wfr r g -> dag_wf g.
Proof. intros [Hs Hr]. constructor; [exact Hs | exists r; exact Hr]. Qed.

Lemma wfr_new r : dag_wfr r (@dag_new V).
Proof. split; [apply shape_new|]. intros k d [nd [H _]]. discriminate. Qed.

Lemma wfr_node r g k v : dag_wfr r g -> ~ in_graph g k -> (forall x, ~ depends g x k) ->
  dag_wfr r (dag_node g k v).
Proof. intros [Hs Hr] Hk Hd. split; [apply node_shape; assumption | apply node_ranked; [apply Hs | exact Hr]]. Qed.

Lemma wfr_dep r g f t : dag_wfr r g -> in_graph g f -> (r t < r f)%N ->
  dag_wfr r (dag_dependency g f t).
Proof. intros [Hs Hr] Hf Hlt. split; [apply dep_shape; assumption | apply dep_ranked; [apply Hs | exact Hr | exact Hlt]]. Qed.

End Ops.
