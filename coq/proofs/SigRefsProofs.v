(* SigRefsProofs.v — proofs about model/SigRefs.v (C20). *)
From HW Require Import lib.Base model.SigRefs.
From Coq Require Import Sorted.
Local Open Scope N_scope.

(* ================================================================ byte-string order *)

Lemma bl_compare_refl a : bl_compare a a = Eq.
Proof. induction a as [|x a IH]; cbn; [reflexivity|]. rewrite N.compare_refl. exact IH. Qed.

Lemma bl_compare_eq a : forall b, bl_compare a b = Eq -> a = b.
Proof.
  induction a as [|x a IH]; intros [|y b] H; cbn in H; try discriminate; [reflexivity|].
  destruct (N.compare_spec x y) as [->| |]; try discriminate.
  f_equal. apply IH. exact H.
Qed.

Lemma bl_compare_antisym a : forall b, bl_compare b a = CompOpp (bl_compare a b).
Proof.
  induction a as [|x a IH]; intros [|y b]; cbn; try reflexivity.
  rewrite (N.compare_antisym x y).
  destruct (N.compare x y); cbn; [apply IH | reflexivity | reflexivity].
Qed.

Definition bl_lt (a b : list N) : Prop := bl_compare a b = Lt.

Lemma bl_lt_trans a : forall b c, bl_lt a b -> bl_lt b c -> bl_lt a c.
Proof.
  unfold bl_lt. induction a as [|x a IH]; intros [|y b] [|z c] H1 H2; cbn in *; try discriminate; try reflexivity.
  destruct (N.compare_spec x y) as [->|Hxy|Hxy]; try discriminate.
  - destruct (N.compare_spec y z) as [->|Hyz|Hyz]; try discriminate; [|reflexivity].
    eapply IH; eassumption.
  - destruct (N.compare_spec y z) as [->|Hyz|Hyz]; try discriminate.
    + destruct (N.compare_spec x z); try lia. reflexivity.
    + destruct (N.compare_spec x z); try lia. reflexivity.
Qed.

Lemma bl_lt_irrefl a : ~ bl_lt a a.
Proof. unfold bl_lt. rewrite bl_compare_refl. discriminate. Qed.

Lemma bl_lt_gt a b : bl_lt a b -> bl_compare b a = Gt.
Proof. unfold bl_lt. intros H. rewrite bl_compare_antisym, H. reflexivity. Qed.

Lemma bl_eqb_eq a b : bl_eqb a b = true <-> a = b.
Proof. apply list_eqb_spec. intros x y. apply N.eqb_eq. Qed.

Lemma bl_eqb_refl a : bl_eqb a a = true.
Proof. apply bl_eqb_eq. reflexivity. Qed.

(* ================================================================ the sorted map *)

Definition key_lt (a b : name * oid) : Prop := bl_lt (fst a) (fst b).
Definition sorted (r : refs) : Prop := StronglySorted key_lt r.

Lemma rinsert_append k v m :
  Forall (fun kv => bl_lt (fst kv) k) m -> rinsert k v m = m ++ [(k, v)].
Proof.
  induction 1 as [|[k' v'] m Hk _ IH]; [reflexivity|].
  cbn [rinsert app]. cbn in Hk. rewrite (bl_lt_gt _ _ Hk), IH. reflexivity.
Qed.

Lemma sorted_app_lt acc x l : sorted (acc ++ x :: l) -> Forall (fun kv => bl_lt (fst kv) (fst x)) acc.
Proof.
  induction acc as [|a acc IH]; intros H; [constructor|].
  cbn in H. inversion H as [|? ? Hs Hall]; subst. constructor.
  - rewrite Forall_app in Hall. destruct Hall as [_ Hx]. inversion Hx; subst. assumption.
  - apply IH. exact Hs.
Qed.

Lemma fold_insert_sorted l : forall acc, sorted (acc ++ l) ->
  fold_left (fun m kv => rinsert (fst kv) (snd kv) m) l acc = acc ++ l.
Proof.
  induction l as [|[k v] l IH]; intros acc H; cbn [fold_left].
  - rewrite app_nil_r. reflexivity.
  - cbn [fst snd]. rewrite rinsert_append by (apply (sorted_app_lt acc (k, v) l H)).
    rewrite IH; rewrite <- app_assoc; [reflexivity | exact H].
Qed.

Lemma refs_of_sorted r : sorted r -> refs_of_list r = r.
Proof. intros H. unfold refs_of_list. apply (fold_insert_sorted r []). exact H. Qed.

Lemma rinsert_Forall (P : name * oid -> Prop) k v m :
  P (k, v) -> Forall P m -> Forall P (rinsert k v m).
Proof.
  intros Hkv. induction 1 as [|[k' v'] m Hx Hm IH]; cbn [rinsert]; [repeat constructor; assumption|].
  destruct (bl_compare k k'); repeat constructor; assumption.
Qed.

Lemma rinsert_sorted k v m : sorted m -> sorted (rinsert k v m).
Proof.
  induction 1 as [|[k' v'] m Hs IH Hall]; cbn [rinsert]; [repeat constructor|].
  destruct (bl_compare k k') eqn:E.
  - apply bl_compare_eq in E. subst k'. constructor; assumption.
  - constructor; [constructor; assumption|].
    constructor; [exact E|].
    eapply Forall_impl; [|exact Hall]. intros [k2 v2] H2. unfold key_lt in *. cbn in *.
    eapply bl_lt_trans; eassumption.
  - constructor; [exact IH|].
    apply rinsert_Forall; [|exact Hall].
    unfold key_lt. cbn. unfold bl_lt. rewrite bl_compare_antisym, E. reflexivity.
Qed.

(* ================================================================ hex *)

Definition bytes_ok (bs : list N) : Prop := Forall (fun x => x < 256) bs.

Definition hexchar (c : N) : Prop := (48 <= c <= 57) \/ (97 <= c <= 102).

Lemma hexdigit_char n : n < 16 -> hexchar (hexdigit n).
Proof. intros H. unfold hexdigit, hexchar. destruct (N.ltb_spec n 10); lia. Qed.

Lemma hexval_hexdigit n : n < 16 -> hexval (hexdigit n) = Some n.
Proof.
  intros H. unfold hexval, hexdigit. destruct (N.ltb_spec n 10).
  - replace ((48 <=? 48 + n) && (48 + n <=? 57)) with true
      by (symmetry; apply andb_true_iff; split; apply N.leb_le; lia).
    f_equal. lia.
  - replace ((48 <=? 87 + n) && (87 + n <=? 57)) with false
      by (symmetry; apply andb_false_iff; right; apply N.leb_gt; lia).
    replace ((97 <=? 87 + n) && (87 + n <=? 102)) with true
      by (symmetry; apply andb_true_iff; split; apply N.leb_le; lia).
    f_equal. lia.
Qed.

Lemma to_hex_chars bs : bytes_ok bs -> Forall hexchar (to_hex bs).
Proof.
  induction 1 as [|b bs Hb _ IH]; cbn [to_hex]; [constructor|].
  constructor; [apply hexdigit_char, N.div_lt_upper_bound; lia|].
  constructor; [apply hexdigit_char, N.mod_lt; lia | exact IH].
Qed.

Lemma to_hex_length bs : length (to_hex bs) = (2 * length bs)%nat.
Proof. induction bs as [|b bs IH]; cbn [to_hex length]; [reflexivity | rewrite IH; lia]. Qed.

Fixpoint nibbles (bs : list N) : list N :=
  match bs with [] => [] | b :: bs' => b / 16 :: b mod 16 :: nibbles bs' end.

Lemma map_opt_to_hex bs : bytes_ok bs -> map_opt hexval (to_hex bs) = Some (nibbles bs).
Proof.
  induction 1 as [|b bs Hb _ IH]; [reflexivity|].
  cbn [to_hex map_opt nibbles].
  rewrite hexval_hexdigit by (apply N.div_lt_upper_bound; lia).
  rewrite hexval_hexdigit by (apply N.mod_lt; lia).
  rewrite IH. reflexivity.
Qed.

Lemma pack_nibbles_nibbles bs : pack_nibbles (nibbles bs) = bs.
Proof.
  induction bs as [|b bs IH]; [reflexivity|].
  cbn [nibbles pack_nibbles]. rewrite IH. f_equal.
  pose proof (N.div_mod b 16). lia.
Qed.

Definition oid_ok (o : oid) : Prop := length o = 20%nat /\ bytes_ok o.

Lemma oid_from_str_to_hex o : oid_ok o -> oid_from_str (to_hex o) = Some o.
Proof.
  intros [Hl Hb]. unfold oid_from_str.
  assert (Hlen : length (to_hex o) = 40%nat) by (rewrite to_hex_length, Hl; reflexivity).
  destruct (to_hex o) as [|c t] eqn:E; [cbn in Hlen; discriminate|].
  rewrite <- E in *. rewrite Hlen.
  replace (Nat.ltb OID_HEX 40) with false by reflexivity.
  rewrite map_opt_to_hex by exact Hb.
  replace (OID_HEX - 40)%nat with 0%nat by reflexivity. cbn [repeat]. rewrite app_nil_r.
  rewrite pack_nibbles_nibbles. reflexivity.
Qed.

Lemma hexchar_facts c : hexchar c -> c < 128 /\ c <> 32 /\ c <> 10 /\ c <> 13.
Proof. unfold hexchar. lia. Qed.

(* ================================================================ UTF-8 *)

Lemma utf8_valid_ascii_prefix a b : Forall (fun c => c < 128) a -> utf8_valid (a ++ b) = utf8_valid b.
Proof.
  induction 1 as [|c a Hc _ IH]; [reflexivity|].
  cbn [app utf8_valid]. destruct (N.ltb_spec c 128); [exact IH | lia].
Qed.

Lemma in_range_lt lo hi c : c < lo -> in_range lo hi c = false.
Proof. intros H. unfold in_range. apply andb_false_iff. left. apply N.leb_gt. exact H. Qed.

(* an ASCII byte inside valid UTF-8 sits on a character boundary: what follows
   it is valid on its own *)
Lemma utf8_valid_after_ascii k : forall a c n, (length a <= k)%nat -> c < 128 ->
  utf8_valid (a ++ c :: n) = true -> utf8_valid n = true.
Proof.
  induction k as [k IH] using lt_wf_ind. intros a c n Hk Hc H.
  assert (Hcont : is_cont c = false) by (apply in_range_lt; lia).
  destruct a as [|b0 a].
  { cbn [app utf8_valid] in H. destruct (N.ltb_spec c 128); [exact H | lia]. }
  cbn [app utf8_valid] in H. cbn [length] in Hk.
  destruct (b0 <? 128).
  { apply (IH (length a)) with (a := a) (c := c); [lia | lia | exact Hc | exact H]. }
  destruct (in_range 194 223 b0).
  { destruct a as [|b1 a]; cbn [app] in H.
    - rewrite Hcont in H. discriminate.
    - apply andb_true_iff in H. destruct H as [_ H].
      apply (IH (length a)) with (a := a) (c := c); [cbn [length] in Hk; lia | lia | exact Hc | exact H]. }
  destruct (in_range 224 239 b0).
  { destruct a as [|b1 [|b2 a]]; cbn [app] in H.
    - destruct n as [|b2 n']; [discriminate|].
      unfold is_cont in H. rewrite !(in_range_lt _ _ c) in H by lia.
      destruct (b0 =? 224), (b0 =? 237); cbn in H; discriminate.
    - rewrite Hcont in H. rewrite ?andb_false_r in H. cbn in H. discriminate.
    - apply andb_true_iff in H. destruct H as [_ H].
      apply (IH (length a)) with (a := a) (c := c); [cbn [length] in Hk; lia | lia | exact Hc | exact H]. }
  destruct (in_range 240 244 b0); [|discriminate].
  destruct a as [|b1 [|b2 [|b3 a]]]; cbn [app] in H.
  - destruct n as [|b2 [|b3 n']]; try discriminate.
    unfold is_cont in H. rewrite !(in_range_lt _ _ c) in H by lia.
    destruct (b0 =? 240), (b0 =? 244); cbn in H; discriminate.
  - destruct n as [|b3 n']; [discriminate|].
    rewrite Hcont in H. rewrite ?andb_false_r in H. cbn in H. discriminate.
  - rewrite Hcont in H. rewrite ?andb_false_r in H. cbn in H. discriminate.
  - apply andb_true_iff in H. destruct H as [_ H].
    apply (IH (length a)) with (a := a) (c := c); [cbn [length] in Hk; lia | lia | exact Hc | exact H].
Qed.

(* ================================================================ splitting *)

Lemma split_on_cons_ne sep c s : c <> sep ->
  split_on sep (c :: s) = match split_on sep s with seg :: segs => (c :: seg) :: segs | [] => [[c]] end.
Proof. intros H. cbn [split_on]. destruct (N.eqb_spec c sep); [contradiction | reflexivity]. Qed.

Lemma split_on_nonempty sep s : split_on sep s <> [].
Proof.
  induction s as [|c s IH]; cbn [split_on]; [discriminate|].
  destruct (c =? sep); [discriminate|]. destruct (split_on sep s); [contradiction | discriminate].
Qed.

Lemma split_on_app sep body rest : Forall (fun c => c <> sep) body ->
  split_on sep (body ++ sep :: rest) = body :: split_on sep rest.
Proof.
  induction 1 as [|c body Hc _ IH]; cbn [app].
  - cbn [split_on]. rewrite N.eqb_refl. reflexivity.
  - rewrite split_on_cons_ne by exact Hc. rewrite IH. reflexivity.
Qed.

Lemma split_once_app sep a b : Forall (fun c => c <> sep) a ->
  split_once sep (a ++ sep :: b) = Some (a, b).
Proof.
  induction 1 as [|c a Hc _ IH]; cbn [app split_once].
  - rewrite N.eqb_refl. reflexivity.
  - destruct (N.eqb_spec c sep); [contradiction|]. rewrite IH. reflexivity.
Qed.

Lemma split_once_inv sep : forall s a b, split_once sep s = Some (a, b) ->
  s = a ++ sep :: b /\ Forall (fun c => c <> sep) a.
Proof.
  induction s as [|c s IH]; intros a b H; cbn [split_once] in H; [discriminate|].
  destruct (N.eqb_spec c sep) as [->|Hne].
  - inversion H; subst. split; [reflexivity | constructor].
  - destruct (split_once sep s) as [[a' b']|]; [|discriminate]. inversion H; subst.
    destruct (IH a' b eq_refl) as [-> Ha]. split; [reflexivity | constructor; assumption].
Qed.

Lemma strip_cr_id s : Forall (fun c => c <> 13) s -> strip_cr s = s.
Proof.
  induction 1 as [|c s Hc Hs IH]; [reflexivity|].
  cbn [strip_cr]. destruct s as [|d s'].
  - destruct (N.eqb_spec c 13); [contradiction | reflexivity].
  - rewrite IH. reflexivity.
Qed.

Lemma lines_cons body rest : Forall (fun c => c <> 10) body ->
  lines (body ++ 10 :: rest) = strip_cr body :: lines rest.
Proof.
  intros H. unfold lines. rewrite split_on_app by exact H.
  pose proof (split_on_nonempty 10 rest) as Hne.
  destruct (split_on 10 rest) as [|s ss]; [contradiction|]. reflexivity.
Qed.

(* ================================================================ names *)

Lemma byte_ok_facts b : byte_ok b = true -> b <> 10 /\ b <> 13 /\ b <> 32.
Proof.
  unfold byte_ok. intros H. apply negb_true_iff in H.
  repeat (apply orb_false_iff in H; destruct H as [H ?]).
  apply N.leb_gt in H.
  match goal with H32 : (b =? 32) = false |- _ => apply N.eqb_neq in H32 end.
  lia.
Qed.

Lemma name_ok_bytes n : name_ok n = true -> Forall (fun b => b <> 10 /\ b <> 13 /\ b <> 32) n.
Proof.
  unfold name_ok. intros H.
  repeat (apply andb_true_iff in H; destruct H as [H ?]).
  match goal with Hb : forallb byte_ok n = true |- _ => rename Hb into Hbytes end.
  rewrite forallb_forall in Hbytes. apply Forall_forall. intros b Hin.
  apply byte_ok_facts. apply Hbytes. exact Hin.
Qed.

(* ================================================================ well-formed refs *)

Definition entry_wf (kv : name * oid) : Prop :=
  name_ok (fst kv) = true /\ utf8_valid (fst kv) = true /\ oid_ok (snd kv) /\ is_zero (snd kv) = false.

Definition refs_wf (r : refs) : Prop := sorted r /\ Forall entry_wf r.

Definition body_of (kv : name * oid) : list N := to_hex (snd kv) ++ 32 :: fst kv.

Lemma line_of_body kv : line_of kv = body_of kv ++ [10].
Proof. unfold line_of, body_of. rewrite <- app_assoc. reflexivity. Qed.

Lemma body_no_nl kv : entry_wf kv -> Forall (fun c => c <> 10 /\ c <> 13) (body_of kv).
Proof.
  intros [Hn [_ [[_ Hb] _]]]. unfold body_of. apply Forall_app. split.
  - eapply Forall_impl; [|apply to_hex_chars; exact Hb]. intros c Hc. apply hexchar_facts in Hc. cbv beta. lia.
  - constructor; [lia|]. eapply Forall_impl; [|apply name_ok_bytes; exact Hn]. intros c Hc. cbv beta in *. lia.
Qed.

Lemma lines_canonical r : Forall entry_wf r -> lines (canonical r) = map body_of r.
Proof.
  induction 1 as [|kv r Hkv _ IH]; [reflexivity|].
  unfold canonical in *. cbn [flat_map map]. rewrite line_of_body, <- app_assoc. cbn [app].
  pose proof (body_no_nl kv Hkv) as Hb.
  rewrite lines_cons by (eapply Forall_impl; [|exact Hb]; intros c Hc; cbv beta in *; lia).
  rewrite strip_cr_id by (eapply Forall_impl; [|exact Hb]; intros c Hc; cbv beta in *; lia).
  rewrite IH. reflexivity.
Qed.

Lemma parse_body kv ls acc : entry_wf kv ->
  parse_lines (body_of kv :: ls) acc = parse_lines ls (rinsert (fst kv) (snd kv) acc).
Proof.
  intros [Hn [Hu [Ho Hz]]]. destruct Ho as [Hl Hb]. cbn [parse_lines].
  assert (Hhex : Forall hexchar (to_hex (snd kv))) by (apply to_hex_chars; exact Hb).
  assert (Hvalid : utf8_valid (body_of kv) = true).
  { unfold body_of. rewrite utf8_valid_ascii_prefix.
    - cbn [utf8_valid]. replace (32 <? 128) with true by reflexivity. exact Hu.
    - eapply Forall_impl; [|exact Hhex]. intros c Hc. apply hexchar_facts in Hc. cbv beta. lia. }
  rewrite Hvalid. cbn [negb]. unfold body_of.
  rewrite split_once_app by (eapply Forall_impl; [|exact Hhex]; intros c Hc; apply hexchar_facts in Hc; cbv beta; lia).
  rewrite Hn. cbn [negb]. rewrite oid_from_str_to_hex by (split; assumption).
  rewrite Hz. reflexivity.
Qed.

Lemma parse_bodies r : forall acc, Forall entry_wf r ->
  parse_lines (map body_of r) acc = Ok (fold_left (fun m kv => rinsert (fst kv) (snd kv) m) r acc).
Proof.
  induction r as [|kv r IH]; intros acc H; [reflexivity|].
  inversion H as [|? ? Hkv Hr]; subst. cbn [map fold_left].
  rewrite parse_body by exact Hkv. apply IH. exact Hr.
Qed.

(* C20: the canonical text of every well-formed ref set parses back to it *)
Theorem roundtrip r : refs_wf r -> from_canonical (canonical r) = Ok r.
Proof.
  intros [Hs Hw]. unfold from_canonical.
  rewrite lines_canonical by exact Hw. rewrite parse_bodies by exact Hw.
  f_equal. apply (fold_insert_sorted r []). exact Hs.
Qed.

Theorem canonical_injective r1 r2 : refs_wf r1 -> refs_wf r2 ->
  canonical r1 = canonical r2 -> r1 = r2.
Proof.
  intros H1 H2 E. apply roundtrip in H1. apply roundtrip in H2.
  rewrite E in H1. congruence.
Qed.

(* ================================================================ everything the parser accepts is well-formed *)

Lemma hexval_lt c n : hexval c = Some n -> n < 16.
Proof.
  unfold hexval.
  destruct ((48 <=? c) && (c <=? 57)) eqn:E1.
  { apply andb_true_iff in E1. destruct E1 as [A B]. apply N.leb_le in A, B. intros H. inversion H. lia. }
  destruct ((97 <=? c) && (c <=? 102)) eqn:E2.
  { apply andb_true_iff in E2. destruct E2 as [A B]. apply N.leb_le in A, B. intros H. inversion H. lia. }
  destruct ((65 <=? c) && (c <=? 70)) eqn:E3; [|discriminate].
  apply andb_true_iff in E3. destruct E3 as [A B]. apply N.leb_le in A, B. intros H. inversion H. lia.
Qed.

Lemma map_opt_hexval s : forall ns, map_opt hexval s = Some ns ->
  length ns = length s /\ Forall (fun n => n < 16) ns.
Proof.
  induction s as [|c s IH]; intros ns H; cbn [map_opt] in H.
  - inversion H. split; [reflexivity | constructor].
  - destruct (hexval c) as [n|] eqn:E; [|discriminate].
    destruct (map_opt hexval s) as [ns'|]; [|discriminate]. inversion H; subst.
    destruct (IH ns' eq_refl) as [Hl Hf]. split; [cbn; lia|].
    constructor; [eapply hexval_lt; exact E | exact Hf].
Qed.

Lemma pack_nibbles_even k : forall ns, length ns = (2 * k)%nat -> Forall (fun n => n < 16) ns ->
  length (pack_nibbles ns) = k /\ bytes_ok (pack_nibbles ns).
Proof.
  induction k as [|k IH]; intros ns Hl Hf.
  - destruct ns; [|cbn in Hl; lia]. split; [reflexivity | constructor].
  - destruct ns as [|hi [|lo ns]]; try (cbn in Hl; lia).
    inversion Hf as [|? ? Hhi Hf']; subst. inversion Hf' as [|? ? Hlo Hf'']; subst.
    destruct (IH ns) as [Hl' Hb']; [cbn in Hl; lia | exact Hf''|].
    cbn [pack_nibbles length]. split; [lia|]. constructor; [lia | exact Hb'].
Qed.

Lemma oid_from_str_ok s o : oid_from_str s = Some o -> oid_ok o.
Proof.
  unfold oid_from_str. destruct s as [|c t]; [discriminate|].
  remember (c :: t) as s eqn:Es. clear Es c t.
  destruct (Nat.ltb_spec OID_HEX (length s)) as [|Hle]; [discriminate|].
  destruct (map_opt hexval s) as [ns|] eqn:E; [|discriminate].
  intros H.
  assert (Ho : o = pack_nibbles (ns ++ repeat 0 (OID_HEX - length s))) by congruence.
  clear H. subst o.
  destruct (map_opt_hexval s ns E) as [Hl Hf].
  apply (pack_nibbles_even 20).
  - rewrite app_length, repeat_length, Hl.
    assert (HO : OID_HEX = 40%nat) by reflexivity. lia.
  - apply Forall_app. split; [exact Hf|].
    induction (OID_HEX - length s)%nat; cbn; constructor; [lia | assumption].
Qed.

Lemma parse_lines_wf ls : forall acc r, parse_lines ls acc = Ok r -> refs_wf acc -> refs_wf r.
Proof.
  induction ls as [|l ls IH]; intros acc r H Hacc; cbn [parse_lines] in H.
  - inversion H; subst. exact Hacc.
  - destruct (utf8_valid l) eqn:Hu; cbn [negb] in H; [|discriminate].
    destruct (split_once 32 l) as [[o n]|] eqn:Es; [|discriminate].
    destruct (name_ok n) eqn:Hn; cbn [negb] in H; [|discriminate].
    destruct (oid_from_str o) as [id|] eqn:Eo; [|discriminate].
    destruct (is_zero id) eqn:Hz; [apply (IH acc r H Hacc)|].
    apply (IH _ r H).
    destruct Hacc as [Hs Hw]. split; [apply rinsert_sorted; exact Hs|].
    apply rinsert_Forall; [|exact Hw].
    destruct (split_once_inv 32 l o n Es) as [El _].
    repeat split; cbn [fst snd].
    + exact Hn.
    + subst l. eapply (utf8_valid_after_ascii (length o) o 32 n); [lia | lia | exact Hu].
    + apply (oid_from_str_ok o id Eo).
    + apply (oid_from_str_ok o id Eo).
    + exact Hz.
Qed.

Theorem from_canonical_wf blob r : from_canonical blob = Ok r -> refs_wf r.
Proof.
  intros H. eapply parse_lines_wf; [exact H|]. split; constructor.
Qed.

(* whatever spelling was accepted, re-printing gives the one canonical spelling,
   which parses to the same refs *)
Theorem accepted_refs_roundtrip blob r : from_canonical blob = Ok r -> from_canonical (canonical r) = Ok r.
Proof. intros H. apply roundtrip. eapply from_canonical_wf. exact H. Qed.

(* ================================================================ map facts for single changes *)

Lemma rlookup_rinsert_same k v m : rlookup k (rinsert k v m) = Some v.
Proof.
  induction m as [|[k' v'] m IH]; cbn [rinsert rlookup].
  - rewrite bl_eqb_refl. reflexivity.
  - destruct (bl_compare k k') eqn:E; cbn [rlookup].
    + rewrite bl_eqb_refl. reflexivity.
    + rewrite bl_eqb_refl. reflexivity.
    + destruct (bl_eqb k k') eqn:Eq.
      * apply bl_eqb_eq in Eq. subst k'. rewrite bl_compare_refl in E. discriminate.
      * exact IH.
Qed.

Lemma rinsert_wf k v r : refs_wf r -> entry_wf (k, v) -> refs_wf (rinsert k v r).
Proof. intros [Hs Hw] He. split; [apply rinsert_sorted; exact Hs | apply rinsert_Forall; assumption]. Qed.

Fixpoint rremove (k : name) (m : refs) : refs :=
  match m with
  | [] => []
  | (k', v') :: m' => if bl_eqb k k' then m' else (k', v') :: rremove k m'
  end.

Lemma rremove_wf k r : refs_wf r -> refs_wf (rremove k r).
Proof.
  intros [Hs Hw]. induction r as [|[k' v'] r IH]; [split; constructor|].
  inversion Hs as [|? ? Hs' Hall]; subst. inversion Hw as [|? ? He Hw']; subst.
  cbn [rremove]. destruct (bl_eqb k k'); [split; assumption|].
  destruct (IH Hs' Hw') as [Hs2 Hw2]. split; [|constructor; assumption].
  constructor; [exact Hs2|].
  clear - Hall. induction r as [|[k2 v2] r IH2]; [constructor|].
  inversion Hall; subst. cbn [rremove]. destruct (bl_eqb k k2); [assumption|].
  constructor; [assumption | apply IH2; assumption].
Qed.

Lemma rremove_length k r v : rlookup k r = Some v -> length (rremove k r) <> length r.
Proof.
  induction r as [|[k' v'] r IH]; cbn [rlookup rremove]; [discriminate|].
  destruct (bl_eqb k k'); [cbn; lia|]. intros H. cbn [length]. specialize (IH H). lia.
Qed.

(* ================================================================ signatures bind what is accepted *)

Section Binding.
Variable sigT : Type.
Variable sign : list N -> list N -> sigT.                  (* key, message *)
Variable verify_sig : list N -> list N -> sigT -> bool.    (* key, message, signature *)
Variable root_check : oid -> bool.

(* ideal signatures: a signature verifies exactly for the (key, message) it was
   made for, and signatures made for different (key, message) pairs differ *)
Hypothesis verify_spec : forall pk m s, verify_sig pk m s = true <-> s = sign pk m.
Hypothesis sign_inj : forall pk m pk' m', sign pk m = sign pk' m' -> pk = pk' /\ m = m'.

Notation verify_refs := (verify_refs sigT verify_sig root_check).
Notation load := (load sigT verify_sig root_check).

Lemma verify_refs_sig pk r s : verify_refs pk r s <> VErrSig <-> s = sign pk (canonical r).
Proof.
  unfold SigRefs.verify_refs. rewrite <- verify_spec.
  destruct (verify_sig pk (canonical r) s).
  - split; [reflexivity|]. intros _.
    destruct (rlookup IDENTITY_ROOT r); [destruct (root_check o)|]; discriminate.
  - split; [intros H; exfalso; apply H; reflexivity | discriminate].
Qed.

Definition root_ok (r : refs) : Prop :=
  match rlookup IDENTITY_ROOT r with Some o => root_check o = true | None => True end.

Lemma verify_refs_ok pk r s : verify_refs pk r s = VOk <-> s = sign pk (canonical r) /\ root_ok r.
Proof.
  unfold SigRefs.verify_refs, root_ok. rewrite <- verify_spec.
  destruct (verify_sig pk (canonical r) s).
  - destruct (rlookup IDENTITY_ROOT r) as [o|]; [destruct (root_check o)|]; split; intros H; try tauto;
      try discriminate; destruct H as [_ H]; discriminate.
  - split; [discriminate | intros [H _]; discriminate].
Qed.

(* the honest signature over the canonical text verifies *)
Theorem verify_accepts_signed pk r : root_ok r -> verify_refs pk r (sign pk (canonical r)) = VOk.
Proof. intros H. apply verify_refs_ok. split; [reflexivity | exact H]. Qed.

(* one signature verifies for at most one (key, ref set) *)
Theorem verify_binds pk pk' r r' s : refs_wf r -> refs_wf r' ->
  verify_refs pk r s <> VErrSig -> verify_refs pk' r' s <> VErrSig -> pk = pk' /\ r = r'.
Proof.
  intros Hr Hr' H1 H2. apply verify_refs_sig in H1. apply verify_refs_sig in H2.
  rewrite H1 in H2. apply sign_inj in H2. destruct H2 as [Hk Hm].
  split; [exact Hk | apply canonical_injective; assumption].
Qed.

(* changing the key, or the ref set in any way (any ref added, removed, renamed,
   any object id changed), makes verification of the same signature fail *)
Theorem any_change_rejected pk pk' r r' : refs_wf r -> refs_wf r' ->
  pk' <> pk \/ r' <> r -> verify_refs pk' r' (sign pk (canonical r)) = VErrSig.
Proof.
  intros Hr Hr' Hne.
  destruct (verify_refs pk' r' (sign pk (canonical r))) eqn:E; try reflexivity; exfalso.
  - assert (H : verify_refs pk' r' (sign pk (canonical r)) <> VErrSig) by (rewrite E; discriminate).
    apply verify_refs_sig in H. apply sign_inj in H. destruct H as [Hk Hm].
    apply canonical_injective in Hm; [|assumption|assumption]. destruct Hne; congruence.
  - assert (H : verify_refs pk' r' (sign pk (canonical r)) <> VErrSig) by (rewrite E; discriminate).
    apply verify_refs_sig in H. apply sign_inj in H. destruct H as [Hk Hm].
    apply canonical_injective in Hm; [|assumption|assumption]. destruct Hne; congruence.
Qed.

Corollary oid_change_rejected pk r n o o' : refs_wf r -> entry_wf (n, o') ->
  rlookup n r = Some o -> o' <> o ->
  verify_refs pk (rinsert n o' r) (sign pk (canonical r)) = VErrSig.
Proof.
  intros Hr He Hl Hne. apply any_change_rejected; [exact Hr | apply rinsert_wf; assumption|].
  right. intros E. pose proof (rlookup_rinsert_same n o' r) as H. rewrite E, Hl in H. congruence.
Qed.

Corollary ref_added_rejected pk r n o : refs_wf r -> entry_wf (n, o) -> rlookup n r = None ->
  verify_refs pk (rinsert n o r) (sign pk (canonical r)) = VErrSig.
Proof.
  intros Hr He Hl. apply any_change_rejected; [exact Hr | apply rinsert_wf; assumption|].
  right. intros E. pose proof (rlookup_rinsert_same n o r) as H. rewrite E, Hl in H. discriminate.
Qed.

Corollary ref_removed_rejected pk r n o : refs_wf r -> rlookup n r = Some o ->
  verify_refs pk (rremove n r) (sign pk (canonical r)) = VErrSig.
Proof.
  intros Hr Hl. apply any_change_rejected; [exact Hr | apply rremove_wf; exact Hr|].
  right. intros E. apply (rremove_length n r o Hl). rewrite E. reflexivity.
Qed.

Corollary key_change_rejected pk pk' r : refs_wf r -> pk' <> pk ->
  verify_refs pk' r (sign pk (canonical r)) = VErrSig.
Proof. intros Hr Hne. apply any_change_rejected; [exact Hr | exact Hr | left; exact Hne]. Qed.

(* load: accepted refs are exactly the parsed refs, they are well-formed, and the
   signature is the claimed key's signature over THEIR canonical text (not over
   the blob) *)
Theorem load_sound pk blob so r : load pk blob so = Accepted r ->
  exists s, so = Some s /\ from_canonical blob = Ok r /\ refs_wf r /\
            s = sign pk (canonical r) /\ root_ok r.
Proof.
  unfold SigRefs.load. destruct so as [s|]; [|discriminate].
  destruct (from_canonical blob) as [r0|e] eqn:E; [|discriminate].
  destruct (verify_refs pk r0 s) eqn:V; try discriminate.
  intros H. inversion H; subst r0. apply verify_refs_ok in V. destruct V as [Hs Hroot].
  exists s. split; [reflexivity|]. split; [reflexivity|].
  split; [eapply from_canonical_wf; exact E|]. split; assumption.
Qed.

(* if the signature presented is key pk's signature over the canonical text of
   r0, then only (pk, r0) can be accepted, whatever blob is presented *)
Theorem load_binds pk pk' blob r0 r : refs_wf r0 ->
  load pk' blob (Some (sign pk (canonical r0))) = Accepted r -> pk' = pk /\ r = r0.
Proof.
  intros H0 H. apply load_sound in H. destruct H as [s [Hs [_ [Hwf [Hsig _]]]]].
  injection Hs as <-. apply sign_inj in Hsig. destruct Hsig as [Hk Hm].
  split; [congruence|]. symmetry. apply canonical_injective; assumption.
Qed.

(* every spelling that parses to the signed refs is accepted under the honest
   signature; in particular the canonical text itself *)
Theorem load_complete pk blob r : from_canonical blob = Ok r -> root_ok r ->
  load pk blob (Some (sign pk (canonical r))) = Accepted r.
Proof.
  intros E Hroot. unfold SigRefs.load. rewrite E.
  rewrite (verify_accepts_signed pk r Hroot). reflexivity.
Qed.

Corollary load_canonical pk r : refs_wf r -> root_ok r ->
  load pk (canonical r) (Some (sign pk (canonical r))) = Accepted r.
Proof. intros Hr Hroot. apply load_complete; [apply roundtrip; exact Hr | exact Hroot]. Qed.

End Binding.

(* the hypotheses of Section Binding are satisfiable: the ideal scheme of the
   correspondence run *)
Lemma ideal_verify_spec pk m s : iverify pk m s = true <-> s = isign pk m.
Proof.
  unfold iverify, isign. destruct s as [k' m'|].
  - rewrite andb_true_iff, !bl_eqb_eq. split; [intros [-> ->]; reflexivity | intros H; inversion H; auto].
  - split; discriminate.
Qed.

Lemma ideal_sign_inj pk m pk' m' : isign pk m = isign pk' m' -> pk = pk' /\ m = m'.
Proof. unfold isign. intros H. inversion H. auto. Qed.
