(* DocRoundtrip.v — encoding a valid identity document and decoding the bytes
   yields an equal document (for encodable documents). *)
From HW Require Import lib.Base model.CanonJson proofs.CanonJsonProofs model.Doc proofs.DocProofs.
From Coq Require Import Sorted Setoid.
Local Open Scope N_scope.

Ltac Zify.zify_post_hook ::= Z.to_euclidean_division_equations.

(* ------------------------------------------------------------------ clean ASCII strings *)

Definition clean_char (c : N) : Prop := 35 <= c < 128 /\ c <> 92.
Definition clean (s : list N) : Prop := Forall clean_char s.

Lemma clean_high s : clean s -> high_key s.
Proof. intros H. eapply Forall_impl; [|exact H]. intros c [H1 H2]. split; lia. Qed.

Lemma clean_plain s : clean s -> Forall plain s.
Proof. intros H. eapply Forall_impl; [|apply clean_high; exact H]. intros c Hc. apply high_plain, Hc. Qed.

Lemma clean_scalar s : clean s -> Forall scalar s.
Proof. intros H. eapply Forall_impl; [|exact H]. intros c [H1 H2]. unfold scalar. lia. Qed.

Lemma clean_ascii s : clean s -> Forall (fun c => c < 128) s.
Proof. intros H. eapply Forall_impl; [|exact H]. intros c [H1 H2]. lia. Qed.

Lemma utf8s_ascii s : Forall (fun c => c < 128) s -> utf8s s = s.
Proof.
  induction 1 as [|c s Hc _ IH]; [reflexivity|]. simpl. unfold utf8.
  replace (c <? 128) with true by (symmetry; apply N.ltb_lt; exact Hc). simpl. rewrite IH. reflexivity.
Qed.

Lemma str_eqb_refl s : str_eqb s s = true.
Proof. apply (list_eqb_spec N.eqb N.eqb_eq). reflexivity. Qed.

Lemma str_eqb_eq a b : str_eqb a b = true <-> a = b.
Proof. apply (list_eqb_spec N.eqb N.eqb_eq). Qed.

Section RT.
Variable nfc : list N -> list N.
Hypothesis Hnfc : nfc_ok nfc.
(* NFC leaves ASCII text unchanged *)
Hypothesis Hascii : forall s, Forall (fun c => c < 128) s -> nfc s = s.

Let nfc_idem := proj1 Hnfc.
Let nfc_plain := proj1 (proj2 Hnfc).
Let nfc_scalar := proj2 (proj2 Hnfc).

Lemma norm_str_plain_fix s : Forall plain s -> nfc s = s -> norm_str nfc s = s.
Proof.
  intros Hp Hs. unfold norm_str.
  rewrite <- (app_nil_r s) at 1. rewrite norm_body_plain_prefix by exact Hp.
  rewrite app_nil_r. simpl. destruct (rev s) eqn:E.
  - apply (f_equal (@rev N)) in E. rewrite rev_involutive in E. subst. reflexivity.
  - unfold flush_norm. rewrite <- E, rev_involutive. exact Hs.
Qed.

Lemma norm_str_clean s : clean s -> norm_str nfc s = s.
Proof.
  intros H. apply norm_str_plain_fix; [apply clean_plain; exact H|apply Hascii, clean_ascii, H].
Qed.

Lemma enc_str_clean s : clean s -> enc_str nfc s = 34 :: s ++ [34].
Proof.
  intros H. rewrite (enc_str_emit nfc nfc_plain). rewrite norm_str_clean by exact H.
  rewrite emit_str_high by (apply clean_high; exact H).
  rewrite utf8s_ascii by (apply clean_ascii; exact H). reflexivity.
Qed.

(* ------------------------------------------------------------------ value equality after norm *)

(* strings already normalised, distinct keys, no float *)
Fixpoint stable (v : value) : Prop :=
  match v with
  | Float => False
  | Str s => norm_str nfc s = s
  | Arr l => (fix go (l : list value) : Prop :=
                match l with [] => True | x :: l' => stable x /\ go l' end) l
  | Obj m => NoDup (map fst m) /\
             (fix go (m : list (list N * value)) : Prop :=
                match m with
                | [] => True
                | kx :: m' => (norm_str nfc (fst kx) = fst kx /\ stable (snd kx)) /\ go m'
                end) m
  | _ => True
  end.

Lemma stable_Arr l : stable (Arr l) <-> Forall stable l.
Proof.
  simpl. induction l as [|x l IH]; [split; constructor|].
  split.
  - intros [H1 H2]. constructor; [exact H1|apply IH; exact H2].
  - intros H. inversion H; subst. split; [assumption|apply IH; assumption].
Qed.

Lemma stable_Obj m : stable (Obj m) <->
  NoDup (map fst m) /\ Forall (fun kx => norm_str nfc (fst kx) = fst kx /\ stable (snd kx)) m.
Proof.
  simpl. apply and_iff_compat_l. induction m as [|x m IH]; [split; constructor|].
  split.
  - intros [H1 H2]. constructor; [exact H1|apply IH; exact H2].
  - intros H. inversion H; subst. split; [assumption|apply IH; assumption].
Qed.

Lemma veq_Obj x y : veq (Obj x) (Obj y) =
  Nat.eqb (length x) (length y) &&
  forallb (fun ka => match assoc (fst ka) y with Some b => veq (snd ka) b | None => false end) x.
Proof.
  simpl. f_equal. induction x as [|[k a] x IH]; [reflexivity|]. simpl. rewrite IH. reflexivity.
Qed.

Lemma veq_Arr x y : veq (Arr x) (Arr y) =
  (fix go (x y : list value) : bool :=
     match x, y with
     | [], [] => true
     | a :: x', b :: y' => veq a b && go x' y'
     | _, _ => false
     end) x y.
Proof. reflexivity. Qed.

Lemma emit_str_inj a b : Forall scalar a -> Forall scalar b -> emit_str a = emit_str b -> a = b.
Proof.
  intros Ha Hb E. unfold emit_str in E. inversion E as [E'].
  pose proof (parse_raw_body a Ha []) as Pa. pose proof (parse_raw_body b Hb []) as Pb.
  rewrite E' in Pa. rewrite Pa in Pb. inversion Pb. reflexivity.
Qed.

Lemma binsert_length_fresh {A} k (x : A) acc :
  ~ In k (map fst acc) -> length (binsert k x acc) = S (length acc).
Proof.
  induction acc as [|[k' x'] acc IH]; simpl; intros H; [reflexivity|].
  destruct (lex_cmp k k') eqn:E; simpl; try reflexivity.
  - apply lex_cmp_eq in E. subst. tauto.
  - rewrite IH by tauto. reflexivity.
Qed.

Lemma binsert_keys_sub {A} k (x : A) acc k0 :
  In k0 (map fst acc) -> In k0 (map fst (binsert k x acc)).
Proof.
  induction acc as [|[k' x'] acc IH]; simpl; intros H; [destruct H|].
  destruct (lex_cmp k k') eqn:E; simpl.
  - exact H.
  - right. exact H.
  - destruct H as [H|H]; [left; exact H|right; apply IH; exact H].
Qed.

Lemma binsert_key_in {A} k (x : A) acc : In k (map fst (binsert k x acc)).
Proof.
  induction acc as [|[k' x'] acc IH]; simpl; [left; reflexivity|].
  destruct (lex_cmp k k') eqn:E; simpl.
  - apply lex_cmp_eq in E. left. symmetry. exact E.
  - left. reflexivity.
  - right. exact IH.
Qed.

(* full description of the entries of norm_members *)
Lemma norm_members_entries m e : forall acc, In e (norm_members nfc m acc) ->
  In e acc \/ exists kx, In kx m /\ snd e = (norm_str nfc (fst kx), norm nfc (snd kx)).
Proof.
  induction m as [|[k x] m IHm]; intros acc H; simpl in H; [auto|].
  destruct (IHm _ H) as [H1|(kx & H1 & H2)].
  - destruct e as [kb y]. apply binsert_In in H1. destruct H1 as [G|G].
    + subst y. right. exists (k, x). split; [left; reflexivity|reflexivity].
    + left; exact G.
  - right. exists kx. split; [right; exact H1|exact H2].
Qed.

Lemma norm_members_length m : forall acc,
  NoDup (map (fun kx => enc_str nfc (fst kx)) m) ->
  (forall kx, In kx m -> ~ In (enc_str nfc (fst kx)) (map fst acc)) ->
  length (norm_members nfc m acc) = (length acc + length m)%nat.
Proof.
  induction m as [|[k x] m IH]; intros acc Hnd Hfresh; simpl; [lia|].
  inversion Hnd as [|? ? Hk Hnd']; subst. simpl in Hk.
  rewrite IH; [|exact Hnd'|].
  - rewrite binsert_length_fresh; [lia|]. apply (Hfresh (k, x)). left. reflexivity.
  - intros kx Hin Hc. apply binsert_keys_in in Hc. destruct Hc as [Hc|Hc].
    + apply Hk. rewrite <- Hc. apply in_map_iff. exists kx. auto.
    + apply (Hfresh kx); [right; exact Hin|exact Hc].
Qed.

Lemma assoc_In k x m : NoDup (map fst m) -> In (k, x) m -> assoc k m = Some x.
Proof.
  induction m as [|[k' x'] m IH]; simpl; intros Hnd Hin; [destruct Hin|].
  inversion Hnd; subst. destruct Hin as [E|Hin].
  - inversion E; subst. rewrite str_eqb_refl. reflexivity.
  - destruct (str_eqb k k') eqn:E.
    + apply str_eqb_eq in E. subst. exfalso. apply H1. apply in_map_iff. exists (k', x). auto.
    + apply IH; assumption.
Qed.

Theorem veq_norm : forall v, stable v -> wfi v -> veq (norm nfc v) v = true.
Proof.
  induction v as [| [|] | z | | s | l IH | m IH] using value_ind'; intros Hs Hw; try reflexivity.
  - simpl. apply Z.eqb_refl.
  - destruct Hs.
  - simpl in *. rewrite Hs. apply str_eqb_refl.
  - rewrite norm_Arr, veq_Arr. apply stable_Arr in Hs. apply wfi_Arr in Hw.
    induction l as [|x l IHl]; [reflexivity|].
    inversion IH; subst. inversion Hs; subst. inversion Hw; subst. simpl.
    rewrite H1 by assumption. simpl. apply IHl; assumption.
  - rewrite norm_Obj, veq_Obj. apply stable_Obj in Hs. destruct Hs as [Hnd Hs]. apply wfi_Obj in Hw.
    assert (Hkeys : forall kx, In kx m -> enc_str nfc (fst kx) = emit_str (fst kx)).
    { intros kx Hin. rewrite (enc_str_emit nfc nfc_plain). rewrite Forall_forall in Hs.
      rewrite (proj1 (Hs kx Hin)). reflexivity. }
    assert (HndE : NoDup (map (fun kx => enc_str nfc (fst kx)) m)).
    { clear IH. induction m as [|[k x] m IHm]; [constructor|]. simpl.
      inversion Hnd as [|? ? Hk Hnd']; subst. inversion Hs; subst. inversion Hw; subst.
      constructor.
      - intros Hin. apply in_map_iff in Hin. destruct Hin as ([k2 x2] & E & Hin). simpl in E.
        pose proof (Hkeys (k, x) ltac:(left; reflexivity)) as E1.
        pose proof (Hkeys (k2, x2) ltac:(right; exact Hin)) as E2. simpl in E1, E2. rewrite E1, E2 in E.
        apply emit_str_inj in E.
        + simpl in E. subst k2. apply Hk. apply in_map_iff. exists (k, x2). auto.
        + rewrite Forall_forall in H4. apply (H4 _ Hin).
        + apply H3.
      - apply IHm; auto. intros kx Hin. apply Hkeys. right. exact Hin. }
    apply andb_true_iff. split.
    + apply Nat.eqb_eq. rewrite map_length.
      rewrite norm_members_length; [reflexivity|exact HndE|]. intros kx _ [].
    + apply forallb_forall. intros [nk nv] Hin. simpl.
      apply in_map_iff in Hin. destruct Hin as ([kb e] & E & Hin). simpl in E. subst e.
      destruct (norm_members_entries m _ [] Hin) as [[]|([k x] & Hkx & E)]. simpl in E. inversion E; subst.
      rewrite Forall_forall in Hs, IH, Hw. destruct (Hs _ Hkx) as [Hk Hx]. simpl in Hk, Hx.
      rewrite Hk. rewrite (assoc_In k x m Hnd Hkx). apply (IH _ Hkx); [exact Hx|apply (Hw _ Hkx)].
Qed.

(* ------------------------------------------------------------------ looking up a member of a
   normalised object: for distinct clean keys, norm only reorders members *)

Lemma first_key_assoc k m : first_key k m = assoc k m.
Proof. induction m as [|[k' x] m IH]; simpl; [reflexivity|]. rewrite IH. reflexivity. Qed.

Lemma assoc_Some_In k m y : assoc k m = Some y -> In (k, y) m.
Proof.
  induction m as [|[k' x] m IH]; simpl; [discriminate|].
  destruct (str_eqb k k') eqn:E.
  - apply str_eqb_eq in E. subst. intros H; inversion H; subst. left. reflexivity.
  - intros H. right. apply IH. exact H.
Qed.

Lemma assoc_None k m : assoc k m = None <-> ~ In k (map fst m).
Proof.
  induction m as [|[k' x] m IH]; simpl; [tauto|].
  destruct (str_eqb k k') eqn:E.
  - apply str_eqb_eq in E. subst. split; [discriminate|tauto].
  - rewrite IH. split; [|tauto]. intros H [H1|H1]; [|tauto]. subst.
    rewrite str_eqb_refl in E. discriminate.
Qed.

Lemma count_key_nodup k m : NoDup (map fst m) ->
  count_key k m = match assoc k m with Some _ => 1%nat | None => 0%nat end.
Proof.
  induction m as [|[k' x] m IH]; simpl; intros Hnd; [reflexivity|].
  inversion Hnd; subst. destruct (str_eqb k k') eqn:E.
  - apply str_eqb_eq in E. subst.
    assert (Hn : assoc k' m = None) by (apply assoc_None; assumption).
    rewrite IH by assumption. rewrite Hn. reflexivity.
  - apply IH; assumption.
Qed.

Lemma binsert_preserve {A} k (x : A) acc kb y :
  In (kb, y) acc -> k <> kb -> In (kb, y) (binsert k x acc).
Proof.
  induction acc as [|[k' x'] acc IH]; simpl; intros Hin Hne; [destruct Hin|].
  destruct (lex_cmp k k') eqn:E; simpl.
  - apply lex_cmp_eq in E. subst. destruct Hin as [H|H]; [inversion H; subst; congruence|right; exact H].
  - right. exact Hin.
  - destruct Hin as [H|H]; [left; exact H|right; apply IH; assumption].
Qed.

Lemma binsert_new {A} k (x : A) acc : In (k, x) (binsert k x acc).
Proof.
  induction acc as [|[k' x'] acc IH]; simpl; [left; reflexivity|].
  destruct (lex_cmp k k') eqn:E; simpl.
  - apply lex_cmp_eq in E. subst. left. reflexivity.
  - left. reflexivity.
  - right. exact IH.
Qed.

Lemma nm_preserve (m : list (list N * value)) : forall acc kb y, In (kb, y) acc ->
  (forall kx, In kx m -> enc_str nfc (fst kx) <> kb) -> In (kb, y) (norm_members nfc m acc).
Proof.
  induction m as [|[k x] m IH]; intros acc kb y Hin Hne; simpl; [exact Hin|].
  apply IH.
  - apply binsert_preserve; [exact Hin|]. apply (Hne (k, x)). left. reflexivity.
  - intros kx Hkx. apply Hne. right. exact Hkx.
Qed.

Lemma nm_complete (m : list (list N * value)) : forall acc, NoDup (map (fun kx => enc_str nfc (fst kx)) m) ->
  forall k x, In (k, x) m ->
  In (enc_str nfc k, (norm_str nfc k, norm nfc x)) (norm_members nfc m acc).
Proof.
  induction m as [|[k0 x0] m IH]; intros acc Hnd k x Hin; [destruct Hin|].
  inversion Hnd as [|? ? Hk Hnd']; subst. simpl. destruct Hin as [E|Hin].
  - inversion E; subst. apply nm_preserve; [apply binsert_new|].
    intros kx Hkx Heq. apply Hk. simpl. rewrite <- Heq. apply in_map_iff. exists kx. auto.
  - apply IH; assumption.
Qed.

Definition members (v : value) : list (list N * value) :=
  match v with Obj m => m | _ => [] end.

Lemma clean_enc_inj a b : clean a -> clean b -> enc_str nfc a = enc_str nfc b -> a = b.
Proof.
  intros Ha Hb E. rewrite !enc_str_clean in E by assumption. inversion E as [E'].
  apply app_inv_tail in E'. exact E'.
Qed.

Lemma nodup_enc_clean (m : list (list N * value)) : NoDup (map fst m) -> Forall (fun kx => clean (fst kx)) m ->
  NoDup (map (fun kx => enc_str nfc (fst kx)) m).
Proof.
  induction m as [|[k x] m IH]; simpl; intros Hnd Hc; [constructor|].
  inversion Hnd as [|? ? Hk Hnd']; subst. inversion Hc as [|? ? Hck Hc']; subst. constructor; [|apply IH; assumption].
  intros Hin. apply in_map_iff in Hin. destruct Hin as ([k2 x2] & E & Hin). simpl in E.
  apply clean_enc_inj in E; [| |exact Hck].
  - subst k2. apply Hk. apply in_map_iff. exists (k, x2). auto.
  - rewrite Forall_forall in Hc'. apply (Hc' _ Hin).
Qed.

Lemma norm_obj_lookup m k : NoDup (map fst m) -> Forall (fun kx => clean (fst kx)) m ->
  assoc k (members (norm nfc (Obj m))) = option_map (norm nfc) (assoc k m) /\
  NoDup (map fst (members (norm nfc (Obj m)))).
Proof.
  intros Hnd Hc. rewrite norm_Obj. simpl members.
  pose proof (norm_members_sorted nfc m [] ltac:(constructor)) as Hs.
  pose proof (norm_members_keys nfc nfc_plain m [] ltac:(constructor)) as Hk.
  pose proof (ksorted_nodup_nk _ Hs Hk) as HndA.
  split; [|exact HndA].
  pose proof (nodup_enc_clean m Hnd Hc) as HndE.
  destruct (assoc k m) as [x|] eqn:E; simpl.
  - apply assoc_Some_In in E. pose proof (nm_complete m [] HndE k x E) as Hin.
    apply assoc_In; [exact HndA|].
    apply in_map_iff. exists (enc_str nfc k, (norm_str nfc k, norm nfc x)). split; [|exact Hin].
    simpl. rewrite norm_str_clean; [reflexivity|]. rewrite Forall_forall in Hc. apply (Hc _ E).
  - apply assoc_None. intros Hin. apply in_map_iff in Hin. destruct Hin as ([nk nv] & E1 & Hin).
    simpl in E1. subst nk. apply in_map_iff in Hin. destruct Hin as ([kb e] & E2 & Hin). simpl in E2. subst e.
    destruct (norm_members_entries m _ [] Hin) as [[]|([k' x'] & Hkx & E3)]. simpl in E3. inversion E3; subst.
    apply assoc_None in E. apply E. apply in_map_iff. exists (k', x'). split; [|exact Hkx].
    simpl. rewrite Forall_forall in Hc. symmetry. apply norm_str_clean. apply (Hc _ Hkx).
Qed.

(* ------------------------------------------------------------------ documents *)

Variable did_str : N -> list N.
Variable did_parse : list N -> option N.
Hypothesis Hdid_rt : forall d, did_parse (did_str d) = Some d.
Hypothesis Hdid_clean : forall d, clean (did_str d).

Definition ult (a b : list N) : Prop := lex_cmp (utf8s a) (utf8s b) = Lt.

(* representation invariants of an in-memory Doc: the payload is a BTreeMap
   (keys strictly increasing as UTF-8 strings) of serde_json values, the allow
   list a BTreeSet *)
Definition wf_doc (d : doc) : Prop :=
  StronglySorted ult (map fst (d_payload d)) /\
  Forall (fun kv => Forall scalar (fst kv) /\ wfi (snd kv)) (d_payload d) /\
  match d_visibility d with Public => True | Private a => StronglySorted N.lt a end.

(* the boundary of the round-trip statement: payload ids contain no character
   below '#' and no backslash and are NFC-normalised; payload values contain
   only NFC-normalised strings and keys, and no floats *)
Definition encodable (d : doc) : Prop :=
  Forall (fun kv => high_key (fst kv) /\ norm_str nfc (fst kv) = fst kv /\ stable (snd kv)) (d_payload d).

Definition normed_payload (P : list (list N * value)) := map (fun kv => (fst kv, norm nfc (snd kv))) P.
Definition EP (P : list (list N * value)) :=
  map (fun kv => (enc_str nfc (fst kv), (fst kv, norm nfc (snd kv)))) P.

Lemma nm_append P : forall l1, ksorted (l1 ++ EP P) ->
  Forall (fun kv => norm_str nfc (fst kv) = fst kv) P ->
  norm_members nfc P l1 = l1 ++ EP P.
Proof.
  induction P as [|[k x] P IH]; intros l1 Hs Hk; simpl; [rewrite app_nil_r; reflexivity|].
  inversion Hk as [|? ? Hk1 Hk']; subst. simpl in Hk1. rewrite Hk1.
  rewrite binsert_snoc by (apply (sorted_app_lt l1 (enc_str nfc k, (k, norm nfc x)) (EP P) Hs)).
  rewrite IH; [rewrite <- app_assoc; reflexivity| |exact Hk'].
  rewrite <- app_assoc. exact Hs.
Qed.

Lemma StronglySorted_map2 {A} (R R' : list N -> list N -> Prop) (f g : A -> list N) l :
  (forall a b, In a l -> In b l -> R' (g a) (g b) -> R (f a) (f b)) ->
  StronglySorted R' (map g l) -> StronglySorted R (map f l).
Proof.
  induction l as [|a l IH]; simpl; intros H Hs; [constructor|].
  inversion Hs as [|? ? Hs' Hf]; subst. constructor.
  - apply IH; [|exact Hs']. intros; apply H; auto.
  - rewrite Forall_forall in *. intros y Hy. apply in_map_iff in Hy. destruct Hy as (b & <- & Hb).
    apply H; auto. apply Hf. apply in_map_iff. eauto.
Qed.

Lemma norm_payload P :
  StronglySorted ult (map fst P) ->
  Forall (fun kv => high_key (fst kv) /\ norm_str nfc (fst kv) = fst kv /\ stable (snd kv)) P ->
  norm nfc (Obj P) = Obj (normed_payload P).
Proof.
  intros Hs He. rewrite norm_Obj. f_equal.
  rewrite (nm_append P []).
  - unfold EP, normed_payload. simpl. rewrite map_map. reflexivity.
  - simpl. unfold ksorted, EP. rewrite map_map. simpl.
    eapply (StronglySorted_map2 klt ult (fun kv => enc_str nfc (fst kv)) fst); [|exact Hs].
    intros a b Ha Hb Hab. rewrite Forall_forall in He.
    destruct (He a Ha) as (Ha1 & Ha2 & _). destruct (He b Hb) as (Hb1 & Hb2 & _).
    unfold klt. rewrite !(enc_str_emit nfc nfc_plain), Ha2, Hb2.
    rewrite lex_cmp_emit_str_high by assumption. exact Hab.
  - eapply Forall_impl; [|exact He]. intros a Ha. apply Ha.
Qed.

Lemma pinsert_snoc {A} k (x : A) m :
  Forall (fun k' => ult k' k) (map fst m) -> pinsert k x m = m ++ [(k, x)].
Proof.
  induction m as [|[k' x'] m IH]; simpl; intros H; [reflexivity|].
  inversion H as [|? ? Hlt Hf]; subst. unfold ult in Hlt.
  rewrite (lex_cmp_antisym (utf8s k') (utf8s k)), Hlt. simpl. rewrite IH by exact Hf. reflexivity.
Qed.

Lemma payload_fold_sorted (P : list (list N * value)) : forall acc,
  StronglySorted ult (map fst (acc ++ P)) ->
  fold_left (fun a kv => pinsert (fst kv) (snd kv) a) P acc = acc ++ P.
Proof.
  induction P as [|[k x] P IH]; intros acc Hs; simpl; [rewrite app_nil_r; reflexivity|].
  rewrite pinsert_snoc.
  - rewrite IH; rewrite <- app_assoc; [reflexivity|exact Hs].
  - clear IH. induction acc as [|a acc IHa]; simpl in *; [constructor|].
    inversion Hs as [|? ? Hs' Hf]; subst. constructor; [|apply IHa; exact Hs'].
    rewrite Forall_forall in Hf. apply Hf. rewrite map_app. apply in_or_app. right. left. reflexivity.
Qed.

Lemma dids_of_str ds : dids_of did_parse (map (fun x => Str (did_str x)) ds) = Some ds.
Proof. induction ds as [|d ds IH]; simpl; [reflexivity|]. rewrite Hdid_rt, IH. reflexivity. Qed.

Lemma norm_did_arr ds :
  norm nfc (Arr (map (fun x => Str (did_str x)) ds)) = Arr (map (fun x => Str (did_str x)) ds).
Proof.
  rewrite norm_Arr. f_equal. rewrite map_map. apply map_ext. intros x. simpl.
  rewrite norm_str_clean by apply Hdid_clean. reflexivity.
Qed.

Lemma sinsert_snoc d s : Forall (fun d' => d' < d) s -> sinsert d s = s ++ [d].
Proof.
  induction s as [|d' s IH]; simpl; intros H; [reflexivity|].
  inversion H; subst. destruct (N.compare_spec d d'); try lia. rewrite IH by assumption. reflexivity.
Qed.

Lemma sinsert_fold_sorted l : forall acc, StronglySorted N.lt (acc ++ l) ->
  fold_left (fun s d => sinsert d s) l acc = acc ++ l.
Proof.
  induction l as [|d l IH]; intros acc Hs; simpl; [rewrite app_nil_r; reflexivity|].
  rewrite sinsert_snoc.
  - rewrite IH; rewrite <- app_assoc; [reflexivity|exact Hs].
  - clear IH. induction acc as [|a acc IHa]; simpl in *; [constructor|].
    inversion Hs as [|? ? Hs' Hf]; subst. constructor; [|apply IHa; exact Hs'].
    rewrite Forall_forall in Hf. apply Hf. apply in_or_app. right. left. reflexivity.
Qed.

Lemma delegates_fold_nodup l : forall acc, NoDup (acc ++ l) -> (length (acc ++ l) <= 255)%nat ->
  delegates_fold l acc = Some (acc ++ l).
Proof.
  induction l as [|d l IH]; intros acc Hnd Hlen; simpl; [rewrite app_nil_r; reflexivity|].
  assert (Hnin : memN d acc = false).
  { destruct (memN d acc) eqn:E; [|reflexivity]. apply memN_In in E. exfalso.
    apply NoDup_remove_2 in Hnd. apply Hnd. apply in_or_app. left. exact E. }
  rewrite Hnin. unfold MAX_DELEGATES. rewrite app_length in Hlen. simpl in Hlen.
  replace (255 <=? N.of_nat (length acc)) with false by (symmetry; apply N.leb_gt; lia).
  rewrite IH; rewrite <- app_assoc; simpl; auto. rewrite app_length. simpl. lia.
Qed.

Lemma delegates_new_nodup ds : NoDup ds -> (1 <= length ds <= 255)%nat -> delegates_new ds = Some ds.
Proof.
  intros Hnd Hlen. unfold delegates_new. rewrite (delegates_fold_nodup ds []) by (simpl; auto; lia).
  simpl. destruct ds; [simpl in Hlen; lia|reflexivity].
Qed.

Lemma payload_eqb_norm P :
  Forall (fun kv => Forall scalar (fst kv) /\ wfi (snd kv)) P ->
  Forall (fun kv => stable (snd kv)) P ->
  payload_eqb (normed_payload P) P = true.
Proof.
  induction P as [|[k x] P IH]; intros Hw Hs; [reflexivity|].
  inversion Hw as [|? ? [_ Hwx] Hw']; subst. inversion Hs as [|? ? Hsx Hs']; subst. simpl in *.
  rewrite str_eqb_refl, veq_norm by assumption. simpl. apply IH; assumption.
Qed.

Lemma list_eqb_N_refl l : list_eqb N.eqb l l = true.
Proof. apply (list_eqb_spec N.eqb N.eqb_eq). reflexivity. Qed.

(* evaluate comparisons of closed strings *)
Ltac eval_streqb :=
  repeat match goal with
  | |- context [str_eqb ?a ?b] =>
      let v := eval vm_compute in (str_eqb a b) in
      match v with
      | true => change (str_eqb a b) with true
      | false => change (str_eqb a b) with false
      end
  end; cbv iota.

Lemma clean_consts :
  clean s_version /\ clean s_payload /\ clean s_delegates /\ clean s_threshold /\
  clean s_visibility /\ clean s_type /\ clean s_allow /\ clean s_private.
Proof. unfold clean, clean_char. repeat split; repeat constructor; vm_compute; congruence. Qed.

Lemma count_le1 k (A : list (list N * value)) : NoDup (map fst A) -> (1 <? count_key k A)%nat = false.
Proof. intros H. rewrite count_key_nodup by exact H. destruct (assoc k A); reflexivity. Qed.

Lemma norm_obj_members m : norm nfc (Obj m) = Obj (members (norm nfc (Obj m))).
Proof. rewrite norm_Obj. reflexivity. Qed.

Lemma norm_Str_clean s : clean s -> norm nfc (Str s) = Str s.
Proof. intros H. simpl. rewrite norm_str_clean by exact H. reflexivity. Qed.

(* the visibility member, if any, reads back as the same visibility *)
Lemma vis_roundtrip vis :
  match vis with Public => True | Private a => StronglySorted N.lt a end ->
  match vis_json did_str vis with
  | [] => vis = Public
  | [(k, v)] => k = s_visibility /\ vis_of did_parse (norm nfc v) = VOk vis
  | _ => False
  end.
Proof.
  destruct clean_consts as (C1 & C2 & C3 & C4 & C5 & C6 & C7 & C8).
  destruct vis as [|[|a allow]]; intros Hs; simpl vis_json; [reflexivity| |].
  - split; [reflexivity|].
    set (VM := [(s_type, Str s_private)]).
    assert (Hnd : NoDup (map fst VM)) by (repeat constructor; simpl; tauto).
    assert (Hc : Forall (fun kx => clean (fst kx)) VM) by (constructor; [exact C6|constructor]).
    rewrite (norm_obj_members VM). unfold vis_of.
    destruct (norm_obj_lookup VM s_type Hnd Hc) as [L1 HndA].
    destruct (norm_obj_lookup VM s_allow Hnd Hc) as [L2 _].
    rewrite (first_key_assoc s_type), (first_key_assoc s_allow). rewrite (count_key_nodup s_type _ HndA), (count_key_nodup s_allow _ HndA). rewrite L1, L2.
    unfold VM. cbn [assoc]. eval_streqb. cbn [option_map]. rewrite norm_Str_clean by exact C8.
    eval_streqb. reflexivity.
  - split; [reflexivity|].
    change (vis_of did_parse (norm nfc (Obj [(s_type, Str s_private);
              (s_allow, Arr (map (fun d => Str (did_str d)) (a :: allow)))])) = VOk (Private (a :: allow))).
    set (D := map (fun d => Str (did_str d)) (a :: allow)).
    set (VM := [(s_type, Str s_private); (s_allow, Arr D)]).
    assert (Hnd : NoDup (map fst VM)).
    { repeat constructor; simpl; try tauto. intros [H|[]]. vm_compute in H. discriminate. }
    assert (Hc : Forall (fun kx => clean (fst kx)) VM) by (constructor; [exact C6|constructor; [exact C7|constructor]]).
    rewrite (norm_obj_members VM). unfold vis_of.
    destruct (norm_obj_lookup VM s_type Hnd Hc) as [L1 HndA].
    destruct (norm_obj_lookup VM s_allow Hnd Hc) as [L2 _].
    rewrite (first_key_assoc s_type), (first_key_assoc s_allow). rewrite (count_key_nodup s_type _ HndA), (count_key_nodup s_allow _ HndA). rewrite L1, L2.
    unfold VM. cbn [assoc]. eval_streqb. cbn [option_map]. rewrite norm_Str_clean by exact C8.
    eval_streqb. unfold D. rewrite norm_did_arr. rewrite dids_of_str.
    rewrite (sinsert_fold_sorted (a :: allow) []) by exact Hs. reflexivity.
Qed.

Definition decoded (d : doc) : doc :=
  mkDoc 1 (normed_payload (d_payload d)) (d_delegates d) (d_threshold d) (d_visibility d).

Theorem of_json_norm_to_json d : valid d -> wf_doc d -> encodable d ->
  of_json did_parse (norm nfc (to_json did_str d)) = DOk (decoded d).
Proof.
  destruct clean_consts as (C1 & C2 & C3 & C4 & C5 & C6 & C7 & C8).
  destruct d as [ver P ds t vis]. unfold valid, wf_doc, encodable, decoded.
  cbn [d_version d_payload d_delegates d_threshold d_visibility].
  intros (Hlen & Hnd & Ht & ->) (HsP & HwP & Hvis) He.
  set (D := map (fun x => Str (did_str x)) ds).
  assert (TJ : to_json did_str (mkDoc 1 P ds t vis) =
               Obj ((s_payload, Obj P) :: (s_delegates, Arr D) :: (s_threshold, Int (Z.of_N t)) ::
                    vis_json did_str vis)) by reflexivity.
  rewrite TJ. clear TJ.
  pose proof (vis_roundtrip vis Hvis) as HV.
  set (M := (s_payload, Obj P) :: (s_delegates, Arr D) :: (s_threshold, Int (Z.of_N t)) :: vis_json did_str vis).
  assert (HM : NoDup (map fst M) /\ Forall (fun kx => clean (fst kx)) M).
  { unfold M. destruct (vis_json did_str vis) as [|[k v] [|? ?]]; [| |destruct HV].
    - split; [|constructor; [exact C2|constructor; [exact C3|constructor; [exact C4|constructor]]]].
      repeat constructor; simpl; intros H; repeat (destruct H as [H|H]; [vm_compute in H; discriminate|]); exact H.
    - destruct HV as [-> _]. split; [|constructor; [exact C2|constructor; [exact C3|constructor; [exact C4|constructor; [exact C5|constructor]]]]].
      repeat constructor; simpl; intros H; repeat (destruct H as [H|H]; [vm_compute in H; discriminate|]); exact H. }
  destruct HM as [HndM HcM].
  rewrite (norm_obj_members M).
  assert (L : forall k, assoc k (members (norm nfc (Obj M))) = option_map (norm nfc) (assoc k M))
    by (intros k; apply (norm_obj_lookup M k HndM HcM)).
  pose proof (proj2 (norm_obj_lookup M s_version HndM HcM)) as HndA.
  unfold of_json, raw_of_json.
  rewrite !count_le1 by exact HndA. cbn [orb]. cbv iota.
  rewrite (first_key_assoc s_version), (first_key_assoc s_payload), (first_key_assoc s_delegates),
    (first_key_assoc s_threshold), (first_key_assoc s_visibility), !L.
  (* the five lookups in M *)
  assert (A1 : assoc s_version M = None).
  { unfold M. cbn [assoc]. eval_streqb.
    destruct (vis_json did_str vis) as [|[k v] [|? ?]]; [reflexivity| |destruct HV].
    destruct HV as [-> _]. cbn [assoc]. eval_streqb. reflexivity. }
  assert (A2 : assoc s_payload M = Some (Obj P)) by (unfold M; cbn [assoc]; eval_streqb; reflexivity).
  assert (A3 : assoc s_delegates M = Some (Arr D)) by (unfold M; cbn [assoc]; eval_streqb; reflexivity).
  assert (A4 : assoc s_threshold M = Some (Int (Z.of_N t))) by (unfold M; cbn [assoc]; eval_streqb; reflexivity).
  rewrite A1, A2, A3, A4. cbn [option_map].
  rewrite (norm_payload P HsP He). unfold D. rewrite norm_did_arr, dids_of_str.
  cbn [payload_of]. rewrite (payload_fold_sorted (normed_payload P) []).
  2:{ simpl. unfold normed_payload. rewrite map_map. simpl. exact HsP. }
  simpl app. cbn [norm nat_of].
  replace ((0 <=? Z.of_N t)%Z && (Z.to_N (Z.of_N t) <=? u64_max)) with true.
  2:{ symmetry. apply andb_true_iff. split; [apply Z.leb_le; lia|]. rewrite N2Z.id. apply N.leb_le. unfold u64_max. lia. }
  rewrite N2Z.id.
  assert (AV : match assoc s_visibility M with
               | None => VOk Public
               | Some x => vis_of did_parse (norm nfc x)
               end = VOk vis).
  { unfold M. cbn [assoc]. eval_streqb.
    destruct (vis_json did_str vis) as [|[k v] [|? ?]]; [subst vis; reflexivity| |destruct HV].
    destruct HV as [-> HV]. cbn [assoc]. eval_streqb. exact HV. }
  replace (match option_map (norm nfc) (assoc s_visibility M) with
           | Some x => vis_of did_parse x
           | None => VOk Public
           end) with (VOk vis)
    by (destruct (assoc s_visibility M); cbn [option_map]; symmetry; exact AV).
  cbv iota. unfold verified. cbn [r_delegates r_threshold r_version r_payload r_visibility].
  rewrite delegates_new_nodup by assumption.
  unfold threshold_new, MAX_DELEGATES.
  replace (255 <? t) with false by (symmetry; apply N.ltb_ge; lia).
  replace (N.of_nat (length ds) <? t) with false by (symmetry; apply N.ltb_ge; lia).
  replace (t =? 0) with false by (symmetry; apply N.eqb_neq; lia). reflexivity.
Qed.

Lemma decoded_eq d : valid d -> wf_doc d -> encodable d -> doc_eqb (decoded d) d = true.
Proof.
  destruct d as [ver P ds t vis]. unfold valid, wf_doc, encodable, decoded, doc_eqb. simpl.
  intros (_ & _ & _ & ->) (_ & HwP & _) He.
  rewrite payload_eqb_norm; [|exact HwP|eapply Forall_impl; [|exact He]; intros a Ha; apply Ha].
  rewrite !list_eqb_N_refl, !N.eqb_refl. simpl.
  destruct vis; simpl; [reflexivity|apply list_eqb_N_refl].
Qed.

Lemma stable_no_float : forall v, stable v -> has_float v = false.
Proof.
  induction v as [| [|] | z | | s | l IH | m IH] using value_ind'; intros Hs; try reflexivity.
  - destruct Hs.
  - apply stable_Arr in Hs. simpl. induction l as [|x l IHl]; [reflexivity|].
    inversion IH; subst. inversion Hs; subst. simpl. rewrite H1, IHl by assumption. reflexivity.
  - apply stable_Obj in Hs. destruct Hs as [_ Hs]. simpl. induction m as [|kx m IHm]; [reflexivity|].
    inversion IH; subst. inversion Hs as [|? ? [_ Hx] ?]; subst. simpl. rewrite H1, IHm by assumption. reflexivity.
Qed.

Lemma to_json_wfi d : valid d -> wf_doc d -> wfi (to_json did_str d).
Proof.
  destruct clean_consts as (C1 & C2 & C3 & C4 & C5 & C6 & C7 & C8).
  destruct d as [ver P ds t vis]. unfold valid, wf_doc.
  cbn [d_version d_payload d_delegates d_threshold d_visibility].
  intros (Hlen & Hnd & Ht & ->) (HsP & HwP & Hvis).
  assert (HD : forall l, wfi (Arr (map (fun x => Str (did_str x)) l))).
  { intros l. apply wfi_Arr. apply Forall_forall. intros v Hv. apply in_map_iff in Hv.
    destruct Hv as (x & <- & _). simpl. apply clean_scalar, Hdid_clean. }
  assert (TJ : to_json did_str (mkDoc 1 P ds t vis) =
               Obj ((s_payload, Obj P) :: (s_delegates, Arr (map (fun x => Str (did_str x)) ds)) ::
                    (s_threshold, Int (Z.of_N t)) :: vis_json did_str vis)) by reflexivity.
  rewrite TJ. apply wfi_Obj.
  constructor; [split; [apply clean_scalar, C2|apply wfi_Obj; exact HwP]|].
  constructor; [split; [apply clean_scalar, C3|apply HD]|].
  constructor; [split; [apply clean_scalar, C4|simpl; unfold int_range; lia]|].
  destruct vis as [|[|a allow]]; simpl vis_json; [constructor| |].
  - constructor; [|constructor]. split; [apply clean_scalar, C5|]. apply wfi_Obj.
    constructor; [|constructor]. split; [apply clean_scalar, C6|simpl; apply clean_scalar, C8].
  - constructor; [|constructor]. split; [apply clean_scalar, C5|]. apply wfi_Obj.
    constructor; [split; [apply clean_scalar, C6|simpl; apply clean_scalar, C8]|].
    constructor; [|constructor]. split; [apply clean_scalar, C7|]. apply (HD (a :: allow)).
Qed.

Lemma to_json_no_float d : encodable d -> has_float (to_json did_str d) = false.
Proof.
  destruct d as [ver P ds t vis]. unfold encodable. cbn [d_payload]. intros He.
  unfold to_json. cbn [d_version d_payload d_delegates d_threshold d_visibility].
  assert (HP : existsb (fun kx : list N * value => has_float (snd kx)) P = false).
  { induction P as [|kv P IH]; [reflexivity|]. inversion He as [|? ? (_ & _ & Hs) He']; subst.
    simpl. rewrite (stable_no_float _ Hs), (IH He'). reflexivity. }
  assert (HD : forall l, existsb has_float (map (fun x => Str (did_str x)) l) = false).
  { induction l; simpl; auto. }
  destruct (ver <=? 1); destruct vis as [|[|a allow]]; simpl; rewrite HP, ?HD; reflexivity.
Qed.

(* Encoding a valid, encodable document succeeds; decoding the bytes yields a
   document equal (PartialEq) to the original; the oid is the blob hash. *)
Theorem roundtrip blob_hash d : valid d -> wf_doc d -> encodable d ->
  exists oid bs j d',
    doc_encode did_str nfc blob_hash d = Some (oid, bs) /\ oid = blob_hash bs /\
    parse bs = Some j /\ of_json did_parse j = DOk d' /\ doc_eqb d' d = true.
Proof.
  intros Hv Hw He.
  pose proof (to_json_no_float d He) as Hf.
  pose proof (encode_emit nfc nfc_plain _ Hf) as Henc.
  exists (blob_hash (emit (norm nfc (to_json did_str d)))), (emit (norm nfc (to_json did_str d))),
         (norm nfc (to_json did_str d)), (decoded d).
  split; [unfold doc_encode; rewrite Henc; reflexivity|]. split; [reflexivity|].
  split; [apply (parse_encode nfc nfc_plain nfc_scalar); [apply to_json_wfi; assumption|exact Henc]|].
  split; [apply of_json_norm_to_json; assumption|apply decoded_eq; assumption].
Qed.

(* in general (payload not normalised) decoding yields the normalised document *)
Theorem decode_of_encode blob_hash d oid bs : valid d -> wf_doc d ->
  doc_encode did_str nfc blob_hash d = Some (oid, bs) ->
  parse bs = Some (norm nfc (to_json did_str d)) /\ oid = blob_hash bs.
Proof.
  intros Hv Hw. unfold doc_encode. destruct (encode nfc (to_json did_str d)) as [b|] eqn:E; [|discriminate].
  intros H; inversion H; subst. split; [|reflexivity].
  apply (parse_encode nfc nfc_plain nfc_scalar); [apply to_json_wfi; assumption|exact E].
Qed.

End RT.

(* ------------------------------------------------------------------ non-vacuity and the boundary *)

(* a toy DID syntax: the DID with id i is the letter A repeated i times *)
Definition toy_did_str (i : N) : list N := repeat 65 (N.to_nat i).
Definition toy_did_parse (s : list N) : option N :=
  if forallb (N.eqb 65) s then Some (N.of_nat (length s)) else None.

Lemma toy_did_ok : (forall d, toy_did_parse (toy_did_str d) = Some d) /\ (forall d, clean (toy_did_str d)).
Proof.
  unfold toy_did_parse, toy_did_str. split; intros d.
  - replace (forallb (N.eqb 65) (repeat 65 (N.to_nat d))) with true.
    + rewrite repeat_length, N2Nat.id. reflexivity.
    + symmetry. apply forallb_forall. intros x Hx. apply repeat_spec in Hx. subst. reflexivity.
  - apply Forall_forall. intros x Hx. apply repeat_spec in Hx. subst. unfold clean_char. lia.
Qed.

Lemma toy_nfc_ascii s : Forall (fun c => c < 128) s -> toy_nfc s = s.
Proof.
  unfold toy_nfc. induction 1 as [|c s Hc _ IH]; [reflexivity|]. simpl. rewrite IH.
  replace (c =? 8491) with false by (symmetry; apply N.eqb_neq; lia). reflexivity.
Qed.
