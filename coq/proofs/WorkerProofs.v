(* WorkerProofs.v — the fetch responder serves repository data only to peers
   allowed to see the repository (C12). *)
From HW Require Import lib.Base model.Worker proofs.PktlineProofs.
Local Open Scope N_scope.

(* ---------------------------------------------------------------- specification side *)

(* who may see a repository: everyone if public; delegates and the allow list if private *)
Definition visible (d : doc) (n : N) : Prop :=
  d_visibility d = Public \/ In n (d_delegates d) \/
  exists allow, d_visibility d = Private allow /\ In n allow.

(* the node seeds the repository: the policy in force (explicit row, else the
   configured default) is Allow *)
Definition seeded (st : state) (rid : list N) : Prop := seed_policy st rid = Some Allow.

(* the repository is in storage and its identity document is [d] *)
Definition repo_doc (st : state) (rid : list N) (d : doc) : Prop :=
  assoc rid (st_repos st) = Some (RepoDoc d).

Definition allowed (st : state) (remote : N) (rid : list N) : Prop :=
  seeded st rid /\ exists d, repo_doc st rid d /\ visible d remote.

Lemma is_visible_to_spec d n : is_visible_to d n = true <-> visible d n.
Proof.
  unfold is_visible_to, visible, is_delegate. destruct (d_visibility d) as [|allow].
  - split; auto.
  - rewrite orb_true_iff, !memN_In. split.
    + intros [H|H]; [right; right; exists allow; auto | right; left; exact H].
    + intros [H|[H|[a [E H]]]]; [discriminate | right; exact H | left; inversion E; subst; exact H].
Qed.

(* ---------------------------------------------------------------- is_authorized *)

Theorem is_authorized_iff st remote rid :
  is_authorized st remote rid = None <-> allowed st remote rid.
Proof.
  unfold is_authorized, allowed, seeded, repo_doc. split.
  - intros H. destruct (seed_policy st rid) as [[|]|]; try discriminate.
    split; [reflexivity|].
    destruct (assoc rid (st_repos st)) as [[d|]|]; try discriminate.
    exists d. split; [reflexivity|]. apply is_visible_to_spec.
    destruct (is_visible_to d remote); [reflexivity|discriminate].
  - intros [Hs [d [Hd Hv]]]. rewrite Hs, Hd.
    apply is_visible_to_spec in Hv. rewrite Hv. reflexivity.
Qed.

(* the design's three-argument form agrees with the worker's decision *)
Lemma authorize_agrees st remote rid p :
  seed_policy st rid = Some p ->
  authorize p (match assoc rid (st_repos st) with Some (RepoDoc d) => Some d | _ => None end) remote
  = match is_authorized st remote rid with None => true | Some _ => false end.
Proof.
  intros Hp. unfold authorize, is_authorized. rewrite Hp.
  destruct p; [|reflexivity].
  destruct (assoc rid (st_repos st)) as [[d|]|]; try reflexivity.
  destruct (is_visible_to d remote); reflexivity.
Qed.

(* a blocked repository is refused as Unauthorized whatever the storage holds —
   the decision is taken before the repository is opened *)
Theorem block_refused_before_load st remote rid :
  seed_policy st rid = Some Block ->
  is_authorized st remote rid = Some UUnauthorized.
Proof. intros H. unfold is_authorized. rewrite H. reflexivity. Qed.

Theorem block_independent_of_storage st repos' remote rid :
  seed_policy st rid = Some Block ->
  is_authorized {| st_default := st_default st; st_policy_err := st_policy_err st;
                   st_explicit := st_explicit st; st_repos := repos' |} remote rid
  = Some UUnauthorized.
Proof.
  intros H. apply block_refused_before_load.
  unfold seed_policy in *. cbn [st_policy_err st_explicit st_default]. exact H.
Qed.

(* ---------------------------------------------------------------- _process *)

Section Process.
Variable gup : list N -> list N -> list N.

(* every way _process can end, with what it wrote *)
Lemma process_cases st remote ext stream :
  (exists e, git_request ext stream = Err e /\
             process gup st remote ext stream = Done None (Some (UIo e)) [])
  \/ (exists h rest e, git_request ext stream = Ok (h, rest) /\
        is_authorized st remote (g_repo h) = Some e /\
        process gup st remote ext stream = Done (Some (g_repo h)) (Some e) [])
  \/ (exists h rest, git_request ext stream = Ok (h, rest) /\
        is_authorized st remote (g_repo h) = None /\
        protocol_version (g_extra h) <> 2 /\
        process gup st remote ext stream = Done (Some (g_repo h)) (Some (UIo EInvalidData)) [])
  \/ (exists h rest, git_request ext stream = Ok (h, rest) /\
        is_authorized st remote (g_repo h) = None /\
        protocol_version (g_extra h) = 2 /\
        process gup st remote ext stream = Done (Some (g_repo h)) None (gup (g_repo h) rest)).
Proof.
  unfold process.
  destruct (git_request ext stream) as [[h rest]|e|s] eqn:E.
  - destruct (is_authorized st remote (g_repo h)) as [e|] eqn:A.
    + right; left. exists h, rest, e. auto.
    + unfold upload_pack. destruct (protocol_version (g_extra h) =? 2) eqn:V.
      * apply N.eqb_eq in V. right; right; right. exists h, rest. auto.
      * apply N.eqb_neq in V. right; right; left. exists h, rest. auto.
  - left. exists e. auto.
  - exfalso. exact (pktline_no_panic ext stream s E).
Qed.

Theorem process_no_panic st remote ext stream site :
  process gup st remote ext stream <> ProcPanic site.
Proof.
  destruct (process_cases st remote ext stream)
    as [(e & _ & ->)|[(h & r & e & _ & _ & ->)|[(h & r & _ & _ & _ & ->)|(h & r & _ & _ & _ & ->)]]];
    discriminate.
Qed.

(* C12: the upload is started (result Ok) only for a repository that is seeded
   and visible to the requester *)
Theorem served_implies_allowed st remote ext stream rid out :
  process gup st remote ext stream = Done rid None out ->
  exists r, rid = Some r /\ seeded st r /\
            exists d, repo_doc st r d /\ visible d remote.
Proof.
  intros H.
  destruct (process_cases st remote ext stream)
    as [(e & _ & P)|[(h & r & e & _ & _ & P)|[(h & r & _ & _ & _ & P)|(h & r & _ & A & _ & P)]]];
    rewrite P in H; inversion H; subst.
  exists (g_repo h). split; [reflexivity|]. apply is_authorized_iff in A. exact A.
Qed.

(* ... and on every other branch not one byte is written to the stream: any
   output at all is the output of `git upload-pack` on that very repository,
   fed with exactly what followed the header *)
Theorem data_implies_allowed st remote ext stream rid result out :
  process gup st remote ext stream = Done rid result out ->
  out <> [] ->
  exists h rest, git_request ext stream = Ok (h, rest) /\
    rid = Some (g_repo h) /\ result = None /\ out = gup (g_repo h) rest /\
    allowed st remote (g_repo h).
Proof.
  intros H Hne.
  destruct (process_cases st remote ext stream)
    as [(e & _ & P)|[(h & r & e & _ & _ & P)|[(h & r & _ & _ & _ & P)|(h & r & G & A & _ & P)]]];
    rewrite P in H; inversion H; subst; try (exfalso; apply Hne; reflexivity).
  exists h, r. split; [exact G|]. split; [reflexivity|]. split; [reflexivity|].
  split; [reflexivity|]. apply is_authorized_iff. exact A.
Qed.

Theorem refused_sends_nothing st remote ext stream rid e out :
  process gup st remote ext stream = Done rid (Some e) out -> out = [].
Proof.
  intros H.
  destruct (process_cases st remote ext stream)
    as [(e' & _ & P)|[(h & r & e' & _ & _ & P)|[(h & r & _ & _ & _ & P)|(h & r & _ & _ & _ & P)]]];
    rewrite P in H; inversion H; subst; reflexivity.
Qed.

(* the converse (the check refuses nobody it should serve): a well-formed
   version-2 request for a seeded repository visible to the requester is served *)
Theorem allowed_is_served st remote ext stream h rest :
  git_request ext stream = Ok (h, rest) ->
  protocol_version (g_extra h) = 2 ->
  allowed st remote (g_repo h) ->
  process gup st remote ext stream = Done (Some (g_repo h)) None (gup (g_repo h) rest).
Proof.
  intros G V A. apply is_authorized_iff in A.
  unfold process, upload_pack. rewrite G, A, V. reflexivity.
Qed.

(* a whole session: the worker handles one request after another, the policy
   database and the storage may change in between; every byte ever written was
   authorised by the state in force when its request was handled *)
Definition session_request := (state * N * option (list N) * list N)%type.

Definition handle (r : session_request) : outcome :=
  let '(st, remote, ext, stream) := r in process gup st remote ext stream.

Theorem session_data_allowed (reqs : list session_request) :
  Forall (fun r =>
    let '(st, remote, ext, stream) := r in
    forall rid result out, handle r = Done rid result out -> out <> [] ->
      exists rid', rid = Some rid' /\ result = None /\ allowed st remote rid') reqs.
Proof.
  apply Forall_forall. intros [[[st remote] ext] stream] _ rid result out H Hne.
  cbn [handle] in H.
  destruct (data_implies_allowed st remote ext stream rid result out H Hne)
    as (h & rest & _ & -> & -> & _ & A).
  exists (g_repo h). auto.
Qed.
End Process.

(* ---------------------------------------------------------------- satisfiability *)

(* "003egit-upload-pack /z3gqcJUoA1n9HaHKufZs5FCSGazv5\0\0version=2\0" followed by client data *)
Definition ex_stream : list N :=
  [48; 48; 51; 101] ++ GIT_UPLOAD_PACK ++
  [47; 122; 51; 103; 113; 99; 74; 85; 111; 65; 49; 110; 57; 72; 97; 72; 75; 117; 102; 90; 115;
   53; 70; 67; 83; 71; 97; 122; 118; 53; 0; 0; 118; 101; 114; 115; 105; 111; 110; 61; 50; 0]
  ++ [48; 48; 48; 48].

Definition ex_rid : list N :=
  match git_request None ex_stream with Ok (h, _) => g_repo h | _ => [] end.

Definition ex_state (vis : visibility) (p : policy) : state :=
  {| st_default := Block; st_policy_err := false;
     st_explicit := [(ex_rid, p)];
     st_repos := [(ex_rid, RepoDoc {| d_delegates := [1]; d_visibility := vis |})] |}.

(* private repository, requester 2 on the allow list: served, data flows *)
Example ex_served :
  process marker_pack (ex_state (Private [2]) Allow) 2 None ex_stream = Done (Some ex_rid) None [1].
Proof. vm_compute. reflexivity. Qed.

(* requester 3 is neither delegate nor allow-listed: refused, nothing written *)
Example ex_stranger_refused :
  process marker_pack (ex_state (Private [2]) Allow) 3 None ex_stream
  = Done (Some ex_rid) (Some UUnauthorized) [].
Proof. vm_compute. reflexivity. Qed.

(* delegate 1 of a private repository with an empty allow list: served *)
Example ex_delegate_served :
  process marker_pack (ex_state (Private []) Allow) 1 None ex_stream = Done (Some ex_rid) None [1].
Proof. vm_compute. reflexivity. Qed.

(* public but blocked: refused *)
Example ex_blocked_refused :
  process marker_pack (ex_state Public Block) 1 None ex_stream
  = Done (Some ex_rid) (Some UUnauthorized) [].
Proof. vm_compute. reflexivity. Qed.
