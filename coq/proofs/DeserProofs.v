(* DeserProofs.v — proofs about coq/model/WireFrame.v and coq/model/Deser.v:
   frame round trip / strict prefixes are incomplete, allocation bound of a decode
   attempt, consumed input, the drain loop and the chunk feeder. *)
From HW Require Import lib.Base model.WireVarint model.WireFrame model.Deser proofs.WireVarintProofs.
Local Open Scope N_scope.

(* ------------------------------------------------------------------ *)
(* version *)

Lemma version_decode_ok r : version_decode (VERSION_BYTES ++ r) = DOk tt r.
Proof. reflexivity. Qed.

Lemma version_decode_prefix p : sprefix p VERSION_BYTES -> version_decode p = DEof.
Proof.
  intros H. unfold VERSION_BYTES in H.
  repeat match goal with
  | H : sprefix _ (_ :: _) |- _ =>
      apply sprefix_cons_inv in H; destruct H as [-> | [? [-> H]]]
  | H : sprefix _ [] |- _ => exfalso; exact (sprefix_nil _ H)
  end; reflexivity.
Qed.

Lemma version_decode_rest inp u r : version_decode inp = DOk u r ->
  exists v, inp = v ++ r /\ length v = 4%nat.
Proof.
  destruct inp as [|v0 [|v1 [|v2 [|v3 r']]]]; try discriminate. cbn [version_decode].
  destruct (list_eqb N.eqb [v0; v1; v2; v3] VERSION_BYTES); [|discriminate].
  destruct (v3 =? PROTOCOL_VERSION); [|discriminate].
  intros E; injection E as _ <-. exists [v0; v1; v2; v3]. split; reflexivity.
Qed.

Lemma version_decode_total inp : version_decode inp <> DUnreachable /\ version_decode inp <> DFuel.
Proof.
  destruct inp as [|v0 [|v1 [|v2 [|v3 r']]]]; try (split; discriminate). cbn [version_decode].
  destruct (list_eqb N.eqb [v0; v1; v2; v3] VERSION_BYTES); [|split; discriminate].
  destruct (v3 =? PROTOCOL_VERSION); split; discriminate.
Qed.

(* Frame::decode's `version.number() != PROTOCOL_VERSION` can never fire *)
Lemma version_never_wrong inp n : version_decode inp <> DErr (EWrongVersion n).
Proof.
  destruct inp as [|v0 [|v1 [|v2 [|v3 r']]]]; try discriminate. cbn [version_decode].
  destruct (list_eqb N.eqb [v0; v1; v2; v3] VERSION_BYTES) eqn:E; [|discriminate].
  apply (list_eqb_spec N.eqb N.eqb_eq) in E. injection E as -> -> -> ->. discriminate.
Qed.

(* ------------------------------------------------------------------ *)
(* control *)

Definition control_stream (c : control) : N :=
  match c with COpen s | CClose s | CEof s => s end.

Lemma control_decode_encode c bs rest : control_encode c = Some bs ->
  control_decode (bs ++ rest) = DOk c rest.
Proof.
  destruct c as [s|s|s]; cbn [control_encode];
    destruct (varint_encode s) as [sb|] eqn:E; try discriminate;
    intros H; injection H as <-;
    destruct (varint_encode_len _ _ E) as [_ Hs];
    rewrite varint_encode_form in E by exact Hs; injection E as <-;
    destruct (varint_tag_spec _ Hs) as [Ht Hc];
    cbn [app control_decode]; rewrite varint_decode_form by assumption; reflexivity.
Qed.

Lemma control_decode_prefix c bs p : control_encode c = Some bs -> sprefix p bs ->
  control_decode p = DEof.
Proof.
  destruct c as [s|s|s]; cbn [control_encode];
    destruct (varint_encode s) as [sb|] eqn:E; try discriminate;
    intros H; injection H as <-;
    destruct (varint_encode_len _ _ E) as [_ Hs];
    rewrite varint_encode_form in E by exact Hs; injection E as <-;
    destruct (varint_tag_spec _ Hs) as [Ht Hc];
    intros Hp; apply sprefix_cons_inv in Hp; destruct Hp as [-> | [p' [-> Hp]]];
    try reflexivity; cbn [control_decode];
    rewrite (varint_decode_form_prefix _ _ _ Ht Hc Hp); reflexivity.
Qed.

Lemma control_decode_rest_len inp c r : control_decode inp = DOk c r -> len r < len inp.
Proof.
  destruct inp as [|cmd inp]; [discriminate|]. cbn [control_decode]. rewrite len_cons.
  destruct cmd as [|[[p|p|]|[p|p|]|]]; try discriminate;
    destruct (varint_decode inp) as [s r'| | | |] eqn:E; try discriminate;
    intros H; injection H as _ <-; apply varint_decode_rest_len in E; lia.
Qed.

Section FrameProofs.
  Context {M : Type}.
  Variable inner_decode : list N -> ires M.
  Variable inner_encode : M -> list N.

  (* the stream id's kind bits agree with the payload variant (always true of
     frames built by Frame::control / gossip / git and StreamId::nth) *)
  Definition frame_wf (f : frame M) : Prop :=
    match f_data f with
    | FControl _ => stream_kind (f_stream f) = 0
    | FGossip _ => stream_kind (f_stream f) = 1
    | FGit _ => stream_kind (f_stream f) = 2
    end.

  (* ranges under which the encoder does not fail *)
  Definition frame_ok (f : frame M) : Prop :=
    frame_wf f /\ f_stream f < 2 ^ 62 /\
    match f_data f with
    | FControl c => control_stream c < 2 ^ 62
    | FGossip m => len (inner_encode m) < 2 ^ 62
    | FGit d => len d < 2 ^ 62
    end.

  Lemma frame_ok_encode f : frame_ok f -> exists bs, frame_encode inner_encode f = Some bs.
  Proof.
    intros [_ [Hs Hd]]. unfold frame_encode. rewrite varint_encode_form by exact Hs.
    destruct (f_data f) as [c|m|d].
    - destruct c as [s|s|s]; cbn [control_encode control_stream] in *;
        rewrite varint_encode_form by exact Hd; cbn [option_map]; eauto.
    - destruct (payload_encode_lt _ Hd) as [bs ->]. eauto.
    - destruct (payload_encode_lt _ Hd) as [bs ->]. eauto.
  Qed.

  Lemma frame_encode_some f bs : frame_encode inner_encode f = Some bs ->
    exists sb body, bs = VERSION_BYTES ++ sb ++ body /\
      varint_encode (f_stream f) = Some sb /\
      match f_data f with
      | FControl c => control_encode c
      | FGit d => payload_encode d
      | FGossip m => payload_encode (inner_encode m)
      end = Some body.
  Proof.
    unfold frame_encode. destruct (varint_encode (f_stream f)) as [sb|]; [|discriminate].
    destruct (match f_data f with FControl c => control_encode c | FGossip m => _ | FGit d => _ end)
      as [body|] eqn:E; [|discriminate].
    intros H; injection H as <-. exists sb, body.
    repeat split.
  Qed.

  Lemma frame_encode_nonempty f bs : frame_encode inner_encode f = Some bs -> (4 <= length bs)%nat.
  Proof.
    intros E. apply frame_encode_some in E. destruct E as [sb [body [-> _]]].
    rewrite app_length. cbn. lia.
  Qed.

  Hypothesis inner_roundtrip : forall m, inner_decode (inner_encode m) = IOk m.

  (* decoding an encoded frame followed by anything yields the frame and the rest *)
  Lemma frame_decode_encode f bs rest : frame_wf f -> frame_encode inner_encode f = Some bs ->
    fst (frame_decode inner_decode (bs ++ rest)) = DOk f rest.
  Proof.
    intros Hwf E. apply frame_encode_some in E. destruct E as [sb [body [-> [Es Eb]]]].
    destruct (varint_encode_len _ _ Es) as [_ Hs].
    rewrite varint_encode_form in Es by exact Hs. injection Es as <-.
    destruct (varint_tag_spec _ Hs) as [Ht Hc].
    unfold frame_decode. rewrite <- !app_assoc, version_decode_ok, varint_decode_form by assumption.
    destruct f as [sid data]. unfold frame_wf in Hwf. cbn [f_stream f_data] in *.
    destruct data as [c|m|d]; rewrite Hwf.
    - rewrite (control_decode_encode _ _ _ Eb). reflexivity.
    - rewrite (surjective_pairing (payload_decode (body ++ rest))), (payload_decode_encode _ _ _ Eb).
      rewrite inner_roundtrip. reflexivity.
    - rewrite (surjective_pairing (payload_decode (body ++ rest))), (payload_decode_encode _ _ _ Eb).
      reflexivity.
  Qed.
End FrameProofs.

Section FrameProofs2.
  Context {M : Type}.
  Variable inner_decode : list N -> ires M.
  Variable inner_encode : M -> list N.

  (* every strict prefix of an encoded frame is reported incomplete (never an
     error, whatever the inner decoder does: it is not even called) *)
  Lemma frame_decode_prefix f bs p : frame_wf f -> frame_encode inner_encode f = Some bs ->
    sprefix p bs -> fst (frame_decode inner_decode p) = DEof.
  Proof.
    intros Hwf E Hp. apply frame_encode_some in E. destruct E as [sb [body [-> [Es Eb]]]].
    destruct (varint_encode_len _ _ Es) as [_ Hs].
    rewrite varint_encode_form in Es by exact Hs. injection Es as <-.
    destruct (varint_tag_spec _ Hs) as [Ht Hc].
    unfold frame_decode.
    apply sprefix_app_cases in Hp. destruct Hp as [Hp|[p2 [-> Hp]]].
    { now rewrite (version_decode_prefix _ Hp). }
    rewrite version_decode_ok.
    apply sprefix_app_cases in Hp. destruct Hp as [Hp|[p3 [-> Hp]]].
    { now rewrite (varint_decode_form_prefix _ _ _ Ht Hc Hp). }
    rewrite varint_decode_form by assumption.
    destruct f as [sid data]. unfold frame_wf in Hwf. cbn [f_stream f_data] in *.
    destruct data as [c|m|d]; rewrite Hwf.
    - rewrite (control_decode_prefix _ _ _ Eb Hp). reflexivity.
    - rewrite (surjective_pairing (payload_decode p3)), (payload_decode_prefix _ _ _ Eb Hp). reflexivity.
    - rewrite (surjective_pairing (payload_decode p3)), (payload_decode_prefix _ _ _ Eb Hp). reflexivity.
  Qed.

  (* the allocation requests of one decode attempt *)
  Lemma frame_decode_snd inp :
    snd (frame_decode inner_decode inp) = [] \/
    exists r2, snd (frame_decode inner_decode inp) = snd (payload_decode r2) /\ len r2 <= len inp.
  Proof.
    unfold frame_decode.
    destruct (version_decode inp) as [u r1| | | |] eqn:Ev; try (left; reflexivity).
    destruct (varint_decode r1) as [sid r2| | | |] eqn:Es; try (left; reflexivity).
    assert (Hl : len r2 <= len inp).
    { apply version_decode_rest in Ev. destruct Ev as [v [-> _]].
      apply varint_decode_rest_len in Es. rewrite len_app. lia. }
    destruct (stream_kind sid) as [|[p|[p|p|]|]]; try (left; reflexivity).
    - destruct (control_decode r2); left; reflexivity.
    - right. exists r2. split; [|exact Hl].
      destruct (payload_decode r2) as [[data r3| | | |] al]; reflexivity.
    - right. exists r2. split; [|exact Hl].
      destruct (payload_decode r2) as [[data r3| | | |] al]; try reflexivity.
      destruct (inner_decode data); reflexivity.
  Qed.

  Lemma frame_decode_allocs inp :
    Forall (fun a => a <= READ_AHEAD + len inp) (snd (frame_decode inner_decode inp)).
  Proof.
    destruct (frame_decode_snd inp) as [->|[r2 [-> Hl]]]; [constructor|].
    eapply Forall_impl; [|apply payload_decode_allocs]. cbv beta. intros a Ha. lia.
  Qed.

  (* a successful decode consumes at least one byte *)
  Lemma frame_decode_rest_len inp f rest :
    fst (frame_decode inner_decode inp) = DOk f rest -> len rest < len inp.
  Proof.
    unfold frame_decode.
    destruct (version_decode inp) as [u r1| | | |] eqn:Ev; try discriminate.
    destruct (varint_decode r1) as [sid r2| | | |] eqn:Es; try discriminate.
    assert (Hl : len r2 < len inp).
    { apply version_decode_rest in Ev. destruct Ev as [v [-> _]].
      apply varint_decode_rest_len in Es. rewrite len_app. lia. }
    assert (Hp : forall data r3, fst (payload_decode r2) = DOk data r3 -> len r3 <= len r2).
    { intros data r3. rewrite payload_decode_fst.
      destruct (varint_decode r2) as [size r| | | |] eqn:E; try discriminate.
      destruct (size <=? len r); [|discriminate].
      intros H; injection H as _ <-. rewrite len_dropN.
      apply varint_decode_rest_len in E. lia. }
    destruct (stream_kind sid) as [|[p|[p|p|]|]]; try discriminate.
    - destruct (control_decode r2) as [c r3| | | |] eqn:Ec; try discriminate.
      cbn [fst]. intros H; injection H as _ <-. apply control_decode_rest_len in Ec. lia.
    - destruct (payload_decode r2) as [[data r3| | | |] al] eqn:E; try discriminate.
      cbn [fst]. intros H; injection H as _ <-.
      specialize (Hp data r3 eq_refl). lia.
    - destruct (payload_decode r2) as [[data r3| | | |] al] eqn:E; try discriminate.
      destruct (inner_decode data); try discriminate.
      cbn [fst]. intros H; injection H as _ <-.
      specialize (Hp data r3 eq_refl). lia.
  Qed.

  (* ---------------------------------------------------------------- *)
  (* deserialize_next *)

  Lemma deserialize_next_frame buf f rest :
    fst (frame_decode inner_decode buf) = DOk f rest ->
    deserialize_next inner_decode buf = (rest, NFrame f, snd (frame_decode inner_decode buf)).
  Proof.
    unfold deserialize_next. destruct (frame_decode inner_decode buf) as [res al]. cbn [fst snd].
    intros ->. reflexivity.
  Qed.

  Lemma deserialize_next_none buf :
    fst (frame_decode inner_decode buf) = DEof ->
    deserialize_next inner_decode buf = (buf, NNone, snd (frame_decode inner_decode buf)).
  Proof.
    unfold deserialize_next. destruct (frame_decode inner_decode buf) as [res al]. cbn [fst snd].
    intros ->. reflexivity.
  Qed.

  Lemma deserialize_next_err buf e :
    fst (frame_decode inner_decode buf) = DErr e ->
    deserialize_next inner_decode buf = (buf, NErr e, snd (frame_decode inner_decode buf)).
  Proof.
    unfold deserialize_next. destruct (frame_decode inner_decode buf) as [res al]. cbn [fst snd].
    intros ->. reflexivity.
  Qed.

  Lemma deserialize_next_shape buf :
    let '(buf', n, al) := deserialize_next inner_decode buf in
    len buf' <= len buf /\ al = snd (frame_decode inner_decode buf) /\
    (forall f, n = NFrame f -> len buf' < len buf).
  Proof.
    unfold deserialize_next.
    destruct (frame_decode inner_decode buf) as [[f rest| | | |] al] eqn:E; cbn [snd];
      try (repeat split; [lia|intros ? H; discriminate H]).
    pose proof (frame_decode_rest_len buf f rest) as H. rewrite E in H. specialize (H eq_refl).
    repeat split; [lia|intros; exact H].
  Qed.

  (* ---------------------------------------------------------------- *)
  (* allocation bound along a feed: every request of every attempt is at most
     READ_AHEAD + the number of bytes received so far *)

  Definition event_bounded (e : event (M:=M)) : Prop :=
    match e with
    | EvNext recv _ al => Forall (fun a => a <= READ_AHEAD + recv) al
    | EvOverflow _ => True
    end.

  Lemma drain_allocs fuel recv buf : len buf <= recv ->
    let '(evs, buf', go) := drain inner_decode fuel recv buf in
    Forall event_bounded evs /\ len buf' <= recv.
  Proof.
    revert buf. induction fuel as [|fuel IH]; intros buf Hb.
    { cbn [drain]. split; [|exact Hb]. repeat constructor. }
    cbn [drain]. pose proof (deserialize_next_shape buf) as Hs.
    destruct (deserialize_next inner_decode buf) as [[buf' n] al].
    destruct Hs as [Hl [-> _]].
    assert (Hal : Forall (fun a => a <= READ_AHEAD + recv) (snd (frame_decode inner_decode buf))).
    { eapply Forall_impl; [|apply frame_decode_allocs]. cbv beta. intros a Ha. lia. }
    destruct n as [f| |e| |].
    - specialize (IH buf' ltac:(lia)).
      destruct (drain inner_decode fuel recv buf') as [[evs b] go]. destruct IH as [IH1 IH2].
      split; [constructor; [exact Hal|exact IH1]|exact IH2].
    - split; [repeat constructor; exact Hal|lia].
    - split; [repeat constructor; exact Hal|lia].
    - split; [repeat constructor; exact Hal|lia].
    - split; [repeat constructor; exact Hal|lia].
  Qed.

  Lemma feed_allocs B chunks : forall recv buf, len buf <= recv ->
    Forall event_bounded (fst (feed inner_decode B recv buf chunks)).
  Proof.
    induction chunks as [|c cs IH]; intros recv buf Hb; [constructor|].
    cbn [feed]. cbv zeta. unfold deser_input.
    destruct (B <? len buf + len c); [repeat constructor|].
    pose proof (drain_allocs (S (length (buf ++ c))) (recv + len c) (buf ++ c)) as Hd.
    rewrite len_app in Hd. specialize (Hd ltac:(lia)).
    destruct (drain inner_decode (S (length (buf ++ c))) (recv + len c) (buf ++ c)) as [[evs buf2] go].
    destruct Hd as [Hd1 Hd2]. destruct go; [|exact Hd1].
    specialize (IH (recv + len c) buf2 Hd2).
    destruct (feed inner_decode B (recv + len c) buf2 cs) as [evs' buf3]. cbn [fst] in *.
    apply Forall_app. split; assumption.
  Qed.

  (* the [recv] field of every event is the length of a prefix of the chunk sequence *)
  Definition event_recv (e : event (M:=M)) : N :=
    match e with EvNext r _ _ | EvOverflow r => r end.

  Lemma drain_recv fuel recv buf :
    Forall (fun e => event_recv e = recv) (fst (fst (drain inner_decode fuel recv buf))).
  Proof.
    revert buf. induction fuel as [|fuel IH]; intros buf; [repeat constructor|].
    cbn [drain]. destruct (deserialize_next inner_decode buf) as [[buf' n] al].
    destruct n; try (repeat constructor).
    specialize (IH buf'). destruct (drain inner_decode fuel recv buf') as [[evs b] go].
    cbn [fst] in *. constructor; [reflexivity|exact IH].
  Qed.

  Lemma feed_recv B chunks : forall recv buf,
    Forall (fun e => exists k, (k <= length chunks)%nat /\
                               event_recv e = recv + len (concat (firstn k chunks)))
           (fst (feed inner_decode B recv buf chunks)).
  Proof.
    induction chunks as [|c cs IH]; intros recv buf; [constructor|].
    cbn [feed]. cbv zeta. destruct (deser_input B buf c) as [buf1|].
    2:{ repeat constructor. exists 1%nat. cbn [length firstn concat event_recv].
        split; [lia|]. now rewrite app_nil_r. }
    pose proof (drain_recv (S (length buf1)) (recv + len c) buf1) as Hd.
    destruct (drain inner_decode (S (length buf1)) (recv + len c) buf1) as [[evs buf2] go].
    cbn [fst] in Hd.
    assert (Hd' : Forall (fun e => exists k, (k <= length (c :: cs))%nat /\
                     event_recv e = recv + len (concat (firstn k (c :: cs)))) evs).
    { eapply Forall_impl; [|exact Hd]. cbv beta. intros e ->. exists 1%nat.
      cbn [length firstn concat]. split; [lia|]. now rewrite app_nil_r. }
    destruct go; [|exact Hd'].
    specialize (IH (recv + len c) buf2).
    destruct (feed inner_decode B (recv + len c) buf2 cs) as [evs' buf3]. cbn [fst] in *.
    apply Forall_app. split; [exact Hd'|].
    eapply Forall_impl; [|exact IH]. cbv beta. intros e [k [Hk ->]]. exists (S k).
    cbn [length firstn concat]. split; [lia|]. rewrite len_app. lia.
  Qed.
End FrameProofs2.

(* ------------------------------------------------------------------ *)
(* chunking independence *)

Section Chunking.
  Context {M : Type}.
  Variable inner_decode : list N -> ires M.
  Variable inner_encode : M -> list N.
  Hypothesis inner_roundtrip : forall m, inner_decode (inner_encode m) = IOk m.

  Lemma frames_encode_cons f fs bss : frames_encode inner_encode (f :: fs) = Some bss ->
    exists bf bss', frame_encode inner_encode f = Some bf /\
                    frames_encode inner_encode fs = Some bss' /\ bss = bf :: bss'.
  Proof.
    cbn [frames_encode]. destruct (frame_encode inner_encode f) as [bf|]; [|discriminate].
    destruct (frames_encode inner_encode fs) as [bss'|]; [|discriminate].
    intros H; injection H as <-. eauto.
  Qed.

  Lemma frames_encode_skipn k : forall fs bss, frames_encode inner_encode fs = Some bss ->
    frames_encode inner_encode (skipn k fs) = Some (skipn k bss).
  Proof.
    induction k as [|k IH]; intros fs bss E; [exact E|].
    destruct fs as [|f fs].
    - cbn in E. injection E as <-. reflexivity.
    - apply frames_encode_cons in E. destruct E as [bf [bss' [_ [E ->]]]]. cbn [skipn]. now apply IH.
  Qed.

  Lemma frames_of_app (a b : list (event (M:=M))) : frames_of (a ++ b) = frames_of a ++ frames_of b.
  Proof.
    induction a as [|e a IH]; [reflexivity|]. cbn [app frames_of].
    destruct e as [r n al|r]; [destruct n|]; cbn [app]; now rewrite IH.
  Qed.

  Lemma len_concat_in (b : list N) bss : In b bss -> len b <= len (concat bss).
  Proof.
    induction bss as [|x bss IH]; [contradiction|]. cbn [concat]. rewrite len_app.
    intros [->|H]; [lia|]. specialize (IH H). lia.
  Qed.

  Lemma in_skipn {A} (x : A) k l : In x (skipn k l) -> In x l.
  Proof.
    revert l. induction k as [|k IH]; intros l H; [exact H|].
    destruct l as [|y l]; [exact H|]. right. apply IH. exact H.
  Qed.

  (* the drain loop on a buffer that is a prefix of the encoded stream of [fs]:
     it delivers the maximal number of whole frames and keeps a strict prefix of
     the next one *)
  Lemma drain_frames recv : forall fs bss fuel b rest,
    Forall frame_wf fs -> frames_encode inner_encode fs = Some bss ->
    b ++ rest = concat bss -> (length b < fuel)%nat ->
    exists k evs p,
      drain inner_decode fuel recv b = (evs, p, true) /\
      frames_of evs = firstn k fs /\ forallb event_clean evs = true /\
      p ++ rest = concat (skipn k bss) /\
      (p = [] \/ exists b', In b' (skipn k bss) /\ len p < len b').
  Proof.
    induction fs as [|f fs IH]; intros bss fuel b rest Hwf E Hb Hf.
    - cbn in E. injection E as <-. cbn in Hb. apply app_eq_nil in Hb. destruct Hb as [-> ->].
      destruct fuel as [|fuel]; [lia|].
      exists 0%nat, [EvNext recv NNone []], []. repeat split. left. reflexivity.
    - apply frames_encode_cons in E. destruct E as [bf [bss' [Ef [E ->]]]].
      inversion Hwf as [|? ? Hwf1 Hwf2]; subst.
      destruct fuel as [|fuel]; [lia|].
      cbn [concat] in Hb. pose proof Hb as Hb0. apply app_eq_cases in Hb. destruct Hb as [[t [-> Ht]]|Hp].
      + (* the whole frame is in the buffer *)
        pose proof (frame_decode_encode inner_decode inner_encode inner_roundtrip f bf t Hwf1 Ef) as Hd.
        pose proof (frame_encode_nonempty _ _ _ Ef) as Hne.
        specialize (IH bss' fuel t rest Hwf2 E (eq_sym Ht)).
        rewrite app_length in Hf. specialize (IH ltac:(lia)).
        destruct IH as [k [evs [p [Hdr [Hfr [Hcl [Hrest Hpre]]]]]]].
        exists (S k), (EvNext recv (NFrame f) (snd (frame_decode inner_decode (bf ++ t))) :: evs), p.
        cbn [drain]. rewrite (deserialize_next_frame _ _ _ _ Hd), Hdr.
        cbn [frames_of firstn skipn forallb event_clean andb]. rewrite Hfr.
        repeat split; assumption.
      + (* only a strict prefix of the next frame *)
        pose proof (frame_decode_prefix inner_decode inner_encode f bf b Hwf1 Ef Hp) as Hd.
        exists 0%nat, [EvNext recv NNone (snd (frame_decode inner_decode b))], b.
        cbn [drain]. rewrite (deserialize_next_none _ _ Hd).
        cbn [frames_of firstn skipn forallb event_clean andb concat].
        repeat split; [exact Hb0|]. right. exists bf. split; [left; reflexivity|].
        apply sprefix_len. exact Hp.
  Qed.

  Lemma feed_frames B : forall chunks fs bss buf recv,
    Forall frame_wf fs -> frames_encode inner_encode fs = Some bss ->
    buf ++ concat chunks = concat bss ->
    (buf = [] \/ exists b', In b' bss /\ len buf < len b') ->
    (forall c b', In c chunks -> In b' bss -> len c + len b' <= B) ->
    exists evs, feed inner_decode B recv buf chunks = (evs, []) /\
                frames_of evs = fs /\ forallb event_clean evs = true.
  Proof.
    induction chunks as [|c cs IH]; intros fs bss buf recv Hwf E Hs Hbuf HB.
    - cbn [concat] in Hs. rewrite app_nil_r in Hs. subst buf.
      assert (Hnil : concat bss = []).
      { destruct Hbuf as [H|[b' [Hin Hlt]]]; [exact H|].
        apply len_concat_in in Hin. lia. }
      assert (Hfs : fs = []).
      { destruct fs as [|f fs]; [reflexivity|].
        apply frames_encode_cons in E. destruct E as [bf [bss' [Ef [_ ->]]]].
        apply frame_encode_nonempty in Ef. cbn [concat] in Hnil.
        apply app_eq_nil in Hnil. destruct Hnil as [-> _]. cbn in Ef. lia. }
      subst fs. exists []. cbn [feed]. rewrite Hnil. repeat split.
    - cbn [concat] in Hs. cbn [feed]. cbv zeta. unfold deser_input.
      assert (Hin : len buf + len c <= B).
      { destruct Hbuf as [->|[b' [Hb' Hlt]]].
        - rewrite len_nil. destruct bss as [|b' bss].
          + cbn in Hs. apply app_eq_nil in Hs. destruct Hs as [-> _]. change (len (@nil N)) with 0. lia.
          + specialize (HB c b' (or_introl eq_refl) (or_introl eq_refl)). lia.
        - specialize (HB c b' (or_introl eq_refl) Hb'). lia. }
      replace (B <? len buf + len c) with false by (symmetry; apply N.ltb_ge; exact Hin).
      rewrite app_assoc in Hs.
      destruct (drain_frames (recv + len c) fs bss (S (length (buf ++ c))) (buf ++ c) (concat cs)
                  Hwf E Hs ltac:(lia)) as [k [evs [p [Hdr [Hfr [Hcl [Hrest Hpre]]]]]]].
      rewrite Hdr.
      assert (Hwf' : Forall frame_wf (skipn k fs)).
      { rewrite <- (firstn_skipn k fs) in Hwf. apply Forall_app in Hwf. tauto. }
      destruct (IH (skipn k fs) (skipn k bss) p (recv + len c) Hwf'
                  (frames_encode_skipn k _ _ E) Hrest Hpre) as [evs' [Hfe [Hfr' Hcl']]].
      { intros c' b' Hc' Hb'. apply HB; [right; exact Hc'|eapply in_skipn; exact Hb']. }
      rewrite Hfe. exists (evs ++ evs'). split; [reflexivity|]. split.
      + rewrite frames_of_app, Hfr, Hfr'. apply firstn_skipn.
      + rewrite forallb_app, Hcl, Hcl'. reflexivity.
  Qed.
End Chunking.

(* ------------------------------------------------------------------ *)
(* a complete but invalid frame is an error, never "incomplete" *)

Section CompleteInvalid.
  Context {M : Type}.
  Variable inner_decode : list N -> ires M.

  (* [hd] is any accepted encoding of the value [x] (minimal or not) *)
  Definition encodes (hd : list N) (x : N) : Prop :=
    forall r, varint_decode (hd ++ r) = DOk x r.

  Lemma encodes_form t x : t < 4 -> x < class_cap t -> encodes (varint_form t x) x.
  Proof. intros Ht Hx r. now apply varint_decode_form. Qed.

  Lemma payload_decode_complete hd p rest : encodes hd (len p) ->
    fst (payload_decode (hd ++ p ++ rest)) = DOk p rest.
  Proof.
    intros H. rewrite payload_decode_fst, H, len_app.
    replace (len p <=? len p + len rest) with true by (symmetry; apply N.leb_le; lia).
    now rewrite takeN_len_app, dropN_len_app.
  Qed.

  Lemma gossip_inner_failure sb sid hd p rest :
    encodes sb sid -> stream_kind sid = 1 -> encodes hd (len p) ->
    fst (frame_decode inner_decode (VERSION_BYTES ++ sb ++ hd ++ p ++ rest)) =
      match inner_decode p with
      | IOk m => DOk (Frame sid (FGossip m)) rest
      | IEof => DErr ETruncatedInner
      | IErr c => DErr (EInner c)
      end.
  Proof.
    intros Hsb Hk Hhd. unfold frame_decode. rewrite version_decode_ok, Hsb, Hk.
    rewrite (surjective_pairing (payload_decode (hd ++ p ++ rest))), (payload_decode_complete _ _ _ Hhd).
    destruct (inner_decode p); reflexivity.
  Qed.

  Lemma complete_gossip_truncated sb sid hd p rest :
    encodes sb sid -> stream_kind sid = 1 -> encodes hd (len p) -> inner_decode p = IEof ->
    let buf := VERSION_BYTES ++ sb ++ hd ++ p ++ rest in
    exists al, deserialize_next inner_decode buf = (buf, NErr ETruncatedInner, al).
  Proof.
    intros Hsb Hk Hhd Hi buf. eexists. apply deserialize_next_err.
    unfold buf. rewrite (gossip_inner_failure _ _ _ _ _ Hsb Hk Hhd), Hi. reflexivity.
  Qed.

  Lemma complete_gossip_malformed sb sid hd p rest c :
    encodes sb sid -> stream_kind sid = 1 -> encodes hd (len p) -> inner_decode p = IErr c ->
    let buf := VERSION_BYTES ++ sb ++ hd ++ p ++ rest in
    exists al, deserialize_next inner_decode buf = (buf, NErr (EInner c), al).
  Proof.
    intros Hsb Hk Hhd Hi buf. eexists. apply deserialize_next_err.
    unfold buf. rewrite (gossip_inner_failure _ _ _ _ _ Hsb Hk Hhd), Hi. reflexivity.
  Qed.

  Lemma invalid_stream_kind sb sid tail :
    encodes sb sid -> 3 <= stream_kind sid ->
    let buf := VERSION_BYTES ++ sb ++ tail in
    exists al, deserialize_next inner_decode buf = (buf, NErr (EInvalidStreamKind (stream_kind sid)), al).
  Proof.
    intros Hsb Hk buf. eexists. apply deserialize_next_err.
    unfold buf, frame_decode. rewrite version_decode_ok, Hsb.
    destruct (stream_kind sid) as [|[q|[q|q|]|]]; try lia; reflexivity.
  Qed.

  Lemma invalid_control sb sid cmd tail :
    encodes sb sid -> stream_kind sid = 0 -> 3 <= cmd ->
    let buf := VERSION_BYTES ++ sb ++ cmd :: tail in
    exists al, deserialize_next inner_decode buf = (buf, NErr (EInvalidControl cmd), al).
  Proof.
    intros Hsb Hk Hc buf. eexists. apply deserialize_next_err.
    unfold buf, frame_decode. rewrite version_decode_ok, Hsb, Hk.
    cbn [control_decode].
    destruct cmd as [|[[q|q|]|[q|q|]|]]; try lia; reflexivity.
  Qed.

  Lemma invalid_version v tail :
    length v = 4%nat -> v <> VERSION_BYTES ->
    let buf := v ++ tail in
    exists al, deserialize_next inner_decode buf = (buf, NErr EInvalidVersion, al).
  Proof.
    intros Hl Hv buf. eexists. apply deserialize_next_err. unfold buf, frame_decode.
    destruct v as [|v0 [|v1 [|v2 [|v3 [|? ?]]]]]; try discriminate. cbn [app version_decode].
    destruct (list_eqb N.eqb [v0; v1; v2; v3] VERSION_BYTES) eqn:E; [|reflexivity].
    apply (list_eqb_spec N.eqb N.eqb_eq) in E. contradiction.
  Qed.
End CompleteInvalid.

(* packaged form of the allocation bound *)
Lemma alloc_bounded_all (M : Type) (inner_decode : list N -> ires M) (B : N) (chunks : list (list N)) :
  Forall (fun e =>
            event_bounded e /\
            exists k, (k <= length chunks)%nat /\ event_recv e = len (concat (firstn k chunks)))
         (fst (feed inner_decode B 0 [] chunks)) /\
  (forall inp, Forall (fun a => a <= READ_AHEAD + len inp) (snd (frame_decode inner_decode inp))) /\
  (forall inp, Forall (fun a => a <= READ_AHEAD + len inp) (snd (payload_decode inp))).
Proof.
  split; [|split; [apply frame_decode_allocs|apply payload_decode_allocs]].
  apply Forall_forall. intros e He. split.
  - pose proof (feed_allocs inner_decode B chunks 0 [] ltac:(rewrite len_nil; lia)) as H.
    rewrite Forall_forall in H. apply H. exact He.
  - pose proof (feed_recv inner_decode B chunks 0 []) as H.
    rewrite Forall_forall in H. destruct (H e He) as [k [Hk Hr]]. exists k. split; [exact Hk|].
    rewrite Hr. lia.
Qed.

(* on real bytes no decode attempt panics or runs out of (model) fuel *)
Lemma bytes_ok_app a b : bytes_ok (a ++ b) -> bytes_ok b.
Proof. unfold bytes_ok. intros H. apply Forall_app in H. tauto. Qed.

Lemma deserialize_next_total (M : Type) (inner_decode : list N -> ires M) buf : bytes_ok buf ->
  snd (fst (deserialize_next inner_decode buf)) <> NPanic /\
  snd (fst (deserialize_next inner_decode buf)) <> NFuel.
Proof.
  intros Hok. unfold deserialize_next, frame_decode.
  destruct (version_decode buf) as [u r1| | | |] eqn:Ev;
    try (split; discriminate);
    try (destruct (version_decode_total buf) as [H1 H2]; congruence).
  apply version_decode_rest in Ev. destruct Ev as [v [-> _]]. apply bytes_ok_app in Hok.
  destruct (varint_decode_bytes r1 Hok) as [Hnp _].
  destruct (varint_decode r1) as [sid r2| | | |] eqn:Es;
    try (split; discriminate); try congruence;
    try (exfalso; eapply varint_decode_no_fuel; exact Es).
  apply varint_decode_rest in Es. destruct Es as [hd [-> _]]. apply bytes_ok_app in Hok.
  assert (Hpay : fst (payload_decode r2) <> DUnreachable /\ fst (payload_decode r2) <> DFuel).
  { rewrite payload_decode_fst. destruct (varint_decode_bytes r2 Hok) as [Hnp2 _].
    destruct (varint_decode r2) as [size r| | | |] eqn:E; try (split; discriminate); try congruence.
    - destruct (size <=? len r); split; discriminate.
    - exfalso; eapply varint_decode_no_fuel; exact E. }
  destruct (stream_kind sid) as [|[q|[q|q|]|]]; try (split; discriminate).
  - destruct r2 as [|cmd r2]; [split; discriminate|]. cbn [control_decode].
    inversion Hok as [|? ? _ Hok2]; subst.
    destruct (varint_decode_bytes r2 Hok2) as [Hnp2 _].
    destruct cmd as [|[[q|q|]|[q|q|]|]]; try (split; discriminate);
      (destruct (varint_decode r2) as [s r'| | | |] eqn:E; try (split; discriminate); try congruence;
       exfalso; eapply varint_decode_no_fuel; exact E).
  - destruct (payload_decode r2) as [[data r3| | | |] al]; cbn [fst] in Hpay;
      try (split; discriminate); destruct Hpay; congruence.
  - destruct (payload_decode r2) as [[data r3| | | |] al]; cbn [fst] in Hpay;
      try (destruct (inner_decode data)); try (split; discriminate); destruct Hpay; congruence.
Qed.
