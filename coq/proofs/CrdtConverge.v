(* CrdtConverge.v — convergence (strong eventual consistency) for every
   semilattice satisfying [SLaws]: the result of merging a collection of
   states into a replica depends only on the SET of states merged — not on
   the order of delivery and not on how often a state is delivered. *)
From Coq Require Import Permutation.
From HW Require Import lib.Base lib.SMap model.Crdt proofs.CrdtProofs.

Section Converge.
Variable S : SL.
Hypothesis L : SLaws S.

(* merging a list of remote states into a replica, one Semilattice::merge at a time *)
Definition merge_all (a : car S) (l : list (car S)) : car S := fold_left (join S) l a.

(* the semilattice order: x is below y when merging x into y changes nothing *)
Definition sle (x y : car S) : Prop := join S y x = y.

Lemma merge_all_wf l : forall a, wf S a -> Forall (wf S) l -> wf S (merge_all a l).
Proof.
  induction l as [|x l IH]; intros a Ha Hl; cbn [merge_all fold_left]; [exact Ha|].
  inversion Hl as [|? ? Hx Hl']; subst.
  apply IH; [apply (join_wf S L); assumption | exact Hl'].
Qed.

Lemma sle_trans x y z : wf S x -> wf S y -> wf S z -> sle x y -> sle y z -> sle x z.
Proof.
  unfold sle; intros Hx Hy Hz Hxy Hyz.
  rewrite <- Hyz at 1. rewrite (join_assoc S L) by assumption. rewrite Hxy. exact Hyz.
Qed.

Lemma sle_antisym x y : wf S x -> wf S y -> sle x y -> sle y x -> x = y.
Proof.
  unfold sle; intros Hx Hy Hxy Hyx.
  rewrite <- Hyx. rewrite (join_comm S L) by assumption. exact Hxy.
Qed.

Lemma sle_join_l a x : wf S a -> wf S x -> sle a (join S a x).
Proof.
  unfold sle; intros Ha Hx.
  rewrite (join_comm S L (join S a x) a) by (try apply (join_wf S L); assumption).
  rewrite <- (join_assoc S L) by assumption. rewrite (join_idem S L) by assumption. reflexivity.
Qed.

Lemma sle_join_r a x : wf S a -> wf S x -> sle x (join S a x).
Proof.
  unfold sle; intros Ha Hx.
  rewrite (join_assoc S L) by assumption. rewrite (join_idem S L) by assumption. reflexivity.
Qed.

(* the replica's own state is below the merged result *)
Lemma merge_all_ge_start l : forall a, wf S a -> Forall (wf S) l -> sle a (merge_all a l).
Proof.
  induction l as [|x l IH]; intros a Ha Hl; cbn [merge_all fold_left].
  - unfold sle. apply (join_idem S L). exact Ha.
  - inversion Hl as [|? ? Hx Hl']; subst.
    assert (Hj : wf S (join S a x)) by (apply (join_wf S L); assumption).
    apply (sle_trans a (join S a x)); try assumption.
    + apply (merge_all_wf l); assumption.
    + apply sle_join_l; assumption.
    + apply IH; assumption.
Qed.

(* every delivered state is below the merged result *)
Lemma merge_all_ge_elem l : forall a x, wf S a -> Forall (wf S) l -> In x l -> sle x (merge_all a l).
Proof.
  induction l as [|y l IH]; intros a x Ha Hl Hin; [destruct Hin|].
  inversion Hl as [|? ? Hy Hl']; subst. cbn [merge_all fold_left].
  assert (Hj : wf S (join S a y)) by (apply (join_wf S L); assumption).
  destruct Hin as [->|Hin].
  - apply (sle_trans x (join S a x)); try assumption.
    + apply (merge_all_wf l); assumption.
    + apply sle_join_r; assumption.
    + apply (merge_all_ge_start l); assumption.
  - apply IH; assumption.
Qed.

(* the merged result is the LEAST state above the start and every delivered state *)
Lemma merge_all_least l : forall a z, wf S a -> wf S z -> Forall (wf S) l ->
  sle a z -> Forall (fun x => sle x z) l -> sle (merge_all a l) z.
Proof.
  induction l as [|x l IH]; intros a z Ha Hz Hl Haz Hlz; cbn [merge_all fold_left]; [exact Haz|].
  inversion Hl as [|? ? Hx Hl']; subst. inversion Hlz as [|? ? Hxz Hlz']; subst.
  apply IH; try assumption.
  - apply (join_wf S L); assumption.
  - unfold sle in *. rewrite <- (join_assoc S L) by assumption. rewrite Haz. exact Hxz.
Qed.

Lemma merge_all_mono l1 l2 a : wf S a -> Forall (wf S) l1 -> Forall (wf S) l2 ->
  incl l1 l2 -> sle (merge_all a l1) (merge_all a l2).
Proof.
  intros Ha H1 H2 Hincl.
  apply merge_all_least; try assumption.
  - apply merge_all_wf; assumption.
  - apply merge_all_ge_start; assumption.
  - apply Forall_forall. intros x Hx. apply merge_all_ge_elem; try assumption. apply Hincl, Hx.
Qed.

(* Convergence: two replicas starting from the same state that have received the
   same set of states — in any order, with any duplication — are equal. *)
Theorem merge_all_converges l1 l2 a : wf S a -> Forall (wf S) l1 -> Forall (wf S) l2 ->
  (forall x, In x l1 <-> In x l2) -> merge_all a l1 = merge_all a l2.
Proof.
  intros Ha H1 H2 Heq.
  apply sle_antisym; try (apply merge_all_wf; assumption).
  - apply merge_all_mono; try assumption. intros x Hx. apply Heq, Hx.
  - apply merge_all_mono; try assumption. intros x Hx. apply Heq, Hx.
Qed.

(* in particular any reordering of the deliveries *)
Corollary merge_all_permutation l1 l2 a : wf S a -> Forall (wf S) l1 ->
  Permutation l1 l2 -> merge_all a l1 = merge_all a l2.
Proof.
  intros Ha H1 HP.
  apply merge_all_converges; try assumption.
  - eapply Permutation_Forall; eassumption.
  - intros x; split; intros Hx; [eapply Permutation_in; eassumption|].
    eapply Permutation_in; [apply Permutation_sym; eassumption | exact Hx].
Qed.

(* replicas that start from DIFFERENT states and exchange them as well also agree *)
Corollary merge_all_two_replicas a b l1 l2 : wf S a -> wf S b ->
  Forall (wf S) l1 -> Forall (wf S) l2 -> (forall x, In x l1 <-> In x l2) ->
  merge_all a (b :: l1) = merge_all b (a :: l2).
Proof.
  intros Ha Hb H1 H2 Heq. cbn [merge_all fold_left].
  rewrite (join_comm S L b a) by assumption.
  apply merge_all_converges; try assumption. apply (join_wf S L); assumption.
Qed.

End Converge.

(* ---- the crate's LWWSet, with no well-formedness hypothesis left: every state
   the API can construct (any insert/remove sequence) is well-formed ---- *)
Lemma lwwset_build_wf ops : wf lwwset_sl (lwwset_build ops).
Proof.
  rewrite lwwset_build_generic. apply (map_build_wf unit_sl unit_laws).
  apply Forall_forall. intros [k [c [v|]]] _; exact I.
Qed.

Theorem lwwset_replicas_converge (a : list sop) (l1 l2 : list (list sop)) :
  (forall x, In x l1 <-> In x l2) ->
  merge_all lwwset_sl (lwwset_build a) (map lwwset_build l1)
  = merge_all lwwset_sl (lwwset_build a) (map lwwset_build l2).
Proof.
  intros Heq. apply (merge_all_converges lwwset_sl lwwset_laws).
  - apply lwwset_build_wf.
  - apply Forall_forall. intros s Hs. apply in_map_iff in Hs. destruct Hs as (o & <- & _). apply lwwset_build_wf.
  - apply Forall_forall. intros s Hs. apply in_map_iff in Hs. destruct Hs as (o & <- & _). apply lwwset_build_wf.
  - intros s. rewrite !in_map_iff. split; intros (o & E & Ho); exists o; (split; [exact E | apply Heq; exact Ho]).
Qed.

(* ---- likewise the crate's LWWMap (values in the Max lattice) ---- *)
Lemma lwwmap_build_wf ops : wf (lwwmap_sl max_sl) (lwwmap_build ops).
Proof.
  rewrite lwwmap_build_generic. apply (map_build_wf max_sl max_laws).
  apply Forall_forall. intros [k [c [v|]]] _; exact I.
Qed.

Theorem lwwmap_replicas_converge (a : list mop) (l1 l2 : list (list mop)) :
  (forall x, In x l1 <-> In x l2) ->
  merge_all (lwwmap_sl max_sl) (lwwmap_build a) (map lwwmap_build l1)
  = merge_all (lwwmap_sl max_sl) (lwwmap_build a) (map lwwmap_build l2).
Proof.
  intros Heq. apply (merge_all_converges (lwwmap_sl max_sl) (lwwmap_laws max_sl max_laws)).
  - apply lwwmap_build_wf.
  - apply Forall_forall. intros s Hs. apply in_map_iff in Hs. destruct Hs as (o & <- & _). apply lwwmap_build_wf.
  - apply Forall_forall. intros s Hs. apply in_map_iff in Hs. destruct Hs as (o & <- & _). apply lwwmap_build_wf.
  - intros s. rewrite !in_map_iff. split; intros (o & E & Ho); exists o; (split; [exact E | apply Heq; exact Ho]).
Qed.
