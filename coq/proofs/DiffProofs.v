(* DiffProofs.v — proofs about model/Diff.v (C30). *)
From HW Require Import lib.Base model.Diff.
Local Open Scope N_scope.

(* ------------------------------------------------------------------ *)
(* decimal printing / parsing                                           *)

Fixpoint value_le (l : bytes) : N :=
  match l with
  | [] => 0
  | d :: l' => (d - 48) + 10 * value_le l'
  end.

Lemma is_digit_spec c : is_digit c = true <-> 48 <= c <= 57.
Proof.
  unfold is_digit. rewrite andb_true_iff, !N.leb_le. tauto.
Qed.

Lemma parse_digits_snoc : forall l v c,
  parse_digits v (l ++ [c]) =
  match parse_digits v l with
  | Some x => if is_digit c then Some (x * 10 + (c - 48)) else None
  | None => None
  end.
Proof.
  induction l as [|a l IH]; intros v c; cbn [app parse_digits].
  - destruct (is_digit c); reflexivity.
  - destruct (is_digit a); [apply IH | reflexivity].
Qed.

Lemma parse_digits_rev : forall l,
  Forall (fun c => is_digit c = true) l ->
  parse_digits 0 (rev l) = Some (value_le l).
Proof.
  induction l as [|d l IH]; intros HF; cbn [rev value_le].
  - reflexivity.
  - inversion HF as [|? ? Hd Hl]; subst.
    rewrite parse_digits_snoc, (IH Hl), Hd. f_equal. lia.
Qed.

Lemma le_digits_spec : forall f n,
  n < 2 ^ N.of_nat f ->
  Forall (fun c => is_digit c = true) (le_digits 10 f n) /\ value_le (le_digits 10 f n) = n.
Proof.
  induction f as [|f IH]; intros n Hn.
  - cbn in Hn. assert (n = 0) by lia. subst. cbn. split; [constructor | reflexivity].
  - rewrite Nat2N.inj_succ, N.pow_succ_r' in Hn.
    cbn [le_digits].
    assert (Hq : n / 10 < 2 ^ N.of_nat f).
    { apply N.div_lt_upper_bound; [lia|]. remember (2 ^ N.of_nat f) as P. lia. }
    clear Hn.
    assert (Hmod : n mod 10 < 10) by (apply N.mod_lt; discriminate).
    assert (Hdm : n = 10 * (n / 10) + n mod 10) by (apply N.div_mod; discriminate).
    destruct (IH _ Hq) as [HF HV]. clear Hq IH.
    remember (n mod 10) as m eqn:Em. remember (n / 10) as q eqn:Eq.
    assert (Hd : is_digit (48 + m) = true) by (apply is_digit_spec; lia).
    destruct (N.eqb_spec q 0) as [E|E].
    + split; [constructor; [exact Hd | constructor] |].
      cbn [value_le]. lia.
    + split; [constructor; assumption |].
      cbn [value_le]. rewrite HV. lia.
Qed.

Lemma log2_fuel n : n < 2 ^ N.of_nat (S (N.to_nat (N.log2 n))).
Proof.
  rewrite Nat2N.inj_succ, N2Nat.id.
  destruct (N.eq_dec n 0) as [->|Hn]; [cbn; lia|].
  apply N.log2_spec. lia.
Qed.

Lemma print_dec_digits n : Forall (fun c => is_digit c = true) (print_dec n).
Proof.
  unfold print_dec, print_base. apply Forall_rev.
  apply le_digits_spec, log2_fuel.
Qed.

Lemma print_dec_cons n : exists c s, print_dec n = c :: s /\ is_digit c = true.
Proof.
  pose proof (print_dec_digits n) as HF.
  unfold print_dec, print_base in *. cbn [le_digits] in *.
  cbn [rev] in *.
  destruct (rev _ ++ _) as [|c s] eqn:E.
  - apply app_eq_nil in E. destruct E as [_ E]. discriminate.
  - inversion HF; subst. eauto.
Qed.

(* decimal print / parse round trip, for every N *)
Theorem parse_print_dec : forall n, parse_dec (print_dec n) = Some n.
Proof.
  intros n. destruct (print_dec_cons n) as (c & s & E & _).
  unfold parse_dec. rewrite E, <- E.
  unfold print_dec, print_base.
  destruct (le_digits_spec _ _ (log2_fuel n)) as [HF HV].
  rewrite parse_digits_rev by exact HF. rewrite HV. reflexivity.
Qed.

Theorem parse_u32_print_dec : forall n, n <= U32_MAX -> parse_u32 (print_dec n) = Some n.
Proof.
  intros n Hn. pose proof (parse_print_dec n) as HP.
  destruct (print_dec_cons n) as (c & s & E & Hc).
  unfold parse_u32. rewrite E in *.
  apply is_digit_spec in Hc.
  destruct (N.eqb_spec c 43) as [->|_]; [lia|].
  rewrite HP. apply N.leb_le in Hn. rewrite Hn. reflexivity.
Qed.

(* u32 parsing never yields a value out of range *)
Lemma parse_u32_bound s v : parse_u32 s = Some v -> v <= U32_MAX.
Proof.
  unfold parse_u32. destruct s as [|c r]; [discriminate|].
  destruct (parse_dec _) as [x|]; [|discriminate].
  destruct (N.leb_spec x U32_MAX); [|discriminate]. intros [= <-]. assumption.
Qed.

Lemma digits_not_in c l : Forall (fun c => is_digit c = true) l -> ~ (48 <= c <= 57) -> ~ In c l.
Proof.
  intros HF Hc Hin. rewrite Forall_forall in HF. apply HF, is_digit_spec in Hin. tauto.
Qed.

(* ------------------------------------------------------------------ *)
(* str helpers                                                          *)

Lemma read_line_app : forall body rest,
  ~ In 10 body -> read_line (body ++ 10 :: rest) = (body ++ [10], rest).
Proof.
  induction body as [|c body IH]; intros rest Hn; cbn [app read_line].
  - rewrite N.eqb_refl. reflexivity.
  - destruct (N.eqb_spec c 10) as [->|_]; [exfalso; apply Hn; left; reflexivity|].
    rewrite IH by (intros H; apply Hn; right; exact H). reflexivity.
Qed.

Lemma read_line_length s :
  (length (fst (read_line s)) + length (snd (read_line s)) = length s)%nat.
Proof.
  induction s as [|c s IH]; cbn [read_line]; [reflexivity|].
  destruct (c =? 10); cbn [fst snd length]; lia.
Qed.

Lemma strip_prefix_app : forall p s, strip_prefix p (p ++ s) = Some s.
Proof.
  induction p as [|a p IH]; intros s; cbn [app strip_prefix]; [reflexivity|].
  rewrite N.eqb_refl. apply IH.
Qed.

Lemma split_once_eq p s :
  split_once p s =
  match strip_prefix p s with
  | Some r => Some ([], r)
  | None =>
      match s with
      | [] => None
      | c :: s' => match split_once p s' with
                   | Some ab => Some (c :: fst ab, snd ab)
                   | None => None
                   end
      end
  end.
Proof. destruct s; reflexivity. Qed.

Lemma split_once_first : forall c0 p' a b,
  ~ In c0 a -> split_once (c0 :: p') (a ++ (c0 :: p') ++ b) = Some (a, b).
Proof.
  intros c0 p'. induction a as [|x a IH]; intros b Hn; rewrite split_once_eq.
  - cbn [app]. change (c0 :: p' ++ b) with ((c0 :: p') ++ b).
    rewrite strip_prefix_app. reflexivity.
  - rewrite <- app_comm_cons. cbn [strip_prefix].
    destruct (N.eqb_spec c0 x) as [->|_]; [exfalso; apply Hn; left; reflexivity|].
    rewrite IH by (intros H; apply Hn; right; exact H). reflexivity.
Qed.

Lemma split_once_none : forall c0 p' s, ~ In c0 s -> split_once (c0 :: p') s = None.
Proof.
  intros c0 p'. induction s as [|x s IH]; intros Hn; rewrite split_once_eq.
  - reflexivity.
  - cbn [strip_prefix].
    destruct (N.eqb_spec c0 x) as [->|_]; [exfalso; apply Hn; left; reflexivity|].
    rewrite IH by (intros H; apply Hn; right; exact H). reflexivity.
Qed.

Lemma strip_suffix_nl_snoc l : strip_suffix_nl (l ++ [10]) = l.
Proof.
  unfold strip_suffix_nl. rewrite rev_app_distr. cbn [rev app].
  rewrite N.eqb_refl. apply rev_involutive.
Qed.

Lemma drop_nl_noop r : ~ In 10 r -> drop_nl r = r.
Proof.
  destruct r as [|c r]; intros Hn; cbn [drop_nl]; [reflexivity|].
  destruct (N.eqb_spec c 10) as [->|_]; [exfalso; apply Hn; left; reflexivity | reflexivity].
Qed.

Lemma trim_end_nl_snoc l : ~ In 10 l -> trim_end_nl (l ++ [10]) = l.
Proof.
  intros Hn. unfold trim_end_nl. rewrite rev_app_distr. cbn [rev app drop_nl].
  rewrite N.eqb_refl, drop_nl_noop.
  - apply rev_involutive.
  - intros H. apply Hn. apply in_rev. exact H.
Qed.

(* ------------------------------------------------------------------ *)
(* HunkHeader                                                           *)

Definition header_ok (h : hheader) : Prop :=
  old_no h <= U32_MAX /\ old_sz h <= U32_MAX /\ new_no h <= U32_MAX /\ new_sz h <= U32_MAX /\
  ~ In 10 (htext h).

Definition range_char (c : N) : Prop := is_digit c = true \/ c = 44.

Lemma encode_range_chars no sz : Forall range_char (encode_range no sz).
Proof.
  unfold encode_range.
  assert (HD : forall n, Forall range_char (print_dec n)).
  { intros n. eapply Forall_impl; [|apply print_dec_digits]. intros; left; assumption. }
  destruct (sz =? 1); [apply HD|].
  apply Forall_app; split; [apply HD|].
  apply Forall_app; split; [|apply HD].
  constructor; [right; reflexivity | constructor].
Qed.

Lemma range_char_not c l : Forall range_char l -> c <> 44 -> ~ (48 <= c <= 57) -> ~ In c l.
Proof.
  intros HF H1 H2 Hin. rewrite Forall_forall in HF. destruct (HF _ Hin) as [H|H].
  - apply is_digit_spec in H. tauto.
  - tauto.
Qed.

Lemma parse_range_encode no sz :
  no <= U32_MAX -> sz <= U32_MAX -> parse_range (encode_range no sz) = Some (no, sz).
Proof.
  intros Hno Hsz. unfold parse_range, encode_range, COMMA.
  destruct (N.eqb_spec sz 1) as [->|Hne].
  - rewrite split_once_none by (apply digits_not_in; [apply print_dec_digits | lia]).
    cbn [fst snd]. rewrite parse_u32_print_dec by assumption. reflexivity.
  - rewrite split_once_first by (apply digits_not_in; [apply print_dec_digits | lia]).
    cbn [fst snd]. rewrite !parse_u32_print_dec by assumption. reflexivity.
Qed.

Definition header_body (h : hheader) : bytes :=
  AT_AT_MINUS ++ encode_range (old_no h) (old_sz h) ++ SP_PLUS ++
  encode_range (new_no h) (new_sz h) ++ SP_AT_AT ++ text_part (htext h).

Lemma encode_header_body h : encode_header h = header_body h ++ [10].
Proof.
  unfold encode_header, header_body, text_part. repeat rewrite <- app_assoc. reflexivity.
Qed.

Lemma header_body_no_nl h : ~ In 10 (htext h) -> ~ In 10 (header_body h).
Proof.
  intros Ht. unfold header_body. rewrite !in_app_iff.
  pose proof (encode_range_chars (old_no h) (old_sz h)) as H1.
  pose proof (encode_range_chars (new_no h) (new_sz h)) as H2.
  intros [H|[H|[H|[H|[H|H]]]]].
  - cbn in H. lia.
  - revert H. apply range_char_not; [assumption | lia | lia].
  - cbn in H. lia.
  - revert H. apply range_char_not; [assumption | lia | lia].
  - cbn in H. lia.
  - unfold text_part in H. destruct (htext h) as [|t0 t]; [exact H|].
    destruct H as [H|H]; [lia | tauto].
Qed.

Lemma text_part_decode t :
  strip_suffix_nl (strip_space (text_part t ++ [10])) = t.
Proof.
  destruct t as [|t0 t].
  - reflexivity.
  - cbn [text_part app]. change (t0 :: t ++ [10]) with ((t0 :: t) ++ [10]).
    apply strip_suffix_nl_snoc.
Qed.

Lemma decode_header_line_encode keep h rest :
  header_ok h ->
  decode_header_line keep (encode_header h) rest =
  Ok (mkHeader (old_no h) (old_sz h) (new_no h) (new_sz h)
        (let s := strip_space (text_part (htext h) ++ [10]) in
         if keep then s else strip_suffix_nl s), rest).
Proof.
  intros (H1 & H2 & H3 & H4 & Ht).
  unfold decode_header_line, encode_header.
  rewrite strip_prefix_app.
  unfold SP_PLUS at 1 2.
  rewrite split_once_first
    by (apply (range_char_not _ _ (encode_range_chars _ _)); lia).
  rewrite parse_range_encode by assumption.
  unfold SP_AT_AT at 1 2.
  rewrite split_once_first
    by (apply (range_char_not _ _ (encode_range_chars _ _)); lia).
  rewrite parse_range_encode by assumption.
  reflexivity.
Qed.

(* HunkHeader: decode (encode h) = h, and the unread input is untouched *)
Theorem header_roundtrip h rest :
  header_ok h -> decode_header (encode_header h ++ rest) = Ok (h, rest).
Proof.
  intros Hok. pose proof Hok as (_ & _ & _ & _ & Ht).
  unfold decode_header, decode_header_gen.
  rewrite encode_header_body, <- app_assoc. cbn [app].
  rewrite read_line_app by (apply header_body_no_nl; exact Ht).
  cbn [fst snd].
  destruct (header_body h ++ [10]) as [|c l] eqn:E.
  - apply app_eq_nil in E. destruct E as [_ E]; discriminate.
  - rewrite <- E, <- encode_header_body.
    rewrite decode_header_line_encode by exact Hok.
    cbv zeta. rewrite text_part_decode. destruct h; reflexivity.
Qed.

(* the decoder as found: the terminator stays in the text *)
Theorem header_orig_keeps_terminator :
  exists h, header_ok h /\ decode_header_orig (encode_header h) <> Ok (h, []).
Proof.
  exists (mkHeader 1 3 1 4 [102; 111; 111]). split.
  - unfold header_ok, U32_MAX. cbn. repeat split; try lia.
  - vm_compute. discriminate.
Qed.

(* ------------------------------------------------------------------ *)
(* Modification                                                         *)

(* a line of a text file that ends with a newline: any bytes, then '\n' *)
Definition line_ok (l : bytes) : Prop := exists c, l = c ++ [10] /\ ~ In 10 c.

Definition zero_nums (m : modif) : modif :=
  match m with
  | MAdd l _ => MAdd l 0
  | MDel l _ => MDel l 0
  | MCtx l _ _ => MCtx l 0 0
  end.

Lemma modif_sign_not_nl m : modif_sign m <> 10.
Proof. destruct m; cbn; lia. Qed.

Lemma encode_modif_line m c :
  modif_line m = c ++ [10] -> encode_modif m = (modif_sign m :: c) ++ [10].
Proof.
  intros E. unfold encode_modif. rewrite E, strip_suffix_nl_snoc. reflexivity.
Qed.

Theorem modif_roundtrip m rest :
  line_ok (modif_line m) ->
  decode_modif (encode_modif m ++ rest) = Ok (zero_nums m, rest).
Proof.
  intros (c & E & Hc). rewrite (encode_modif_line _ _ E), <- app_assoc. cbn [app].
  unfold decode_modif.
  change (modif_sign m :: c ++ 10 :: rest) with ((modif_sign m :: c) ++ 10 :: rest).
  rewrite read_line_app.
  2:{ intros [H|H]; [apply (modif_sign_not_nl m); exact H | tauto]. }
  cbn [fst snd app].
  destruct m as [l k|l k|l ko kn]; cbn [modif_sign modif_line zero_nums] in *; subst l;
    repeat match goal with |- context [?a =? ?b] =>
      first [ change (a =? b) with true | change (a =? b) with false ] end;
    reflexivity.
Qed.

(* ------------------------------------------------------------------ *)
(* Hunk                                                                 *)

Definition is_add (m : modif) := match m with MAdd _ _ => true | _ => false end.
Definition is_del (m : modif) := match m with MDel _ _ => true | _ => false end.
Definition is_ctx (m : modif) := match m with MCtx _ _ _ => true | _ => false end.

(* number of lines of the old / new side *)
Fixpoint count_old (l : list modif) : N :=
  match l with
  | [] => 0
  | m :: l' => (if is_add m then 0 else 1) + count_old l'
  end.
Fixpoint count_new (l : list modif) : N :=
  match l with
  | [] => 0
  | m :: l' => (if is_del m then 0 else 1) + count_new l'
  end.

(* line numbers run on from the header's start lines *)
Fixpoint numbered (h : hheader) (o n : N) (l : list modif) : Prop :=
  match l with
  | [] => True
  | MAdd _ k :: l' => k = new_no h + n /\ numbered h o (n + 1) l'
  | MDel _ k :: l' => k = old_no h + o /\ numbered h (o + 1) n l'
  | MCtx _ ko kn :: l' => ko = old_no h + o /\ kn = new_no h + n /\ numbered h (o + 1) (n + 1) l'
  end.

Lemma add_u32_ok site a b : a + b <= U32_MAX -> add_u32 site a b = Ok (a + b).
Proof. intros H. unfold add_u32. apply N.leb_le in H. rewrite H. reflexivity. Qed.

Lemma hunk_loop_encode h rest : forall ls fuel o n acc,
  (length ls < fuel)%nat ->
  old_sz h = o + count_old ls ->
  new_sz h = n + count_new ls ->
  numbered h o n ls ->
  Forall (fun m => line_ok (modif_line m)) ls ->
  old_no h + old_sz h <= U32_MAX ->
  new_no h + new_sz h <= U32_MAX ->
  hunk_loop fuel h o n acc (flat_map encode_modif ls ++ rest) = Ok (rev acc ++ ls, rest).
Proof.
  induction ls as [|m ls IH]; intros fuel o n acc Hf Ho Hn Hnum Hok Hmo Hmn.
  - cbn [count_old count_new flat_map app] in *.
    assert (E1 : o <? old_sz h = false) by (apply N.ltb_ge; lia).
    assert (E2 : n <? new_sz h = false) by (apply N.ltb_ge; lia).
    destruct fuel; cbn [hunk_loop]; rewrite E1, E2; cbn [orb]; rewrite app_nil_r; reflexivity.
  - destruct fuel as [|fuel]; [cbn in Hf; lia|].
    inversion Hok as [|? ? Hm Hls]; subst.
    cbn [flat_map]. rewrite <- app_assoc.
    cbn [hunk_loop].
    cbn [count_old count_new] in Ho, Hn.
    assert (Hcond : (o <? old_sz h) || (n <? new_sz h) = true).
    { apply orb_true_iff. rewrite !N.ltb_lt. destruct m; cbn [is_add is_del] in *; lia. }
    rewrite Hcond.
    assert (old_sz h <? o = false) as -> by (apply N.ltb_ge; lia).
    assert (new_sz h <? n = false) as -> by (apply N.ltb_ge; lia).
    rewrite (modif_roundtrip m _ Hm).
    cbn [length] in Hf.
    destruct m as [l k|l k|l ko kn]; cbn [zero_nums is_add is_del numbered] in *.
    + destruct Hnum as [-> Hnum].
      rewrite add_u32_ok by lia. cbn [bind].
      rewrite IH; try assumption; try lia.
      cbn [rev]. rewrite <- app_assoc. reflexivity.
    + destruct Hnum as [-> Hnum].
      rewrite add_u32_ok by lia. cbn [bind].
      rewrite IH; try assumption; try lia.
      cbn [rev]. rewrite <- app_assoc. reflexivity.
    + destruct Hnum as (-> & -> & Hnum).
      rewrite !add_u32_ok by lia. cbn [bind].
      rewrite IH; try assumption; try lia.
      cbn [rev]. rewrite <- app_assoc. reflexivity.
Qed.

Lemma flat_map_encode_length ls : (length ls <= length (flat_map encode_modif ls))%nat.
Proof.
  induction ls as [|m ls IH]; cbn [flat_map length]; [lia|].
  rewrite app_length. unfold encode_modif at 1. cbn [length]. lia.
Qed.

Lemma line_range_ok no sz : no + sz + 1 <= U32_MAX -> line_range no sz = Ok (no, no + sz + 1).
Proof.
  intros H. unfold line_range. rewrite add_u32_ok by lia. cbn [bind].
  rewrite add_u32_ok by lia. reflexivity.
Qed.

(* what the theorem asks of a hunk: a header [hh] that prints to the hunk's
   header line, counts and numbering that match the lines, every line
   terminated by its only '\n'.  Nothing about blanks or '\r'. *)
Record hunk_wf (hh : hheader) (lines : list modif) : Prop := {
  wf_header : header_ok hh;
  wf_old : old_sz hh = count_old lines;
  wf_new : new_sz hh = count_new lines;
  wf_numbered : numbered hh 0 0 lines;
  wf_lines : Forall (fun m => line_ok (modif_line m)) lines;
  wf_old_max : old_no hh + old_sz hh + 1 <= U32_MAX;
  wf_new_max : new_no hh + new_sz hh + 1 <= U32_MAX
}.

(* the ranges Hunk::decode computes (HunkHeader::old_line_range) *)
Definition decoded_ranges (hh : hheader) : (N * N) * (N * N) :=
  ((old_no hh, old_no hh + old_sz hh + 1), (new_no hh, new_no hh + new_sz hh + 1)).

Lemma encode_hunk_header hh lines ro rn :
  ~ In 10 (htext hh) ->
  encode_hunk (mkHunk (encode_header hh) lines ro rn) =
  encode_header hh ++ flat_map encode_modif lines.
Proof.
  intros Ht. unfold encode_hunk. cbn [hline hlines].
  rewrite encode_header_body, trim_end_nl_snoc by (apply header_body_no_nl; exact Ht).
  rewrite <- app_assoc. reflexivity.
Qed.

Theorem hunk_roundtrip hh lines ro rn rest :
  hunk_wf hh lines ->
  decode_hunk (encode_hunk (mkHunk (encode_header hh) lines ro rn) ++ rest) =
  Ok (mkHunk (encode_header hh) lines (fst (decoded_ranges hh)) (snd (decoded_ranges hh)), rest).
Proof.
  intros [Hh Ho Hn Hnum Hl Hmo Hmn].
  pose proof Hh as (_ & _ & _ & _ & Ht).
  rewrite encode_hunk_header by exact Ht.
  unfold decode_hunk, decode_hunk_gen. rewrite <- app_assoc.
  change (decode_header_gen false) with decode_header.
  rewrite header_roundtrip by exact Hh. cbn [bind fst snd].
  rewrite hunk_loop_encode; try assumption; try lia.
  2:{ rewrite app_length. pose proof (flat_map_encode_length lines). lia. }
  cbn [bind fst snd rev app].
  rewrite !line_range_ok by assumption. cbn [bind]. reflexivity.
Qed.

(* the hypotheses are satisfiable, also by a hunk with trailing blanks, '\r'
   and whitespace-only lines *)
Definition ex_header : hheader := mkHeader 1 2 1 3 [102; 110; 32; 102; 40; 41; 32].   (* "fn f() " *)
Definition ex_lines : list modif :=
  [ MCtx [111; 110; 101; 10] 1 1;                 (* " one\n"      *)
    MDel [116; 119; 111; 10] 2;                   (* "-two\n"      *)
    MAdd [116; 119; 111; 32; 32; 10] 2;           (* "+two  \n"    *)
    MAdd [9; 13; 10] 3 ].                         (* "+\t\r\n"     *)

Lemma not_in_small (c : N) (l : bytes) : forallb (fun x => negb (x =? c)) l = true -> ~ In c l.
Proof.
  intros H Hin. rewrite forallb_forall in H. apply H in Hin.
  rewrite N.eqb_refl in Hin. discriminate.
Qed.

Lemma ex_hunk_wf : hunk_wf ex_header ex_lines.
Proof.
  constructor.
  - unfold header_ok, ex_header, U32_MAX; cbn [old_no old_sz new_no new_sz htext].
    repeat split; try lia. apply not_in_small. reflexivity.
  - reflexivity.
  - reflexivity.
  - cbn. repeat split; reflexivity.
  - repeat constructor; cbn [modif_line].
    + exists [111; 110; 101]. split; [reflexivity | apply not_in_small; reflexivity].
    + exists [116; 119; 111]. split; [reflexivity | apply not_in_small; reflexivity].
    + exists [116; 119; 111; 32; 32]. split; [reflexivity | apply not_in_small; reflexivity].
    + exists [9; 13]. split; [reflexivity | apply not_in_small; reflexivity].
  - unfold ex_header, U32_MAX; cbn [old_no old_sz]. lia.
  - unfold ex_header, U32_MAX; cbn [new_no new_sz]. lia.
Qed.

(* the encoder as found (trim_end): the same hunk does not survive *)
Theorem orig_encoder_loses_trailing_whitespace :
  exists hh lines h',
    hunk_wf hh lines /\
    decode_hunk (encode_hunk_orig (mkHunk (encode_header hh) lines (0, 0) (0, 0))) = Ok (h', []) /\
    hlines h' <> lines.
Proof.
  exists ex_header, ex_lines.
  eexists. split; [exact ex_hunk_wf|]. split.
  - vm_compute. reflexivity.
  - cbn [hlines]. unfold ex_lines. intros E. inversion E.
Qed.
